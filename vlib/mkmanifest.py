#!/usr/bin/env python3
"""Regenerates /verif/MANIFEST.json from vlib/specs/*.py (single source of truth)."""
import json
import os
import sys

sys.path.insert(0, os.path.dirname(os.path.abspath(__file__)))
from props import PROPS  # noqa

VERIF = os.path.dirname(os.path.dirname(os.path.abspath(__file__)))
ids = [json.loads(l)["id"] for l in open(os.path.join(VERIF, "properties.jsonl")) if l.strip()]
NA = {}
na_file = os.path.join(VERIF, "vlib", "not_applicable.json")
if os.path.exists(na_file):
    NA = json.load(open(na_file))

wipf = os.path.join(VERIF, "vlib", "wip_props.txt")
WIP = set(l.strip() for l in open(wipf) if l.strip() and not l.startswith("#")) if os.path.exists(wipf) else set()
for w in WIP:
    PROPS.pop(w, None)

checks = []
for pid in ids:
    if pid not in PROPS:
        continue
    sp = PROPS[pid]
    checks.append({
        "property_id": pid,
        "quick_cmd": "./check %s quick" % pid,
        "thorough_cmd": "./check %s thorough" % pid,
        "evidence_file": "/verif/evidence/%s.json" % pid,
        "replay_cmd_template": "./check %s --replay {path}" % pid,
        "engine": sp.get("engine", "E2"),
        "level_claimed": {"category": sp["level"], "text": sp["level_text"], "design_ref": "DESIGN.md §" + pid},
        "level_note": sp["level_note"],
        "technique": sp["technique"],
    })
man = {
    "version": 1,
    "setup_cmd": "python3 vlib/driver.py --setup",
    "hooks": {
        "guard": "verif",
        "enable": "go test -c -overlay /verif/build/<id>/overlay.json -modfile /verif/build/<id>/go.mod -tags verif "
                  "(all instrumentation is injected at build time by Go's -overlay from /verif/overlay; every injected non-test "
                  "file carries //go:build verif or lives in a package that exists only in the overlay; no hook commit in /repo)",
        "baseline_off_cmd": "cd /repo && go test -mod=mod -json -vet=off -count=1 -timeout 25m ./...",
        "source_commits": [],
        "add_only": True,
    },
    "engines": [
        {"name": "E1", "path": "/verif/overlay/tree/verifsim", "serves_properties": ["C01", "C02", "C03", "C04", "C05", "C06", "C08", "C09", "C10", "C11", "C13", "C15", "C17"],
         "kind_free_text": "multi-replica chain simulator over the real blockchain/appstate/mempool/ceremony objects with a virtual clock; differential and conservation oracles"},
        {"name": "E2", "path": "/verif/overlay/tree/<pkg>/zz_verif_*_test.go", "serves_properties": ["C07", "C13", "C16", "C17", "C18", "C19", "C20"],
         "kind_free_text": "in-package monitors with generators and reference models"},
        {"name": "E3", "path": "/verif/overlay/tree/verifsim", "serves_properties": ["C12"],
         "kind_free_text": "hostile-input monitor (panic capture, watchdog, allocation meter) on decode+validate entry points"},
        {"name": "E4", "path": "/verif/vlib/driver.py", "serves_properties": ["C14", "C20", "C12"],
         "kind_free_text": "concurrency runner: go test -race with halt_on_error=0 + log_path, report dedup by frame pair, porcupine history checks"},
    ],
    "checks": checks,
    "notes": "Technique family: runtime monitoring and sanitizers. ./check <id> <tier> regenerates the overlay from /repo's working tree, "
             "builds with monitors attached and runs child processes; see DESIGN.md.",
    "not_applicable": [{"property_id": p, "reason": NA.get(p, "check not built yet (work in progress; see DESIGN.md §10)")}
                       for p in ids if p not in PROPS],
}
with open(os.path.join(VERIF, "MANIFEST.json"), "w") as f:
    json.dump(man, f, indent=1)
print("claimed:", [c["property_id"] for c in checks])
print("not claimed:", [x["property_id"] for x in man["not_applicable"]])
