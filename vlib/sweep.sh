#!/bin/sh
# runs every claimed check (quick by default) on the unchanged tree and prints one line each
tier=${1:-quick}
cd "$(dirname "$0")/.."
for id in $(python3 -c "import json;print(' '.join(c['property_id'] for c in json.load(open('MANIFEST.json'))['checks']))"); do
  t0=$(date +%s)
  out=$(./check $id $tier 2>&1)
  rc=$?
  t1=$(date +%s)
  echo "$id rc=$rc $((t1-t0))s $(echo "$out" | grep -a 'verdict=' | tail -1 | sed 's/.*evaluations/evaluations/')"
  echo "$out" | grep -a 'VIOLATION\|INCONCLUSIVE\|signature:' | head -5
done
