#!/usr/bin/env python3
"""Prints the per-property status table of DESIGN.md 11.4 from the specs, known findings and seed results."""
import glob
import json
import os
import sys

V = os.path.dirname(os.path.dirname(os.path.abspath(__file__)))
sys.path.insert(0, os.path.join(V, "vlib"))
import props  # noqa

kf = [json.loads(l) for l in open(os.path.join(V, "known_findings.jsonl")) if l.strip() and not l.startswith("#")]
print("| id | jobs (package: test, quick/thorough process shards) | fixed / known findings | seeded changes caught by this check (of those aimed at it) |")
print("|---|---|---|---|")
for pid in sorted(props.PROPS):
    sp = props.PROPS[pid]
    jobs = []
    for j in sp["jobs"]:
        sh = j.shards if isinstance(j.shards, tuple) else (j.shards, j.shards)
        jobs.append("%s (%s%s, %d/%d)" % (j.name, j.pkg, ", -race" if j.race else "", sh[0], sh[1]))
    fixed = sum(1 for k in kf if k["property"] == pid and k["status"] == "fixed")
    known = [k["signature"] for k in kf if k["property"] == pid and k["status"] == "known"]
    own = tot = 0
    for d in sorted(glob.glob(os.path.join(V, "seeded", pid + "-*"))):
        m = json.load(open(d + "/meta.json"))
        c = (m.get("verif_results", {}).get("checks") or {}).get(pid)
        if c:
            tot += 1
            own += c.get("verdict") == "caught"
    print("| %s | %s | %d fixed%s | %d of %d |" % (pid, "; ".join(jobs), fixed, ("; known: " + ", ".join("`%s`" % k[:60] for k in known)) if known else "", own, tot))
