#!/usr/bin/env python3
"""Self-test of the checks against the hand-written mutants listed in DESIGN.md.

  selfmut.py [name ...]      (no names = all)

Each mutant is applied to a scratch git worktree of /repo (never /repo itself), the named
check is run with VERIF_REPO pointing at it, and the verdict is appended to
/verif/selfmut_results.jsonl. exit code of the check: 1 = caught, 0 = missed, 3 = inconclusive.
"""
import json
import os
import subprocess
import sys
import time

VERIF = os.path.dirname(os.path.dirname(os.path.abspath(__file__)))

# name: (property, file, old, new)
M = {
    # ---- C01
    "c01-unsorted-dirty-keys": ("C01", "core/state/statedb.go",
        "func getOrderedObjectsKeys(objects map[common.Address]struct{}) []common.Address {",
        "func getOrderedObjectsKeys(objects map[common.Address]struct{}) []common.Address {\n\tif len(objects) > 0 {\n\t\tvar l []common.Address\n\t\tfor k := range objects {\n\t\t\tl = append(l, k)\n\t\t}\n\t\treturn l\n\t}"),
    "c01-wallclock-in-global-params": ("C01", "blockchain/blockchain.go",
        "\tif flags.HasFlag(types.Snapshot) {\n\t\tappState.State.SetLastSnapshot(block.Height())\n\t}",
        "\tif flags.HasFlag(types.Snapshot) {\n\t\tappState.State.SetLastSnapshot(block.Height() + uint64(time.Now().Unix()%2))\n\t}"),
    "c01-local-weekday": ("C01", "common/network.go", "\tvalidationTime = validationTime.UTC()\n", ""),
    # ---- C02
    "c02-builder-ignores-fee-check": ("C02", "core/mempool/txblock_builder.go",
        "func (ctx *buildingContext) checkFee(tx *types.Transaction) bool {\n\treturn ",
        "func (ctx *buildingContext) checkFee(tx *types.Transaction) bool {\n\treturn true || "),
    "c02-filter-keeps-created-identities": ("C02", "blockchain/blockchain.go",
        "\t\tif err := validation.ValidateTx(appState, tx, minFeePerGas, validation.InBlockTx); err != nil {\n\t\t\tappState.State.DropCreatedIdentities()",
        "\t\tif err := validation.ValidateTx(appState, tx, minFeePerGas, validation.InBlockTx); err != nil {\n\t\t\tappState.State.StopTrackingCreatedIdentities()"),
    # ---- C03
    "c03-no-receipt-cid-check": ("C03", "blockchain/blockchain.go",
        "\tif bytes.Compare(receiptCidBytes, block.Header.ProposedHeader.TxReceiptsCid) != 0 {",
        "\tif false && bytes.Compare(receiptCidBytes, block.Header.ProposedHeader.TxReceiptsCid) != 0 {"),
    "c03-no-bloom-check": ("C03", "blockchain/blockchain.go",
        "\tif bytes.Compare(calculateTxBloom(block, receipts), block.Header.ProposedHeader.TxBloom) != 0 {",
        "\tif false && bytes.Compare(calculateTxBloom(block, receipts), block.Header.ProposedHeader.TxBloom) != 0 {"),
    "c03-no-fee-rate-check": ("C03", "blockchain/blockchain.go",
        "checkState.State.FeePerGas().Cmp(block.Header.ProposedHeader.FeePerGas) != 0 {",
        "checkState.State.FeePerGas().Cmp(block.Header.ProposedHeader.FeePerGas) > 0 {"),
    "c03-no-proposer-check": ("C03", "blockchain/blockchain.go",
        "\tif !checkIfProposer(proposerAddr, checkState) {\n\t\treturn nil, errors.New(\"proposer is not identity\")",
        "\tif !checkIfProposer(proposerAddr, checkState) && !checkState.ValidatorsCache.IsValidated(proposerAddr) {\n\t\treturn nil, errors.New(\"proposer is not identity\")"),
    # ---- C04
    "c04-no-total-cost-check": ("C04", "blockchain/validation/validation.go",
        "\tif cost.Sign() > 0 && appState.State.GetBalance(sender).Cmp(cost) < 0 {\n\t\treturn InsufficientFunds\n\t}",
        "\tif txType != InBlockTx && cost.Sign() > 0 && appState.State.GetBalance(sender).Cmp(cost) < 0 {\n\t\treturn InsufficientFunds\n\t}"),
    "c04-contract-send-unchecked": ("C04", "vm/env/env.go",
        "func (e *EnvImp) Send(ctx CallContext, dest common.Address, amount *big.Int) error {\n\tbalance := e.Balance(ctx.ContractAddr())\n\tif balance.Cmp(amount) < 0 {",
        "func (e *EnvImp) Send(ctx CallContext, dest common.Address, amount *big.Int) error {\n\tbalance := e.Balance(ctx.ContractAddr())\n\tif balance.Sign() == 0 {"),
    # ---- C05
    "c05-kill-invitee-no-inviter-check": ("C05", "blockchain/validation/validation.go",
        "\tif inviter == nil || inviter.Address != sender {\n\t\treturn InvalidRecipient\n\t}",
        "\tif inviter == nil {\n\t\treturn InvalidRecipient\n\t}"),
    "c05-kill-delegator-no-delegatee-check": ("C05", "blockchain/validation/validation.go",
        "\tif delegatee == nil || *delegatee != sender {\n\t\treturn InvalidSender\n\t}",
        "\tif delegatee == nil {\n\t\treturn InvalidSender\n\t}"),
    # ---- C06
    "c06-nonce-gap-allowed": ("C06", "blockchain/blockchain.go",
        "\tif currentNonce+1 != tx.AccountNonce {", "\tif currentNonce+1 > tx.AccountNonce {"),
    "c06-no-epoch-check-in-apply": ("C06", "blockchain/blockchain.go",
        "\tif tx.Epoch != globalState.Epoch() {\n\t\treturn nil, nil, nil, errors.New(fmt.Sprintf(\"invalid tx epoch.",
        "\tif tx.Epoch > globalState.Epoch() {\n\t\treturn nil, nil, nil, errors.New(fmt.Sprintf(\"invalid tx epoch."),
    "c06-validate-epoch-off": ("C06", "blockchain/validation/validation.go",
        "\tif globalEpoch > tx.Epoch {\n\t\treturn InvalidEpoch\n\t}", "\tif globalEpoch > tx.Epoch+1 {\n\t\treturn InvalidEpoch\n\t}"),
    # ---- C08
    "c08-no-tip-check": ("C08", "blockchain/blockchain.go",
        "\tif blocks[len(blocks)-1].Cert.Empty() {", "\tif false && blocks[len(blocks)-1].Cert.Empty() {"),
    "c08-forget-remove-canonical": ("C08", "blockchain/blockchain.go",
        "\t\tchain.repo.RemoveHeader(hash)\n\t\tchain.repo.RemoveCanonicalHash(h)", "\t\tchain.repo.RemoveHeader(hash)"),
    "c08-stale-diff-kept": ("C08", "blockchain/blockchain.go", "\t\tchain.repo.RemoveIdentityStateDiff(h)\n", ""),
    # ---- C09
    "c09-head-before-trees": ("C09", "blockchain/blockchain.go",
        "\t\tif err := chain.appState.CommitTrees(block, blockInsertionResult.identityStateDiff); err != nil {",
        "\t\tchain.repo.WriteHead(nil, block.Header)\n\t\tif err := chain.appState.CommitTrees(block, blockInsertionResult.identityStateDiff); err != nil {"),
    "c09-integrity-search-1": ("C09", "blockchain/blockchain.go",
        "h >= 1 && tryCnt < state.MaxSavedStatesCount+1; h, tryCnt = h-1, tryCnt+1 {", "h >= 1 && tryCnt < 0; h, tryCnt = h-1, tryCnt+1 {"),
    # ---- C10
    "c10-killed-delegator-stays-online": ("C10", "core/validators/validators.go", None, None),
    # ---- C11
    "c11-no-root-check-on-import": ("C11", "core/state/util.go",
        "\tif tree.WorkingHash() != root {", "\tif false && tree.WorkingHash() != root {"),
    "c11-no-clear-on-bad-root": ("C11", "core/state/util.go",
        "\tif tree.WorkingHash() != root {\n\t\tcommon.ClearDb(pdb)", "\tif tree.WorkingHash() != root {"),
    "c11-diff-skips-deleted": ("C11", "core/state/identity_statedb.go",
        "\t\t\ts.deleteStateIdentityObject(stateObject)\n\t\t\tdiff.Values = append(diff.Values, &IdentityStateDiffValue{\n\t\t\t\tAddress: addr,\n\t\t\t\tDeleted: true,\n\t\t\t})",
        "\t\t\ts.deleteStateIdentityObject(stateObject)"),
    # ---- C13
    "c13-get-ignores-touched": ("C13", "database/backed_mem_db.go",
        "func (db *BackedMemDb) Has(key []byte) (bool, error) {\n\tif db.touched.Contains(string(key)) {",
        "func (db *BackedMemDb) Has(key []byte) (bool, error) {\n\tif db.touched.Contains(string(key)) && len(key) > 1 {"),
    "c13-iterator-compare": ("C13", "database/backed_mem_db.go",
        "\t\treturn bytes.Compare(key1, key2) >= 0\n", "\t\treturn bytes.Compare(key1, key2) > 0\n"),
    "c13-readonly-memo-kept": ("C13", "core/appstate/appstate.go",
        "\ts.readonlyStateMutex.Lock()\n\ts.readonlyStateCache = nil\n\ts.readonlyStateMutex.Unlock()\n", ""),
}


def run(name):
    pid, rel, old, new = M[name]
    if old is None:
        return None
    wt = "/tmp/selfmut-" + name
    subprocess.run(["git", "-C", "/repo", "worktree", "remove", "--force", wt], stdout=subprocess.DEVNULL, stderr=subprocess.DEVNULL)
    subprocess.run(["rm", "-rf", wt])
    subprocess.run(["git", "-C", "/repo", "worktree", "add", "-q", "--detach", wt, "HEAD"], check=True)
    try:
        p = os.path.join(wt, rel)
        s = open(p).read()
        if old not in s:
            return {"name": name, "property": pid, "result": "pattern-not-found"}
        open(p, "w").write(s.replace(old, new, 1))
        env = dict(os.environ)
        env["VERIF_REPO"] = wt
        t = time.time()
        r = subprocess.run([os.path.join(VERIF, "check"), pid, "quick"], env=env, stdout=subprocess.PIPE, stderr=subprocess.STDOUT, text=True, cwd=VERIF)
        sigs = [l.strip()[11:] for l in r.stdout.split("\n") if l.strip().startswith("signature:")]
        inc = [l for l in r.stdout.split("\n") if l.startswith("INCONCLUSIVE")]
        return {"name": name, "property": pid, "exit": r.returncode, "result": {0: "MISSED", 1: "caught", 3: "inconclusive"}.get(r.returncode, "?"),
                "signatures": sigs[:6], "inconclusive": inc[:3], "wall_s": round(time.time() - t)}
    finally:
        subprocess.run(["git", "-C", "/repo", "worktree", "remove", "--force", wt], stdout=subprocess.DEVNULL, stderr=subprocess.DEVNULL)
        subprocess.run(["rm", "-rf", wt])
        # remove replays written by mutant runs and restore the evidence of the unchanged tree later
        subprocess.run("git -C %s checkout -q -- evidence 2>/dev/null; rm -f %s/replays/*" % (VERIF, VERIF), shell=True)


if __name__ == "__main__":
    names = sys.argv[1:] or list(M)
    for n in names:
        res = run(n)
        if res is None:
            continue
        print(json.dumps(res), flush=True)
        with open(os.path.join(VERIF, "selfmut_results.jsonl"), "a") as f:
            f.write(json.dumps(res) + "\n")
