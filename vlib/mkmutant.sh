#!/bin/sh
# prepares a scratch worktree of /repo for a sub-agent that seeds a property-breaking change:
#   vlib/mkmutant.sh <name>   ->  /tmp/mut-<name> (worktree at /repo HEAD) and /tmp/mut-<name>-build (ipfs stub + overlay.json)
set -e
n=$1
wt=/tmp/mut-$n
bd=/tmp/mut-$n-build
git -C /repo worktree remove --force $wt 2>/dev/null || true
rm -rf $wt $bd
git -C /repo worktree add -q --detach $wt HEAD
mkdir -p $bd
cp /verif/overlay/ipfs/ipfs_stub.go $bd/ipfs_stub.go
cat > $bd/overlay.json <<J
{"Replace": {"$wt/ipfs/ipfs.go": "$bd/ipfs_stub.go", "$wt/ipfs/ipfs_test.go": ""}}
J
echo "$wt $bd"
