#!/usr/bin/env python3
"""Driver of the /verif runtime-monitoring checks.

  ./check <Cnn> [quick|thorough] [--replay FILE] [--keep]

Regenerates the build overlay from /repo's *current working tree*, compiles the harness
packages of the property with the monitors attached (`go test -c -overlay ... -tags verif`),
runs them as child processes (one per job/shard), aggregates their result files, matches
violations against /verif/known_findings.jsonl, writes /verif/evidence/<id>.json and prints
the verdict.  Exit 0 = held on everything observed, 1 = VIOLATION, 3 = INCONCLUSIVE.
"""
import hashlib
import json
import os
import re
import shutil
import subprocess
import sys
import time
from concurrent.futures import ThreadPoolExecutor

VERIF = os.path.dirname(os.path.dirname(os.path.abspath(__file__)))
REPO = os.environ.get("VERIF_REPO", "/repo")
BUILD = os.path.join(VERIF, "build")
MODPATH = "github.com/idena-network/idena-go"

GOENV = {
    "GOFLAGS": "-mod=mod",
    "GOPROXY": "off",
    "GOSUMDB": "off",
    "GOTOOLCHAIN": "local",
    "CGO_ENABLED": "1",
}

# files compiled from a clock-redirected copy of the current working-tree file
CLOCK_FILES = [
    "blockchain/blockchain.go",
    "blockchain/offline_detector.go",
    "core/ceremony/ceremony.go",
    "core/appstate/evidence_map.go",
    "core/upgrade/upgrader.go",
]
# additionally redirect time.Sleep / time.After-free waiting loops in these
SLEEP_FILES = []

# files compiled from a copy with `//go:nocheckptr` put on one function: -race implies checkptr, and
# the vendored sha3 code casts a 136-byte block to a 168-byte array (never read beyond the block;
# process-fatal under checkptr, which would make every race job impossible)
NOCHECKPTR = [("crypto/sha3/xor_unaligned.go", r"^func xorInUnaligned\(")]

# (file, regex to find the line AFTER which the point is inserted, point name)
DELAY_POINTS = [
    ("protocol/pushpull.go", r"^\s*m\.makeRequest\(id, hash\)\s*$", "pushpull.afterMakeRequest", "after"),
    ("core/mempool/txpool.go", r"^\s*appState, err := pool\.appState\.Readonly\(pool\.(?:head|getHead\(\))\.Height\(\)\)\s*$", "txpool.afterReadonly", "after"),
]


def log(*a):
    print(*a, flush=True)


def sh(cmd, env=None, cwd=None, timeout=None, stdout=None):
    e = dict(os.environ)
    e.update(GOENV)
    if env:
        e.update(env)
    return subprocess.run(cmd, env=e, cwd=cwd, timeout=timeout, stdout=stdout,
                          stderr=subprocess.STDOUT if stdout else None)


def rewrite_clock(src, rel):
    """Textual, line-preserving redirection of the wall clock to verifclock."""
    out = src
    n = 0
    for a, b in (("time.Now()", "verifclock.Now()"), ("time.Since(", "verifclock.Since(")):
        n += out.count(a)
        out = out.replace(a, b)
    if rel in SLEEP_FILES:
        n += out.count("time.Sleep(")
        out = out.replace("time.Sleep(", "verifclock.Sleep(")
    return out, n


def insert_points(src, rel, notes):
    n = 0
    for f, pat, name, where in DELAY_POINTS:
        if f != rel:
            continue
        lines = src.split("\n")
        rx = re.compile(pat)
        hit = [i for i, l in enumerate(lines) if rx.match(l)]
        if len(hit) < 1:
            notes.append("delay point %s not inserted (pattern matched no line)" % name)
            continue
        for i in hit:
            # same line => line numbers of the file are unchanged
            if where == "after":
                lines[i] = lines[i] + '; verifclock.Point("%s")' % name
            else:
                lines[i] = 'verifclock.Point("%s"); ' % name + lines[i]
            n += 1
        src = "\n".join(lines)
    return src, n


def add_import(src):
    # keep line numbers: put the import on the package line
    m = re.search(r"^package\s+\w+[^\n]*$", src, re.M)
    if not m:
        return src
    line = m.group(0)
    new = line + '; import verifclock "%s/verifclock"' % MODPATH
    return src[:m.start()] + new + src[m.end():]


def gen_overlay(notes, bdir, pid=""):
    """Build <bdir>/overlay.json from /verif/overlay and /repo's current tree."""
    os.makedirs(bdir, exist_ok=True)
    rw = os.path.join(bdir, "rewritten")
    shutil.rmtree(rw, ignore_errors=True)
    repl = {}
    repl[os.path.join(REPO, "ipfs/ipfs.go")] = os.path.join(VERIF, "overlay/ipfs/ipfs_stub.go")
    repl[os.path.join(REPO, "ipfs/ipfs_test.go")] = ""
    files = set(CLOCK_FILES) | set(SLEEP_FILES) | set(f for f, _, _, _ in DELAY_POINTS)
    for rel in sorted(files):
        p = os.path.join(REPO, rel)
        if not os.path.exists(p):
            notes.append("clock file %s missing in tree" % rel)
            continue
        src = open(p).read()
        n = 0
        if rel in CLOCK_FILES or rel in SLEEP_FILES:
            src, n = rewrite_clock(src, rel)
        src, k = insert_points(src, rel, notes)
        if n + k == 0:
            continue
        src = add_import(src)
        dst = os.path.join(rw, rel)
        os.makedirs(os.path.dirname(dst), exist_ok=True)
        with open(dst, "w") as f:
            f.write(src)
        repl[p] = dst
    for rel, pat in NOCHECKPTR:
        p = os.path.join(REPO, rel)
        if not os.path.exists(p):
            continue
        lines = open(p).read().split("\n")
        hit = [i for i, l in enumerate(lines) if re.match(pat, l)]
        if len(hit) != 1 or "go:nocheckptr" in "\n".join(lines):
            continue
        lines.insert(hit[0], "//go:nocheckptr")
        dst = os.path.join(rw, rel)
        os.makedirs(os.path.dirname(dst), exist_ok=True)
        with open(dst, "w") as f:
            f.write("\n".join(lines))
        repl[p] = dst
    tree = os.path.join(VERIF, "overlay/tree")
    for root, _, fs in os.walk(tree):
        for fn in fs:
            if not (fn.endswith(".go") or fn.endswith(".wasm") or fn.endswith(".json")):
                continue
            src = os.path.join(root, fn)
            rel = os.path.relpath(src, tree)
            # development aid: skip other people's in-progress files of a shared package
            excl = [x for x in os.environ.get("VERIF_OVERLAY_EXCLUDE", "").split(",") if x]
            wip = os.path.join(VERIF, "vlib", "wip_exclude.txt")
            if os.path.exists(wip):
                excl += [l.strip() for l in open(wip) if l.strip() and not l.startswith("#")]
            own = pid.lower() + "_"
            if any(x in rel for x in excl) and not (pid and own in os.path.basename(rel).lower()):
                continue
            repl[os.path.join(REPO, rel)] = src
    ov = os.path.join(bdir, "overlay.json")
    with open(ov, "w") as f:
        json.dump({"Replace": repl}, f, indent=0)
    # alternate modfile (adds porcupine; /repo/go.mod is never touched)
    mod = os.path.join(bdir, "go.mod")
    src = open(os.path.join(REPO, "go.mod")).read()
    if "anishathalye/porcupine" not in src:
        src += "\nrequire github.com/anishathalye/porcupine v1.3.0\n"
    old = open(mod).read() if os.path.exists(mod) else None
    if old != src:
        with open(mod, "w") as f:
            f.write(src)
    sumf = os.path.join(bdir, "go.sum")
    rs = open(os.path.join(REPO, "go.sum")).read()
    extra = os.path.join(VERIF, "overlay/go.sum.extra")
    if os.path.exists(extra):
        rs += open(extra).read()
    if not os.path.exists(sumf) or open(sumf).read() != rs:
        with open(sumf, "w") as f:
            f.write(rs)
    return ov, mod


def build(pkg, out, ov, mod, race=False, asan=False, extra_tags=None):
    tags = "verif" + ("," + extra_tags if extra_tags else "")
    cmd = ["go", "test", "-c", "-overlay", ov, "-modfile", mod, "-tags", tags, "-vet=off", "-o", out]
    if race:
        cmd.append("-race")
    if asan:
        cmd.append("-asan")
    cmd.append(MODPATH + "/" + pkg)
    t = time.time()
    logf = out + ".buildlog"
    with open(logf, "w") as lf:
        r = sh(cmd, cwd=REPO, stdout=lf)
    return r.returncode, logf, time.time() - t


def load_known():
    p = os.path.join(VERIF, "known_findings.jsonl")
    out = []
    if os.path.exists(p):
        for l in open(p):
            l = l.strip()
            if l and not l.startswith("#"):
                out.append(json.loads(l))
    return out


def match_known(known, pid, sig):
    for k in known:
        if k.get("status") != "known" or k.get("property") != pid:
            continue
        s = k.get("signature", "")
        if s == sig:
            return k
        if k.get("signature_regex") and re.fullmatch(k["signature_regex"], sig):
            return k
    return None


def parse_race_log(text):
    """Split Go race detector output into reports, return list of (signature, text)."""
    reps = []
    blocks = re.split(r"(?m)^==================\n", text)
    for b in blocks:
        if "WARNING: DATA RACE" not in b:
            continue
        # top non-runtime frame of each of the two accesses, line numbers stripped
        tops = []
        for sec in re.split(r"(?m)^(?=(?:Previous )?(?:[Rr]ead|[Ww]rite) at |Previous (?:atomic )?)", b):
            if not re.match(r"(?:Previous )?(?:atomic )?(?:[Rr]ead|[Ww]rite) at", sec):
                continue
            m = re.findall(r"(?m)^  (\S+?)\(\)\n\s+(\S+?):\d+", sec)
            fr = None
            for fn, path in m:
                if "/runtime/" in path or fn.startswith("runtime.") or fn.startswith("sync.") or fn.startswith("sync/atomic."):
                    continue
                fr = fn
                break
            if fr is None and m:
                fr = m[0][0]
            tops.append(fr or "?")
        sig = "race:" + "|".join(sorted(tops[:2]))
        reps.append((sig, b.strip()[:6000]))
    return reps


class Job:
    def __init__(self, name, pkg, run, race=False, asan=False, env=None, shards=(1, 1),
                 timeout=(900, 3600), tiers=("quick", "thorough"), extra_tags=None, ulimit_v=None,
                 gomaxprocs=None, race_is_violation=True):
        self.name, self.pkg, self.run, self.race, self.asan = name, pkg, run, race, asan
        self.env = env or {}
        self.shards, self.timeout, self.tiers = shards, timeout, tiers
        self.extra_tags = extra_tags
        self.ulimit_v = ulimit_v
        self.gomaxprocs = gomaxprocs
        # False: data race reports of this job are recorded as diagnostics only (the property does not
        # speak about races; the -race build is used for checkptr and crash detection)
        self.race_is_violation = race_is_violation


def run_check(pid, spec, tier, seed, replay=None, keep=False):
    t0 = time.time()
    notes = []
    known = load_known()
    bdir = os.path.join(BUILD, pid if REPO == "/repo" else pid + "-" + hashlib.sha1(REPO.encode()).hexdigest()[:6])
    ov, mod = gen_overlay(notes, bdir, pid)
    bindir = os.path.join(bdir, "bin")
    os.makedirs(bindir, exist_ok=True)
    scratch = os.environ.get("VERIF_SCRATCH") or "/var/tmp/verif-%s-%d" % (pid, os.getpid())
    shutil.rmtree(scratch, ignore_errors=True)
    os.makedirs(scratch)
    outdir = os.path.join(scratch, "out")
    os.makedirs(outdir)
    jobs = [j for j in spec["jobs"] if tier in j.tiers]
    ti = 0 if tier == "quick" else 1

    # ---- build (distinct (pkg, race, asan, tags) once) ----
    bins = {}
    todo = {}
    for j in jobs:
        key = (j.pkg, j.race, j.asan, j.extra_tags)
        if key not in todo:
            nm = j.pkg.replace("/", "_") + ("_race" if j.race else "") + ("_asan" if j.asan else "") + \
                 ("_" + j.extra_tags if j.extra_tags else "") + ".test"
            todo[key] = os.path.join(bindir, nm)
    def _b(item):
        key, out = item
        return key, out, build(key[0], out, ov, mod, race=key[1], asan=key[2], extra_tags=key[3])
    with ThreadPoolExecutor(max_workers=4) as ex:
        for key, out, (rc, logf, dt) in ex.map(_b, todo.items()):
            if rc != 0:
                log(open(logf).read()[-6000:])
                log("INCONCLUSIVE property=%s reason=harness build failed for %s (see above)" % (pid, key[0]))
                return finish(pid, spec, tier, seed, t0, None, notes, 3, scratch, keep)
            bins[key] = out
            notes.append("built %s%s in %.0fs" % (key[0], " -race" if key[1] else "", dt))

    # ---- run children ----
    runs = []
    for j in jobs:
        ns = j.shards[ti]
        for s in range(ns):
            runs.append((j, s, ns))
    maxpar = int(os.environ.get("VERIF_PAR", "0")) or max(1, min(len(runs), spec.get("parallel", 8)))

    def _run(item):
        j, s, ns = item
        jn = "%s-%d" % (j.name, s)
        wd = os.path.join(scratch, "wd-" + jn)
        os.makedirs(wd, exist_ok=True)
        env = {
            "VERIF_SEED": str(seed), "VERIF_TIER": tier, "VERIF_SHARD": str(s), "VERIF_NSHARDS": str(ns),
            "VERIF_OUT": outdir, "VERIF_JOB": jn, "VERIF_DIR": VERIF, "VERIF_REPO_DIR": REPO,
        }
        if replay:
            env["VERIF_REPLAY"] = os.path.abspath(replay)
        if j.race:
            env["GORACE"] = "halt_on_error=0 log_path=%s/race-%s history_size=5" % (outdir, jn)
        if j.gomaxprocs:
            env["GOMAXPROCS"] = str(j.gomaxprocs)
        # soft heap limit per child (the collector works harder near it, nothing fails): up to 16
        # children run side by side; race/asan builds keep their shadow memory outside the Go heap
        env["GOMEMLIMIT"] = os.environ.get("VERIF_GOMEMLIMIT", "2200MiB")
        env.update(j.env)
        to = j.timeout[ti]
        binp = bins[(j.pkg, j.race, j.asan, j.extra_tags)]
        cmd = ["timeout", "-s", "QUIT", "-k", "20", str(to), binp, "-test.run", j.run, "-test.v",
               "-test.timeout", "0", "-test.count", "1"]
        if j.ulimit_v:
            cmd = ["bash", "-c", "ulimit -v %d; exec \"$@\"" % j.ulimit_v, "x"] + cmd
        lf = os.path.join(outdir, "log-%s.txt" % jn)
        t = time.time()
        with open(lf, "w") as f:
            r = sh(cmd, env=env, cwd=wd, stdout=f)
        shutil.rmtree(wd, ignore_errors=True)
        return jn, j, r.returncode, lf, time.time() - t

    results = []
    with ThreadPoolExecutor(max_workers=maxpar) as ex:
        for r in ex.map(_run, runs):
            results.append(r)

    # ---- aggregate ----
    agg = {"evaluations": 0, "counters": {}, "samples": [], "violations": [], "distinct": set(),
           "notes": [], "info": {}}
    inconclusive = []
    for jn, j, rc, lf, dt in results:
        rf = os.path.join(outdir, "result-%s.json" % jn)
        res = None
        if os.path.exists(rf):
            try:
                res = json.load(open(rf))
            except Exception as e:
                inconclusive.append("%s: unreadable result (%s)" % (jn, e))
        logtxt = open(lf, errors="replace").read()
        if res is None or not res.get("complete"):
            # process-fatal event: classify from the log
            sig, what = classify_crash(logtxt, rc)
            prog = last_progress(outdir, jn)
            if sig is None:
                inconclusive.append("%s: child exit %d without result (%s)" % (jn, rc, what))
            else:
                agg["violations"].append({"sig": sig, "desc": what, "job": jn,
                                          "replay": {"log_tail": logtxt[-8000:], "last_case": prog}})
        if res:
            agg["evaluations"] += res.get("evaluations", 0)
            for k, v in (res.get("counters") or {}).items():
                agg["counters"][k] = agg["counters"].get(k, 0) + v
            for k, v in (res.get("info") or {}).items():
                agg["info"].setdefault(k, v)
            if len(agg["samples"]) < 12:
                agg["samples"].extend((res.get("samples") or [])[: max(1, 12 // max(1, len(results)))])
            for v in (res.get("violations") or []):
                v["job"] = jn
                agg["violations"].append(v)
            agg["notes"].extend((res.get("notes") or []))
            for w in (res.get("inconclusive") or []):
                inconclusive.append("%s: %s" % (jn, w))
        df = os.path.join(outdir, "distinct-%s.txt" % jn)
        if os.path.exists(df):
            for l in open(df):
                agg["distinct"].add(l.strip())
        if j.race:
            nrep = 0
            found = []
            for fn in sorted(os.listdir(outdir)):
                if fn.startswith("race-%s." % jn):
                    found += parse_race_log(open(os.path.join(outdir, fn), errors="replace").read())
            # reports printed to stderr (log_path unset or failed)
            found += parse_race_log(logtxt)
            for sig, txt in found:
                nrep += 1
                if j.race_is_violation:
                    agg["violations"].append({"sig": sig, "desc": "data race reported by the Go race detector",
                                              "job": jn, "replay": {"report": txt}})
                else:
                    agg["info"].setdefault("race_reports_diagnostic_only", {})
                    d = agg["info"]["race_reports_diagnostic_only"]
                    d[sig] = d.get(sig, 0) + 1
            agg["counters"]["race_reports"] = agg["counters"].get("race_reports", 0) + nrep
            agg["counters"]["race_detector_runs"] = agg["counters"].get("race_detector_runs", 0) + 1
        notes.append("%s: exit %d in %.0fs" % (jn, rc, dt))

    # cross-process agreement: info keys with the given prefix must have one value in all children
    pref = spec.get("agree_info_prefix")
    if pref:
        vals = {}
        for jn, j, rc_, lf, dt in results:
            rf = os.path.join(outdir, "result-%s.json" % jn)
            if os.path.exists(rf):
                try:
                    for k, v in (json.load(open(rf)).get("info") or {}).items():
                        if k.startswith(pref):
                            vals.setdefault(k, {}).setdefault(str(v), []).append(jn)
                except Exception:
                    pass
        nagree = 0
        for k, m in sorted(vals.items()):
            if len(m) > 1:
                agg["violations"].append({"sig": "cross-process-disagreement", "desc": "children disagree on %s: %s" % (k, m), "job": "driver", "replay": m})
            elif sum(len(x) for x in m.values()) > 1:
                nagree += 1
        agg["counters"]["cross_process_agreements"] = nagree

    # floors
    for k, mn in spec.get("floors", {}).items():
        m = mn[ti] if isinstance(mn, (tuple, list)) else mn
        if agg["counters"].get(k, 0) < m:
            inconclusive.append("coverage floor not met: %s=%d < %d" % (k, agg["counters"].get(k, 0), m))

    # verdict
    viol_new, viol_known = {}, {}
    for v in agg["violations"]:
        k = match_known(known, pid, v["sig"])
        (viol_known if k else viol_new).setdefault(v["sig"], []).append((v, k))
    rc = 0
    os.makedirs(os.path.join(VERIF, "replays"), exist_ok=True)
    for sig, lst in sorted(viol_known.items()):
        log("KNOWN-FINDING: property=%s %s [%s] (%d occurrence(s))" % (pid, lst[0][1].get("what", ""), sig, len(lst)))
    n = 0
    for sig, lst in sorted(viol_new.items()):
        v = lst[0][0]
        h = hashlib.sha1(sig.encode()).hexdigest()[:8]
        rp = os.path.join(VERIF, "replays", "%s-%d-%s.json" % (pid, seed, h))
        with open(rp, "w") as f:
            json.dump({"property": pid, "seed": seed, "tier": tier, "signature": sig, "occurrences": len(lst),
                       "first": v}, f, indent=1, default=str)
        log("  signature: %s\n  what: %s" % (sig, str(v.get("desc"))[:1500]))
        log("VIOLATION property=%s replay=%s" % (pid, rp))
        rc = 1
        n += 1
    if rc == 0 and inconclusive:
        for w in inconclusive[:20]:
            log("INCONCLUSIVE property=%s reason=%s" % (pid, w))
        rc = 3
    agg["known_hits"] = {s: len(l) for s, l in viol_known.items()}
    agg["new_violations"] = {s: len(l) for s, l in viol_new.items()}
    agg["inconclusive"] = inconclusive
    return finish(pid, spec, tier, seed, t0, agg, notes, rc, scratch, keep or rc != 0 and os.environ.get("VERIF_KEEP"))


def last_progress(outdir, jn):
    p = os.path.join(outdir, "progress-%s.log" % jn)
    if not os.path.exists(p):
        return None
    try:
        with open(p, "rb") as f:
            f.seek(0, 2)
            sz = f.tell()
            f.seek(max(0, sz - 4000))
            tail = f.read().decode(errors="replace").strip().split("\n")
        return tail[-1] if tail else None
    except Exception:
        return None


def classify_crash(logtxt, rc):
    """A child died without a complete result file. Return (signature|None, description)."""
    m = re.search(r"(?m)^(panic: .*|fatal error: .*)$", logtxt)
    if rc in (124, 137) or "SIGQUIT" in logtxt[:20000] and not m:
        return None, "watchdog expired (timeout); goroutine dump in log"
    if m:
        head = m.group(1)
        # first frame inside the repo (not verif harness files)
        frames = re.findall(r"(?m)^(\S+)\(.*\)\n\s+(%s/\S+?):(\d+)" % re.escape(REPO), logtxt[m.start():])
        top = None
        for fn, path, ln in frames:
            base = os.path.basename(path)
            if base.startswith("zz_verif") or "/verifsim/" in path or "/verifutil/" in path:
                continue
            top = "%s" % fn
            break
        kind = "panic" if head.startswith("panic") else "fatal"
        if "checkptr" in head:
            kind = "checkptr"
        if "concurrent map" in head:
            kind = "concurrent-map"
        if "all goroutines are asleep" in head:
            kind = "deadlock"
        return "%s:%s" % (kind, top or "?"), head[:300]
    if "ERROR: AddressSanitizer" in logtxt:
        m = re.search(r"ERROR: AddressSanitizer: (\S+)", logtxt)
        return "asan:%s" % (m.group(1) if m else "?"), "AddressSanitizer report"
    return None, "exit %d" % rc


def finish(pid, spec, tier, seed, t0, agg, notes, rc, scratch, keep):
    wall = time.time() - t0
    ev = {
        "property_id": pid, "tier": tier, "seed": seed, "level": spec["level"],
        "wall_s": round(wall, 1),
        "assumptions": spec.get("assumptions", []),
    }
    if agg is None:
        cov = {"evaluations": 0, "distinct_nontrivial": 0, "rule": spec.get("rule", ""), "samples": [],
               "verdict": "inconclusive"}
        ev["violations"] = 0
    else:
        cov = {
            "evaluations": agg["evaluations"],
            "distinct_nontrivial": len(agg["distinct"]),
            "rule": spec.get("rule", ""),
            "samples": agg["samples"][:12],
            "counters": dict(sorted(agg["counters"].items())),
            "info": agg["info"],
            "known_findings_hit": agg["known_hits"],
            "new_violation_signatures": agg["new_violations"],
            "inconclusive_reasons": agg["inconclusive"],
            "verdict": {0: "held on what was observed", 1: "violated", 3: "inconclusive"}[rc],
            "harness_notes": (notes + agg["notes"])[:60],
        }
        if spec.get("exhaustive") and spec["exhaustive"](tier):
            cov["exhaustive"] = True
        ev["violations"] = sum(agg["new_violations"].values())
    ev["coverage"] = cov
    os.makedirs(os.path.join(VERIF, "evidence"), exist_ok=True)
    with open(os.path.join(VERIF, "evidence", pid + ".json"), "w") as f:
        json.dump(ev, f, indent=1, default=str)
    if agg is not None:
        log("%s %s seed=%d: evaluations=%d distinct_nontrivial=%d wall=%.0fs verdict=%s" % (
            pid, tier, seed, cov["evaluations"], cov["distinct_nontrivial"], wall, cov["verdict"]))
    if not keep:
        shutil.rmtree(scratch, ignore_errors=True)
    else:
        log("scratch kept at", scratch)
    return rc


def setup(PROPS):
    """Warm the Go build cache: compile every harness package once (plain builds only)."""
    notes = []
    bdir = os.path.join(BUILD, "setup")
    ov, mod = gen_overlay(notes, bdir)
    os.makedirs(os.path.join(bdir, "bin"), exist_ok=True)
    pkgs = sorted({j.pkg for sp in PROPS.values() for j in sp["jobs"]})
    bad = 0
    def _b(pkg):
        return pkg, build(pkg, os.path.join(bdir, "bin", pkg.replace("/", "_") + ".test"), ov, mod)
    with ThreadPoolExecutor(max_workers=4) as ex:
        for pkg, (rc, logf, dt) in ex.map(_b, pkgs):
            log("setup: built %s rc=%d in %.0fs" % (pkg, rc, dt))
            if rc != 0:
                log(open(logf).read()[-3000:])
                bad += 1
    shutil.rmtree(bdir, ignore_errors=True)
    return 1 if bad else 0


def main(argv):
    from props import PROPS
    if len(argv) >= 2 and argv[1] == "--setup":
        return setup(PROPS)
    if len(argv) < 2 or argv[1] not in PROPS:
        log("usage: check <%s> [quick|thorough] [--replay FILE]" % "|".join(sorted(PROPS)))
        return 2
    pid = argv[1]
    tier = os.environ.get("VERIF_TIER", "quick")
    replay = None
    keep = False
    a = argv[2:]
    while a:
        x = a.pop(0)
        if x in ("quick", "thorough"):
            tier = x
        elif x == "--replay":
            replay = a.pop(0)
        elif x == "--keep":
            keep = True
    try:
        seed = int(os.environ.get("VERIF_SEED", "1"))
    except ValueError:
        seed = 1
    return run_check(pid, PROPS[pid], tier, seed, replay, keep)


if __name__ == "__main__":
    sys.path.insert(0, os.path.dirname(os.path.abspath(__file__)))
    sys.exit(main(sys.argv))
