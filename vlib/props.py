"""Loads the per-property specs from vlib/specs/Cnn.py (each defines SPEC)."""
import importlib.util
import os

PROPS = {}
_d = os.path.join(os.path.dirname(os.path.abspath(__file__)), "specs")
for _f in sorted(os.listdir(_d)):
    if _f.endswith(".py") and _f[0] == "C":
        _s = importlib.util.spec_from_file_location("spec_" + _f[:-3], os.path.join(_d, _f))
        _m = importlib.util.module_from_spec(_s)
        _s.loader.exec_module(_m)
        PROPS[_f[:-3]] = _m.SPEC
