#!/usr/bin/env python3
"""Prints the markdown table of seeded changes (DESIGN.md 11.5) from /verif/seeded/*/meta.json."""
import glob
import json
import os

V = os.path.dirname(os.path.dirname(os.path.abspath(__file__)))
notes = json.load(open(os.path.join(V, "seeded/NOTES.json")))
print("| seed | files | change (one line) | needs to manifest | result of `./check <id> quick` on the changed tree | note |")
print("|---|---|---|---|---|---|")
tot = caught = 0
seeds = own = sibling = 0
for d in sorted(glob.glob(os.path.join(V, "seeded/C*-*"))):
    sid = os.path.basename(d)
    m = json.load(open(d + "/meta.json"))
    v = m.get("verif_results", {})
    res = []
    for c, x in (v.get("checks") or {}).items():
        sig = (x.get("signatures") or [""])[0]
        res.append("%s: **%s**%s" % (c, x.get("verdict"), (" `%s`" % sig[:90]) if sig else ""))
        tot += 1
        caught += x.get("verdict") == "caught"
    cs = v.get("checks") or {}
    pid = sid.split("-")[0]
    seeds += 1
    if (cs.get(pid) or {}).get("verdict") == "caught":
        own += 1
    elif any(x.get("verdict") == "caught" for x in cs.values()):
        sibling += 1
    one = lambda s, n: " ".join((s or "").replace("|", "/").split())[:n]
    print("| %s | %s | %s | %s | %s | %s |" % (sid, ", ".join(os.path.basename(f) for f in m.get("files_changed", [])), one(m.get("summary"), 230), one(m.get("needs_to_manifest"), 200),
                                         "; ".join(res), notes.get(sid, "caught by the check as first written")))
print()
print("%d seeded changes: %d caught by the check of the property they were aimed at, %d only by the check of a sibling property, %d not caught (see the notes)." % (seeds, own, sibling, seeds - own - sibling))
