import os
from driver import Job

_only = os.environ.get("VERIF_C14_ONLY", "")
_jobs = [
    Job("seq", "verifsim", "^TestVerifC14Seq$", shards=(6, 12), timeout=(600, 3000)),
    Job("conc", "verifsim", "^TestVerifC14Conc$", race=True, shards=(8, 12), timeout=(600, 3000)),
]
if _only:
    _jobs = [j for j in _jobs if j.name in _only.split(",")]

SPEC = {
    "engine": "E4", "level": "exploration",
    "technique": "runtime monitor of the real TxPool of a simulated replica: invariants of the property evaluated after every generated "
                 "operation (sequential) and, under the race detector, a node-shaped concurrent workload with a progress watchdog, "
                 "engine-side candidate-list checks and a porcupine linearizability check of per-hash Add/Get/Remove histories",
    "level_text": "Generated operation sequences and real-concurrency runs against the unmodified pool and chain code; every invariant "
                  "of the property text held on all operations executed, no panic, no stall, and the only race-detector reports are "
                  "the ones listed as known findings. Schedules are sampled by the Go scheduler (delay point armed), not enumerated.",
    "level_note": "consensus rules V12, synthetic epoch results, no libp2p; 'made invalid' is decided by the repo's own "
                  "validation.ValidateTx against the new head (the rule ResetTo itself applies); membership invariants are asserted "
                  "sequentially and at quiescence only; the order-independence probe is a metamorphic reading of 'coherent under any "
                  "submission order' (clean sender, no limits hit, no validation session)",
    "rule": "case = one pool operation followed by a full invariant evaluation (sequential) or one concurrent run (concurrent); "
            "distinct_nontrivial = distinct op sequences between two blocks whose ResetTo promoted or evicted >= 1 tx, plus distinct "
            "per-hash call/return event-order signatures with >= 2 operations of >= 2 goroutines",
    "jobs": _jobs,
    "floors": {},
    "parallel": 16,
    "assumptions": ["consensus config V12", "epoch results come from the synthetic epoch function",
                    "schedules are those the Go scheduler produced on this machine (GOMAXPROCS as available)"],
}
