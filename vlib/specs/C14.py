import os
from driver import Job

# VERIF_C14_ONLY=seq|conc restricts the check to one part (development aid)
_only = os.environ.get("VERIF_C14_ONLY", "")
_jobs = [
    # sequential part: generated operation sequences on a real replica's TxPool, invariants after every operation
    Job("seq", "verifsim", "^TestVerifC14Seq$", shards=(6, 12), timeout=(900, 7200)),
    # concurrent part (E4): node-shaped goroutine topology under the race detector
    Job("conc", "verifsim", "^TestVerifC14Conc$", race=True, shards=(8, 12), timeout=(900, 7200)),
]
if _only:
    _jobs = [j for j in _jobs if j.name in _only.split(",")]

SPEC = {
    "engine": "E4", "level": "exploration",
    "technique": "runtime monitor of the real TxPool of a simulated replica: (1) the invariants of the property evaluated through the "
                 "pool's public API after every operation of generated sequences; (2) a node-shaped concurrent workload under the Go "
                 "race detector with a progress watchdog, engine-side candidate-list checks, quiescent membership checks and a "
                 "porcupine linearizability check of per-hash Add/Get/Remove histories",
    "level_text": "Generated operation sequences (external/internal adds in and out of nonce order, same-nonce conflicts, several epochs, "
                  "priority ceremony types inside the validation periods, tiny per-address and global limits, blocks built from this and "
                  "from another pool, chain StartSync/StopSync with deferred txs, list building) and real-concurrency runs (1 engine + "
                  "4-12 submitters incl. AsyncTxPool, delay point armed) against the unmodified pool and chain code. Held on every "
                  "operation / run executed, apart from the findings listed as known. Schedules are sampled by the Go scheduler, "
                  "not enumerated; 'never deadlocks' is claimed up to the 60 s progress watchdog.",
    "level_note": "consensus rules V12, synthetic epoch results, no libp2p. 'made invalid' is decided by the repo's own "
                  "validation.ValidateTx(MempoolTx) against the new head (the rule ResetTo itself applies: the tx or a lower nonce of "
                  "its sender fails), a past epoch, or inclusion; there is no eviction other than ResetTo in this code. Membership "
                  "invariants are asserted sequentially and at quiescence only (transient states between two ResetTo under "
                  "concurrency are not verdicts). The order-independence probe (k consecutive valid transfers of an otherwise idle "
                  "sender submitted in a random order must all be offered after one ResetTo(head), up to the per-address executable "
                  "limit, outside validation periods, gas cap not reached) is the metamorphic reading of 'coherent under any "
                  "submission order'. Adds whose effect cannot be bounded from the API boundary (AsyncTxPool queue, txs deferred "
                  "in a sync window) enter the linearizability model as a background adder (sound over-approximation); removals "
                  "are the RemoveMemPoolTx callbacks with the interval [last chain-side collector callback, callback].",
    "rule": "case = one pool operation followed by a full invariant evaluation (sequential) or one concurrent run (concurrent); "
            "distinct_nontrivial = distinct op sequences between two blocks whose ResetTo promoted or evicted >= 1 tx, plus distinct "
            "call/return event orders of bursts in which >= 2 goroutines overlapped on one tx hash",
    "jobs": _jobs,
    "floors": ({} if _only else {
        # sequential part (deterministic in seed and tier)
        "promotions": (100, 1000), "evictions": (300, 3000), "limit_rejections": (300, 3000),
        "sync_deferred_readded": (100, 1000), "blocks_while_syncing": (100, 1000),
        "order_probes_asserted": (100, 1000), "order_probes_out_of_order": (50, 500),
        "epoch_changes": (20, 200), "priority_add:ok": (100, 1000), "offers_with_priority_tx": (200, 2000),
        "resets_inside_sessions": (200, 2000), "resets_outside_sessions": (500, 5000),
        "offers_with_pool_over_gas_cap": (2, 50), "gasprobe_in_ceremony": (40, 200), "gasprobe_big_priority_tx": (150, 750),
        "offers_over_gas_cap_with_priority_tx": (300, 1500), "op:epochmix": (40, 200), "epochmix_with_next_epoch_txs_in_pool": (12, 60), "blocks_built_elsewhere": (300, 3000),
        "conflicting_tx_to_other_proposer": (100, 1000), "add_path:internal": (300, 3000), "add_path:batch": (300, 3000),
        # concurrent part (schedule dependent; far below what is normally observed)
        "race_detector_runs": (8, 12), "conc_runs": (12, 150), "interleaving_signatures": (50, 500),
        "conc_overlapping_bursts": (1000, 10000), "conc_removals_reported": (300, 3000), "conc_sync_windows": (5, 50),
        "conc_adds_in_sync_window": (100, 1000), "conc_offers_checked": (200, 2000),
        "conc_blocks_in_period_2": (3, 30), "conc_blocks_in_period_3": (3, 30), "conc_epoch_changes": (4, 40),
        "conc_add_ok": (1000, 10000), "conc_add_dup": (1000, 10000), "conc_get_t": (1000, 10000), "conc_get_f": (1000, 10000),
    }),
    "parallel": 16,
    "assumptions": ["consensus config V12", "epoch results come from the synthetic epoch function",
                    "schedules are those the Go scheduler produced on this machine (delay point txpool.afterReadonly armed with a yield)",
                    "deadlock freedom is claimed up to a 60 s progress watchdog with one reproduction attempt"],
}
