from driver import Job

SPEC = {
    "engine": "E1", "level": "exploration",
    "technique": "twin-block differential monitor: per-address (balance, stake, contract stake) of the same block with and without one tx",
    "level_text": "For generated signed txs of every type and target relationship, applied by the real ProposeBlock/validateBlock at one "
                  "head and frozen clock with and without the tx, no address other than the signer may end lower, except the named "
                  "exceptions, which the oracle decides from the pre-state (stored inviter/delegatee, contract code).",
    "level_note": "twins are not formed on validation-finished blocks; a contract draining an uninvolved other contract is outside what the oracle sees",
    "rule": "case = one twin pair whose tx was included; distinct_nontrivial = distinct (tx type, target relation, sender status) triples",
    "jobs": [Job("chain", "verifsim", "^TestVerifC05$", shards=(8, 16), timeout=(900, 3600))],
    "floors": {"twin_triples_failed_midway_then_succeeded": 200, "twin_sequences_failed_midway_then_succeeded": 200, "relation:own-invitee": 3, "relation:own-delegator": 2, "relation:contract": 10, "relation:god": 10, "relation:undefined": 20,
               "relation:self": 2, "relation:identity": 20, "twin_type:KillInvitee": 2, "twin_type:KillDelegator": 2, "twin_type:Call": 5, "attempted_relation:pending-delegator-of-signer": 30, "attempted_relation:foreign-delegator": 5, "attempted_relation:foreign-invitee": 5},
    "parallel": 16,
    "assumptions": ["consensus config V12"],
}
