from driver import Job

SPEC = {
    "engine": "E1", "level": "exploration",
    "technique": "twin-block differential monitor: per-address (balance, stake, contract stake) of the same block with and without one tx",
    "level_text": "For generated signed txs of every type and target relationship, applied by the real ProposeBlock/validateBlock at one "
                  "head and frozen clock with and without the tx, no address other than the signer may end lower, except the named "
                  "exceptions, which the oracle decides from the pre-state (stored inviter/delegatee, contract code).",
    "level_note": "twins are not formed on validation-finished blocks; a contract draining an uninvolved other contract is outside what the oracle sees",
    "rule": "case = one twin pair whose tx was included; distinct_nontrivial = distinct (tx type, target relation, sender status) triples",
    "jobs": [Job("chain", "verifsim", "^TestVerifC05$", shards=(8, 16), timeout=(900, 7200))],
    "floors": {"twin_triples_failed_midway_then_succeeded": 200, "twin_sequences_failed_midway_then_succeeded": 200, "relation:own-invitee": 3, "relation:own-delegator": 2, "relation:contract": 10, "relation:god": 10, "relation:undefined": 20,
               "relation:self": 2, "relation:identity": 20, "twin_type:KillInvitee": 2, "twin_type:KillDelegator": 2, "twin_type:Call": 5, "attempted_relation:pending-delegator-of-signer": 30, "attempted_relation:foreign-delegator": 5, "attempted_relation:foreign-invitee": 5,
               "attempted:forged:signature-bytes-copied-from-a-tx-of-the-victim": 400, "attempted:forged:unrecoverable-signature-spends-the-zero-wallet": 800,
               "inviter_story_inviters_with_3_or_more_activated_invitees": 3, "attempted:relation:KillInvitee/by-former-inviter-that-terminated-itself": 12},
    "parallel": 16,
    "assumptions": ["consensus config V12",
                    "the signer of a transaction is recovered by the harness with the crypto primitives (crypto.SignatureHash + Ecrecover), not with types.Sender",
                    "reading of 'an inviter terminating its own invitee': the relationship the ledger records (Identity.Inviter of the target), except that an identity whose own KillTx the harness saw included (and that was not invited again since) is no longer the inviter of invitees that had activated their invitation (KillTx severs the links with everybody on the inviter's invitee list). Observed and NOT counted as a violation: invitations that were never activated are not on that list, so on the unchanged tree a terminated identity can still send KillInviteeTx to them (and destroy stake somebody added to such an invitation) - the ledger still names it as their inviter"],
}
