from driver import Job

SPEC = {
    "engine": "E1", "level": "exploration",
    "technique": "replay monitor (identity diffs a node serves vs canonical identity roots, incl. reorged servers) + export/import differential + corruption injection on snapshot archives "
                 "+ the REAL protocol.fastSync driven over two real gossip handlers (wire path included) with replay / state-equality / continuation oracles on the fast-synced node "
                 "and on a second-generation node synced from it + hostile servers for the real consumer (well-formed snapshot of another state announced with its own root; served range with "
                 "one identity diff missing: must be refused without moving, then the honest artifacts must complete) + state-API differential right after the switch (getters of the node's main "
                 "app state vs the fully synced node's read-only view)",
    "level_text": "(a) what a node stores and serves per height (GetIdentityDiff, as provideBlocks) is replayed with fast sync's own sequence on a "
                  "follower identity tree for every canonical height, for a straight server and a server that reorganised; (b) WriteSnapshot2 "
                  "at retained heights and of large synthetic states (multi-chunk, empty values, contract stores) imported with "
                  "RecoverSnapshot2 must reproduce root and full contents; (c) byte/bit flips stratified over the archive, truncations at "
                  "512-byte boundaries and random offsets, chunk drop/duplicate/reorder/foreign chunk: either accepted with exactly the "
                  "advertised root and contents, or refused with an empty target db; a panic is a violation; (d) an end-to-end fast sync (fast.go's functions in fast.go's order, emulated by hand) "
                  "from a straight and a reorged server must yield exactly the canonical state and a node that keeps accepting the canonical blocks; "
                  "(e) job 'realsync': the real fastSync object (preConsuming, processBatch -> validateHeader / applyDeferredBlocks / reload+ban, postConsuming -> "
                  "SnapshotManager.DownloadSnapshot, RecoverSnapshot2, SaveForcedVersion, AtomicSwitchToPreliminary) of a fresh or partially full-synced node, fed through the "
                  "real wire path (GetBlocksRange -> peer writer -> msgio/S2 bytes -> the server handler's handle/provideBlocks -> bytes -> the node's handle -> batch) by three kinds of "
                  "servers (straight, reorganised, certificates kept as a consensus follower keeps them so that cert-less headers are deferred), with the downloader's and with small "
                  "batch sizes, with the sync interrupted and resumed by a new applier (also across a restart of the node on its surviving db). On the synced node: for EVERY synced "
                  "height the stored header is the canonical one and the stored identity diff (chain.GetIdentityDiff = what it serves), replayed in order on the identity state of the "
                  "start height, reproduces the canonical identity root; head / roots / full contents of both trees equal the fully synced node's at the snapshot height; the node "
                  "accepts the following canonical blocks and ends in the same state; a second-generation node fast-syncs by the same real path FROM the fast-synced node (from the "
                  "headers, certificates and diffs that node stores and serves) and must pass the same oracles. A refused sync of correct artifacts is a violation. "
                  "(f) hostile servers, same real path, every kind of server: (f1) the header range is honest, the manifest announces the canonical snapshot height together with the root and the cid of a "
                  "WELL-FORMED snapshot of another state, produced by the real WriteSnapshot2 (the canonical contents with one balance / one identity changed or one account added, or the state of an "
                  "earlier height): postConsuming must refuse and head, roots and every state-API answer of the node must be what they were; a node that switches must hold exactly the canonical root and "
                  "contents (else altered-snapshot-accepted:<class>); (f2) the server has lost the stored identity diff of ONE block whose canonical header changes the identity root (validation-finishing, "
                  "empty, kill-tx, other proposed blocks; the real provideBlocks then serves that block without diff): processBatch must refuse that very block - a preliminary head at or above it, or a "
                  "completed sync, is omitted-identity-diff-accepted:<block kind> (a completed one is also given to oracle (1), which reports the stored diff sequence); snapshot heights both before and "
                  "after the next identity change. After every correct refusal an honest peer serves the correct artifacts and the node must complete from where it stands and pass all oracles. "
                  "(g) state API after the switch, in EVERY real sync (fresh nodes, nodes with a full-synced prefix, after restarts, second generation, after a refusal): the node answers ~2000 getter calls "
                  "(accounts: balance / nonce / epoch / existence / contract fields; identities: raw record, status, stake, invites, penalty, delegatee, shard ...; global: epoch, fee per gas, validation period, "
                  "next validation time, last snapshot, seeds ...; status / delegation / penalty switch lists; flags of the identity state; validator view) for every address of its own and of the canonical "
                  "state before the sync and right before the switch (populating the object caches as a running node does), and again right after postConsuming returned, before any block: every answer must "
                  "equal the fully synced node's read-only view at the snapshot height (state-api-stale-after-snapshot-import:<getter class>); thousands of the sampled values moved in between "
                  "(balances, nonces, accounts created / deleted, identities created / killed, epoch).",
    "level_note": "the state snapshot path is RecoverSnapshot2 as fast sync calls it; in (e) the snapshot travels through SnapshotManager.DownloadSnapshot from the in-memory ipfs stub, "
                  "but the manifest is built by the harness from the serving node's own WriteSnapshot2 export (manifest gossip / best-manifest selection and real IPFS are not executed), "
                  "and the ~10 lines of Downloader.Load that cut the range into batches are mirrored (batches are requested and consumed one at a time). libp2p host / connection / stream "
                  "are in-memory fakes (in the hostile cases the fake connection is torn down synchronously when the node bans the peer, otherwise the real code may send the reload "
                  "request into the closed stream and sit in its own 20 s timeout). The server of (f2) is the honest server with one record (the identity diff of one height) deleted from its database for the "
                  "duration of the case; the altered states of (f1) are built on a private copy of the server's state (ForCheckWithOverwrite + StateDB.AddDiff + the real setters). The reference of (g) is "
                  "AppState.Readonly(snapshot height) of the node that applied every block. The certificate retention rule of the sparse-certificate server (consensus/engine.go + IsPermanentCert) is mirrored with a certificate range of 40.",
    "rule": "case = one height replayed, one import attempt, one real fast sync or one following block applied on a fast-synced node; distinct_nontrivial = distinct non-empty diffs "
            "(per job / generation) + distinct corrupted archives (snapshot, class, content hash) + distinct real syncs (generation, server, world, start height, snapshot height, batch size, interruption) + distinct hostile syncs (class, server, world, heights, altered root / omitted height)",
    "jobs": [Job("sync", "verifsim", "^TestVerifC11$", shards=(8, 16), timeout=(900, 7200)),
             Job("realsync", "protocol", "^TestVerifC11FastSync$", shards=(6, 12), timeout=(900, 7200), extra_tags="c11")],
    "floors": {"diffs_replayed": (2000, 20000), "diffs_nonempty": 200, "server_reorgs": 100, "snapshot_roundtrips": 20, "max_chunks_in_one_archive": 2,
               "corruption:byte-flip": (2000, 20000), "corruption:truncate-512": 300, "corruption:truncate-random": 100, "corruption:chunk-drop": 20,
               "corruption:chunk-duplicate": 20, "corruption:chunk-reorder": 4, "corruption:chunk-from-other-archive": 10,
               "outcome:refused": 1000, "outcome:accepted": 50,
               "fast_syncs_completed:straight-server": 20, "fast_syncs_completed:reorged-server": 20,
               # job realsync (real protocol.fastSync)
               "real_fast_syncs": (80, 450), "real_fast_syncs:gen2": (40, 220),
               "real_fast_syncs_completed:gen1:straight-server": (12, 70), "real_fast_syncs_completed:gen1:reorged-server": (12, 70),
               "real_fast_syncs_completed:gen1:sparse-cert-server": (12, 70),
               "real_fast_syncs_completed:gen2:straight-server": (12, 70), "real_fast_syncs_completed:gen2:reorged-server": (12, 70),
               "real_fast_syncs_completed:gen2:sparse-cert-server": (12, 70),
               "real_sync_heights": (10000, 100000), "real_sync_diffs_nonempty": (1200, 13000),
               "real_sync_diffs_nonempty:empty-block": (150, 2000), "real_sync_diffs_nonempty:proposed-block-without-txs": (80, 1400),
               "real_sync_validation_finished_blocks": (80, 1400), "real_sync_snapshot_flag_blocks": (400, 6000),
               "real_sync_heights_served_without_cert": (500, 12000), "real_sync_batches_ending_with_deferred_headers": (6, 150),
               "real_sync_resumed": (15, 120), "real_sync_resumed_after_restart": (5, 50),
               "real_sync_state_compared_with_full_node": (80, 450), "real_sync_following_blocks_accepted": (1500, 12000),
               "real_sync_blocks_with_body_fetched_by_bloom": (1000, 13000),
               # job realsync: hostile servers
               "hostile_syncs:altered-snapshot": (24, 120), "hostile_outcome:altered-snapshot:refused": (24, 120),
               "hostile_syncs:altered-snapshot:one-balance-changed": (4, 20), "hostile_syncs:altered-snapshot:state-of-earlier-height": (4, 20),
               "hostile_syncs:altered-snapshot:one-identity-changed": (4, 20), "hostile_syncs:altered-snapshot:one-account-added": (4, 20),
               "hostile_syncs:omitted-identity-diff": (22, 110), "hostile_outcome:omitted-identity-diff:refused": (22, 110),
               "hostile_syncs:omitted-identity-diff:validation-finishing-block": (2, 10), "hostile_syncs:omitted-identity-diff:empty-block": (2, 10),
               "hostile_syncs:omitted-identity-diff:block-with-kill-tx": (2, 10), "hostile_syncs:omitted-identity-diff:proposed-block-without-txs": (2, 10),
               "hostile_syncs:omitted-identity-diff:proposed-block-with-other-txs": (2, 10),
               "hostile_syncs:omitted-identity-diff:no-later-identity-change-up-to-the-snapshot": (6, 30),
               "hostile_syncs:omitted-identity-diff:later-identity-changes-up-to-the-snapshot": (10, 50),
               "hostile_syncs:altered-snapshot:via-straight-server": (6, 30), "hostile_syncs:altered-snapshot:via-reorged-server": (6, 30),
               "hostile_syncs:altered-snapshot:via-sparse-cert-server": (6, 30), "hostile_syncs:omitted-identity-diff:via-straight-server": (6, 30),
               "hostile_syncs:omitted-identity-diff:via-reorged-server": (6, 30), "hostile_syncs:omitted-identity-diff:via-sparse-cert-server": (4, 20),
               "hostile_sync_recovered_with_honest_artifacts": (46, 230),
               # job realsync: state API right after the switch
               "state_api_syncs_probed": (120, 600), "state_api_syncs_probed:node-with-own-prefix": (40, 200),
               "state_api_reads_compared": (200000, 1000000), "state_api_reads_compared:account": (50000, 250000), "state_api_reads_compared:identity": (80000, 400000),
               "state_api_reads_compared:global": (1500, 7500), "state_api_reads_compared:switch-lists": (400, 2000),
               "state_api_addresses_changed_between_start_and_snapshot": (5000, 25000),
               "state_api_addresses_changed_between_start_and_snapshot:node-with-own-prefix": (1500, 7500),
               "state_api_changed:balance-moved": (4000, 20000), "state_api_changed:nonce-moved": (2500, 12000), "state_api_changed:account-deleted": (20, 100),
               "state_api_changed:account-created": (2500, 12000), "state_api_changed:identity-created": (100, 500),
               "state_api_changed:identity-killed-or-removed": (600, 3000), "state_api_changed:epoch-moved": (60, 300)},
    "parallel": 16,
    "assumptions": ["consensus config V12",
                    "job realsync: wall-clock timeouts of the real code (20 s per block in processBatch, 20 s handshake) that expire without a preceding refusal by the node give an "
                    "inconclusive result, not a violation",
                    "job realsync (g): the getters are read on the node's MAIN app state between blocks, as RPC / ceremony / mempool code of a running node does for StateDB; for the main "
                    "IdentityStateDB the production code only reads the flags while it applies a block (blockchain.applyStatusSwitch), so what the class identity-state of (g) reports on the unchanged tree (IdentityStateDB.SwitchToPreliminary keeps the live-object cache) is a latent defect of the object, not one a production call path reaches today"],
}
