from driver import Job

SPEC = {
    "engine": "E1", "level": "exploration",
    "technique": "replay monitor (identity diffs a node serves vs canonical identity roots, incl. reorged servers) + export/import differential + corruption injection on snapshot archives",
    "level_text": "(a) what a node stores and serves per height (GetIdentityDiff, as provideBlocks) is replayed with fast sync's own sequence on a "
                  "follower identity tree for every canonical height, for a straight server and a server that reorganised; (b) WriteSnapshot2 "
                  "at retained heights and of large synthetic states (multi-chunk, empty values, contract stores) imported with "
                  "RecoverSnapshot2 must reproduce root and full contents; (c) byte/bit flips stratified over the archive, truncations at "
                  "512-byte boundaries and random offsets, chunk drop/duplicate/reorder/foreign chunk: either accepted with exactly the "
                  "advertised root and contents, or refused with an empty target db; a panic is a violation; (d) an end-to-end fast sync (fast.go's functions in fast.go's order) from a straight and a reorged server must "
                  "yield exactly the canonical state and a node that keeps accepting the canonical blocks.",
    "level_note": "the state snapshot path is RecoverSnapshot2 as fast sync calls it; snapshot download/manifest handling over IPFS is not executed",
    "rule": "case = one height replayed or one import attempt; distinct_nontrivial = distinct non-empty diffs + distinct corrupted archives (snapshot, class, content hash)",
    "jobs": [Job("sync", "verifsim", "^TestVerifC11$", shards=(8, 16), timeout=(900, 3600))],
    "floors": {"diffs_replayed": (2000, 20000), "diffs_nonempty": 200, "server_reorgs": 100, "snapshot_roundtrips": 20, "max_chunks_in_one_archive": 2,
               "corruption:byte-flip": (2000, 20000), "corruption:truncate-512": 300, "corruption:truncate-random": 100, "corruption:chunk-drop": 20,
               "corruption:chunk-duplicate": 20, "corruption:chunk-reorder": 4, "corruption:chunk-from-other-archive": 10,
               "outcome:refused": 1000, "outcome:accepted": 50,
               "fast_syncs_completed:straight-server": 20, "fast_syncs_completed:reorged-server": 20},
    "parallel": 16,
    "assumptions": ["consensus config V12"],
}
