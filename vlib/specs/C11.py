from driver import Job

SPEC = {
    "engine": "E1", "level": "exploration",
    "technique": "replay monitor (identity diffs a node serves vs canonical identity roots, incl. reorged servers) + export/import differential + corruption injection on snapshot archives "
                 "+ the REAL protocol.fastSync driven over two real gossip handlers (wire path included) with replay / state-equality / continuation oracles on the fast-synced node "
                 "and on a second-generation node synced from it",
    "level_text": "(a) what a node stores and serves per height (GetIdentityDiff, as provideBlocks) is replayed with fast sync's own sequence on a "
                  "follower identity tree for every canonical height, for a straight server and a server that reorganised; (b) WriteSnapshot2 "
                  "at retained heights and of large synthetic states (multi-chunk, empty values, contract stores) imported with "
                  "RecoverSnapshot2 must reproduce root and full contents; (c) byte/bit flips stratified over the archive, truncations at "
                  "512-byte boundaries and random offsets, chunk drop/duplicate/reorder/foreign chunk: either accepted with exactly the "
                  "advertised root and contents, or refused with an empty target db; a panic is a violation; (d) an end-to-end fast sync (fast.go's functions in fast.go's order, emulated by hand) "
                  "from a straight and a reorged server must yield exactly the canonical state and a node that keeps accepting the canonical blocks; "
                  "(e) job 'realsync': the real fastSync object (preConsuming, processBatch -> validateHeader / applyDeferredBlocks / reload+ban, postConsuming -> "
                  "SnapshotManager.DownloadSnapshot, RecoverSnapshot2, SaveForcedVersion, AtomicSwitchToPreliminary) of a fresh or partially full-synced node, fed through the "
                  "real wire path (GetBlocksRange -> peer writer -> msgio/S2 bytes -> the server handler's handle/provideBlocks -> bytes -> the node's handle -> batch) by three kinds of "
                  "servers (straight, reorganised, certificates kept as a consensus follower keeps them so that cert-less headers are deferred), with the downloader's and with small "
                  "batch sizes, with the sync interrupted and resumed by a new applier (also across a restart of the node on its surviving db). On the synced node: for EVERY synced "
                  "height the stored header is the canonical one and the stored identity diff (chain.GetIdentityDiff = what it serves), replayed in order on the identity state of the "
                  "start height, reproduces the canonical identity root; head / roots / full contents of both trees equal the fully synced node's at the snapshot height; the node "
                  "accepts the following canonical blocks and ends in the same state; a second-generation node fast-syncs by the same real path FROM the fast-synced node (from the "
                  "headers, certificates and diffs that node stores and serves) and must pass the same oracles. A refused sync of correct artifacts is a violation.",
    "level_note": "the state snapshot path is RecoverSnapshot2 as fast sync calls it; in (e) the snapshot travels through SnapshotManager.DownloadSnapshot from the in-memory ipfs stub, "
                  "but the manifest is built by the harness from the serving node's own WriteSnapshot2 export (manifest gossip / best-manifest selection and real IPFS are not executed), "
                  "and the ~10 lines of Downloader.Load that cut the range into batches are mirrored (batches are requested and consumed one at a time). libp2p host / connection / stream "
                  "are in-memory fakes. The certificate retention rule of the sparse-certificate server (consensus/engine.go + IsPermanentCert) is mirrored with a certificate range of 40.",
    "rule": "case = one height replayed, one import attempt, one real fast sync or one following block applied on a fast-synced node; distinct_nontrivial = distinct non-empty diffs "
            "(per job / generation) + distinct corrupted archives (snapshot, class, content hash) + distinct real syncs (generation, server, world, start height, snapshot height, batch size, interruption)",
    "jobs": [Job("sync", "verifsim", "^TestVerifC11$", shards=(8, 16), timeout=(900, 7200)),
             Job("realsync", "protocol", "^TestVerifC11FastSync$", shards=(6, 12), timeout=(900, 7200), extra_tags="c11")],
    "floors": {"diffs_replayed": (2000, 20000), "diffs_nonempty": 200, "server_reorgs": 100, "snapshot_roundtrips": 20, "max_chunks_in_one_archive": 2,
               "corruption:byte-flip": (2000, 20000), "corruption:truncate-512": 300, "corruption:truncate-random": 100, "corruption:chunk-drop": 20,
               "corruption:chunk-duplicate": 20, "corruption:chunk-reorder": 4, "corruption:chunk-from-other-archive": 10,
               "outcome:refused": 1000, "outcome:accepted": 50,
               "fast_syncs_completed:straight-server": 20, "fast_syncs_completed:reorged-server": 20,
               # job realsync (real protocol.fastSync)
               "real_fast_syncs": (80, 450), "real_fast_syncs:gen2": (40, 220),
               "real_fast_syncs_completed:gen1:straight-server": (12, 70), "real_fast_syncs_completed:gen1:reorged-server": (12, 70),
               "real_fast_syncs_completed:gen1:sparse-cert-server": (12, 70),
               "real_fast_syncs_completed:gen2:straight-server": (12, 70), "real_fast_syncs_completed:gen2:reorged-server": (12, 70),
               "real_fast_syncs_completed:gen2:sparse-cert-server": (12, 70),
               "real_sync_heights": (10000, 100000), "real_sync_diffs_nonempty": (1200, 13000),
               "real_sync_diffs_nonempty:empty-block": (150, 2000), "real_sync_diffs_nonempty:proposed-block-without-txs": (80, 1400),
               "real_sync_validation_finished_blocks": (80, 1400), "real_sync_snapshot_flag_blocks": (400, 6000),
               "real_sync_heights_served_without_cert": (500, 12000), "real_sync_batches_ending_with_deferred_headers": (6, 150),
               "real_sync_resumed": (15, 120), "real_sync_resumed_after_restart": (5, 50),
               "real_sync_state_compared_with_full_node": (80, 450), "real_sync_following_blocks_accepted": (1500, 12000),
               "real_sync_blocks_with_body_fetched_by_bloom": (1000, 13000)},
    "parallel": 16,
    "assumptions": ["consensus config V12",
                    "job realsync: wall-clock timeouts of the real code (20 s per block in processBatch, 20 s handshake) that expire without a preceding refusal by the node give an "
                    "inconclusive result, not a violation"],
}
