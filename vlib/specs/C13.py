from driver import Job

SPEC = {
    "engine": "E2+E1",
    "technique": "reference-model monitor (overlay store vs plain store) + before/after digests and fresh-view root probes around speculative activities "
                 "on a replica of a generated chain + historical / held read-only views compared with values recorded at commit time",
    "level_text": "Every operation of generated op sequences on the copy-on-write store is compared with a plain store pre-loaded "
                  "with the same data; the base is digested before/after. "
                  "On a replica of a generated multi-node chain every speculative activity (ValidateBlock of foreign proposals, ProposeBlock incl. proposals that deploy a "
                  "never-seen WASM code and are thrown away, ForCheck views written / precommitted / committed, ValidateSubChain, read-only queries with creating accessors) is "
                  "bracketed by digests of head, roots, stored versions and all state-tree keys, followed by a fresh check view of the head that is precommitted without writes "
                  "and must reproduce the canonical roots; a block every other replica accepts must not be refused by this replica. Read-only views of all retained heights, "
                  "views held across 1..3 further block commits, and views after a height was re-committed with another block are compared with the values recorded when "
                  "the height was committed. Held on the sequences run, not a proof.",
    "level_note": "trusted: tm-db MemDB as reference; generator reach (small key universes, all op kinds, bounds on/off keys)",
    "level": "exploration",
    "rule": "case = one operation of a generated sequence executed on BackedMemDb(base) and on a reference MemDB pre-loaded "
            "with base (results compared), plus chain-level guarded activities; distinct_nontrivial = distinct sequences "
            "(hash of base contents + op list) that iterate over a range containing a shadowed or deleted base key",
    "jobs": [
        Job("store", "database", "^TestVerifC13Store$", shards=(4, 16)),
        Job("chain", "verifsim", "^TestVerifC13Chain$", shards=(8, 16), timeout=(900, 7200)),
    ],
    "floors": {"op_iter_reverse": 100, "op_batch_written": 100, "op_batch_abandoned": 50, "iter_over_touched_base_key": 100,
               "activity:ValidateBlock": 50, "activity:ProposeBlock": 100, "activity:ForCheck+writes+Precommit+Commit": 100,
               "activity:ValidateSubChain(ForCheckWithOverwrite)": 100, "activity:Readonly-queries": 100, "historical_reads": 5000,
               "pruned_height_reads": 500, "reads_after_reorg": 40,
               "wasm_deploys_in_discarded_proposals": 50, "held_view_reads": 400, "fresh_view_root_checks": 700,
               "snapshot_exports": 80, "snapshot_exports_of_older_heights": 50},
    "parallel": 16,
    "assumptions": ["chain part: ProposeBlock may write its tx-applying log / black list (node database, not canonical state): only state-tree keys are compared for it", "reference store = tm-db MemDB pre-loaded with the base contents",
                    "no writes while an iterator is open (tm-db MemDB iterators hold a read lock)"],
}
