from driver import Job

SPEC = {
    "engine": "E4",
    "level": "exploration",
    "technique": "API-boundary event log (one sequence counter) of the real tracker/manager under concurrent announcers, "
                 "FIFO markers through the request channels, linear-scan oracles; Go race detector",
    "level_text": "Randomised concurrent workloads (8 peer goroutines x 200 hashes per run, reactive and spontaneous arrivals, "
                  "armed delay point) against the real DefaultPushTracker/DefaultHolder and the real PushPullManager, with and "
                  "without -race. Held on the schedules that occurred, not a proof.",
    "level_note": "trusted: Go channel FIFO order, monotonic clock, time.Sleep sleeping at least its argument; schedules are "
                  "whatever the runtime produced (not enumerated)",
    "rule": "case = one run (one workload plan executed against fresh tracker/manager objects); distinct_nontrivial = distinct "
            "per-hash event-order signatures (sequence of direct/queued/known announcements, requests and the arrival, peers "
            "numbered by first appearance) of hashes with >= 2 announcers and >= 1 request or arrival",
    "jobs": [
        Job("tracker", "common/pushpull", "^TestVerifC20Tracker$", shards=(2, 8), timeout=(300, 1500),
            env={"VERIF_C20_EXPIRY": "1"}),
        Job("tracker-race", "common/pushpull", "^TestVerifC20Tracker$", race=True, shards=(2, 8), timeout=(300, 1500),
            env={"VERIF_C20_BARE_EVERY": "4"}),
        Job("manager", "protocol", "^TestVerifC20Manager$", shards=(2, 8), timeout=(300, 1500)),
        Job("manager-race", "protocol", "^TestVerifC20Manager$", race=True, shards=(2, 8), timeout=(300, 1500),
            env={"VERIF_C20_BARE_EVERY": "4"}),
    ],
    "parallel": 8,
    "floors": {
        "hashes_fallback_seen": 200,
        "hashes_arrival_before_fallback": 200,
        "known_item_announcements": 200,
        "cap_path_pendings": 500,
        "items_sharing_hash_value_across_types": 300,
        "flood_cap_reached": 1,
        "race_detector_runs": 4,
    },
    "assumptions": [
        "every (peer, hash) pair is announced at most once per run (the manager does not deduplicate repeated announcements of one peer)",
        "runs are far shorter than the 3-minute item cache and the 5-minute registry expiry; expiry is only observed in the thorough tier (one real gc period)",
        "the request channels never fill up (the consumer is always running; sampled channel length is checked)",
    ],
}
