from driver import Job

SPEC = {
    "engine": "E1+E2", "level": "exploration",
    "technique": "(a) exhaustive enumeration of the real status decision function over a boundary grid, asserting only the stated implications; "
                 "(b) differential replicas around REAL validation ceremonies driven by scripted actors: first evaluation vs per-height cache vs "
                 "ceremony objects re-created after a restart in every phase vs replicas with reordered / delayed / lossy / empty mempools vs a node "
                 "that validated a competing proposal vs replicas that saw a MINORITY BLOCK with answers txs and were moved to the canonical chain by the real fork "
                 "resolver (ResetTo -> BlockchainResetEvent; the txs dropped for good or re-included later; restart before / right after / some blocks after the "
                 "switch / not at all; switch before or after the network finished the validation), K re-executions per variant, canonicalised epoch results and "
                 "full state contents compared; (c) the same worlds started from a genesis with TWO shards (job shards), plus an implication oracle on the "
                 "evidence majority computed from the harness' own record of the evidence txs on chain",
    "level_text": "(a) determineNewIdentityState is evaluated on the complete cross product of 9 prior statuses x 6 required/made-flips cases x 64 flag "
                  "combinations (missed, noQualShort, noQualLong, epoch>=93, upgrade10, upgrade12) x 5 short-session qualified counts x 10 total-flip counts "
                  "around 13/24/32 x 11^3 score triples on 0, 1 and 0.6/0.75/0.92 +-1 float32 ulp (2.3e8 cases, both tiers). "
                  "(b) Small networks (3 node identities + god + 9..24 genesis identities of every status, plus invitees) run several complete epochs with the real "
                  "ValidationCeremony/Flipper/KeysPool wired as node.go wires them: invitations, activations, delegations incl. transitive shapes, self-kills, real "
                  "flip submissions through the Flipper, answer hashes, short answers (consistent / wrong salt / wrong words rnd / missing), long answers with grades "
                  "and reports from a per-flip truth and per-actor accuracy, evidence bitmaps (honest / lazy / empty / none). The validation-finishing block built by "
                  "the proposer must be accepted K times by every variant; the canonicalised TotalValidationResult of every evaluation and the full post-state "
                  "contents must be equal; the stated implications are re-checked on the real outcomes. "
                  "Minority-block histories (8 of 10 epochs, 8 variants): one or two fully participating candidates hand their long and/or short answers tx (and evidence) "
                  "to one node only; when no other answers tx is under way that node proposes a block with them, which only the targets (one or both restarted followers, "
                  "the blind follower, a proposing node) receive and insert; the rest of the network agrees on other blocks. The targets then get onto the canonical chain the way a node does: their top block hashes go to a replica on the "
                  "canonical chain whose real Blockchain.ReadBlockForForkedPeer answers with the blocks above the common ancestor (one more than the asker's branch has) and their "
                  "certificates; the target's consensus.ForkResolver checks and applies them (processBlocks/ValidateSubChain, ApplyFork = Blockchain.ResetTo + AddBlock); the reverted "
                  "txs are re-offered to the own pool as consensus.Engine does; the rest arrives block by block. Variants: the txs never come back (targets are observers) / come back through the pool of a reorganised proposing node; the "
                  "reorganised replica restarted right after the switch, 1-2 blocks later (before / after the re-inclusion), only at the final block, not at all, or in an "
                  "earlier phase; the switch happens two blocks later, or (late variants) the minority block sits in the last slot before the validation-finishing block and the "
                  "target comes back after the network finished the validation, so that the peer's two-block answer contains the validation-finishing block (with a control history "
                  "in which both branches carry the same ceremony txs). All replicas end on the same canonical chain and are compared as above. "
                  "(c) Job shards: 20 (quick) / 112 (thorough) worlds whose genesis state has ShardsNum=2 and every identity assigned to shard 1 or 2 (smaller shard 1/4..1/2 "
                  "of the identities), one complete epoch each with everything of (b); evidence bitmaps are built per shard over the ceremony's own per-shard candidate list; "
                  "per shard up to two fully participating candidates commit their answers hash only in the long session (hash, short and long answers on chain, but no "
                  "honest evidence map of their shard confirms them), preferably at list positions where the other shard's candidate IS confirmed. In both jobs every "
                  "candidate that at most half of the evidence maps of its own shard confirm must not be validated afterwards. Held on the epochs run, not a proof.",
    "level_note": "Readings: 'missed the session' = the `missed` input of the decision function (in ApplyNewEpoch: not approved by the on-chain evidence majority, or no short "
                  "answers, or no long answers recorded from blocks before the validation-finishing block); noQualShort/noQualLong do NOT exempt a missed identity in the "
                  "code (missed is tested first), so the implication is asserted for all flag combinations. "
                  "Evidence part of 'missed' (oracle rule:real:evidence-minority-validated): a ceremony candidate of shard s is NOT confirmed if at most half of the evidence "
                  "maps that candidates of shard s have in blocks BEFORE the validation-finishing block set its bit (a tie is no majority; CalculateApprovedCandidates "
                  "asks for len/2+1); such a candidate must not be Newbie/Verified/Human afterwards. Only this direction is asserted (the property "
                  "does not promise validation to anybody); a shard without any evidence map is not judged; void ceremonies are excluded as below. The maps are the harness' own record "
                  "(which candidates of its shard each sender confirmed, whether and where the tx was included), not read back from the node. Maps of other shards index another "
                  "candidate list and say nothing about the candidate; the counter unconfirmed_only_by_evidence_with_foreign_majority counts candidates for which the bits other shards' "
                  "maps have at the same list position WOULD make up a majority of all maps (where counting foreign maps would show). "
                  "Two shards: the simulator pre-populates the state every replica generates its genesis block from (Options.GenesisTweak: ShardsNum, ShardId per identity, shard sizes); "
                  "no code is changed. balanceShards merges so small a network into one shard in the first validation-finishing block, so a two-shard ceremony is always the first "
                  "ceremony of a world: only god has flips, the shard without god has none (noQualShort path: the outcome of its candidates hangs on `missed` alone). "
                  "Minority block: built by a harness-fed observer owned by a node identity with the real ProposeBlock, received by the targets through the normal receiving path; "
                  "the minority branch is one block deep, the peer's fork answer therefore two blocks (late variants: the second one is the validation-finishing block); fork "
                  "bundles carry the real quorum certificates the harness' key holders sign. The history is started only when no other answers tx waits in a pool or on the wire, "
                  "because ANY later new answers tx rewrites the whole persisted answer store (which would mask a stale store). "
                  "GENUINE FINDING of the late variant on the unchanged tree (signature epoch-result-differs:fork-with-validation-finishing-block:branches-differ-in-ceremony-txs): "
                  "a node whose own branch differs from the canonical one in ceremony txs above the common ancestor (here: it inserted a block with a late answers tx in the last "
                  "slot before the validation-finishing block) refuses the certified fork answer that contains the validation-finishing block with 'invalid block roots' (or, when the "
                  "state roots happen to coincide, adopts it with a different TotalValidationResult): ValidateSubChain evaluates the epoch through ValidationCeremony.ApplyNewEpoch from the ceremony store of the node's OWN branch "
                  "(answers/evidence of reverted blocks are dropped only by ResetTo, those of the fork's blocks added only by AddBlock, both after the fork was validated); a restart "
                  "does not help (the store is persisted), a wipe + sync from genesis does; the control history (same ceremony txs on both branches) is adopted. "
                  "'lacked its required flips' = len(Flips) < RequiredFlips. "
                  "'never come back' is read as: prior Killed/Undefined => result in {Killed, Undefined} (an Undefined identity that lacks flips is reported Killed by the "
                  "function; both are 'terminated'). On real outcomes a killed identity reads back as Undefined because its object is removed. "
                  "A VOID ceremony (nobody at all qualifies: ApplyNewEpoch returns Failed and leaves every status untouched by design) is excluded from the outcome "
                  "implications and counted separately. Trusted: the harness' record of which ceremony txs were included in which block; state.Identity as read from the "
                  "reference replica. Known finding this check demonstrates: with a delegation chain A->P->Q->R in which A and P both become validated in the same "
                  "ceremony, applyOnState reads P's delegatee inside `range` over a Go map that may already have removed it, so the epoch result (state root) depends on "
                  "map iteration order (signature epoch-result-order-dependent:transitive-delegation-chain); the 3-link chain is built only in the last epoch of every "
                  "second world because the world rarely survives it.",
    "rule": "case = one evaluation of the decision function on one grid point, or one execution of one validation-finishing block by one variant "
            "(proposer cached / node first+cached / sees-all / blind / restarted-in-phase / fresh object / after a competing proposal / after a fork switch that reverted answers txs); "
            "distinct_nontrivial = distinct (prior, flips case, flags, outcome) classes reached from score triples on a threshold boundary, "
            "plus distinct real epochs (final block hash) in which at least one identity changed status",
    "jobs": [
        Job("rules", "core/ceremony", "^TestVerifC17Rules$", shards=(4, 8), timeout=(600, 1200)),
        Job("real", "verifsim", "^TestVerifC17Real$", shards=(8, 16), timeout=(1200, 5400)),
        Job("shards", "verifsim", "^TestVerifC17Shards$", shards=(4, 8), timeout=(1200, 5400)),
    ],
    "parallel": 16,
    "floors": {
        # (a) functions of the grid only
        "rule_cases": 229996800,
        "rule_prior_Undefined": 384, "rule_prior_Invite": 384, "rule_prior_Candidate": 384, "rule_prior_Newbie": 384, "rule_prior_Verified": 384,
        "rule_prior_Human": 384, "rule_prior_Suspended": 384, "rule_prior_Zombie": 384, "rule_prior_Killed": 384,
        "rule_combos_missed": 1728, "rule_combos_lacking_flips": 1728,
        # (b) the scenario structure (worlds, epochs, variants, restart phases) is a function of (tier, shard); PRNG-dependent
        # class counts carry a wide margin
        "real_epochs_driven": (28, 450),
        "real_epochs_finished": (22, 380),
        "real_epochs_with_status_change": (22, 380),
        "evals_first_pass": (260, 5500),
        "evals_cache_hit": (850, 25000),
        "restart_at_lottery": (14, 220), "restart_at_short": (14, 220), "restart_at_long": (14, 220), "restart_at_afterlong": (14, 220),
        "restart_at_final": (66, 2300),
        "variant_blind_first": (22, 380), "variant_node_first": (44, 760), "variant_restart_first": (44, 760), "variant_fresh_first": (66, 2300),
        "variant_sees_first": (22, 380), "variant_proposer_cached": (200, 4500), "variant_rival_cached": (60, 2200), "variant_alt_cached": (60, 2200),
        "competing_proposals_built": (22, 380),
        "restart_of_proposing_node": (8, 130), "final_block_built_by_restarted_node": (1, 15),
        "real_lacking_flips": (6, 250), "real_sent_nothing": (25, 700), "real_unactivated_invites": (15, 380),
        "real_delegated_identities": (60, 1400), "real_transitive_chain2_epochs": (5, 140), "real_transitive_delegation_removed": (4, 130),
        "real_prior_Candidate": (90, 2000), "real_prior_Newbie": (70, 1900), "real_prior_Verified": (35, 800), "real_prior_Human": (100, 2000),
        "real_prior_Suspended": (25, 550), "real_prior_Zombie": (8, 280), "real_prior_Invite": (15, 380), "real_prior_Undefined": (10, 300),
        "real_epochs_with_rewarded_reporters": (8, 220), "real_epochs_with_bad_authors": (8, 220), "real_epochs_with_pools": (12, 300),
        "distinct_map_orders_witnessed": (400, 20000),
        # (b) minority-block histories (variant and target sets are functions of (process shard, world, epoch); whether a history can be
        # played depends on the PRNG-driven mempools: wide margin)
        "answers_reorgs": (20, 260), "answers_reorgs_in_long": (5, 60), "answers_reorgs_in_afterlong": (8, 100),
        "answers_reorg_variant_0": (3, 36), "answers_reorg_variant_1": (3, 36), "answers_reorg_variant_2": (3, 36), "answers_reorg_variant_3": (3, 36),
        "answers_reorg_variant_4": (3, 36), "answers_reorg_variant_5": (3, 36), "answers_reorg_variant_6": (2, 30), "answers_reorg_variant_7": (2, 30),
        "epochs_without_answers_reorg_planned": (5, 60),
        "answers_txs_reverted": (36, 450), "answers_txs_reverted_not_reincluded": (24, 300), "answers_txs_reverted_reincluded": (10, 120),
        "evidence_txs_reverted_not_reincluded": (4, 50),
        "epochs_with_dropped_answers": (12, 150), "victims_whose_outcome_hangs_on_dropped_answers": (12, 150),
        "restart_after_answers_reorg": (34, 420), "replicas_restarted_after_dropping_reorg": (15, 190), "replicas_not_restarted_after_dropping_reorg": (5, 60),
        "replicas_restarted_before_answers_reorg": (18, 220), "evals_by_replica_after_answers_reorg": (110, 2000),
        "late_partitions_branches-differ-in-ceremony-txs": (2, 30), "late_partitions_same-ceremony-txs-on-both-branches": (2, 30),
        # evidence implication, job real (one shard)
        "evidence_maps_on_chain_shard1": (220, 3000), "real_confirmed_by_evidence": (450, 6000), "real_unconfirmed_by_evidence": (50, 700),
        "real_unconfirmed_by_evidence_only": (8, 120),
        # (c) job shards: the world structure is a function of (tier, shard)
        "ms_epochs_with_two_shards": (16, 90), "ms_real_epochs_finished": (16, 90), "ms_shards_after_first_validation_1": (16, 90),
        "ms_ceremony_candidates_shard1": (170, 950), "ms_ceremony_candidates_shard2": (170, 950),
        "ms_evidence_maps_on_chain_shard1": (100, 560), "ms_evidence_maps_on_chain_shard2": (100, 560),
        "ms_planted_unseen_candidates": (50, 280), "ms_real_shards_without_flips": (16, 90),
        "ms_real_confirmed_by_evidence": (250, 1400), "ms_real_unconfirmed_by_evidence": (90, 500), "ms_real_unconfirmed_by_evidence_only": (50, 280),
        "ms_unconfirmed_with_foreign_majority_at_same_index": (25, 140), "ms_unconfirmed_only_by_evidence_with_foreign_majority": (15, 85),
        "ms_evals_first_pass": (180, 1000), "ms_evals_cache_hit": (450, 3500), "ms_restart_at_final": (30, 330),
        "ms_answers_reorgs": (6, 35), "ms_answers_txs_reverted_not_reincluded": (4, 30),
    },
    "assumptions": [
        "two-shard ceremonies are always the FIRST ceremony of a world (a network below 2400 identities per shard is merged into one shard by the validation-finishing block), "
        "so they have at most god's flips; lotteries with flips in several shards are observed at function level under C16",
        "the minority branch of a reorganisation is one block deep and is proposed by a harness-fed observer owned by a node identity; the reorganised replicas are followers or one "
        "proposing node; a reorganisation of ALL replicas at once is not played",
        "consensus V12 in 6 of 8 shards, V11 and V10 in one each (validation.SetAppConfig is process-global: one version per child process)",
        "KillTx / KillDelegatorTx / DelegateTx are refused from the flip lottery on, so 'killed mid-ceremony' is only reachable before the lottery (after flips were submitted)",
        "node identities are Human and answer perfectly so that proposed blocks keep coming; the god node sees every tx at once and numbers nonces",
        "flip content is opaque bytes stored through the real Flipper (nothing on chain depends on decrypting it); flip keys are not published",
        "the harness waits (real time, bounded) for each replica's asynchronous lottery calculation before producing the next block",
    ],
}
