from driver import Job

SPEC = {
    "engine": "E1+E2", "level": "exploration",
    "technique": "(a) exhaustive enumeration of the real status decision function over a boundary grid, asserting only the stated implications; "
                 "(b) differential replicas around REAL validation ceremonies driven by scripted actors: first evaluation vs per-height cache vs "
                 "ceremony objects re-created after a restart in every phase vs replicas with reordered / delayed / lossy / empty mempools vs a node "
                 "that validated a competing proposal, K re-executions per variant, canonicalised epoch results and full state contents compared",
    "level_text": "(a) determineNewIdentityState is evaluated on the complete cross product of 9 prior statuses x 6 required/made-flips cases x 64 flag "
                  "combinations (missed, noQualShort, noQualLong, epoch>=93, upgrade10, upgrade12) x 5 short-session qualified counts x 10 total-flip counts "
                  "around 13/24/32 x 11^3 score triples on 0, 1 and 0.6/0.75/0.92 +-1 float32 ulp (2.3e8 cases, both tiers). "
                  "(b) Small networks (3 node identities + god + 9..24 genesis identities of every status, plus invitees) run several complete epochs with the real "
                  "ValidationCeremony/Flipper/KeysPool wired as node.go wires them: invitations, activations, delegations incl. transitive shapes, self-kills, real "
                  "flip submissions through the Flipper, answer hashes, short answers (consistent / wrong salt / wrong words rnd / missing), long answers with grades "
                  "and reports from a per-flip truth and per-actor accuracy, evidence bitmaps (honest / lazy / empty / none). The validation-finishing block built by "
                  "the proposer must be accepted K times by every variant; the canonicalised TotalValidationResult of every evaluation and the full post-state "
                  "contents must be equal; the stated implications are re-checked on the real outcomes. Held on the epochs run, not a proof.",
    "level_note": "Readings: 'missed the session' = the `missed` input of the decision function (in ApplyNewEpoch: not approved by the on-chain evidence majority, or no short "
                  "answers, or no long answers recorded from blocks before the validation-finishing block); noQualShort/noQualLong do NOT exempt a missed identity in the "
                  "code (missed is tested first), so the implication is asserted for all flag combinations. 'lacked its required flips' = len(Flips) < RequiredFlips. "
                  "'never come back' is read as: prior Killed/Undefined => result in {Killed, Undefined} (an Undefined identity that lacks flips is reported Killed by the "
                  "function; both are 'terminated'). On real outcomes a killed identity reads back as Undefined because its object is removed. "
                  "A VOID ceremony (nobody at all qualifies: ApplyNewEpoch returns Failed and leaves every status untouched by design) is excluded from the outcome "
                  "implications and counted separately. Trusted: the harness' record of which ceremony txs were included in which block; state.Identity as read from the "
                  "reference replica. Known finding this check demonstrates: with a delegation chain A->P->Q->R in which A and P both become validated in the same "
                  "ceremony, applyOnState reads P's delegatee inside `range` over a Go map that may already have removed it, so the epoch result (state root) depends on "
                  "map iteration order (signature epoch-result-order-dependent:transitive-delegation-chain); the 3-link chain is built only in the last epoch of every "
                  "second world because the world rarely survives it.",
    "rule": "case = one evaluation of the decision function on one grid point, or one execution of one validation-finishing block by one variant "
            "(proposer cached / node first+cached / sees-all / blind / restarted-in-phase / fresh object / after a competing proposal); "
            "distinct_nontrivial = distinct (prior, flips case, flags, outcome) classes reached from score triples on a threshold boundary, "
            "plus distinct real epochs (final block hash) in which at least one identity changed status",
    "jobs": [
        Job("rules", "core/ceremony", "^TestVerifC17Rules$", shards=(4, 8), timeout=(600, 1200)),
        Job("real", "verifsim", "^TestVerifC17Real$", shards=(8, 16), timeout=(1200, 5400)),
    ],
    "parallel": 16,
    "floors": {
        # (a) functions of the grid only
        "rule_cases": 229996800,
        "rule_prior_Undefined": 384, "rule_prior_Invite": 384, "rule_prior_Candidate": 384, "rule_prior_Newbie": 384, "rule_prior_Verified": 384,
        "rule_prior_Human": 384, "rule_prior_Suspended": 384, "rule_prior_Zombie": 384, "rule_prior_Killed": 384,
        "rule_combos_missed": 1728, "rule_combos_lacking_flips": 1728,
        # (b) the scenario structure (worlds, epochs, variants, restart phases) is a function of (tier, shard); PRNG-dependent
        # class counts carry a wide margin
        "real_epochs_driven": (28, 450),
        "real_epochs_finished": (22, 380),
        "real_epochs_with_status_change": (22, 380),
        "evals_first_pass": (260, 5500),
        "evals_cache_hit": (850, 25000),
        "restart_at_lottery": (14, 220), "restart_at_short": (14, 220), "restart_at_long": (14, 220), "restart_at_afterlong": (14, 220),
        "restart_at_final": (66, 2300),
        "variant_blind_first": (22, 380), "variant_node_first": (44, 760), "variant_restart_first": (44, 760), "variant_fresh_first": (66, 2300),
        "variant_sees_first": (22, 380), "variant_proposer_cached": (200, 4500), "variant_rival_cached": (60, 2200), "variant_alt_cached": (60, 2200),
        "competing_proposals_built": (22, 380),
        "restart_of_proposing_node": (8, 130), "final_block_built_by_restarted_node": (1, 15),
        "real_lacking_flips": (6, 250), "real_sent_nothing": (25, 700), "real_unactivated_invites": (15, 380),
        "real_delegated_identities": (60, 1400), "real_transitive_chain2_epochs": (5, 140), "real_transitive_delegation_removed": (4, 130),
        "real_prior_Candidate": (90, 2000), "real_prior_Newbie": (70, 1900), "real_prior_Verified": (35, 800), "real_prior_Human": (100, 2000),
        "real_prior_Suspended": (25, 550), "real_prior_Zombie": (8, 280), "real_prior_Invite": (15, 380), "real_prior_Undefined": (10, 300),
        "real_epochs_with_rewarded_reporters": (8, 220), "real_epochs_with_bad_authors": (8, 220), "real_epochs_with_pools": (12, 300),
        "distinct_map_orders_witnessed": (400, 20000),
    },
    "assumptions": [
        "one shard (shard balancing needs thousands of identities); multi-shard lotteries are observed at function level under C16",
        "consensus V12 in 6 of 8 shards, V11 and V10 in one each (validation.SetAppConfig is process-global: one version per child process)",
        "KillTx / KillDelegatorTx / DelegateTx are refused from the flip lottery on, so 'killed mid-ceremony' is only reachable before the lottery (after flips were submitted)",
        "node identities are Human and answer perfectly so that proposed blocks keep coming; the god node sees every tx at once and numbers nonces",
        "flip content is opaque bytes stored through the real Flipper (nothing on chain depends on decrypting it); flip keys are not published",
        "the harness waits (real time, bounded) for each replica's asynchronous lottery calculation before producing the next block",
    ],
}
