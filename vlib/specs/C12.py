from driver import Job

_CODES = ["Handshake", "ProposeBlock", "ProposeProof", "Vote", "NewTx", "GetBlockByHash", "GetBlocksRange", "BlocksRange", "FlipBody",
          "FlipKey", "SnapshotManifest", "GetForkBlockRange", "FlipKeysPackage", "Push", "Pull", "Block", "UpdateShardId", "BatchPush",
          "BatchFlipKey", "Disconnect"]
_TXTYPES = ["Send", "Activation", "Invite", "Kill", "SubmitFlip", "AnswersHash", "ShortAnswers", "LongAnswers", "Evidence", "OnlineStatus",
            "KillInvitee", "ChangeGod", "Burn", "ChangeProfile", "DeleteFlip", "Deploy", "Call", "Terminate", "Delegate", "Undelegate",
            "KillDelegator", "StoreToIpfs", "ReplenishStake"]

_floors = {"inputs": (60000, 2000000), "tx_cases": (8000, 200000), "worlds_built": 4}
for _c in _CODES:
    _floors["reached:" + _c] = (40, 1000)
for _t in _TXTYPES:
    _floors["validator_reached:" + _t] = (20, 400)
    _floors["inblock_validator_reached:" + _t] = (5, 100)

SPEC = {
    "engine": "E3", "level": "exploration",
    "technique": "hostile-input monitor: the real gossip handler / validators fed generated, mutated and typed-hostile inputs; "
                 "panic capture, per-call watchdog and allocation meter; race detector + checkptr build of the frame level",
    "level_text": "Inputs: random bytes; well-formed frames of every message code built from real simulator objects and mutated at "
                  "byte level, at protobuf field level (drop/duplicate/retag, absent optionals, huge repeated counts, mismatched "
                  "lengths), at S2 level and at stream level; typed hostile objects (every tx type x recipient x payload x amount x "
                  "epoch/nonce shape signed by funded senders, re-signed hostile proposals, votes, keys, flips, block ranges). "
                  "They go through the peer stream's real read path into IdenaGossipHandler.handle and on into what the node runs "
                  "next (block validation of admitted proposals, sync / fork / next-block consumers of block ranges), and directly "
                  "into ValidateTx / TxPool / block validation / ValidateSubChain. Held on the inputs generated; not a proof.",
    "level_note": "trusted: Go runtime panic/recover, runtime.MemStats.TotalAlloc, goroutine dumps; libp2p host and streams are fakes "
                  "(only Read/Write/Reset/Conn), ipfs is the in-memory stub; consensus V12; synthetic epoch results; a panic on one "
                  "of the node's own goroutines ends the child and is classified by the driver from the crash log",
    "rule": "case = one call of an entry point under the three oracles (Decode, Msg.FromBytes, handle, each follow-up consumer, "
            "each ValidateTx mode, pool admission, block validation ...); distinct_nontrivial = distinct inputs (hash of the bytes / "
            "of the object) that passed decoding and reached a handler or validator branch, keyed with the branch id "
            "(message code or tx type + outcome class + follow-up outcome)",
    "jobs": [
        Job("frames", "protocol", "^TestVerifC12Frames$", shards=(6, 12), timeout=(900, 5400), extra_tags="c12"),
        Job("frames-race", "protocol", "^TestVerifC12Frames$", race=True, shards=(4, 8), timeout=(900, 5400), extra_tags="c12",
            env={"VERIF_C12_SCALE": "0.12"}),
        Job("objects", "protocol", "^TestVerifC12Objects$", shards=(5, 10), timeout=(900, 5400), extra_tags="c12"),
        Job("forged", "protocol", "^TestVerifC12Forged$", shards=(1, 1), timeout=(600, 900), extra_tags="c12",
            ulimit_v=32 * 1024 * 1024),
    ],
    "parallel": 16,
    "floors": _floors,
    "assumptions": [
        "frames whose S2 header claims more than 48 MiB are executed only by the dedicated 'forged' job (skipped and counted elsewhere)",
        "block-range answers carrying more blocks than the open request can take are executed only by the 'forged' job",
        "consensus config V12; epoch results come from the synthetic epoch function",
        "libp2p is absent: host, connection and stream are fakes; the ipfs proxy is the in-memory stub",
    ],
}
