from driver import Job

_CODES = ["Handshake", "ProposeBlock", "ProposeProof", "Vote", "NewTx", "GetBlockByHash", "GetBlocksRange", "BlocksRange", "FlipBody",
          "FlipKey", "SnapshotManifest", "GetForkBlockRange", "FlipKeysPackage", "Push", "Pull", "Block", "UpdateShardId", "BatchPush",
          "BatchFlipKey", "Disconnect"]
_TXTYPES = ["Send", "Activation", "Invite", "Kill", "SubmitFlip", "AnswersHash", "ShortAnswers", "LongAnswers", "Evidence", "OnlineStatus",
            "KillInvitee", "ChangeGod", "Burn", "ChangeProfile", "DeleteFlip", "Deploy", "Call", "Terminate", "Delegate", "Undelegate",
            "KillDelegator", "StoreToIpfs", "ReplenishStake"]

_CAP = 16 * 1024 * 1024  # KiB

_floors = {
    "inputs": (150000, 3000000), "tx_cases": (40000, 800000), "worlds_built": 10, "world_epoch_ge1": 3,
    # non-vacuity: well-formed objects ARE accepted by the node the harness built
    "accepted:Vote": (100, 2000), "accepted:NewTx": (100, 2000), "accepted:ProposeBlock": (15, 300), "accepted:Block": (50, 1000),
    "accepted:FlipKey": (2, 12), "accepted:FlipKeysPackage": (2, 12), "accepted:FlipBody": (3, 60), "accepted:Handshake": (50, 1000),
    "accepted:SnapshotManifest": (300, 6000), "answered:GetBlockByHash": (50, 1000), "answered:GetBlocksRange": (200, 4000),
    "answered:GetForkBlockRange": (200, 4000), "answered:Pull": (15, 300),
    "fork_found_applicable": (20, 400), "sync_applied_blocks": (100, 2000), "next_block_confirmed": (1, 20),
    "subchain_accepted_valid": (50, 1000), "twin_blocks_inserted": (20, 400), "pool_admitted": (200, 4000),
    "forged_length_frames": 20, "range_overflow_cases": 1, "race_detector_runs": 4, "concurrent_frames": (10000, 200000),
}
for _c in _CODES:
    _floors["reached:" + _c] = (300, 8000)
for _t in _TXTYPES:
    _floors["validator_reached:" + _t] = (500, 15000)
    _floors["inblock_validator_reached:" + _t] = (150, 4000)

SPEC = {
    "engine": "E3", "level": "exploration",
    "technique": "hostile-input monitor: the real gossip handler / validators fed generated, mutated and typed-hostile inputs; "
                 "panic capture, per-call watchdog and allocation meter; race detector + checkptr build of the frame level",
    "level_text": "Inputs: random bytes; well-formed frames of every message code built from real simulator objects and mutated at "
                  "byte level, at protobuf field level (drop/duplicate/retag, absent optionals, huge repeated counts, mismatched "
                  "lengths), at S2 level and at stream level; typed hostile objects (every tx type x recipient x payload x amount x "
                  "epoch/nonce shape signed by funded senders, re-signed hostile proposals, votes, keys, flips, block ranges). "
                  "They go through the peer stream's real read path into IdenaGossipHandler.handle and on into what the node runs "
                  "next (block validation of admitted proposals, sync / fork / next-block consumers of block ranges), and directly "
                  "into ValidateTx / TxPool / block validation / ValidateSubChain. Held on the inputs generated; not a proof.",
    "level_note": "trusted: Go runtime panic/recover, runtime.MemStats.TotalAlloc, goroutine dumps; libp2p host and streams are fakes "
                  "(only Read/Write/Reset/Conn), ipfs is the in-memory stub; consensus V12; synthetic epoch results; a panic on one "
                  "of the node's own goroutines ends the child and is classified by the driver from the crash log",
    "rule": "case = one call of an entry point under the three oracles (Decode, Msg.FromBytes, handle, each follow-up consumer, "
            "each ValidateTx mode, pool admission, block validation ...); distinct_nontrivial = distinct inputs (hash of the bytes / "
            "of the object) that passed decoding and reached a handler or validator branch, keyed with the branch id "
            "(message code or tx type + outcome class + follow-up outcome)",
    "jobs": [
        # every plain child runs under a 16 GiB address-space cap: a runaway allocation ends that child
        # ("fatal error: out of memory", classified by the driver) instead of the machine
        Job("frames", "protocol", "^TestVerifC12Frames$", shards=(6, 12), timeout=(900, 5400), extra_tags="c12", ulimit_v=_CAP),
        Job("frames-race", "protocol", "^TestVerifC12Frames$", race=True, race_is_violation=False, shards=(4, 8), timeout=(900, 5400), extra_tags="c12",
            env={"VERIF_C12_SCALE": "0.12", "GOMEMLIMIT": "6GiB"}),
        Job("objects", "protocol", "^TestVerifC12Objects$", shards=(6, 12), timeout=(900, 5400), extra_tags="c12", ulimit_v=_CAP),
        Job("concurrent", "protocol", "^TestVerifC12Concurrent$", shards=(1, 2), timeout=(900, 5400), extra_tags="c12", ulimit_v=_CAP),
        Job("forged", "protocol", "^TestVerifC12Forged$", shards=(1, 1), timeout=(600, 900), extra_tags="c12", ulimit_v=_CAP),
    ],
    "parallel": 16,
    "floors": _floors,
    "assumptions": [
        "data races reported by the -race job are recorded in the evidence (coverage.info.race_reports_diagnostic_only) but are not C12 verdicts: the property speaks about panics, hangs and allocation; races are decided under C14/C20",
        "frames whose S2 header claims more than 48 MiB are executed only by the dedicated 'forged' job (skipped and counted elsewhere)",
        "block-range answers carrying more blocks than the open request can take are executed only by the 'forged' job",
        "consensus config V12; epoch results come from the synthetic epoch function",
        "libp2p is absent: host, connection and stream are fakes; the ipfs proxy is the in-memory stub",
        "frame-level cases are fed one at a time and the node's own intake goroutines are allowed to drain between cases "
        "(exact quiescence by goroutine state); only the 'concurrent' job serves several peers at once, without -race "
        "(data races between the node's own goroutines are C14's subject)",
        "the handler stage of a compressed frame is metered against the decompressed size it is handed; the expansion itself is "
        "metered on protocol.Decode against the bytes on the wire",
    ],
}
