from driver import Job

SPEC = {
    "engine": "E2",
    "level": "exploration",
    "technique": "reference-predicate monitor around the real certificate validator, vote admission + vote counter and "
                 "committee draw, on generated validator sets and vote multisets",
    "level_text": "Every decision of ValidateBlockCert on generated certificates is compared (two implications) with a quorum "
                  "predicate evaluated from the block, the parent and the drawn committee; every certificate the real countVotes "
                  "emits from votes admitted by Votes.AddVote is checked vote by vote and re-validated; the committee draw is "
                  "compared across caches built by Load / incremental diffs in several batchings / Clone and across child "
                  "processes (other shards, GOMAXPROCS 1 and 4). Held on the cases run, not a proof.",
    "level_note": "trusted: secp256k1 recover/sign, the vote signing encoding, IdentityStateDB as the store of the validator set; "
                  "threshold table / 0.65 / committee percentages are copied constants; eligibility of a partly discriminated "
                  "pool is taken from the code (property text silent); refusal of a quorum certificate that also carries a "
                  "foreign entry, and a countVotes timeout despite a quorum, are not verdicts",
    "rule": "case = one certificate decision, one countVotes run, or one committee draw compared across caches; "
            "distinct_nontrivial = distinct (profile, size class, pool/discrimination shape, step class, vote-multiset class, "
            "outcome) tuples",
    "jobs": [
        Job("cert", "consensus", "^TestVerifC07Cert$", shards=(8, 14), timeout=(600, 3000)),
        Job("draw1", "consensus", "^TestVerifC07Draw$", gomaxprocs=1, timeout=(300, 900)),
        Job("draw4", "consensus", "^TestVerifC07Draw$", gomaxprocs=4, timeout=(300, 900)),
    ],
    "parallel": 16,
    "floors": {
        "cert_decisions": (20000, 400000),
        "seed_switch_comparisons": (30000, 300000), "seed_switches_with_different_committees": (1000, 10000),
        "cert_accept": (2000, 20000),
        "cert_reject": (5000, 50000),
        "ref_genuine_quorum": (2000, 20000),
        "ref_below_quorum": (5000, 50000),
        "size_0": 20, "size_1": 20, "size_2": 20, "size_3": 20, "size_4": 20, "size_5": 20, "size_6": 20, "size_7": 20,
        "size_8": 20, "size_9": 20, "size_10_30": 50, "size_31_up": 10, "size_near_or_above_cap": 10,
        "committees_at_cap": 5, "committees_sampled": 100,
        "god_only_sets": 20,
        "sets_with_online_pools": 100, "pool_in_committee": 100, "discriminated_pool_seen": 20,
        "sets_with_discriminated": 100, "discriminated_member_seen": 100,
        "committees_with_subtrahend_or_collapsing": 100,
        "step_final": 100, "step_other": 100,
        "sets_with_churn": 100,
        "class_dup-same-sig": 100, "class_discr-pad": 50, "class_delegator-pad": 50, "class_round-consistent": 100,
        "class_forged-pad": 100, "class_outsider-pad": 100, "class_parent-pad": 100, "class_hash-pad": 100, "class_step-pad": 100,
        "countvotes_runs": (3000, 30000),
        "countvotes_certs": (1000, 10000),
        "countvotes_certs_accepted_by_validator": (1000, 10000),
        "countvotes_timeouts": (500, 5000),
        "committee_comparisons": (20000, 200000),
        "draw_peers_compared": 1,
    },
    "assumptions": [
        "validator sets are written directly into IdentityStateDB (shapes the protocol can produce: validated offline "
        "delegators, identity or non-identity pool owners, discrimination only on validated identities)",
        "consensus constants: small-size table 1,1,2,2,3,3,4,4,5; AgreementThreshold 0.65; CommitteePercent 0.3 / 0.7 final; "
        "MaxCommitteeSize 100 (profile 'smallcap' sets 0.5 / 0.8 / 12 to reach the cap with small sets)",
        "rounding = float64 product rounded half away from zero, as every node computes it",
    ],
}
