from driver import Job

SPEC = {
    "engine": "E2",
    "level": "exploration",
    "technique": "reflection-driven round-trip / field-sensitivity / signature-binding monitor on the real encoders",
    "level_text": "tmp",
    "level_note": "tmp",
    "rule": "tmp",
    "jobs": [
        Job("types", "blockchain/types", "^TestVerifC18Codec$", shards=(1, 4), timeout=(600, 3000)),
        Job("state", "core/state", "^TestVerifC18Codec$", shards=(1, 4), timeout=(600, 3000)),
        Job("snapshot", "core/state/snapshot", "^TestVerifC18Codec$", shards=(1, 1), timeout=(600, 3000)),
        Job("attachments", "blockchain/attachments", "^TestVerifC18Codec$", shards=(1, 2), timeout=(600, 3000)),
        Job("protocol", "protocol", "^TestVerifC18Codec$", shards=(1, 2), timeout=(600, 3000)),
        Job("flip", "core/flip", "^TestVerifC18Codec$", shards=(1, 1), timeout=(600, 3000)),
        Job("profile", "core/profile", "^TestVerifC18Codec$", shards=(1, 1), timeout=(600, 3000)),
        Job("mempool", "core/mempool", "^TestVerifC18Codec$", shards=(1, 1), timeout=(600, 3000)),
        Job("deferredtx", "deferredtx", "^TestVerifC18Codec$", shards=(1, 1), timeout=(600, 3000)),
    ],
    "floors": {},
    "assumptions": [],
}
