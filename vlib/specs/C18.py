from driver import Job

# Registered types per harness package (zz_verif_c18_test.go of that package). Each gets a
# floor on the number of values that went through O1-O3, so the evidence shows every type ran.
_TYPES = {
    "types": ["Transaction", "Header", "ProposedHeader", "EmptyBlockHeader", "Block", "Body", "Vote", "BlockCert",
              "BlockProposal", "ProofProposal", "Flip", "PublicFlipKey", "PrivateFlipKeysPackage", "TxReceipts",
              "TxReceipt", "SavedTransaction", "BurntCoins", "ActivityMonitor", "TransactionIndex", "TxReceiptIndex",
              "SavedEvent", "UpgradeVotes"],
    "state": ["Account", "Identity", "ApprovedIdentity", "Global", "IdentityStatusSwitch", "DelegationSwitch",
              "DelayedPenalties", "BurntCoins", "IdentityStateDiff"],
    "snapshot": ["Manifest"],
    "attachments": ["ShortAnswerAttachment", "LongAnswerAttachment", "FlipSubmitAttachment", "OnlineStatusAttachment",
                    "BurnAttachment", "ChangeProfileAttachment", "DeleteFlipAttachment", "CallContractAttachment",
                    "DeployContractAttachment", "TerminateContractAttachment", "StoreToIpfsAttachment"],
    "protocol": ["Msg", "handshakeData", "pushPullHash", "updateShardId", "msgBatch", "disconnect", "blockRange"],
    "flip": ["IpfsFlip"],
    "profile": ["Profile"],
    "mempool": ["keysArray"],
    "deferredtx": ["DeferredTxs"],
}
_SIGNED = ["Transaction", "Vote", "BlockProposal", "ProofProposal", "PublicFlipKey", "PrivateFlipKeysPackage"]

_floors = {
    # structural coverage (counted by shard 0 of each job only, so the sums are per-tree constants)
    "types_covered": sum(len(v) for v in _TYPES.values()),  # 54
    "o4_field_classes": 420,   # distinct (type, field-class) pairs whose single-field mutation was executed (428 on the pinned tree)
    "o5_types_covered": len(_SIGNED),
    "o5_field_classes": 60,    # distinct (signed type, field-class) pairs whose mutation broke the signature (62 on the pinned tree)
    # volume
    "o4_mutations": (60000, 2000000),
    "o5_mutations": (2000, 40000),
    "hash_checks": (20000, 500000),
    "cert_compress_checks": (200, 5000),
    "mode_zero": 54, "mode_full": 1000, "mode_max": 300, "mode_rand": 3000, "mode_sparse": 2000,
}
for _pkg, _names in _TYPES.items():
    for _n in _names:
        _floors["values_%s.%s" % (_pkg, _n)] = (500, 10000)
for _n in _SIGNED:
    _floors["o5_signed_types.%s" % _n] = (30, 500)

SPEC = {
    "engine": "E2",
    "level": "exploration",
    "technique": "reflection-driven round-trip, single-field-mutation and signer-recovery monitor on the real "
                 "ToBytes/FromBytes/Hash/Sign/Sender functions",
    "level_text": "For generated values of every encodable type (zero, fully populated, maximal, sparse and random incl. "
                  "nil/empty/edge values) the real encoders and decoders are executed and compared with themselves: "
                  "decode(encode(x)) equals x, re-encoding is byte-identical, hashes are unchanged, every single-field change "
                  "changes the encoding, every single-field change of a signed object changes the recovered signer. "
                  "Held on the values generated, not a proof over all values.",
    "level_note": "trusted: the reflection flattener/cloner/mutator (verifutil/fill.go), the per-package transient tables "
                  "(reviewed against the code, printed in the evidence under info.transient_*), the normalisations listed in "
                  "the assumptions; the three generated protobuf request messages of package protocol have no hand-written "
                  "mapping and are not covered",
    "rule": "case = one value of one registered type put through the real encoder and decoder (base values, their "
            "single-field mutants, and tampered signed objects); distinct_nontrivial = distinct (type, set of populated "
            "field classes) pairs among the base values with at least one populated field",
    "parallel": 12,
    "jobs": [
        Job("types", "blockchain/types", "^TestVerifC18Codec$", shards=(1, 6), timeout=(600, 3000)),
        Job("state", "core/state", "^TestVerifC18Codec$", shards=(1, 4), timeout=(600, 3000)),
        Job("snapshot", "core/state/snapshot", "^TestVerifC18Codec$", shards=(1, 1), timeout=(600, 3000)),
        Job("attachments", "blockchain/attachments", "^TestVerifC18Codec$", shards=(1, 2), timeout=(600, 3000)),
        Job("protocol", "protocol", "^TestVerifC18Codec$", shards=(1, 2), timeout=(600, 3000)),
        Job("flip", "core/flip", "^TestVerifC18Codec$", shards=(1, 1), timeout=(600, 3000)),
        Job("profile", "core/profile", "^TestVerifC18Codec$", shards=(1, 1), timeout=(600, 3000)),
        Job("mempool", "core/mempool", "^TestVerifC18Codec$", shards=(1, 1), timeout=(600, 3000)),
        Job("deferredtx", "deferredtx", "^TestVerifC18Codec$", shards=(1, 1), timeout=(600, 3000)),
    ],
    "floors": dict(_floors, **{"header_binding_mutations": (4000, 80000), "header_binding_shape:both-parts": (40, 800), "header_binding_shape:empty": (25, 500)}),
    "assumptions": [
        "normalisation: nil slice/map == empty slice/map; nil *big.Int == 0; time.Time compared as Unix seconds; error compared by message (nil == \"\")",
        "big.Int values are non-negative (amounts; the encodings carry magnitudes only); a value whose encoder returns an error (observed only for strings that are not valid UTF-8, which protobuf refuses) is counted as encode_refused and not evaluated further",
        "elements of slices/maps of pointers are never nil (every encoder dereferences them); pointer *fields* are generated nil and non-nil",
        "state.Global: ShardsNum <= 8 and ShardSizes keyed 1..ShardsNum (ToBytes emits one size per shard); missing size == 0",
        "types.BlockProposal: nil Block == empty Block (both invalid proposals; the decoder always allocates Block)",
        "types.UpgradeVotes: encoded in Go map order (node-local tally, never hashed): O2 is evaluated on the decoded value and the length",
        "signature recovery on a tampered object that fails with an error counts as 'invalidated'",
    ],
}
