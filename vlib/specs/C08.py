from driver import Job

SPEC = {
    "engine": "E1", "level": "exploration",
    "technique": "fork-offer monitor on the real ForkResolver.processBlocks/ApplyFork with generated chain pairs and certificate shapes; differential comparison of the adopting node with a clean-sync node",
    "level_text": "Generated fork offers (own branch 1..40 blocks, fork shorter/equal/longer, certificates nil/empty/under-quorum/forged/"
                  "wrong-round/valid at tip and inner blocks, tampered tip blocks, identity-update blocks inside the fork) are fed to the real "
                  "fork resolver of a node: adoption requires a valid quorum certificate at the tip (the harness knows the shape it built) and "
                  "valid blocks; a refusal must leave the node's database untouched; after adoption every artifact (head, state contents, "
                  "validator view, canonical hashes, stored identity diffs, tx/receipt index, reverted txs) equals a node that replayed the fork from genesis.",
    "level_note": "the committee is harness-held keys; inner-block certificate shapes are recorded but only the tip requirement of the property is asserted",
    "rule": "case = one fork offer; distinct_nontrivial = distinct (length class, tip cert shape, inner cert shape, content class, long/short) tuples",
    "jobs": [Job("forks", "verifsim", "^TestVerifC08$", shards=(8, 16), timeout=(900, 7200))],
    "floors": {"fork_offers": (100, 1500), "adopted": (15, 200), "refused": (30, 400), "tip-cert:nil": 5, "tip-cert:empty": 8, "tip-cert:under-quorum": 3,
               "tip-cert:forged": 5, "tip-cert:wrong-round": 3, "tip-cert:valid": 30, "tip-cert:duplicated-votes": 5, "adopted:shorter": 8, "content:identity-update": 10, "content:tampered-tip": 5,
               "len:shorter": 10, "len:equal": 10, "len:longer": 20,
               "tip-cert:post-block-committee": (30, 60), "adoptions_reverting_more_txs_of_one_sender_than_the_queue_limit": (4, 10), "reinclusion_checks": (200, 500),
               "fork_certificates_delivered": (500, 1500)},
    "parallel": 16,
    "assumptions": ["consensus config V12"],
}
