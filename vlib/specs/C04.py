from driver import Job

SPEC = {
    "engine": "E1", "level": "exploration",
    "technique": "conservation monitor: full ledger iteration after every block + twin blocks (same block with/without one tx)",
    "level_text": "After every block of generated histories the sum of all balances, identity stakes and contract stakes of the committed "
                  "state is compared with the sum before: growth <= block reward (proposed) + epoch pool (validation-finished), none on empty "
                  "non-epoch blocks; no negative component, locked <= stake. Twin blocks decide 'transactions never increase the total'.",
    "level_note": "negative values are observed as minted coins at the boundary (sign-dropping encoding) and directly in the pre-encoding check state of the twin",
    "rule": "case = one block boundary or one twin pair; distinct_nontrivial = distinct blocks (hash) of the monitored chains",
    "jobs": [Job("chain", "verifsim", "^TestVerifC04$", shards=(8, 16), timeout=(900, 7200))],
    "floors": {"twin_sequences_failed_midway_then_succeeded": 200, "ledger_checks": (1500, 20000), "twins": (300, 4000), "epochs_finished": (4, 40), "twins_forced_past_pool": (20, 200),
               "twin_type:Send": 50, "twin_type:Kill": 2, "twin_type:KillDelegator": 1, "twin_type:Deploy": 3, "twin_type:Call": 3,
               "twin_type:ReplenishStake": 3, "twin_type:Invite": 3, "twin_type:Burn": 3, "epoch_payout_ratio>=97%": 5,
               "drain_then_contract_sequences": 600, "drain_then_contract_txs_in_block:1": 300, "blocks_in_network_without_validated_identities": 200,
               "contract_txs_in_network_without_validated_identities": 4},
    "parallel": 16,
    "assumptions": ["consensus config V12", "epoch results come from the synthetic epoch function (arbitrary well-formed results)"],
}
