from driver import Job

SPEC = {
    "engine": "E1", "level": "exploration",
    "technique": "multi-replica differential monitor: every block built by the real ProposeBlock from a hostile mempool is run through the full receiving path of every other replica",
    "level_text": "Generated histories with hostile mempools (stale/interacting/hostile txs, bursts of one sender, partial gossip); every "
                  "proposal must pass IsValid, ValidateHeader, offline/upgrade checks, ValidateBlock and AddBlock on every replica, and "
                  "all replicas must end with equal head and byte-identical state contents. Held on the histories run.",
    "level_note": "consensus rules V12 (current mainnet); synthetic epoch results; no libp2p; replicas share one in-memory content store",
    "rule": "case = one proposed block received by all replicas; distinct_nontrivial = distinct proposals (block hash) that carry >= 1 tx "
            "AND for which the proposer's pool offered more txs than were included (>= 1 tx filtered out while building)",
    "jobs": [Job("chain", "verifsim", "^TestVerifC02$", shards=(8, 16), timeout=(900, 7200))],
    "floors": {"proposals_with_filtered_txs": (20, 200), "burst_txs_admitted": (50, 500),
               "kind:proposed+IdentityUpdate+ValidationFinished": (2, 20), "included:type:Delegate": 5, "included:type:Kill": 2,
               "included:type:Deploy": 5, "included:type:Call": 5, "included:fat:Send": 50, "proposals_near_or_over_gas_cap": 3, "exact_cap_proposals_with_tail_tx": (30, 300),
               "ceremony_pair_blocks": (20, 200), "ceremony_pair_earlier_tx_mined": (10, 100)},
    "parallel": 16,
    "assumptions": ["consensus config V12", "epoch results come from the synthetic epoch function (arbitrary well-formed results)"],
}
