from driver import Job

SPEC = {
    "engine": "E1", "level": "exploration",
    "technique": "fault-injection monitor: every tampering operator applied to generated valid blocks, insertion into a victim replica, before/after digests of head, roots, tree versions and every database key",
    "level_text": "For valid proposed and empty blocks of generated histories, ~60 tampering operators (bit flip / zero / nil / value from another "
                  "block on every derived header field, each persistent flag bit, height +-1, wrong stated fee rate, timestamp window, "
                  "ineligible proposers building complete self-consistent blocks, body edits with stale and recomputed commitment) are "
                  "offered to ValidateBlock and AddBlock of a victim: both must refuse, the victim's head, roots, versions and complete "
                  "database must be unchanged, and the honest original must still be insertable.",
    "level_note": "proposer's free choices (timestamp inside the window, offline-vote flags/address, upgrade bits, absent fee rate) are not tampered; a reordering of independent txs with a fully recomputed commitment is a different valid block and is only offered with the body cid left stale",
    "rule": "case = one tampered insertion; distinct_nontrivial = distinct (operator, block kind) pairs that reached the validator",
    "jobs": [Job("chain", "verifsim", "^TestVerifC03$", shards=(8, 16), timeout=(900, 7200))],
    "floors": {"blocks_tampered:proposed": (100, 1000), "blocks_tampered:empty": (20, 200), "op:TxReceiptsCid/bitflip": 100, "op:TxBloom/bitflip": 100,
               "op:FeePerGas/+1": 100, "op:Proposer/not-an-identity": 100, "op:Proposer/offline-identity": 50, "op:Body/drop-tx/commitment-recomputed": 50,
               "op:Body/drop-tx/commitment-stale": 50, "op:Body/reorder/commitment-stale": 20, "op:Time/beyond-future-offset": 100,
               "op:Flags/toggle-Snapshot": 100, "op:SeedProof/bitflip": 100, "op:Time/extreme-max-int64": 100, "op:Header/proposed-plus-junk-empty": 100,
               "op:Header/empty-plus-junk-proposed": 20, "op:Proposer/formerly-online-now-not-validated": 50,
               "op:Seed/pair-replayed-from-earlier-block-of-the-proposer": 100, "variants_offered_after_honest_validation": (8000, 80000),
               "blocks_crossing_the_gas_limit_with_their_last_tx": (12, 60), "op:Body/append-behind-the-gas-limit-crossing/valid-tx": (12, 60),
               "op:Body/over-gas-limit-then-unaffordable": 100, "rejected:block exceeds gas limit": 100},
    "parallel": 16,
    "assumptions": ["consensus config V12"],
}
