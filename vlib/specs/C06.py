from driver import Job

SPEC = {
    "engine": "E1", "level": "exploration",
    "technique": "history checker over all inserted blocks + active replay injector (mempool path and force-appended block path)",
    "level_text": "Over generated chains: tx hashes unique, per (sender, epoch) nonces 1,2,3.., tx epoch = global epoch at inclusion. "
                  "Previously included txs are re-offered in five timing classes to the pool (must be refused) and force-appended to an "
                  "otherwise valid block with recomputed commitment (block validation must refuse at the nonce/epoch checks).",
    "level_note": "txs that a reorg did revert are excluded by construction; the block path demands refusal by the replay checks, not by a later derived-field mismatch",
    "rule": "case = one block checked or one replay attempt; distinct_nontrivial = distinct (tx hash, timing class) replay attempts",
    "jobs": [Job("chain", "verifsim", "^TestVerifC06$", shards=(8, 16), timeout=(900, 7200))],
    "floors": {"replay_class:right-after-inclusion": 50, "replay_class:later-block": 50, "replay_class:after-epoch-change": 50,
               "replay_class:after-reorg-not-reverting": 10, "replay_class:after-epoch-change+account-cleared": 1, "history_txs": 1000,
               "replay_block_path": 500, "foreign_epoch_class:future-epoch": 200, "foreign_epoch_class:past-epoch": 50},
    "parallel": 16,
    "assumptions": ["consensus config V12"],
}
