from driver import Job

SPEC = {
    "engine": "E1", "level": "exploration",
    "technique": "incremental-vs-rebuilt differential monitor over every public getter of the validators cache + registry/ledger agreement",
    "level_text": "After every block on every replica (incl. restarted and rolled-back ones) the incrementally maintained validator view is "
                  "dumped through all public getters (sizes, per-address flags, pool sizes, sub-identity walk, committees for probes) and "
                  "compared with a fresh cache loaded from the same identity state; the registry is compared with the identity ledger.",
    "level_note": "generator biased to delegation/kill/online batches inside one identity-update block (ranges 5/7/6 blocks)",
    "rule": "case = one block boundary; distinct_nontrivial = distinct identity diffs that contain a pool/delegation/discrimination change",
    "jobs": [Job("chain", "verifsim", "^TestVerifC10$", shards=(8, 16), timeout=(900, 7200))],
    "floors": {"diff_event:delegated": 20, "diff_event:discriminated": 5, "diff_event:removed": 20, "diff_event:online": 20,
               "diff_event:offline": 20, "restarts": 10, "rollbacks": 10, "validator_view_checks": 3000,
               "pool_story_pools_with_non_validated_owner": 15, "pool_story_non_validated_owner_online": 12, "included:story:online-non-validated-pool-owner-kills-itself": 6, "included:story:online-pool-kills-its-members": 6},
    "parallel": 16,
    "assumptions": ["consensus config V12"],
}
