from driver import Job

SPEC = {
    "engine": "E2",
    "level": "exploration",
    "technique": "runtime monitor of the real flip lottery on generated identity tables: double evaluation, "
                 "ground-truth authorship vs. solver API, real ECIES key packages through the keys pool, "
                 "two consecutive epochs on one node (real completeEpoch / KeysPool.Clear in between, with and without restart)",
    "level_text": "Generated shard layouts (exhaustive for <= 7 candidates x all author subsets x 1..3 flips x 8 seeds; "
                  "random up to 4 shards x 400 candidates) are written into a real StateDB, the real "
                  "calculateCeremonyCandidates runs on them and is observed through Get{Short,Long}FlipsToSolve, "
                  "PrivateEncryptionKeyCandidates, the package index lookup and GetFlipKeys. Every real-key layout is followed by a "
                  "SECOND epoch on the same database, AppState and KeysPool object after its caches were filled by the first epoch's "
                  "key fetches: validation-finishing block (epoch+1, flips dropped, new identity states), the real "
                  "ValidationCeremony.completeEpoch (-> KeysPool.Clear), blocks with the new flips, new lottery seed, new flip keys and "
                  "packages signed for the new epoch, same identities with re-drawn roles (most authors publish again, some leave / join); "
                  "60% on the long-running node (same ceremony and pool objects), 20% restarted right after completeEpoch, 20% restarted "
                  "after the new lottery (ceremony restores); all oracles are applied to the second epoch (every assigned candidate "
                  "decrypts the author's CURRENT key, outsiders cannot) and its lottery is compared with a node that never saw the first "
                  "epoch. Histories are two epochs long, one node, no network sync of keys. Held on the layouts run, not a proof.",
    "level_note": "trusted: the harness' own record of who submitted which cid; StateDB/IAVL as the identity store; "
                  "state.IsCeremonyCandidate as the definition of 'candidate'; ECIES MAC failure as 'cannot decrypt'",
    "rule": "case = one layout (identity table + 32-byte lottery seed) evaluated twice by the real ceremony and checked by all "
            "oracles; the second epoch of a two-epoch history is a case of its own (evaluated on the node that ran the first epoch "
            "and on a fresh node); distinct_nontrivial = distinct (size class, author class, flips class) of a shard plus distinct "
            "(layout shape, seed, full observed assignment) digests",
    "jobs": [
        Job("lottery", "core/ceremony", "^TestVerifC16Lottery$", shards=(8, 16), timeout=(600, 3000)),
    ],
    "parallel": 16,
    # floors count generated input classes (functions of seed and tier), not branches taken by the lottery
    "floors": {
        "path_few_authors": (3000, 30000),
        "keys_empty_entry_for_invalid_pubkey": 100, "keys_recipient_without_valid_pubkey": 40,
        "path_single_flip": (200, 1000),
        "path_topup_over7_authors": (1500, 30000),
        "path_zero_flips": (400, 5000),
        "path_zero_candidates": (200, 4000),
        "path_multi_shard": (1000, 25000),
        "path_one_flip_each_quota_or_more_authors": (100, 2000),
        "path_cross_shard_same_cid": (10, 300),
        "exhaustive_cases": 5992,
        "realkey_layouts": (300, 2000),
        "keys_packages_published": (800, 6000),
        "second_eval_fresh": (1000, 10000),
        "second_eval_restore": (1000, 10000),
        "second_eval_rebuilt_state": (1000, 10000),
        "cross_process_comparisons": 7,
        # two consecutive epochs on one node (every real-key layout gets a second epoch)
        "second_epoch_layouts": (300, 2000),
        "second_epoch_same_node": (140, 1100),
        "second_epoch_restart_before_flips": (35, 330),
        "second_epoch_restart_in_lottery": (35, 330),
        "second_epoch_compared_with_fresh_node": (300, 2000),
        "second_epoch_same_node_layouts_with_repeat_authors": (90, 750),
        "second_epoch_authors_in_both_epochs": (900, 7000),
        "second_epoch_authors_in_both_epochs_served_in_first": (900, 7000),
        "second_epoch_keys_packages_published": (1400, 11000),
        "second_epoch_keys_decrypted_ok": (50000, 400000),
        "second_epoch_keys_decrypted_ok_author_served_in_first_epoch": (30000, 240000),
        "second_epoch_keys_outsider_refused": (20000, 150000),
        "second_epoch_path_zero_flips": (20, 150),
    },
    "assumptions": [
        "the identity table handed to the lottery is what the chain can produce: cids unique per identity, "
        "1..5 flips per author, shard ids within 1..ShardsNum",
        "the node's own address is not a ceremony candidate (the node itself loads no flips)",
        "two-epoch histories: the validation-finishing block is reduced to what the lottery and the keys pool read (epoch number, "
        "flips dropped, identity state / required flips / shard); the keys pool follows the head through the chain's NewBlockEvent; "
        "a key package a correctly signed current-epoch author with flips offers is accepted by the pool (a refusal is reported as "
        "inconclusive, not as a violation)",
        "cross-process determinism is compared on 40 canonical layouts via digests the children publish in the run's output directory",
    ],
}
