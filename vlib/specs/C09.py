from driver import Job

SPEC = {
    "engine": "E1", "level": "fault_enumeration",
    "technique": "crash-injecting database wrapper enumerating logical write indices; restart through the node's start-up sequence; differential comparison with a never-crashed node; "
                 "the same injector under the REAL protocol.fastSync driven over two real gossip handlers (header phase, resumed sync, snapshot import, switch, background clean-up), "
                 "write phases read off the call stack of each write, the restarted node completing by the real resume path",
    "level_text": "For block insertions of every kind (plain, empty, identity-update, snapshot, validation-finished, contract, with version "
                  "pruning past 100 retained states) for fork switches (ResetTo + ApplyFork) and for the final phase of a fast sync (snapshot import, forced identity version, AtomicSwitchToPreliminary "
                  "and the clean-up of the replaced databases it starts), the node's database is a wrapper that "
                  "drops the k-th durable write and everything after it (batches atomic). For every k (thorough) or a stratified subset "
                  "incl. all phase boundaries (quick) the surviving database is restarted with the start-up sequence of node.StartWithHeight: "
                  "it must succeed, head roots must equal the loaded state, the head must be the interrupted height or a retained one below, "
                  "and the restarted node must accept the interrupted and the following blocks and end byte-identical to a never-crashed node. "
                  "Job 'realsync-crash': the same injector is the database of a fresh or prefix-synced node (the prefix full-synced from genesis, or reached by an earlier complete fast sync plus full sync) that runs the real fastSync object (preConsuming -> CreatePreliminaryCopy / LoadPreliminary, "
                  "processBatch -> validateHeader / applyDeferredBlocks: CommitTree of the preliminary identity tree, AddHeaderUnsafe, WriteIdentityStateDiff, WriteCertificate, tx index / receipts; "
                  "a sync interrupted and resumed by a second applier; postConsuming -> DownloadSnapshot, RecoverSnapshot2, SaveForcedVersion, AtomicSwitchToPreliminary and its clean-up goroutine), "
                  "fed through the real wire path by a real server handler (all certificates, or certificates kept as a consensus follower keeps them so that headers are applied in deferred groups). "
                  "Per plan one never-crashed run records class and phase (from the call stack) of every write; crash points are every write of the short phases (download, import, forced version, switch), "
                  "both sides of every phase boundary, every distinct (phase, class before, class) transition, a few clean-up deletes and PRNG-chosen others (60 per plan quick, 110 thorough). After each crash: "
                  "start-up on the surviving database neither fails nor panics, head roots equal the loaded roots, the head is the canonical block at the snapshot height or at the pre-sync height (or a retained "
                  "height below); then the node completes - 3 of 4 times by resuming the real fast sync with a new handler and applier (the real preConsuming continues from the preliminary head or drops the "
                  "preliminaries; a failed Load is followed by a second one as in Downloader.SyncBlockchain), otherwise by full-syncing the canonical blocks -, accepts the following canonical blocks and "
                  "ends with the head hash and the full contents of both trees of the never-crashed node of the same kind.",
    "level_note": "assumes prefix durability, atomic batches, no torn single writes; node.StartWithHeight is mirrored, not executed; in job 'crash' fast sync is emulated by calling fast.go's functions in fast.go's order "
                  "(verifsim/fastsync.go); in job 'realsync-crash' the fast sync is real, mirrored are the batch-cutting loop of Downloader.Load, manifest gossip (the manifest is built from the server's own WriteSnapshot2 "
                  "export), the libp2p host / connection / stream (in-memory fakes) and the full-sync alternative after the restart (blocks handed to Blockchain.AddBlock). dropPreliminaries is not reached by any crash point "
                  "(no crash of the unchanged sequence leaves a preliminary head whose tree LoadPreliminary cannot load), so its writes are not crashed. A never-crashed real sync that fails gives 'inconclusive' here "
                  "(C11 decides about refused syncs).",
    "rule": "case = one crash point (scenario, block, write index k) followed by restart + re-feed; distinct_nontrivial = distinct (scenario, phase, write index, block) tuples; "
            "job realsync-crash: case = one crash point (plan, write index k) of a real fast sync followed by restart + completion + comparison; distinct = distinct (world, plan, phase, write class, k)",
    "jobs": [Job("crash", "verifsim", "^TestVerifC09$", shards=(8, 16), timeout=(900, 7200)),
             Job("realsync-crash", "protocol", "^TestVerifC09RealFastSync$", shards=(8, 12), timeout=(900, 7200), extra_tags="c09")],
    "floors": {"crash_points": (800, 8000), "phase:batch:stateTree": 100, "phase:batch:identityTree": 100, "phase:set:head": 60,
               "phase:set:header-or-canonical": 100, "phase:set:txIndex": 30, "scenario:ForkSwitch(ResetTo+ApplyFork)": 100,
               "scenario:AddBlock(validation-finished)": 10, "scenario:AddBlock(identity-update)": 20, "scenario:AddBlock(snapshot)": 20,
               "scenario:AddBlock(plain+pruning)": 20, "clean_restarts": 50,
               "scenario:FastSyncFinish(RecoverSnapshot2+SaveForcedVersion+AtomicSwitchToPreliminary)": 10,
               # job realsync-crash (real protocol.fastSync on the crash injector)
               "real_sync_plans": (16, 60), "real_sync_plans:fresh-node": (4, 15), "real_sync_plans:prefix-synced-node": (8, 30),
               "real_sync_plans:interrupted-and-resumed": (4, 15), "real_sync_plans:node-fast-synced-before": (1, 4), "real_sync_plans:sparse-cert-server": (4, 15), "real_sync_plans:straight-server": (4, 15),
               "real_sync_crash_points": (900, 9000), "real_sync_restarts_after_crash": (900, 9000),
               "real_sync_crash_phase:preliminary-copy": (100, 1000), "real_sync_crash_phase:headers": (300, 3000), "real_sync_crash_phase:headers-resumed": (60, 600),
               "real_sync_crash_phase:snapshot-download": (12, 50), "real_sync_crash_phase:snapshot-import": (12, 50), "real_sync_crash_phase:forced-identity-version": (12, 50),
               "real_sync_crash_phase:switch": (12, 50), "real_sync_crash_phase:switch-cleanup": (120, 800),
               "real_sync_crash_class:set:preliminaryHead": (30, 300), "real_sync_crash_class:set:header-or-canonical": (100, 1000), "real_sync_crash_class:batch:identityTree": (60, 500),
               "real_sync_crash_class:set:identityDiff": (12, 120), "real_sync_crash_class:set:certificate": (50, 500), "real_sync_crash_class:set:txIndex": (30, 300),
               "real_sync_crash_class:set:ownTxIndex": (20, 200), "real_sync_crash_class:set:receiptIndex": (10, 50), "real_sync_crash_class:set:snapshotManifest": (12, 50),
               "real_sync_crash_class:set:identityTree": (100, 1000), "real_sync_crash_class:batch:preliminaryIdentityTree": (12, 50),
               "real_sync_crash_class:delete:identityTree": (20, 150), "real_sync_crash_class:delete:stateTree": (80, 500),
               "real_sync_restarted_at:pre-sync-head": (600, 6000), "real_sync_restarted_at:snapshot-height": (120, 800),
               "real_sync_restarts_with_preliminary_head": (400, 4000), "real_sync_restarts_with_preliminary_head_at_manifest_height": (50, 300),
               "real_sync_resumed_after_crash": (450, 4500), "real_sync_resumed_from_preliminary_head_after_crash": (300, 3000),
               "real_sync_full_synced_after_crash": (120, 1200), "real_sync_completions_compared_with_reference": (900, 9000),
               "real_sync_following_blocks_accepted_after_crash": (10000, 100000)},
    "exhaustive": lambda tier: False,
    "parallel": 16,
    "assumptions": ["prefix durability (no reordering of acknowledged writes)", "atomic batches", "no torn single writes", "consensus config V12",
                    "job realsync-crash: wall-clock timeouts of the real code (20 s per block in processBatch, 20 s handshake) that expire without a preceding refusal by the node give an "
                    "inconclusive result, not a violation; the database dies for every goroutine at once (a crash on a write of the clean-up goroutine ends that goroutine, later writes of all goroutines are dropped)"],
}
