from driver import Job

SPEC = {
    "engine": "E1", "level": "fault_enumeration",
    "technique": "crash-injecting database wrapper enumerating logical write indices; restart through the node's start-up sequence; differential comparison with a never-crashed node",
    "level_text": "For block insertions of every kind (plain, empty, identity-update, snapshot, validation-finished, contract, with version "
                  "pruning past 100 retained states) for fork switches (ResetTo + ApplyFork) and for the final phase of a fast sync (snapshot import, forced identity version, AtomicSwitchToPreliminary), the node's database is a wrapper that "
                  "drops the k-th durable write and everything after it (batches atomic). For every k (thorough) or a stratified subset "
                  "incl. all phase boundaries (quick) the surviving database is restarted with the start-up sequence of node.StartWithHeight: "
                  "it must succeed, head roots must equal the loaded state, the head must be the interrupted height or a retained one below, "
                  "and the restarted node must accept the interrupted and the following blocks and end byte-identical to a never-crashed node.",
    "level_note": "assumes prefix durability, atomic batches, no torn single writes; node.StartWithHeight is mirrored, not executed; fast sync is emulated by calling fast.go's functions in fast.go's order (verifsim/fastsync.go)",
    "rule": "case = one crash point (scenario, block, write index k) followed by restart + re-feed; distinct_nontrivial = distinct (scenario, phase, write index, block) tuples",
    "jobs": [Job("crash", "verifsim", "^TestVerifC09$", shards=(8, 16), timeout=(900, 3600))],
    "floors": {"crash_points": (800, 8000), "phase:batch:stateTree": 100, "phase:batch:identityTree": 100, "phase:set:head": 60,
               "phase:set:header-or-canonical": 100, "phase:set:txIndex": 30, "scenario:ForkSwitch(ResetTo+ApplyFork)": 100,
               "scenario:AddBlock(validation-finished)": 10, "scenario:AddBlock(identity-update)": 20, "scenario:AddBlock(snapshot)": 20,
               "scenario:AddBlock(plain+pruning)": 20, "clean_restarts": 50,
               "scenario:FastSyncFinish(RecoverSnapshot2+SaveForcedVersion+AtomicSwitchToPreliminary)": 10},
    "exhaustive": lambda tier: False,
    "parallel": 16,
    "assumptions": ["prefix durability (no reordering of acknowledged writes)", "atomic batches", "no torn single writes", "consensus config V12"],
}
