from driver import Job

_KINDS_V12 = ["TimeLock", "Multisig", "OracleVoting2", "OracleLock", "RefundableOracleLock2"]
_WASM = ["wasm:erc20", "wasm:inc_func", "wasm:sum_func", "wasm:shared-fungible-token-wallet", "wasm:test-cases", "wasm:spender"]

_floors = {
    "twins": (1800, 15000), "oracle1_failures_checked": (700, 6000), "oracle4_success_checked": (600, 5000),
    "reexecutions": (6000, 60000), "gas_sweeps": (250, 2000), "chain_contract_txs_ok": (600, 5000),
    "clock_jumps_31d": (6, 30),
    # cross-contract machinery of the WASM runtime
    "wasm_subcall_ok": (40, 300), "wasm_subdeploy_seen": (20, 150),
    # designated same-block classes (votes / deposits and the call that iterates and pays them)
    "sameblock_class_seen:OracleVoting2:sendVote+finishVoting": (4, 30),
    "sameblock_class_seen:RefundableOracleLock2:deposit+refund": (2, 15),
    "sameblock_class_seen:OracleVoting1:sendVote+finishVoting": (1, 4),
    "sameblock_class_seen:RefundableOracleLock1:deposit+refund": 1,
    "multi_in_real_chain:OracleVoting2:sendVote+finishVoting": (3, 20),
    # thorough only: late termination of started votings (V12 and V9)
    "late_termination_ok:OracleVoting2": (0, 2), "late_termination_ok:OracleVoting1": (0, 2),
}
# every contract type deployed (twin and real chain), >= 1 success and >= 1 failure per method group
for k in _KINDS_V12 + _WASM:
    _floors["%s.deploy:ok" % k] = 8
    _floors["%s.deploy:fail" % k] = 3
    _floors["chain_deployed:%s" % k] = 6
for k, ms in {
    "TimeLock": ["transfer", "terminate"],
    "Multisig": ["add", "send", "push", "terminate"],
    "OracleVoting2": ["startVoting", "sendVoteProof", "sendVote", "finishVoting", "prolongVoting", "terminate"],
    "OracleLock": ["checkOracleVoting", "push", "terminate"],
    "RefundableOracleLock2": ["deposit", "push", "refund", "terminate"],
    "wasm:erc20": ["transfer", "approve", "getBalance", "transferFrom"],
    "wasm:inc_func": ["inc"],
    "wasm:sum_func": ["invoke"],
    "wasm:test-cases": ["test"],
    "wasm:shared-fungible-token-wallet": ["getBalance"],
    "wasm:spender": ["send", "burn"],
}.items():
    for m in ms:
        _floors["%s.%s:ok" % (k, m)] = 1
        _floors["%s.%s:fail" % (k, m)] = 1
_floors["OracleVoting2.addStake:ok"] = 1
# methods of the bundled shared-fungible-token wallet that cannot succeed on a chain (no way to mint tokens)
_floors["wasm:shared-fungible-token-wallet.transferTo:fail"] = 3
# pre-upgrade-10 implementations (one scenario per run in the quick tier)
for k in ["OracleVoting1", "RefundableOracleLock1"]:
    _floors["%s.deploy:ok" % k] = 1
for m in ["startVoting", "sendVoteProof", "sendVote", "finishVoting"]:
    _floors["OracleVoting1.%s:ok" % m] = 1
for m in ["deposit", "push"]:
    _floors["RefundableOracleLock1.%s:ok" % m] = 1

SPEC = {
    "engine": "E1", "level": "exploration",
    "technique": "twin blocks (same proposed block with / without one contract tx) + receipts + K re-executions on fresh check states; "
                 "generated deploy/call/terminate sequences on every embedded contract type and the bundled WASM contracts, also fed into a real multi-replica chain",
    "level_text": "Each generated contract transaction (valid shapes derived from the on-chain contract state; mutated arity / widths / garbage / foreign methods / "
                  "callers / pay amounts / tips / gas budgets incl. a sweep of budgets ending inside a successful execution) is built into a block by the real ProposeBlock "
                  "and applied by the real validateBlock next to its tx-free twin. Oracles: (1) a failed receipt => full state contents differ only in the sender's account, "
                  "the proposer's account/identity and the fee rate of Global; (2) sender charged <= MaxFee+tips, GasCost+txFee <= MaxFee, GasUsed <= (MaxFee-txFee)/feePerGas; "
                  "(3) sum of balances+stakes+contract stakes does not grow, nothing negative in the pre-encoding view; (4) mini-models of TimeLock transfer, Multisig add/send/push, "
                  "deploy/terminate bookkeeping, ERC-20 token conservation after success; (5) every contract block re-executed K>=4 times must be accepted with byte-identical "
                  "receipts, incl. the designated classes 'votes + finishVoting in one block' and 'deposits + refund in one block'.",
    "level_note": "trusted base: ProposeBlock/validateBlock twin construction, fee.CalculateFee for the size-based fee, state iteration; "
                  "the Rust WASM runtime is linked as a prebuilt static library (its internals are observed only through receipts and state)",
    "rule": "case = one contract tx evaluated as a twin pair (or one designated multi-tx block); distinct_nontrivial = distinct "
            "(contract type, tx kind, method, outcome, error class, gas failure point) tuples that were included in a block and produced a receipt",
    "jobs": [
        Job("twins", "verifsim", "^TestVerifC15$", shards=(8, 16), timeout=(900, 7200)),
        # scripted form of the designated same-block classes (votes + finishVoting, deposits + refund), V12 and V9
        Job("sameblock", "verifsim", "^TestVerifC15SameBlock$", shards=(1, 1), timeout=(600, 600)),
        # checkptr at the cgo boundary + race detector on a slice (WASM and embedded)
        Job("race", "verifsim", "^TestVerifC15$", race=True, shards=(2, 4), timeout=(900, 3600), env={"C15_STEPS": "30"}),
        # thorough only: AddressSanitizer on the Go/cgo glue of the WASM binding (the Rust archive itself is not instrumented)
        Job("wasm-asan", "verifsim", "^TestVerifC15$", asan=True, shards=(1, 2), timeout=(900, 3600), tiers=("thorough",),
            env={"C15_SLICE": "wasm", "C15_STEPS": "40", "ASAN_OPTIONS": "detect_leaks=0"}),
        # thorough only: > 30 000 blocks so that STARTED votings become terminable (V12 and V9)
        Job("long-termination", "verifsim", "^TestVerifC15LongTermination$", shards=(1, 2), timeout=(900, 3600), tiers=("thorough",)),
    ],
    "floors": _floors,
    "parallel": 16,
    "assumptions": [
        "consensus configs V12 (most scenarios), V9 (pre-upgrade-10 OracleVoting / RefundableOracleLock), V10/V11 in the thorough tier",
        "WASM: nodes run with cfg.IsDebug=true because the bundled test contracts import env.debug, which the Rust runtime only provides in debug mode (its output on fd 1 is discarded)",
        "the bundled binaries cannot reach a SUCCESSFUL sub-deployment on a chain: test-cases grants its sub-deployment 1e6 WASM gas while a deployment costs >= 3e6, and the "
        "shared-fungible-token wallet has no way to mint tokens; failing sub-deployments inside successful calls and successful cross-contract calls (sum_func -> inc_func -> callback) are covered",
        "terminating a STARTED oracle voting needs > 30 000 blocks after the public phase: the quick tier only drives the termination of abandoned pending votings "
        "(30 days of virtual time) to success, the thorough tier adds a job that waits 30 359 empty blocks and terminates a finished and an unfinished voting (with a gas sweep over the payout loop)",
        "go test -asan builds and links here (thorough tier, WASM slice): only the Go/cgo glue of the WASM binding is instrumented, the prebuilt Rust archive is not",
        "besides the bundled WASM contracts (none of which ever moves coins) a 216-byte hand-assembled module 'wasm:spender' (source in c15_contracts.go) forwards its arguments to the "
        "host's create_transfer_promise / burn, so that 'a contract can never send more than it holds' is exercised for WASM too",
        "the ERC-20 mini-model exempts transfers to oneself: the bundled contract credits them without debiting (contract semantics, not the node's)",
    ],
}
