from driver import Job

_KINDS_V12 = ["TimeLock", "Multisig", "OracleVoting2", "OracleLock", "RefundableOracleLock2"]
_WASM = ["wasm:erc20", "wasm:inc_func", "wasm:sum_func", "wasm:shared-fungible-token-wallet", "wasm:test-cases", "wasm:spender"]

_floors = {
    "twins": (1800, 15000), "oracle1_failures_checked": (700, 6000), "oracle4_success_checked": (600, 5000),
    "reexecutions": (6000, 60000), "gas_sweeps": (250, 2000), "gas_sweeps:zero": (60, 400), "gas_sweeps:one-short-plus-fraction": (60, 400),
    "gas_sweeps:inside-plus-fraction": (60, 400), "chain_contract_txs_ok": (600, 5000),
    "clock_jumps_31d": (6, 30),
    # cross-contract machinery of the WASM runtime
    "wasm_subcall_ok": (40, 300), "wasm_subdeploy_seen": (20, 150),
    # designated same-block classes (votes / deposits and the call that iterates and pays them)
    "sameblock_class_seen:OracleVoting2:sendVote+finishVoting": (4, 30),
    "sameblock_class_seen:RefundableOracleLock2:deposit+refund": (2, 15),
    "sameblock_class_seen:OracleVoting1:sendVote+finishVoting": (1, 4),
    "sameblock_class_seen:RefundableOracleLock1:deposit+refund": 1,
    "multi_in_real_chain:OracleVoting2:sendVote+finishVoting": (3, 20),
    # thorough only: late termination of started votings (V12 and V9)
    "late_termination_ok:OracleVoting2": (0, 2), "late_termination_ok:OracleVoting1": (0, 2),
}
# every contract type deployed (twin and real chain), >= 1 success and >= 1 failure per method group
for k in _KINDS_V12 + _WASM:
    _floors["%s.deploy:ok" % k] = 8
    _floors["%s.deploy:fail" % k] = 3
    _floors["chain_deployed:%s" % k] = 6
for k, ms in {
    "TimeLock": ["transfer", "terminate"],
    "Multisig": ["add", "send", "push", "terminate"],
    "OracleVoting2": ["startVoting", "sendVoteProof", "sendVote", "finishVoting", "prolongVoting", "terminate"],
    "OracleLock": ["checkOracleVoting", "push", "terminate"],
    "RefundableOracleLock2": ["deposit", "push", "refund", "terminate"],
    "wasm:erc20": ["transfer", "approve", "getBalance", "transferFrom"],
    "wasm:inc_func": ["inc"],
    "wasm:sum_func": ["invoke"],
    "wasm:test-cases": ["test"],
    "wasm:shared-fungible-token-wallet": ["getBalance"],
    "wasm:spender": ["send", "burn"],
}.items():
    for m in ms:
        _floors["%s.%s:ok" % (k, m)] = 1
        _floors["%s.%s:fail" % (k, m)] = 1
_floors["OracleVoting2.addStake:ok"] = 1
# methods of the bundled shared-fungible-token wallet that cannot succeed on a chain (no way to mint tokens)
_floors["wasm:shared-fungible-token-wallet.transferTo:fail"] = 3
# pre-upgrade-10 implementations (one scenario per run in the quick tier)
for k in ["OracleVoting1", "RefundableOracleLock1"]:
    _floors["%s.deploy:ok" % k] = 1
for m in ["startVoting", "sendVoteProof", "sendVote", "finishVoting"]:
    _floors["OracleVoting1.%s:ok" % m] = 1
for m in ["deposit", "push"]:
    _floors["RefundableOracleLock1.%s:ok" % m] = 1

# ---- sub-deployments and pre-funded future contract addresses. wasm:deployer (c15_contracts.go) is a hand-assembled module that is not part
# of the rotation of kinds: deployer contracts get a turn of their own in two of three steps, drawn from a PRNG stream of their own, so
# these counts hardly depend on the seed (quick floors about 0.4 x the minimum over seeds 1..5, thorough floors 5 x like the sequences)
for k, q in {
    "wasm:deployer.deploy:ok": 6, "wasm:deployer.deploy:fail": 2, "chain_deployed:wasm:deployer": 6,
    "wasm:deployer.make:ok": 200, "wasm:deployer.make:fail": 120,
    "wasm_subdeploy_ok": 160,
    # a sub-deployment whose target address held coins before the call was evaluated / created the contract, by where the coins came from
    "subdeploy_prefunded_evaluated": 150, "subdeploy_prefunded_succeeded": 100,
    "subdeploy_prefunded_evaluated:earlier-block": 60, "subdeploy_prefunded_succeeded:earlier-block": 50,
    "subdeploy_prefunded_evaluated:same-block": 85, "subdeploy_prefunded_succeeded:same-block": 55,
    # successful top-level deployments at an address that held coins (same-block pre-funding), embedded and WASM
    "deploy_prefunded_succeeded:emb": 9, "deploy_prefunded_succeeded:wasm": 8,
    # oracle (3b) applied / to successful txs / with lo = hi (exact); oracle (3c): addresses that became contracts / that held coins before
    "oracle3b_sum_checked": 2200, "oracle3b_sum_checked_success": 1000, "oracle3b_sum_checked_success_exact": 1000,
    "oracle3c_new_contracts_checked": 350, "oracle3c_new_contracts_checked_holding_coins": 120,
}.items():
    _floors[k] = (q, 5 * q)
# the process-fatal reproduction ran both children (control and empty argument string)
_floors["empty_slice_children_run"] = 2

# ---- same-block sequences: [failed contract txs in front of / behind successful ones of other senders] versus the
# same block without the failed ones (c15_seq_test.go). One sequence per chain step, the controlled ends rotate
# deterministically through the failure classes, so these counts hardly depend on the seed (quick floors are about
# 0.4 x the minimum over seeds 1..5; the thorough tier runs about 11 x the steps of the quick tier, floors 5 x).
_seq = {
    "seq_pairs": 440,                                  # block pairs compared
    "oracle1_failures_checked_in_sequence": 1400,      # failed txs checked to have left no trace inside a multi-tx block
    "seq_success_receipts_compared": 1000,             # receipts of successful txs compared byte by byte
    "seq_failed_followed_by_success": 1000, "seq_failed_preceded_by_success": 690,
    "seq_FFS": 310, "seq_SFS": 210,                    # >= 2 failed txs in front of a success; success - failure - success
    "seq_FS_engines:emb>emb": 270, "seq_FS_engines:emb>wasm": 160, "seq_FS_engines:wasm>emb": 120, "seq_FS_engines:wasm>wasm": 120,
    "seq_SF_engines:emb>emb": 220, "seq_SF_engines:emb>wasm": 85, "seq_SF_engines:wasm>emb": 120, "seq_SF_engines:wasm>wasm": 75,
    "seq_FS_success_kind:Call.emb": 190, "seq_FS_success_kind:Call.wasm": 140, "seq_FS_success_kind:Deploy.emb": 190,
    "seq_FS_success_kind:Deploy.wasm": 75, "seq_FS_success_kind:Terminate.emb": 12,
    # a failed EMBEDDED deployment whose Deploy() returned an error, followed by a successful tx
    "seq_FS:Deploy.emb:args>Call.emb": 48, "seq_FS:Deploy.emb:args>Deploy.emb": 56,
    "seq_FS:Deploy.emb:args>Call.wasm": 35, "seq_FS:Deploy.emb:args>Deploy.wasm": 22,
}
# failure class of F (tx kind . engine : why it failed) with >= 1 success behind it / in front of it in the same block
for k, q in {
    "Deploy.emb:args": 100, "Deploy.emb:out-of-gas": 50,
    "Call.emb:amount": 48, "Call.emb:args": 50, "Call.emb:caller": 42, "Call.emb:method": 30, "Call.emb:out-of-gas": 70, "Call.emb:state": 140,
    "Call.wasm:args": 60, "Call.wasm:method": 20, "Call.wasm:out-of-gas": 40, "Call.wasm:state": 60,
    "Deploy.wasm:code": 32, "Deploy.wasm:out-of-gas": 10,
    "Terminate.emb:args": 9, "Terminate.emb:caller": 38, "Terminate.emb:state": 30, "Terminate.emb:out-of-gas": 6, "Terminate.emb:txtype": 2,
}.items():
    _seq["seq_F_then_S:" + k] = q
for k, q in {
    "Deploy.emb:args": 59, "Deploy.emb:out-of-gas": 33,
    "Call.emb:amount": 27, "Call.emb:args": 42, "Call.emb:caller": 24, "Call.emb:method": 16, "Call.emb:out-of-gas": 54, "Call.emb:state": 110,
    "Call.wasm:args": 44, "Call.wasm:method": 9, "Call.wasm:out-of-gas": 24, "Call.wasm:state": 38,
    "Deploy.wasm:code": 17, "Deploy.wasm:out-of-gas": 6,
    "Terminate.emb:caller": 17, "Terminate.emb:state": 20,
}.items():
    _seq["seq_S_then_F:" + k] = q
for k, q in _seq.items():
    _floors[k] = (q, 5 * q)

# ---- recipients: methods that name an address and move value are called with the contract's OWN address
# (counted when the tx succeeded and - where the method moves coins - moved > 0): dest_class:<kind>.<method>:<class>
_floors.update({
    "dest_class:TimeLock.transfer:self": (7, 40), "dest_class:Multisig.push:self": (10, 60), "dest_class:Multisig.send:self": (25, 150),
    "dest_class:Multisig.add:self": (1, 8), "dest_class:wasm:spender.send:self": (4, 25),
    "dest_class:RefundableOracleLock2.deposit:self": (3, 18),
    "dest_class:OracleLock.deploy:self": (4, 25), "dest_class:RefundableOracleLock2.deploy:self": (5, 30),
    # the scripted job deploys locks that name themselves and pushes them (V12 and V9): deterministic
    "dest_class:OracleLock.push:self": 2, "dest_class:RefundableOracleLock2.push:self": 1, "dest_class:RefundableOracleLock1.push:self": 1,
    # stake refund of a termination to the terminated contract itself (TimeLock / Multisig / RefundableOracleLock)
    "dest_class_any_contract:terminate:self": (5, 30),
    # ERC-20 tokens sent to oneself (contract semantics, see assumptions)
    "dest_class:wasm:erc20.transfer:sender": (1, 6),
    # the other special recipients, any contract kind
    "dest_class_any_contract:transfer:sender": (4, 24), "dest_class_any_contract:transfer:contract": (2, 14),
    "dest_class_any_contract:push:sender": (1, 8), "dest_class_any_contract:push:contract": (1, 8),
    "dest_class_any_contract:send:contract": (8, 48), "dest_class_any_contract:send:proposer": (4, 24), "dest_class_any_contract:send:god": (2, 12),
    "dest_class_any_contract:send:zero": (3, 18), "dest_class_any_contract:deploy:self": (14, 80),
})

SPEC = {
    "engine": "E1", "level": "exploration",
    "technique": "twin blocks (same proposed block with / without one contract tx, optionally behind a SendTx that pre-funds the address the tx turns into a contract; "
                 "same multi-tx block with / without its FAILED contract txs) + receipts + "
                 "K re-executions on fresh check states; generated deploy/call/terminate sequences on every embedded contract type and the bundled WASM contracts "
                 "(recipient arguments incl. the contract's own address; sub-deployments at pre-funded addresses), also fed into a real multi-replica chain",
    "level_text": "Each generated contract transaction (valid shapes derived from the on-chain contract state; mutated arity / widths / garbage / foreign methods / "
                  "callers / pay amounts / tips / gas budgets incl. a sweep of budgets ending inside a successful execution) is built into a block by the real ProposeBlock "
                  "and applied by the real validateBlock next to its tx-free twin. Oracles: (1) a failed receipt => full state contents differ only in the sender's account, "
                  "the proposer's account/identity and the fee rate of Global; (2) sender charged <= MaxFee+tips, GasCost+txFee <= MaxFee, GasUsed <= (MaxFee-txFee)/feePerGas; "
                  "(3) sum of balances+stakes+contract stakes does not grow, nothing negative in the pre-encoding view; "
                  "(3b) value is conserved to the unit: Sigma(block without the tx) - Sigma(block with it) - burnt share of the tx's fee (ToInt((size fee + gas cost) x FeeBurnRate), the rest "
                  "and the tips go to the proposer) lies in [lo, hi], the coins the call semantics destroy explicitly: 0 for a failed tx, for every deployment and for every call except "
                  "finishVoting / refund (BurnAll: at most what the contract holds), terminations (the unrefunded half of the stake, plus BurnAll) and the spender's burn(amount) (= amount) - "
                  "nothing appears, nothing vanishes without a burn; (3c) every address the tx turns into a contract (the deployment's own or a sub-deployment's, read from the state diff) "
                  "holds at least what it holds in the block without the tx: coins waiting on a future contract address survive its creation. "
                  "Future contract addresses are PRE-FUNDED: the address of a WASM contract follows from (code, arguments, nonce), so the generator knows where a sub-deployment will create "
                  "its contract (computed like the node does for the deployer's plans, read from the action tree of the first evaluation otherwise) and sends coins there with an ordinary SendTx "
                  "one step (>= 1 block) EARLIER in the real chain (half of the deployer's plans) or in the SAME block (twin pair [SendTx, tx] versus [SendTx]: half of the calls whose action tree "
                  "shows a sub-deployment, 12 % of the top-level deployments - embedded ones at the address their shifted nonce gives); "
                  "(4) mini-models of the deployer (new contract = what its address held + endowment, deployer + pay amount - endowment; nothing moves when the sub-deployment fails), TimeLock transfer, Multisig add/send/push, "
                  "deploy/terminate bookkeeping, ERC-20 token conservation after success; (5) every contract block re-executed K>=4 times must be accepted with byte-identical "
                  "receipts, incl. the designated classes 'votes + finishVoting in one block' and 'deposits + refund in one block'. "
                  "(6) same-block sequences: once per chain step the contract txs of the step (incl. the gas-sweep variant that runs out of gas half-way) plus txs built to fail "
                  "(bad / missing deploy and call arguments so that Deploy/Call returns an error after none or some writes, unknown method, foreign caller, foreign terminator, too small pay amount, "
                  "gas budget ending inside Deploy/Call, broken WASM code) and to succeed (embedded and WASM deploys, any-caller calls) go into ONE block built by the real ProposeBlock, "
                  "signers distinct, order F,S / S,F / F,F,S / F,S,F fixed through the nonces; the block is compared with the block built from the same pool without the txs whose receipt says failure: "
                  "receipts of the successful txs byte-identical, post-states differ only in what oracle (1) allows (same code), no contract at the address of a failed deployment, "
                  "failed senders' nonce and charge <= MaxFee+tips, conservation. "
                  "Recipients: every method that names an address (TimeLock transfer, Multisig add/send/push, terminate refunds, lock deploy parameters / push / deposit fee, "
                  "spender send, ERC-20 transfer) is called with the contract's own address, the sender, the zero address, another contract, the proposer and the god address; "
                  "the mini-models treat a payment of the contract to itself as neutral (balance changes by the pay amount only) and demand amount <= what the contract holds. "
                  "(7) a legal contract call never takes the process down: the deployer's make with an EMPTY packed-argument string (and, as the control, with the 1-byte encoding of "
                  "'no arguments') is executed by the real WasmVM.Run in a child process from goroutines of 1200 stack depths in two shapes; the only acceptable outcomes are receipts.",
    "level_note": "trusted base: ProposeBlock/validateBlock twin construction, fee.CalculateFee for the size-based fee, the one-line burn share ToInt(fees x FeeBurnRate) of applyBlockRewards, "
                  "state iteration; which embedded methods may destroy coins (BurnAll callers: finishVoting, refund, terminations) is read off the source; "
                  "the Rust WASM runtime is linked as a prebuilt static library (its internals are observed only through receipts and state)",
    "rule": "case = one contract tx evaluated as a twin pair (alone in its block, or behind a SendTx that pre-funds an address it turns into a contract), one designated multi-tx block, "
            "one child process of the empty-argument reproduction, or one same-block sequence pair (block with >= 1 failed contract tx versus the "
            "same block without the failed ones); distinct_nontrivial = distinct (contract type, tx kind, method, outcome, error class, gas failure point) tuples that were "
            "included in a block and produced a receipt, plus distinct sequence shapes (ordered list of S(tx kind.engine) / F(tx kind.engine:failure class))",
    "jobs": [
        Job("twins", "verifsim", "^TestVerifC15$", shards=(8, 16), timeout=(900, 7200)),
        # scripted form of the designated same-block classes (votes + finishVoting, deposits + refund), V12 and V9
        Job("sameblock", "verifsim", "^TestVerifC15SameBlock$", shards=(1, 1), timeout=(600, 600)),
        # checkptr at the cgo boundary + race detector on a slice (WASM and embedded)
        Job("race", "verifsim", "^TestVerifC15$", race=True, shards=(2, 4), timeout=(900, 7200), env={"C15_STEPS": "30"}),
        # thorough only: AddressSanitizer on the Go/cgo glue of the WASM binding (the Rust archive itself is not instrumented)
        Job("wasm-asan", "verifsim", "^TestVerifC15$", asan=True, shards=(1, 2), timeout=(900, 7200), tiers=("thorough",),
            env={"C15_SLICE": "wasm", "C15_STEPS": "40", "ASAN_OPTIONS": "detect_leaks=0"}),
        # a legal contract call must never take the process down: deployer.make with an EMPTY packed-argument string, executed in a
        # child process from goroutines of every stack depth (reproduces the Go runtime's "invalid pointer found on stack")
        Job("empty-slice-callback", "verifsim", "^TestVerifC15EmptySliceCallback$", shards=(1, 1), timeout=(600, 600)),
        # thorough only: > 30 000 blocks so that STARTED votings become terminable (V12 and V9)
        Job("long-termination", "verifsim", "^TestVerifC15LongTermination$", shards=(1, 2), timeout=(900, 7200), tiers=("thorough",)),
    ],
    "floors": _floors,
    "parallel": 16,
    "assumptions": [
        "consensus configs V12 (most scenarios), V9 (pre-upgrade-10 OracleVoting / RefundableOracleLock), V10/V11 in the thorough tier",
        "WASM: nodes run with cfg.IsDebug=true because the bundled test contracts import env.debug, which the Rust runtime only provides in debug mode (its output on fd 1 is discarded)",
        "the bundled binaries cannot reach a SUCCESSFUL sub-deployment on a chain: test-cases grants its sub-deployment 1e6 WASM gas while a deployment costs > 3e6, and the "
        "shared-fungible-token wallet has no way to mint tokens (its transferTo never gets as far as deploying the destination's wallet); their failing sub-deployments inside successful calls "
        "and successful cross-contract calls (sum_func -> inc_func -> callback) are covered. SUCCESSFUL sub-deployments come from a 215-byte hand-assembled module 'wasm:deployer' "
        "(source in c15_contracts.go) whose make(code, packed args, nonce, amount, gas) forwards its arguments to the host's create_deploy_contract_promise: it sub-deploys the spender, itself, "
        "inc_func and the token wallet, endowed with nothing / a part of / all of / one unit more than its coins, with ample, too little and absurd gas limits",
        "oracle (3c) and the deployer mini-model assume that the constructors of the deployed codes move no coins (true for every module used here)",
        "oracle (3b) is skipped when the proposer of the twin blocks carries a penalty (its reward is destroyed too); never the case in these worlds (counter oracle3b_skipped_proposer_penalty)",
        "EMPTY byte strings are not passed through the deployer in the generated traffic (replaced by 00): an empty argument string kills the process at certain goroutine stack depths "
        "(Go runtime 'invalid pointer found on stack': the Rust runtime passes empty slices to the Go host callbacks of idena-wasm-binding as ptr=0x1 in a pointer-typed field). "
        "That event is reproduced deterministically by the job empty-slice-callback in a child process (signature process-fatal:wasm-host-callback:empty-byte-string-argument:empty-args)",
        "terminating a STARTED oracle voting needs > 30 000 blocks after the public phase: the quick tier only drives the termination of abandoned pending votings "
        "(30 days of virtual time) to success, the thorough tier adds a job that waits 30 359 empty blocks and terminates a finished and an unfinished voting (with a gas sweep over the payout loop)",
        "go test -asan builds and links here (thorough tier, WASM slice): only the Go/cgo glue of the WASM binding is instrumented, the prebuilt Rust archive is not",
        "besides the bundled WASM contracts (none of which ever moves coins) a 216-byte hand-assembled module 'wasm:spender' (source in c15_contracts.go) forwards its arguments to the "
        "host's create_transfer_promise / burn, so that 'a contract can never send more than it holds' is exercised for WASM too",
        "the ERC-20 mini-model exempts transfers to oneself: the bundled contract credits them without debiting (contract semantics, not the node's)",
        "same-block sequences: the block order is the pool's (ascending account nonce); the harness fixes it by re-signing with strictly increasing nonces and filling a signer's nonce gap "
        "with plain 1-unit self-transfers, which are part of both blocks of a pair; a CallContractTx to an address without code is invalid (never included), so 'not a contract' is no failure class",
    ],
}
