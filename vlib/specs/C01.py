from driver import Job

SPEC = {
    "engine": "E1", "level": "exploration",
    "technique": "differential replicas (different host time zones, histories, restarts, rollbacks) + K re-executions per block on fresh check states + a catching-up node applying the blocks in batches through the full-sync / fork-examination paths + function-level time-zone grid and K re-executions of shard balancing on multi-shard states; repeated in child processes with GOMAXPROCS 1/16 and other TZ",
    "level_text": "Every block of generated histories is built on one replica and must be accepted by replicas living in other time zones, "
                  "by a restarted follower and by a follower that rolled back and re-applied; every proposed block is re-executed K times on "
                  "fresh states of two replicas (each Go map range draws a fresh order) and must reproduce header roots and byte-identical "
                  "receipts; full state contents are compared after every block; a catching-up node takes the canonical blocks in batches of 1..9 the way protocol/full.go does (one ForCheckWithOverwrite view per batch, AddBlock with it, FinalizePrecommit) and every other batch first through ValidateSubChain, and must accept them and hold the same state contents; the real balanceShards is executed 4 times on fresh views of generated states with 1..4 shards (5000..11500 identities, uneven newbie/verified/suspended spread) and must give the same assignment and root; the whole workload is repeated in children with GOMAXPROCS=1 and 16.",
    "level_note": "the batch application of the catching-up node mirrors the four calls of fullSync.processBatch/applyDeferredBlocks (the real wire path is driven under C11/C12); consensus V12, synthetic epoch results (real-ceremony determinism is decided under C17); big.Float non-associativity only observable if it flips an integer truncation",
    "rule": "case = one execution of one block by one variant (replica/zone/re-execution) or one grid point of the epoch-length function; "
            "distinct_nontrivial = distinct blocks (hash) with >=1 tx or a flag that were executed by >= 2 variants, plus distinct large-network grid points",
    "jobs": [
        Job("chain", "verifsim", "^TestVerifC01Chain$", shards=(8, 16), timeout=(900, 7200)),
        Job("chain-p1", "verifsim", "^TestVerifC01Chain$", shards=(1, 2), timeout=(900, 7200), gomaxprocs=1, env={"TZ": "Pacific/Pago_Pago"}),
        Job("chain-p16", "verifsim", "^TestVerifC01Chain$", shards=(1, 2), timeout=(900, 7200), gomaxprocs=16, env={"TZ": "Pacific/Tongatapu"}),
        Job("tzgrid", "verifsim", "^TestVerifC01TimeZone$", shards=(1, 1), timeout=(300, 300)),
        Job("shards", "verifsim", "^TestVerifC01Shards$", shards=(1, 2), timeout=(900, 7200)),
        Job("balance", "blockchain", "^TestVerifC01Balance$", shards=(4, 8), timeout=(600, 1800)),
    ],
    "floors": {"revalidations": (5000, 50000), "epochs_finished": (4, 30), "epochs_finished_large_network": (1, 2), "identity_update_blocks": 50,
               "snapshot_blocks": 50, "contract_blocks": 20, "restarts": 10, "detours": 10, "distinct_map_orders_witnessed": 3,
               "timezone_grid_points": 250000, "activation_blocks_with_tied_minimal_shards": 5, "max_shards_num": 2,
               "blocks_applied_through_full_sync_path": (2000, 8000), "full_sync_batches": (400, 1600), "batches_examined_as_fork": (150, 600),
               "cases_suspended_relocated_into_several_shards": (3, 20), "identities_relocated": (30000, 200000)},
    "parallel": 16,
    "assumptions": ["consensus config V12", "daylight-saving zones (Europe/Berlin, America/New_York, Australia/Sydney) are used when the host has a tz database (counter dst_zones_available)", "replicas run sequentially in one goroutine; the host time zone is switched per replica via time.Local"],
}
