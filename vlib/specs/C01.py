from driver import Job

SPEC = {
    "engine": "E1", "level": "exploration",
    "technique": "differential replicas (different host time zones, histories, restarts, rollbacks) + K re-executions per block on fresh check states + function-level time-zone grid; repeated in child processes with GOMAXPROCS 1/16 and other TZ",
    "level_text": "Every block of generated histories is built on one replica and must be accepted by replicas living in other time zones, "
                  "by a restarted follower and by a follower that rolled back and re-applied; every proposed block is re-executed K times on "
                  "fresh states of two replicas (each Go map range draws a fresh order) and must reproduce header roots and byte-identical "
                  "receipts; full state contents are compared after every block; the whole workload is repeated in children with GOMAXPROCS=1 and 16.",
    "level_note": "consensus V12, synthetic epoch results (real-ceremony determinism is decided under C17); big.Float non-associativity only observable if it flips an integer truncation",
    "rule": "case = one execution of one block by one variant (replica/zone/re-execution) or one grid point of the epoch-length function; "
            "distinct_nontrivial = distinct blocks (hash) with >=1 tx or a flag that were executed by >= 2 variants, plus distinct large-network grid points",
    "jobs": [
        Job("chain", "verifsim", "^TestVerifC01Chain$", shards=(8, 16), timeout=(900, 3600)),
        Job("chain-p1", "verifsim", "^TestVerifC01Chain$", shards=(1, 2), timeout=(900, 3600), gomaxprocs=1, env={"TZ": "Pacific/Pago_Pago"}),
        Job("chain-p16", "verifsim", "^TestVerifC01Chain$", shards=(1, 2), timeout=(900, 3600), gomaxprocs=16, env={"TZ": "Pacific/Tongatapu"}),
        Job("tzgrid", "verifsim", "^TestVerifC01TimeZone$", shards=(1, 1), timeout=(300, 300)),
        Job("shards", "verifsim", "^TestVerifC01Shards$", shards=(1, 2), timeout=(900, 3600)),
    ],
    "floors": {"revalidations": (5000, 50000), "epochs_finished": (4, 30), "epochs_finished_large_network": (1, 2), "identity_update_blocks": 50,
               "snapshot_blocks": 50, "contract_blocks": 20, "restarts": 10, "detours": 10, "distinct_map_orders_witnessed": 3,
               "timezone_grid_points": 250000, "activation_blocks_with_tied_minimal_shards": 5, "max_shards_num": 2},
    "parallel": 16,
    "assumptions": ["consensus config V12", "daylight-saving zones (Europe/Berlin, America/New_York, Australia/Sydney) are used when the host has a tz database (counter dst_zones_available)", "replicas run sequentially in one goroutine; the host time zone is switched per replica via time.Local"],
}
