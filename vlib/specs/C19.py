from driver import Job

_KEYS = ["missing", "empty", "wrong", "prefix", "suffix", "case", "correct", "number", "null", "object", "array"]
_METHS = ["call", "unknown-service", "unknown-method", "malformed-name", "subscribe", "unsub-live", "unsub-dead",
          "subscribe-badparams"]
_TRANSPORTS = ["http", "ws", "ipc", "inproc"]
_IDS = ["num", "str", "null", "float", "neg", "exp", "emptystr", "bool", "object", "array", "missing"]

# The enumerated grammar G has 20548 requests per transport (S 6050 + B1 4400 + B2 2112 + B3 7744 + B4 242);
# the counts below are functions of the grammar only (the seed changes key, ids, tokens and member order, not shapes).
_G = 20548

_floors = {
    "grammar_cases": 4 * _G,             # G enumerated completely on all four transports (quick and thorough)
    "part_R": (0, 2000000),              # random extension (thorough only)
    "key_escaped": (0, 100000),
    "batch_size_7": (0, 50000),
    "batch_size_1": 2000, "batch_size_2": 30000, "batch_size_3": 7000, "batch_size_4": 11000, "single_size_1": 24000,
    "strict_checked": 40000,             # elements for which the invalid-key error specifically was demanded
    "rejected_invalid_key": 40000,
    "keyed_served": 20000,
    "live_delivery_verified": 1000,      # un-keyed unsubscribe attempts after which a pushed notification still arrived
    "live_cancelled_with_key": 1000,     # keyed unsubscribe of the live subscription took effect
}
for _t in _TRANSPORTS:
    _floors["t_" + _t] = _G
    _floors["nokey_%s_single" % _t] = 5000
    _floors["nokey_%s_batch" % _t] = 20000
    _floors["keyed_served_%s_single" % _t] = 60
    _floors["keyed_served_%s_batch" % _t] = 5000
for _k in _KEYS:
    _floors["key_" + _k] = 10000
    for _m in _METHS:
        _floors["kxm_%s_%s" % (_k, _m)] = 1000   # every key class x method class cell
for _m in _METHS:
    _floors["meth_" + _m] = 14000
for _i in _IDS:
    _floors["id_" + _i] = 2000

SPEC = {
    "engine": "E2",
    "level": "exploration",
    "technique": "probe-service monitor behind a real rpc.Server with a key, driven over HTTP, WebSocket, IPC and in-proc "
                 "codecs with a completely enumerated finite request grammar (thorough: plus a random extension)",
    "level_text": "Every request of a finite grammar (singles: 11 key classes x 50 method/params forms x 11 id kinds; batches of "
                  "1..4 with the probed element at every position among keyed fillers, every correct/non-correct key pattern, every "
                  "ordered pair of key-class x method-class elements, every pair of id kinds) is sent to the real server through "
                  "each of the four transports; for every element without the exact key the probe's per-token and global counters, "
                  "the live subscription's Err() channel, a notification pushed through the live subscription, and the response "
                  "element are checked. Exhaustive for that grammar (flag 'exhaustive' in the quick tier; the thorough tier repeats "
                  "it and adds 2,000,000 random requests with further key mutations, names, envelopes and batch sizes up to 7); "
                  "not a proof for requests outside it.",
    "level_note": "trusted: Go's net/http, x/net/websocket client, encoding/json on the harness side; the probe service; the "
                  "classification of a generated element as keyed / properly typed / otherwise well-formed is by construction of "
                  "the generator, not by re-parsing",
    "rule": "case = one request element (evaluations counts elements; counter 'requests' counts messages). distinct_nontrivial = "
            "distinct (transport, single|batch, envelope, per-element (key class, method form, id kind)) shapes; every shape "
            "contains at least one element and is sent to the real server, so none is trivial",
    "exhaustive": lambda tier: tier == "quick",
    "jobs": [
        Job("gate", "rpc", "^TestVerifC19ApiKeyGate$", shards=(4, 8), timeout=(600, 3600)),
        Job("keyfile", "config", "^TestVerifC19KeyFile$", shards=(1, 1), timeout=(300, 600)),
    ],
    "floors": dict(_floors, **{"key_file_state:empty": 15, "key_file_state:blank": 15, "key_file_state:missing": 15, "key_file_state:key": 15, "processes_with_literal_like_key": 1}),
    "assumptions": [
        "'carries exactly that key' = the element's JSON member \"key\" is a JSON string equal to the configured key "
        "(an escaped spelling of the same string counts as the key; other members such as \"extra\":{\"key\":...} do not)",
        "'otherwise well-formed' = key absent or a string, valid id (string/number/null), method a string service_method with a "
        "resolvable-looking name (existing or unknown), usual params; for those the invalid-key error (-32800) is demanded, "
        "for every other element without the key any error answer suffices",
        "'still served' is demanded for elements with the key only when the message was answered element by element; a batch "
        "containing an oddly typed element (non-string key or method, invalid/missing id, unparsable subscribe params, "
        "unusual jsonrpc member) may be rejected as a whole - then only 'nothing ran, an error came back' is demanded; a batch "
        "whose elements are all properly typed must not be rejected as a whole when it contains an element with the key",
        "a message the server cannot read makes it close that client's own persistent connection (and with it the "
        "subscriptions of that connection); this is connection teardown, not an unsubscription: the verdict uses the "
        "subscription's Err() channel, which is closed exactly when an unsubscribe was executed",
        "no verdict depends on elapsed time: a missing answer / notification within 30 s is recorded as inconclusive",
        "WS and IPC are monitored on a Server constructed with the key (Server.WebsocketHandler, ipcListen+ServeListener, "
        "ServeCodec). The node itself only starts the HTTP endpoint; rpc.StartWSEndpoint / StartIPCEndpoint (unused by the "
        "node) construct their server with an empty key and are outside this monitor",
    ],
}
