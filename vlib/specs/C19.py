from driver import Job

SPEC = {
    "engine": "E2",
    "level": "exploration",
    "technique": "probe-service monitor behind a real rpc.Server (key set), finite request grammar enumerated over HTTP / WebSocket / IPC / in-proc codecs",
    "level_text": "placeholder",
    "level_note": "placeholder",
    "rule": "placeholder",
    "jobs": [
        Job("gate", "rpc", "^TestVerifC19ApiKeyGate$", shards=(4, 8), timeout=(600, 3600)),
    ],
    "floors": {},
    "assumptions": [],
}
