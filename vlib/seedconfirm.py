#!/usr/bin/env python3
"""Confirms and evaluates a seeded property-breaking change delivered by a sub-agent.

  seedconfirm.py <src dir with patch.diff, meta.json, demo> <seed id> [--checks C01,C02] [--tier quick]

Steps (all in scratch worktrees under /tmp, never in /repo):
  1. worktree at /repo HEAD; patch applies; code compiles (overlay build of the touched packages);
  2. the pinned baseline suite (go test ./... without overlay) has no new failures;
  3. the demonstration fails with the change and passes without it;
  4. the named checks (default: the property's own) are run with VERIF_REPO=<worktree>.
The change is stored as /verif/seeded/<seed id>/ with the results in meta.json.
"""
import json
import os
import re
import shutil
import subprocess
import sys
import time

VERIF = os.path.dirname(os.path.dirname(os.path.abspath(__file__)))
GOENV = {"GOFLAGS": "-mod=mod", "GOPROXY": "off", "GOSUMDB": "off", "GOTOOLCHAIN": "local"}


def sh(cmd, cwd=None, env=None, timeout=3600):
    e = dict(os.environ)
    e.update(GOENV)
    if env:
        e.update(env)
    r = subprocess.run(cmd, shell=isinstance(cmd, str), cwd=cwd, env=e, stdout=subprocess.PIPE, stderr=subprocess.STDOUT, text=True, timeout=timeout)
    return r.returncode, r.stdout


def mkwt(name):
    wt = "/tmp/seedwt-" + name
    sh(["git", "-C", "/repo", "worktree", "remove", "--force", wt])
    shutil.rmtree(wt, ignore_errors=True)
    rc, out = sh(["git", "-C", "/repo", "worktree", "add", "-q", "--detach", wt, "HEAD"])
    assert rc == 0, out
    bd = wt + "-build"
    os.makedirs(bd, exist_ok=True)
    shutil.copy(os.path.join(VERIF, "overlay/ipfs/ipfs_stub.go"), bd + "/ipfs_stub.go")
    json.dump({"Replace": {wt + "/ipfs/ipfs.go": bd + "/ipfs_stub.go", wt + "/ipfs/ipfs_test.go": ""}}, open(bd + "/overlay.json", "w"))
    return wt, bd


def rmwt(wt):
    sh(["git", "-C", "/repo", "worktree", "remove", "--force", wt])
    shutil.rmtree(wt, ignore_errors=True)
    shutil.rmtree(wt + "-build", ignore_errors=True)


def baseline(wt):
    rc, out = sh("go test -mod=mod -json -vet=off -count=1 -timeout 25m ./... 2>/dev/null", cwd=wt)
    p = f = 0
    fails = []
    for l in out.split("\n"):
        try:
            e = json.loads(l)
        except Exception:
            continue
        if e.get("Test") and e.get("Action") == "pass":
            p += 1
        if e.get("Test") and e.get("Action") == "fail":
            f += 1
            fails.append(e["Package"] + "::" + e["Test"])
    sh("git clean -fdq -e seeded", cwd=wt)
    return p, f, fails


def run_demo(wt, bd, meta, src):
    demo_path = meta.get("demo_path")
    demo_file = None
    for cand in ("demo_test.go", os.path.basename(demo_path or "")):
        if cand and os.path.exists(os.path.join(src, cand)):
            demo_file = os.path.join(src, cand)
            break
    if demo_file is None:
        gs = [x for x in os.listdir(src) if x.endswith("_test.go") or x.endswith(".go")]
        if gs:
            demo_file = os.path.join(src, gs[0])
    if demo_file is None or not demo_path:
        return None, "no demo found"
    dst = os.path.join(wt, demo_path)
    os.makedirs(os.path.dirname(dst), exist_ok=True)
    shutil.copy(demo_file, dst)
    pkg = "./" + os.path.dirname(demo_path) + "/"
    m = re.findall(r"func (Test\w+)\(", open(demo_file).read())
    runrx = "^(" + "|".join(m) + ")$" if m else "."
    rc, out = sh(["go", "test", "-overlay", bd + "/overlay.json", "-vet=off", "-count=1", "-run", runrx, pkg], cwd=wt, timeout=1800)
    os.remove(dst)
    sh("git clean -fdq -e seeded", cwd=wt)
    return rc, out[-1500:]


def main():
    src, sid = os.path.abspath(sys.argv[1]), sys.argv[2]
    args = sys.argv[3:]
    checks = None
    tier = "quick"
    skip_confirm = "--skip-confirm" in args
    for i, a in enumerate(args):
        if a == "--checks":
            checks = args[i + 1].split(",")
        if a == "--tier":
            tier = args[i + 1]
    meta = json.load(open(os.path.join(src, "meta.json")))
    pid = meta.get("property")
    checks = checks or [pid]
    patch = os.path.join(src, "patch.diff")
    res = {"seed_id": sid, "property": pid, "confirmed_at": time.strftime("%Y-%m-%d %H:%M"), "repo_head": sh(["git", "-C", "/repo", "rev-parse", "--short", "HEAD"])[1].strip()}
    wt, bd = mkwt(sid)
    try:
        if not skip_confirm:
            # demo without the change
            rc0, out0 = run_demo(wt, bd, meta, src)
            res["demo_without_change"] = "pass" if rc0 == 0 else ("fail" if rc0 is not None else out0)
            if rc0 not in (0,):
                res["demo_without_output"] = out0
        rc, out = sh(["git", "apply", "--whitespace=nowarn", patch], cwd=wt)
        res["patch_applies"] = rc == 0
        if rc != 0:
            res["apply_error"] = out[-800:]
            print(json.dumps(res, indent=1))
            return 1
        if not skip_confirm:
            rc1, out1 = run_demo(wt, bd, meta, src)
            res["demo_with_change"] = "fail" if rc1 not in (0, None) else ("pass" if rc1 == 0 else out1)
            res["demo_with_output_tail"] = out1[-600:] if out1 else ""
            p, f, fails = baseline(wt)
            res["baseline_with_change"] = {"pass": p, "fail": f, "failed": fails[:10]}
        res["checks"] = {}
        for c in checks:
            t = time.time()
            rc, out = sh([os.path.join(VERIF, "check"), c, tier], cwd=VERIF, env={"VERIF_REPO": wt}, timeout=7200)
            sigs = [l.strip()[11:] for l in out.split("\n") if l.strip().startswith("signature:")]
            inc = [l for l in out.split("\n") if l.startswith("INCONCLUSIVE")]
            res["checks"][c] = {"tier": tier, "exit": rc, "verdict": {0: "MISSED", 1: "caught", 3: "inconclusive"}.get(rc, "?"), "signatures": sigs[:8],
                                "inconclusive": inc[:3], "wall_s": round(time.time() - t)}
            sh("git -C %s checkout -q -- evidence 2>/dev/null" % VERIF)
    finally:
        rmwt(wt)
        # the per-worktree build directories of the checks (build/<id>-<hash of the worktree path>)
        import glob
        for d in glob.glob(os.path.join(VERIF, "build", "C[0-9][0-9]-??????")):
            shutil.rmtree(d, ignore_errors=True)
    dst = os.path.join(VERIF, "seeded", sid)
    os.makedirs(dst, exist_ok=True)
    for fn in os.listdir(src):
        if os.path.isfile(os.path.join(src, fn)) and os.path.abspath(src) != os.path.abspath(dst):
            shutil.copy(os.path.join(src, fn), os.path.join(dst, fn))
    # a re-evaluation with --skip-confirm keeps the confirmation fields of the earlier run
    if skip_confirm and os.path.exists(os.path.join(dst, "meta.json")):
        try:
            prev = json.load(open(os.path.join(dst, "meta.json"))).get("verif_results", {})
            for k in ("demo_without_change", "demo_with_change", "demo_with_output_tail", "baseline_with_change", "confirmed_at"):
                if k in prev and k not in res:
                    res[k] = prev[k]
            hist = prev.get("earlier_check_runs", [])
            if prev.get("checks"):
                hist.append({"repo_head": prev.get("repo_head"), "checks": prev["checks"]})
            res["earlier_check_runs"] = hist
        except Exception:
            pass
    meta["verif_results"] = res
    meta["what_we_ran"] = "vlib/seedconfirm.py: scratch worktree at /repo HEAD; demo without/with patch under the ipfs-stub overlay; pinned baseline (go test ./...) with patch; ./check <id> %s with VERIF_REPO=<worktree>" % tier
    json.dump(meta, open(os.path.join(dst, "meta.json"), "w"), indent=1)
    print(json.dumps(res, indent=1))
    return 0


if __name__ == "__main__":
    sys.exit(main())
