#!/usr/bin/env python3-vt
import json, sys, os, jsonschema
V = os.path.dirname(os.path.dirname(os.path.abspath(__file__)))
jsonschema.validate(json.load(open(V + '/MANIFEST.json')), json.load(open('/root/.vp/MANIFEST.schema.json')))
es = json.load(open('/root/.vp/EVIDENCE.schema.json'))
for f in sorted(os.listdir(V + '/evidence')):
    try:
        jsonschema.validate(json.load(open(V + '/evidence/' + f)), es)
        print(f, 'ok')
    except Exception as e:
        print(f, 'INVALID', str(e)[:300])
print('manifest ok')
