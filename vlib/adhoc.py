#!/usr/bin/env python3
"""ad-hoc run of one harness test: adhoc.py <pkg> <test regex> [race] [tier] [counters] [tags=cNN] — prints the child log"""
import sys, os
sys.path.insert(0, os.path.dirname(os.path.abspath(__file__)))
import driver
from driver import Job
pkg, rx = sys.argv[1], sys.argv[2]
race = "race" in sys.argv[3:]
tier = "thorough" if "thorough" in sys.argv[3:] else "quick"
tags = ([a[5:] for a in sys.argv[3:] if a.startswith("tags=")] or [None])[0]  # e.g. tags=c09
spec = {"level": "exploration", "jobs": [Job("adhoc", pkg, rx, race=race, timeout=(3000, 6000), extra_tags=tags)]}
os.environ["VERIF_SCRATCH"] = "/var/tmp/verif-adhoc-%d" % os.getpid()
rc = driver.run_check("ADHOC", spec, tier, int(os.environ.get("VERIF_SEED", "1")), keep=True)
lf = os.environ["VERIF_SCRATCH"] + "/out/log-adhoc-0.txt"
if os.path.exists(lf):
    t = open(lf, errors="replace").read()
    print(t[-int(os.environ.get("TAIL", "6000")):])
import json
ev = json.load(open(os.path.join(driver.VERIF, "evidence", "ADHOC.json")))
if "counters" in sys.argv[3:]:
    print(json.dumps(ev["coverage"].get("counters"), indent=0))
    print(json.dumps(ev["coverage"].get("harness_notes"), indent=0)[:3000])
import shutil
shutil.rmtree(os.environ["VERIF_SCRATCH"], ignore_errors=True)
os.remove(os.path.join(driver.VERIF, "evidence", "ADHOC.json"))
sys.exit(rc)
