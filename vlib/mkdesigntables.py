#!/usr/bin/env python3
"""Regenerates the generated tables of DESIGN.md (between the marker comments)."""
import os
import re
import subprocess

V = os.path.dirname(os.path.dirname(os.path.abspath(__file__)))
p = os.path.join(V, "DESIGN.md")
s = open(p).read()
for name, script in (("STATUS-TABLE", "statustable.py"), ("SEED-TABLE", "seedtable.py"), ("COST-TABLE", "costtable.py")):
    out = subprocess.run(["python3", os.path.join(V, "vlib", script)], stdout=subprocess.PIPE, text=True, check=True).stdout
    s = re.sub(r"<!-- %s-BEGIN -->.*?<!-- %s-END -->" % (name, name), lambda m: "<!-- %s-BEGIN -->\n%s<!-- %s-END -->" % (name, out, name), s, flags=re.S)
open(p, "w").write(s)
