#!/usr/bin/env python3
"""Prints the measured-cost table (DESIGN.md 11.6) from the evidence files of the last quick and thorough runs."""
import glob
import json
import os

V = os.path.dirname(os.path.dirname(os.path.abspath(__file__)))
print("| id | quick: wall s / evaluations / distinct non-trivial | thorough: wall s / evaluations / distinct non-trivial |")
print("|---|---|---|")
for f in sorted(glob.glob(os.path.join(V, "evidence", "C??.json"))):
    pid = os.path.basename(f)[:-5]
    row = []
    for g in (f, os.path.join(V, "evidence_thorough", pid + ".json")):
        if not os.path.exists(g):
            row.append("-")
            continue
        e = json.load(open(g))
        cov = e.get("coverage", {})
        row.append("%s: %s / %s / %s" % (e.get("tier", "?"), int(cov.get("wall_s", e.get("wall_s", 0)) or 0), cov.get("evaluations", e.get("evaluations", "?")), cov.get("distinct_nontrivial", e.get("distinct_nontrivial", "?"))))
    print("| %s | %s | %s |" % (pid, row[0], row[1]))
