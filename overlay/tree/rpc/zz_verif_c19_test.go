package rpc

// C19: with an API key configured, no JSON-RPC request element that does not carry exactly
// that key reaches a service method, creates a subscription or cancels one; it is answered
// with an error (the invalid-key error when it is otherwise well-formed). Elements of the
// same batch that carry the key are still served.
//
// Runtime monitor: a real rpc.Server (key set) with a probe service is driven through the
// node's HTTP handler chain (httptest), the package's WebSocket handler (real loopback TCP,
// x/net/websocket client), the IPC listener (ipcListen + ServeListener on a unix socket) and
// the in-proc codec (ServeCodec(NewJSONCodec(pipe))). A finite request grammar is enumerated
// completely in the quick tier; the thorough tier adds a random extension of it.
//
// Observation points: per-token invocation records of the probe methods, global invocation /
// subscription-entry / subscription-creation counters, the Err() channel of the live
// subscription (closed exactly when an unsubscribe was executed), a notification pushed
// synchronously by the harness through the live subscription, and the response elements.

import (
	"context"
	"encoding/json"
	"fmt"
	"io/ioutil"
	"net"
	"net/http"
	"net/http/httptest"
	"os"
	"path/filepath"
	"strconv"
	"strings"
	"sync"
	"testing"
	"time"

	"github.com/idena-network/idena-go/log"
	"github.com/idena-network/idena-go/verifutil"
	"golang.org/x/net/websocket"
)

// ------------------------------------------------------------------ probe service

type c19sub struct {
	n *Notifier
	s *Subscription
}

// VerifC19Probe is registered as namespace "probe". Every method records that it ran.
type VerifC19Probe struct {
	mu         sync.Mutex
	calls      int64          // invocations of Echo/Ping/Pair
	callTok    map[string]int // per request-element token
	subEntered int64          // subscription methods entered
	subTok     map[string]int
	subCreated int64 // subscriptions created on a notifier
	subs       map[ID]*c19sub
	barriers   int64
}

func c19NewProbe() *VerifC19Probe {
	return &VerifC19Probe{callTok: map[string]int{}, subTok: map[string]int{}, subs: map[ID]*c19sub{}}
}

func (p *VerifC19Probe) hitCall(tok string) {
	p.mu.Lock()
	p.calls++
	if tok != "" {
		p.callTok[tok]++
	}
	p.mu.Unlock()
}

func (p *VerifC19Probe) Echo(tok string) string { p.hitCall(tok); return tok }
func (p *VerifC19Probe) Ping() string           { p.hitCall(""); return "pong" }
func (p *VerifC19Probe) Pair(ctx context.Context, tok string, n *int) (string, error) {
	p.hitCall(tok)
	return tok, nil
}

// Barrier is only used by the harness (with the key) to learn whether a connection is alive.
func (p *VerifC19Probe) Barrier() string {
	p.mu.Lock()
	p.barriers++
	p.mu.Unlock()
	return "ok"
}

func (p *VerifC19Probe) subscribe(ctx context.Context, tok string) (*Subscription, error) {
	p.mu.Lock()
	p.subEntered++
	if tok != "" {
		p.subTok[tok]++
	}
	p.mu.Unlock()
	n, ok := NotifierFromContext(ctx)
	if !ok {
		return nil, ErrNotificationsUnsupported
	}
	s := n.CreateSubscription()
	p.mu.Lock()
	p.subCreated++
	p.subs[s.ID] = &c19sub{n: n, s: s}
	p.mu.Unlock()
	return s, nil
}

func (p *VerifC19Probe) Events(ctx context.Context, tok string) (*Subscription, error) {
	return p.subscribe(ctx, tok)
}
func (p *VerifC19Probe) Ticks(ctx context.Context) (*Subscription, error) {
	return p.subscribe(ctx, "")
}

type c19snap struct{ calls, subEntered, subCreated int64 }

func (p *VerifC19Probe) snap() c19snap {
	p.mu.Lock()
	defer p.mu.Unlock()
	return c19snap{p.calls, p.subEntered, p.subCreated}
}
func (p *VerifC19Probe) callsOf(tok string) int {
	p.mu.Lock()
	defer p.mu.Unlock()
	return p.callTok[tok]
}
func (p *VerifC19Probe) subsOf(tok string) int {
	p.mu.Lock()
	defer p.mu.Unlock()
	return p.subTok[tok]
}
func (p *VerifC19Probe) sub(id string) *c19sub {
	p.mu.Lock()
	defer p.mu.Unlock()
	return p.subs[ID(id)]
}

// ------------------------------------------------------------------ request grammar

func c19q(s string) string {
	b, _ := json.Marshal(s)
	return string(b)
}

// key classes
const (
	kcMissing = iota
	kcEmpty
	kcWrong
	kcPrefix
	kcSuffix
	kcCase
	kcCorrect
	kcNumber
	kcNull
	kcObject
	kcArray
	kcBaseCount // the 11 classes of the enumerated grammar end here
	// random extension only
	kcEscaped = iota - 1 // the exact key written with \uXXXX escapes: carries the key
	kcPadLeft
	kcPadRight
	kcDoubled
	kcTail
	kcOneChar
	kcNul
	kcBool
	kcFloat
	kcLong
	kcNested
	kcAllCount
)

var c19KeyNames = []string{"missing", "empty", "wrong", "prefix", "suffix", "case", "correct", "number", "null", "object", "array",
	"escaped", "padleft", "padright", "doubled", "tail", "onechar", "nul", "bool", "float", "long", "nested"}

func c19KeyCarries(kc int) bool { return kc == kcCorrect || kc == kcEscaped }

// c19KeyTyped: the key member is absent or a JSON string (anything else is "oddly typed").
func c19KeyTyped(kc int) bool {
	switch kc {
	case kcNumber, kcNull, kcObject, kcArray, kcBool, kcFloat, kcNested:
		return false
	}
	return true
}

const c19alnum = "abcdefghijklmnopqrstuvwxyzABCDEFGHIJKLMNOPQRSTUVWXYZ0123456789"

func c19RandStr(rng *verifutil.Rng, n int) string {
	b := make([]byte, n)
	for i := range b {
		b[i] = c19alnum[rng.Intn(len(c19alnum))]
	}
	return string(b)
}

func c19SwapCase(s string) string {
	b := []byte(s)
	for i, c := range b {
		switch {
		case c >= 'a' && c <= 'z':
			b[i] = c - 32
		case c >= 'A' && c <= 'Z':
			b[i] = c + 32
		}
	}
	return string(b)
}

// c19KeyText returns the JSON text of the "key" member ("" = member absent).
func c19KeyText(kc int, key string, rng *verifutil.Rng) string {
	switch kc {
	case kcMissing:
		return ""
	case kcEmpty:
		return `""`
	case kcWrong:
		for {
			w := c19RandStr(rng, len(key))
			if w != key {
				return c19q(w)
			}
		}
	case kcPrefix:
		return c19q(key[:rng.Range(1, len(key)-1)])
	case kcSuffix:
		return c19q(key + c19RandStr(rng, rng.Range(1, 3)))
	case kcCase:
		if sw := c19SwapCase(key); sw != key {
			return c19q(sw)
		}
		return c19q(key + "A") // a key without letters has no case variant

	case kcCorrect:
		return c19q(key)
	case kcNumber:
		// (a key that reads like a number, sent as the bare number)
		if _, err := strconv.ParseInt(key, 10, 64); err == nil && rng.Intn(3) != 0 {
			return key
		}
		return []string{"0", "12345", "-1"}[rng.Intn(3)]
	case kcNull:
		return "null"
	case kcObject:
		return `{"key":` + c19q(key) + `}`
	case kcArray:
		return `[` + c19q(key) + `]`
	case kcEscaped:
		var sb strings.Builder
		sb.WriteByte('"')
		for i := 0; i < len(key); i++ {
			if i == 0 || rng.Bool() {
				fmt.Fprintf(&sb, `\u%04x`, key[i])
			} else {
				sb.WriteByte(key[i])
			}
		}
		sb.WriteByte('"')
		return sb.String()
	case kcPadLeft:
		return c19q(" " + key)
	case kcPadRight:
		return c19q(key + []string{" ", "\n", "\t"}[rng.Intn(3)])
	case kcDoubled:
		return c19q(key + key)
	case kcTail:
		return c19q(key[1:])
	case kcOneChar:
		b := []byte(key)
		i := rng.Intn(len(b))
		for {
			c := c19alnum[rng.Intn(len(c19alnum))]
			if c != b[i] {
				b[i] = c
				break
			}
		}
		return c19q(string(b))
	case kcNul:
		return `"` + key + `\u0000"`
	case kcBool:
		if (key == "true" || key == "false") && rng.Intn(3) != 0 {
			return key
		}
		return []string{"true", "false"}[rng.Intn(2)]
	case kcFloat:
		if key == "1.55" {
			return key
		}
		return "1.5"
	case kcLong:
		return c19q(key + strings.Repeat("A", 2000))
	case kcNested:
		return `[[` + c19q(key) + `]]`
	}
	panic("key class")
}

// id kinds
const (
	idNum = iota
	idStr
	idNull
	idFloat
	idNeg
	idExp
	idEmptyStr
	idBool
	idObject
	idArray
	idMissing
	idBaseCount
	idBig = iota - 1 // random extension only
	idLongStr
	idAllCount
)

var c19IdNames = []string{"num", "str", "null", "float", "neg", "exp", "emptystr", "bool", "object", "array", "missing", "big", "longstr"}

func c19IdValid(k int) bool {
	switch k {
	case idBool, idObject, idArray, idMissing:
		return false
	}
	return true
}

func c19IdText(k int, rng *verifutil.Rng) string {
	switch k {
	case idNum:
		return fmt.Sprint(rng.Intn(1000000))
	case idStr:
		return c19q("id-" + c19RandStr(rng, 4))
	case idNull:
		return "null"
	case idFloat:
		return fmt.Sprintf("%d.5", rng.Intn(1000))
	case idNeg:
		return fmt.Sprintf("-%d", 1+rng.Intn(1000))
	case idExp:
		return "1e3"
	case idEmptyStr:
		return `""`
	case idBool:
		return "true"
	case idObject:
		return `{"a":1}`
	case idArray:
		return "[1]"
	case idMissing:
		return ""
	case idBig:
		return "123456789012345678901234567890"
	case idLongStr:
		return c19q(strings.Repeat("i", 300))
	}
	panic("id kind")
}

// method classes
const (
	mcCall = iota
	mcUnkSvc
	mcUnkMeth
	mcMalformed
	mcSub
	mcUnsubLive
	mcUnsubDead
	mcSubBad
	mcCount
)

var c19ClassNames = []string{"call", "unknown-service", "unknown-method", "malformed-name", "subscribe", "unsub-live", "unsub-dead", "subscribe-badparams"}

// what a request of this form may legitimately reach when it carries the key
const (
	kdNone = iota
	kdCall
	kdSub
	kdUnsub
)

// what must be observed for a canonical form that carries the key
const (
	exNone = iota
	exEcho
	exPing
	exPair
	exResult
	exSubTok
	exSubNoTok
	exUnsubLive
)

type c19env struct{ tok, live, dead, rnd string }

type c19variant struct {
	class  int
	name   string
	method string                // JSON text of "method" ("" = member absent)
	params func(e c19env) string // JSON text of "params" ("" = member absent)
	kind   int
	expect int
	// canonical: with the key, this form must be fully served (probe effect + result)
	canonical bool
	// wellFormed: syntactically a proper request for a resolvable-looking name with proper
	// parameters; without the key (and with a well-typed key/id) it must get the invalid-key error
	wellFormed bool
	// typed: method is a JSON string and params is absent or a JSON array/object of the usual
	// kind; an element that is not typed may make the server reject the whole message
	typed       bool
	targetsLive bool // params mention the id of the live subscription
	usesTok     bool
	extended    bool // random extension only
}

func c19NoParams(e c19env) string { return "" }
func c19Tok(e c19env) string      { return "[" + c19q(e.tok) + "]" }
func c19Lit(s string) func(c19env) string {
	return func(c19env) string { return s }
}

var c19Variants = []c19variant{
	// ---- existing call
	{class: mcCall, name: "echo", method: `"probe_echo"`, params: c19Tok, kind: kdCall, expect: exEcho, canonical: true, wellFormed: true, typed: true, usesTok: true},
	{class: mcCall, name: "ping-noparams", method: `"probe_ping"`, params: c19NoParams, kind: kdCall, expect: exPing, canonical: true, wellFormed: true, typed: true},
	{class: mcCall, name: "ping-empty", method: `"probe_ping"`, params: c19Lit("[]"), kind: kdCall, expect: exPing, canonical: true, wellFormed: true, typed: true},
	{class: mcCall, name: "pair1", method: `"probe_pair"`, params: c19Tok, kind: kdCall, expect: exPair, canonical: true, wellFormed: true, typed: true, usesTok: true},
	{class: mcCall, name: "pair2", method: `"probe_pair"`, params: func(e c19env) string { return "[" + c19q(e.tok) + ",7]" }, kind: kdCall, expect: exPair, canonical: true, wellFormed: true, typed: true, usesTok: true},
	{class: mcCall, name: "modules", method: `"rpc_modules"`, params: c19NoParams, kind: kdNone, expect: exResult, canonical: true, wellFormed: true, typed: true},
	{class: mcCall, name: "echo-toomany", method: `"probe_echo"`, params: func(e c19env) string { return "[" + c19q(e.tok) + "," + c19q(e.tok) + "]" }, kind: kdCall, typed: true, usesTok: true},
	{class: mcCall, name: "echo-wrongtype", method: `"probe_echo"`, params: c19Lit("[5]"), kind: kdCall, typed: true},
	{class: mcCall, name: "echo-noparams", method: `"probe_echo"`, params: c19NoParams, kind: kdCall, typed: true},
	{class: mcCall, name: "echo-objparams", method: `"probe_echo"`, params: func(e c19env) string { return `{"a":` + c19q(e.tok) + `}` }, kind: kdCall, typed: true, usesTok: true},
	{class: mcCall, name: "echo-nullparams", method: `"probe_echo"`, params: c19Lit("null"), kind: kdCall},
	{class: mcCall, name: "ping-extra", method: `"probe_ping"`, params: c19Tok, kind: kdCall, typed: true, usesTok: true},
	// ---- unknown service
	{class: mcUnkSvc, name: "nosuch-echo", method: `"nosuch_echo"`, params: c19Tok, kind: kdNone, wellFormed: true, typed: true, usesTok: true},
	{class: mcUnkSvc, name: "nosuch-ping", method: `"nosuch_ping"`, params: c19NoParams, kind: kdNone, wellFormed: true, typed: true},
	{class: mcUnkSvc, name: "nosuch-subscribe", method: `"nosuch_subscribe"`, params: func(e c19env) string { return `["events",` + c19q(e.tok) + `]` }, kind: kdSub, wellFormed: true, typed: true, usesTok: true},
	// ---- unknown method of an existing service
	{class: mcUnkMeth, name: "probe-nosuch", method: `"probe_nosuch"`, params: c19Tok, kind: kdNone, wellFormed: true, typed: true, usesTok: true},
	{class: mcUnkMeth, name: "probe-Echo", method: `"probe_Echo"`, params: c19Tok, kind: kdCall, wellFormed: true, typed: true, usesTok: true},
	{class: mcUnkMeth, name: "rpc-nosuch", method: `"rpc_nosuch"`, params: c19NoParams, kind: kdNone, wellFormed: true, typed: true},
	// ---- malformed method name
	{class: mcMalformed, name: "nosep", method: `"probeecho"`, params: c19Tok, kind: kdCall, typed: true, usesTok: true},
	{class: mcMalformed, name: "threeparts", method: `"probe_echo_x"`, params: c19Tok, kind: kdCall, typed: true, usesTok: true},
	{class: mcMalformed, name: "emptyname", method: `""`, params: c19Tok, kind: kdCall, typed: true, usesTok: true},
	{class: mcMalformed, name: "nomethod", method: ``, params: c19Tok, kind: kdCall, usesTok: true},
	{class: mcMalformed, name: "method-num", method: `5`, params: c19Tok, kind: kdCall, usesTok: true},
	{class: mcMalformed, name: "method-null", method: `null`, params: c19Tok, kind: kdCall, usesTok: true},
	{class: mcMalformed, name: "method-array", method: `["probe_echo"]`, params: c19Tok, kind: kdCall, usesTok: true},
	{class: mcMalformed, name: "method-object", method: `{"m":"probe_echo"}`, params: c19Tok, kind: kdCall, usesTok: true},
	{class: mcMalformed, name: "method-bool", method: `true`, params: c19Tok, kind: kdCall, usesTok: true},
	// ---- subscribe
	{class: mcSub, name: "events", method: `"probe_subscribe"`, params: func(e c19env) string { return `["events",` + c19q(e.tok) + `]` }, kind: kdSub, expect: exSubTok, canonical: true, wellFormed: true, typed: true, usesTok: true},
	{class: mcSub, name: "ticks", method: `"probe_subscribe"`, params: c19Lit(`["ticks"]`), kind: kdSub, expect: exSubNoTok, canonical: true, wellFormed: true, typed: true},
	// ---- unsubscribe of the live subscription
	{class: mcUnsubLive, name: "unsub-live", method: `"probe_unsubscribe"`, params: func(e c19env) string { return `[` + c19q(e.live) + `]` }, kind: kdUnsub, expect: exUnsubLive, canonical: true, wellFormed: true, typed: true, targetsLive: true},
	{class: mcUnsubLive, name: "unsub-live-othersvc", method: `"nosuch_unsubscribe"`, params: func(e c19env) string { return `[` + c19q(e.live) + `]` }, kind: kdUnsub, typed: true, targetsLive: true},
	{class: mcUnsubLive, name: "unsub-live-nosvc", method: `"_unsubscribe"`, params: func(e c19env) string { return `[` + c19q(e.live) + `]` }, kind: kdUnsub, typed: true, targetsLive: true},
	{class: mcUnsubLive, name: "unsub-live-extra", method: `"probe_unsubscribe"`, params: func(e c19env) string { return `[` + c19q(e.live) + `,"x"]` }, kind: kdUnsub, typed: true, targetsLive: true},
	{class: mcUnsubLive, name: "unsub-live-second", method: `"probe_unsubscribe"`, params: func(e c19env) string { return `[5,` + c19q(e.live) + `]` }, kind: kdUnsub, typed: true, targetsLive: true},
	{class: mcUnsubLive, name: "unsub-live-object", method: `"probe_unsubscribe"`, params: func(e c19env) string { return `{"id":` + c19q(e.live) + `}` }, kind: kdUnsub, typed: true, targetsLive: true},
	// ---- unsubscribe of a dead id
	{class: mcUnsubDead, name: "unsub-cancelled", method: `"probe_unsubscribe"`, params: func(e c19env) string { return `[` + c19q(e.dead) + `]` }, kind: kdUnsub, wellFormed: true, typed: true},
	{class: mcUnsubDead, name: "unsub-random", method: `"probe_unsubscribe"`, params: func(e c19env) string { return `[` + c19q(e.rnd) + `]` }, kind: kdUnsub, wellFormed: true, typed: true},
	{class: mcUnsubDead, name: "unsub-noparams", method: `"probe_unsubscribe"`, params: c19NoParams, kind: kdUnsub, typed: true},
	{class: mcUnsubDead, name: "unsub-empty", method: `"probe_unsubscribe"`, params: c19Lit("[]"), kind: kdUnsub, typed: true},
	// ---- subscribe with bad params
	{class: mcSubBad, name: "sub-missingarg", method: `"probe_subscribe"`, params: c19Lit(`["events"]`), kind: kdSub, typed: true},
	{class: mcSubBad, name: "sub-wrongtype", method: `"probe_subscribe"`, params: c19Lit(`["events",5]`), kind: kdSub, typed: true},
	{class: mcSubBad, name: "sub-toomany", method: `"probe_subscribe"`, params: func(e c19env) string { return `["events",` + c19q(e.tok) + `,` + c19q(e.tok) + `]` }, kind: kdSub, typed: true, usesTok: true},
	{class: mcSubBad, name: "sub-unknown", method: `"probe_subscribe"`, params: func(e c19env) string { return `["nosuch",` + c19q(e.tok) + `]` }, kind: kdSub, typed: true, usesTok: true},
	{class: mcSubBad, name: "sub-empty", method: `"probe_subscribe"`, params: c19Lit(`[]`), kind: kdSub},
	{class: mcSubBad, name: "sub-numfirst", method: `"probe_subscribe"`, params: c19Lit(`[5]`), kind: kdSub},
	{class: mcSubBad, name: "sub-object", method: `"probe_subscribe"`, params: c19Lit(`{"a":1}`), kind: kdSub},
	{class: mcSubBad, name: "sub-noparams", method: `"probe_subscribe"`, params: c19NoParams, kind: kdSub},
	{class: mcSubBad, name: "sub-null", method: `"probe_subscribe"`, params: c19Lit(`null`), kind: kdSub},
	{class: mcSubBad, name: "sub-string", method: `"probe_subscribe"`, params: c19Lit(`"events"`), kind: kdSub},
	{class: mcSubBad, name: "ticks-extra", method: `"probe_subscribe"`, params: func(e c19env) string { return `["ticks",` + c19q(e.tok) + `]` }, kind: kdSub, typed: true, usesTok: true},
	// ---- random extension only: odd names around the pub-sub suffixes, case and padding
	{class: mcMalformed, name: "x-echo-unsubscribe", method: `"probe_echo_unsubscribe"`, params: c19Tok, kind: kdCall, typed: true, usesTok: true, extended: true},
	{class: mcMalformed, name: "x-echo-subscribe", method: `"probe_echo_subscribe"`, params: c19Tok, kind: kdCall, typed: true, usesTok: true, extended: true},
	{class: mcUnsubLive, name: "x-sub-unsub-live", method: `"probe_subscribe_unsubscribe"`, params: func(e c19env) string { return `[` + c19q(e.live) + `]` }, kind: kdUnsub, typed: true, targetsLive: true, extended: true},
	{class: mcSubBad, name: "x-unsub-sub", method: `"probe_unsubscribe_subscribe"`, params: func(e c19env) string { return `["events",` + c19q(e.tok) + `]` }, kind: kdSub, typed: true, usesTok: true, extended: true},
	{class: mcMalformed, name: "x-bare-unsubscribe", method: `"unsubscribe"`, params: func(e c19env) string { return `[` + c19q(e.live) + `]` }, kind: kdUnsub, typed: true, targetsLive: true, extended: true},
	{class: mcMalformed, name: "x-bare-subscribe", method: `"subscribe"`, params: func(e c19env) string { return `["events",` + c19q(e.tok) + `]` }, kind: kdSub, typed: true, usesTok: true, extended: true},
	{class: mcUnkSvc, name: "x-nosvc-subscribe", method: `"_subscribe"`, params: func(e c19env) string { return `["events",` + c19q(e.tok) + `]` }, kind: kdSub, typed: true, usesTok: true, extended: true},
	{class: mcUnkSvc, name: "x-upper-svc", method: `"PROBE_echo"`, params: c19Tok, kind: kdCall, typed: true, usesTok: true, extended: true},
	{class: mcUnkMeth, name: "x-upper-meth", method: `"probe_ECHO"`, params: c19Tok, kind: kdCall, typed: true, usesTok: true, extended: true},
	{class: mcMalformed, name: "x-padded", method: `" probe_echo"`, params: c19Tok, kind: kdCall, typed: true, usesTok: true, extended: true},
	{class: mcMalformed, name: "x-padded-right", method: `"probe_echo "`, params: c19Tok, kind: kdCall, typed: true, usesTok: true, extended: true},
	{class: mcMalformed, name: "x-dot", method: `"probe.echo"`, params: c19Tok, kind: kdCall, typed: true, usesTok: true, extended: true},
	{class: mcMalformed, name: "x-nul", method: `"probe_echo\u0000"`, params: c19Tok, kind: kdCall, typed: true, usesTok: true, extended: true},
	{class: mcMalformed, name: "x-underscores", method: `"probe__echo"`, params: c19Tok, kind: kdCall, typed: true, usesTok: true, extended: true},
	{class: mcUnsubLive, name: "x-Unsubscribe-case", method: `"probe_Unsubscribe"`, params: func(e c19env) string { return `[` + c19q(e.live) + `]` }, kind: kdUnsub, typed: true, targetsLive: true, extended: true},
	{class: mcSubBad, name: "x-Subscribe-case", method: `"probe_Subscribe"`, params: func(e c19env) string { return `["events",` + c19q(e.tok) + `]` }, kind: kdSub, typed: true, usesTok: true, extended: true},
	{class: mcSubBad, name: "x-Events-case", method: `"probe_subscribe"`, params: func(e c19env) string { return `["Events",` + c19q(e.tok) + `]` }, kind: kdSub, typed: true, usesTok: true, extended: true},
}

func c19VariantIndex(name string) int {
	for i, v := range c19Variants {
		if v.name == name {
			return i
		}
	}
	panic("variant " + name)
}

func c19BaseVariants() []int {
	var out []int
	for i, v := range c19Variants {
		if !v.extended {
			out = append(out, i)
		}
	}
	return out
}

type c19elemSpec struct{ key, variant, id int }

type c19case struct {
	part  string
	batch bool
	el    []c19elemSpec
	env   int // envelope oddities (random extension): bit0 no jsonrpc member, bit1 jsonrpc "1.0", bit2 jsonrpc number, bit3 extra member, bit4 whitespace
}

// c19Grammar is the finite request grammar G that the quick tier enumerates completely
// (identically for every transport):
//
//	S   every single request (key class × method variant × id kind)
//	B1  every (key class × 10 method atoms) element at every position of batches of 1..4 whose
//	    other elements carry the key (4 filler forms)
//	B2  every correct/non-correct key pattern over batches of 1..4 × every non-correct key class
//	    × 8 method classes
//	B3  every ordered pair of (key class × 8 method classes) elements
//	B4  every ordered pair of id kinds on [keyed call, wrong-key call] and the reverse
func c19Grammar() []c19case {
	var g []c19case
	base := c19BaseVariants()
	for kc := 0; kc < kcBaseCount; kc++ {
		for _, v := range base {
			for id := 0; id < idBaseCount; id++ {
				g = append(g, c19case{part: "S", el: []c19elemSpec{{kc, v, id}}})
			}
		}
	}
	vi := c19VariantIndex
	atoms := []int{vi("echo"), vi("nosuch-echo"), vi("probe-nosuch"), vi("nosep"), vi("method-num"), vi("events"),
		vi("unsub-live"), vi("unsub-cancelled"), vi("sub-missingarg"), vi("sub-noparams")}
	fillers := []int{vi("echo"), vi("events"), vi("unsub-live"), vi("probe-nosuch")}
	for kc := 0; kc < kcBaseCount; kc++ {
		for _, a := range atoms {
			for n := 1; n <= 4; n++ {
				for p := 0; p < n; p++ {
					for _, f := range fillers {
						el := make([]c19elemSpec, n)
						for i := range el {
							el[i] = c19elemSpec{kcCorrect, f, idNum}
						}
						el[p] = c19elemSpec{kc, a, idNum}
						g = append(g, c19case{part: "B1", batch: true, el: el})
					}
				}
			}
		}
	}
	classAtoms := []int{vi("echo"), vi("nosuch-echo"), vi("probe-nosuch"), vi("nosep"), vi("events"), vi("unsub-live"),
		vi("unsub-cancelled"), vi("sub-missingarg")}
	for _, m := range classAtoms {
		for n := 1; n <= 4; n++ {
			for pat := 0; pat < 1<<uint(n); pat++ {
				ws := []int{kcWrong}
				if pat != 0 {
					ws = nil
					for kc := 0; kc < kcBaseCount; kc++ {
						if kc != kcCorrect {
							ws = append(ws, kc)
						}
					}
				}
				for _, w := range ws {
					el := make([]c19elemSpec, n)
					for i := range el {
						k := kcCorrect
						if pat&(1<<uint(i)) != 0 {
							k = w
						}
						el[i] = c19elemSpec{k, m, idNum}
					}
					g = append(g, c19case{part: "B2", batch: true, el: el})
				}
			}
		}
	}
	for k1 := 0; k1 < kcBaseCount; k1++ {
		for _, m1 := range classAtoms {
			for k2 := 0; k2 < kcBaseCount; k2++ {
				for _, m2 := range classAtoms {
					g = append(g, c19case{part: "B3", batch: true, el: []c19elemSpec{{k1, m1, idStr}, {k2, m2, idNum}}})
				}
			}
		}
	}
	for i1 := 0; i1 < idBaseCount; i1++ {
		for i2 := 0; i2 < idBaseCount; i2++ {
			g = append(g, c19case{part: "B4", batch: true, el: []c19elemSpec{{kcCorrect, vi("echo"), i1}, {kcWrong, vi("echo"), i2}}})
			g = append(g, c19case{part: "B4", batch: true, el: []c19elemSpec{{kcWrong, vi("echo"), i1}, {kcCorrect, vi("echo"), i2}}})
		}
	}
	return g
}

// c19RandomCase draws one request of the random extension.
func c19RandomCase(rng *verifutil.Rng) c19case {
	c := c19case{part: "R"}
	n := 1
	if rng.Chance(3, 4) {
		c.batch = true
		n = rng.Range(1, 7)
	}
	// three out of five requests stay properly typed (string keys, valid ids, string method
	// names, usual envelope), so that the server processes them element by element; the others
	// may contain anything. Most requests mix the key with one recurring hostile key class.
	clean := rng.Chance(3, 5)
	pickKey := func() int {
		for {
			if k := rng.Intn(kcAllCount); !clean || c19KeyTyped(k) {
				return k
			}
		}
	}
	hostile := pickKey()
	for i := 0; i < n; i++ {
		var sp c19elemSpec
		switch rng.Pick(4, 4, 2) {
		case 0:
			sp.key = kcCorrect
			if rng.Chance(1, 8) {
				sp.key = kcEscaped
			}
		case 1:
			sp.key = hostile
		default:
			sp.key = pickKey()
		}
		if rng.Chance(1, 2) {
			// the forms that do something when they are let through
			sp.variant = c19VariantIndex([]string{"echo", "ping-noparams", "pair2", "events", "ticks", "unsub-live", "unsub-live-othersvc", "ping-extra", "ticks-extra", "x-sub-unsub-live"}[rng.Intn(10)])
		} else {
			for {
				sp.variant = rng.Intn(len(c19Variants))
				if !clean || c19Variants[sp.variant].typed {
					break
				}
			}
		}
		if clean || rng.Chance(3, 4) {
			sp.id = []int{idNum, idStr, idNull, idFloat, idNeg, idBig, idExp, idEmptyStr, idLongStr}[rng.Intn(9)]
		} else {
			sp.id = rng.Intn(idAllCount)
		}
		c.el = append(c.el, sp)
	}
	switch {
	case clean:
		c.env = []int{0, 0, 8, 16, 24}[rng.Intn(5)]
	case rng.Chance(1, 2):
		c.env = 1 << uint(rng.Intn(5))
		if rng.Chance(1, 4) {
			c.env |= 1 << uint(rng.Intn(5))
		}
	}
	return c
}

// ------------------------------------------------------------------ built elements

type c19elem struct {
	spec   c19elemSpec
	v      *c19variant
	text   string
	tok    string
	keyed  bool // carries exactly the key
	typed  bool // no member is oddly typed: gives the server no licence to reject the whole message
	strict bool // otherwise well-formed: without the key the answer must be the invalid-key error
}

func c19Build(rng *verifutil.Rng, sp c19elemSpec, env int, e c19env, key string) c19elem {
	v := &c19Variants[sp.variant]
	el := c19elem{spec: sp, v: v, keyed: c19KeyCarries(sp.key)}
	if v.usesTok {
		el.tok = e.tok
	}
	envTyped := env&7 == 0 // a missing / unusual "jsonrpc" member: nothing is demanded for such an element beyond "nothing ran, error"
	el.typed = c19KeyTyped(sp.key) && c19IdValid(sp.id) && v.typed && envTyped
	el.strict = !el.keyed && el.typed && v.wellFormed
	var members []string
	switch {
	case env&1 != 0:
	case env&2 != 0:
		members = append(members, `"jsonrpc":"1.0"`)
	case env&4 != 0:
		members = append(members, `"jsonrpc":2`)
	default:
		members = append(members, `"jsonrpc":"2.0"`)
	}
	if t := c19IdText(sp.id, rng); t != "" {
		members = append(members, `"id":`+t)
	}
	if v.method != "" {
		members = append(members, `"method":`+v.method)
	}
	if t := v.params(e); t != "" {
		members = append(members, `"params":`+t)
	}
	if t := c19KeyText(sp.key, key, rng); t != "" {
		members = append(members, `"key":`+t)
	}
	if env&8 != 0 {
		members = append(members, `"extra":{"key":`+c19q(key)+`,"method":"probe_echo","params":[`+c19q(e.tok)+`]}`)
	}
	// member order must not matter: rotate
	if r := rng.Intn(len(members)); r > 0 {
		members = append(members[r:], members[:r]...)
	}
	sep := ","
	open, cl := "{", "}"
	if env&16 != 0 {
		sep, open, cl = " ,\n\t", " {\r\n ", " } "
	}
	el.text = open + strings.Join(members, sep) + cl
	return el
}

// ------------------------------------------------------------------ responses

type c19respElem struct {
	isObj     bool
	hasError  bool
	code      int64
	msg       string
	hasResult bool
	result    interface{}
	isNotif   bool
	notifSub  string
	notifRes  interface{}
}

func (e c19respElem) isErr() bool { return e.isObj && e.hasError && !e.hasResult }

type c19resp struct {
	valid   bool
	isArray bool
	elems   []c19respElem
}

func c19RespElemOf(v interface{}) c19respElem {
	var e c19respElem
	m, ok := v.(map[string]interface{})
	if !ok {
		return e
	}
	e.isObj = true
	if er, ok := m["error"]; ok {
		if em, ok := er.(map[string]interface{}); ok {
			if code, ok := em["code"].(json.Number); ok {
				if c, err := code.Int64(); err == nil {
					e.hasError = true
					e.code = c
				}
			}
			e.msg, _ = em["message"].(string)
		}
	}
	if res, ok := m["result"]; ok {
		e.hasResult = true
		e.result = res
	}
	if _, ok := m["method"]; ok {
		e.isNotif = true
		if pm, ok := m["params"].(map[string]interface{}); ok {
			e.notifSub, _ = pm["subscription"].(string)
			e.notifRes = pm["result"]
		}
	}
	return e
}

func c19ParseResp(raw string) c19resp {
	var r c19resp
	dec := json.NewDecoder(strings.NewReader(raw))
	dec.UseNumber()
	var v interface{}
	if err := dec.Decode(&v); err != nil {
		return r
	}
	switch x := v.(type) {
	case []interface{}:
		r.valid, r.isArray = true, true
		for _, y := range x {
			r.elems = append(r.elems, c19RespElemOf(y))
		}
	case map[string]interface{}:
		r.valid = true
		r.elems = []c19respElem{c19RespElemOf(x)}
	}
	return r
}

// ------------------------------------------------------------------ transports

const (
	stOK = iota
	stNoAnswer
	stTimeout
	stSendErr
)

type c19conn struct {
	send    func(string) error
	msgs    chan string
	closeFn func()
}

func c19StreamConn(c net.Conn, timeout time.Duration) *c19conn {
	msgs := make(chan string, 64)
	go func() {
		defer close(msgs)
		dec := json.NewDecoder(c)
		for {
			var raw json.RawMessage
			if err := dec.Decode(&raw); err != nil {
				return
			}
			msgs <- string(raw)
		}
	}()
	return &c19conn{
		send: func(s string) error {
			c.SetWriteDeadline(time.Now().Add(timeout))
			// no trailing newline: objects and arrays delimit themselves, and on the synchronous
			// net.Pipe a byte the server never reads would turn its close into a write error here
			_, err := c.Write([]byte(s))
			return err
		},
		msgs:    msgs,
		closeFn: func() { c.Close() },
	}
}

func c19WsConn(url string, timeout time.Duration) (*c19conn, error) {
	cfg, err := websocket.NewConfig(url, "http://localhost")
	if err != nil {
		return nil, err
	}
	ws, err := websocket.DialConfig(cfg)
	if err != nil {
		return nil, err
	}
	ws.MaxPayloadBytes = 64 << 20
	msgs := make(chan string, 64)
	go func() {
		defer close(msgs)
		for {
			var s string
			if err := websocket.Message.Receive(ws, &s); err != nil {
				return
			}
			msgs <- s
		}
	}()
	return &c19conn{
		send: func(s string) error {
			ws.SetWriteDeadline(time.Now().Add(timeout))
			return websocket.Message.Send(ws, s)
		},
		msgs:    msgs,
		closeFn: func() { ws.Close() },
	}, nil
}

type c19live struct {
	id  string
	sub *c19sub
}

func (l *c19live) cancelled() bool {
	select {
	case <-l.sub.s.Err():
		return true
	default:
		return false
	}
}

type c19session struct {
	h       *c19harness
	name    string
	subs    bool // transport supports subscriptions
	srv     *Server
	probe   *VerifC19Probe
	dial    func() (*c19conn, error)
	post    func(body string) (string, int)
	conn    *c19conn
	comp    *c19session // http: in-proc companion connection on the same server that holds the live subscription
	live    *c19live
	deadID  string
	hkN     int
	nonce   int
	broken  bool
	cleanup []func()
}

func (s *c19session) close() {
	if s.comp != nil {
		s.comp.close()
	}
	if s.conn != nil {
		s.conn.closeFn()
		s.conn = nil
	}
	for i := len(s.cleanup) - 1; i >= 0; i-- {
		s.cleanup[i]()
	}
	s.cleanup = nil
}

func (s *c19session) recvRaw() (string, int) {
	timer := time.NewTimer(s.h.timeout)
	defer timer.Stop()
	select {
	case m, ok := <-s.conn.msgs:
		if !ok {
			return "", stNoAnswer
		}
		return m, stOK
	case <-timer.C:
		return "", stTimeout
	}
}

// recvResponse returns the next message that is not a notification.
func (s *c19session) recvResponse() (string, int) {
	for k := 0; k < 100; k++ {
		m, st := s.recvRaw()
		if st != stOK {
			return m, st
		}
		if strings.Contains(m, `"method"`) {
			if r := c19ParseResp(m); r.valid && !r.isArray && r.elems[0].isNotif {
				s.h.rep.Count("stray_notifications", 1)
				continue
			}
		}
		return m, stOK
	}
	return "", stTimeout
}

// roundTrip sends one message and returns the raw answer.
func (s *c19session) roundTrip(text string) (string, int) {
	if s.post != nil {
		return s.post(text)
	}
	if err := s.conn.send(text); err != nil {
		return err.Error(), stSendErr
	}
	return s.recvResponse()
}

func (s *c19session) dropConn() {
	if s.conn != nil {
		s.conn.closeFn()
	}
	s.conn, s.live = nil, nil
}

// hk performs one housekeeping request that carries the key. ok=false: the connection is gone
// or did not answer in time (st tells which).
func (s *c19session) hk(method, params string) (c19respElem, int) {
	s.hkN++
	text := fmt.Sprintf(`{"jsonrpc":"2.0","id":"hk%d","method":%s,"params":%s,"key":%s}`, s.hkN, c19q(method), params, c19q(s.h.key))
	raw, st := s.roundTrip(text)
	if st != stOK {
		return c19respElem{}, st
	}
	r := c19ParseResp(raw)
	if !r.valid || r.isArray {
		return c19respElem{}, stOK
	}
	return r.elems[0], stOK
}

// alive asks the connection for a keyed no-op; false = the server has closed the connection.
func (s *c19session) alive() (bool, int) {
	e, st := s.hk("probe_barrier", "[]")
	if st != stOK {
		return false, st
	}
	if str, _ := e.result.(string); str != "ok" {
		return false, stOK
	}
	return true, stOK
}

// deliverCheck pushes one notification through the live subscription and waits for it.
func (s *c19session) deliverCheck() (bool, string) {
	if s.comp != nil {
		return s.comp.deliverCheck()
	}
	s.nonce++
	want := fmt.Sprintf("n%d", s.nonce)
	s.live.sub.n.Notify(ID(s.live.id), want)
	for k := 0; k < 20; k++ {
		m, st := s.recvRaw()
		if st != stOK {
			return false, fmt.Sprintf("no notification (status %d)", st)
		}
		r := c19ParseResp(m)
		if r.valid && !r.isArray && r.elems[0].isNotif && r.elems[0].notifSub == s.live.id {
			if got, _ := r.elems[0].notifRes.(string); got == want {
				return true, ""
			}
		}
		s.h.rep.Count("stray_messages", 1)
	}
	return false, "only stray messages"
}

// ready makes sure the session has a connection with a delivering live subscription and knows
// a cancelled subscription id. Failures are harness problems (inconclusive), never verdicts.
func (s *c19session) ready() bool {
	if s.broken {
		return false
	}
	fail := func(format string, a ...interface{}) bool {
		s.broken = true
		s.h.rep.Inconcl("housekeeping on %s failed: %s", s.name, fmt.Sprintf(format, a...))
		return false
	}
	if s.comp != nil {
		if !s.comp.ready() {
			s.broken = true
			return false
		}
		s.live, s.deadID = s.comp.live, s.comp.deadID
		return true
	}
	for attempt := 0; ; attempt++ {
		if attempt == 3 {
			return fail("could not establish a live subscription")
		}
		if s.conn == nil {
			c, err := s.dial()
			if err != nil {
				return fail("dial: %v", err)
			}
			s.conn, s.live = c, nil
			s.h.rep.Count("connections_"+s.name, 1)
		}
		if s.live != nil && s.live.cancelled() {
			s.live = nil
		}
		if s.live == nil {
			e, st := s.hk("probe_subscribe", `["events","hk"]`)
			if st != stOK {
				s.dropConn()
				continue
			}
			id, _ := e.result.(string)
			ps := s.probe.sub(id)
			if id == "" || ps == nil {
				return fail("keyed subscribe answered %+v", e)
			}
			s.live = &c19live{id: id, sub: ps}
			if ok, why := s.deliverCheck(); !ok {
				s.dropConn()
				s.h.rep.Note("fresh live subscription on %s did not deliver: %s", s.name, why)
				continue
			}
		}
		if s.deadID == "" {
			e, st := s.hk("probe_subscribe", `["events","hk"]`)
			if st != stOK {
				s.dropConn()
				continue
			}
			id, _ := e.result.(string)
			ps := s.probe.sub(id)
			if id == "" || ps == nil {
				return fail("keyed subscribe (for the dead id) answered %+v", e)
			}
			// activation happens after the answer was written: wait for it through a notification
			tmp := s.live
			s.live = &c19live{id: id, sub: ps}
			ok, why := s.deliverCheck()
			if !ok {
				s.live = nil
				s.dropConn()
				s.h.rep.Note("second subscription on %s did not deliver: %s", s.name, why)
				continue
			}
			s.live = tmp
			e, st = s.hk("probe_unsubscribe", `[`+c19q(id)+`]`)
			if st != stOK {
				s.dropConn()
				continue
			}
			if b, _ := e.result.(bool); !b {
				return fail("keyed unsubscribe answered %+v", e)
			}
			s.deadID = id
		}
		return true
	}
}

// ------------------------------------------------------------------ harness

type c19harness struct {
	rep        *verifutil.Report
	key        string
	invalidKey int64
	timeout    time.Duration
	sampled    map[string]int
}

func (h *c19harness) newSession(name string) (*c19session, error) {
	srv := NewServer(h.key)
	probe := c19NewProbe()
	if err := srv.RegisterName("probe", probe); err != nil {
		return nil, err
	}
	s := &c19session{h: h, name: name, srv: srv, probe: probe}
	inproc := func() (*c19conn, error) {
		p1, p2 := net.Pipe()
		go srv.ServeCodec(NewJSONCodec(p1), OptionMethodInvocation|OptionSubscriptions)
		return c19StreamConn(p2, h.timeout), nil
	}
	switch name {
	case "http":
		// the handler chain the node installs (vhost check in front of the server)
		hs := NewHTTPServer(nil, []string{"localhost"}, DefaultHTTPTimeouts, srv)
		ts := httptest.NewServer(hs.Handler)
		client := &http.Client{Timeout: h.timeout}
		s.cleanup = append(s.cleanup, func() { client.CloseIdleConnections(); ts.Close() })
		s.post = func(body string) (string, int) {
			req, err := http.NewRequest(http.MethodPost, ts.URL, strings.NewReader(body))
			if err != nil {
				return err.Error(), stSendErr
			}
			req.Header.Set("Content-Type", "application/json")
			resp, err := client.Do(req)
			if err != nil {
				return err.Error(), stSendErr
			}
			defer resp.Body.Close()
			b, err := ioutil.ReadAll(resp.Body)
			if err != nil {
				return err.Error(), stSendErr
			}
			if resp.StatusCode != 200 {
				return fmt.Sprintf("HTTP %d: %s", resp.StatusCode, b), stOK
			}
			if len(strings.TrimSpace(string(b))) == 0 {
				return "", stNoAnswer
			}
			return string(b), stOK
		}
		s.comp = &c19session{h: h, name: "http-companion", subs: true, srv: srv, probe: probe, dial: inproc}
	case "ws":
		ts := httptest.NewServer(srv.WebsocketHandler([]string{"*"}))
		url := "ws" + strings.TrimPrefix(ts.URL, "http")
		s.cleanup = append(s.cleanup, func() { ts.CloseClientConnections(); ts.Close() })
		s.dial = func() (*c19conn, error) { return c19WsConn(url, h.timeout) }
		s.subs = true
	case "ipc":
		dir, err := ioutil.TempDir("", "c19ipc")
		if err != nil {
			return nil, err
		}
		path := filepath.Join(dir, "v.ipc")
		l, err := ipcListen(path)
		if err != nil {
			os.RemoveAll(dir)
			return nil, err
		}
		go srv.ServeListener(l)
		s.cleanup = append(s.cleanup, func() { l.Close(); os.RemoveAll(dir) })
		s.dial = func() (*c19conn, error) {
			c, err := net.Dial("unix", path)
			if err != nil {
				return nil, err
			}
			return c19StreamConn(c, h.timeout), nil
		}
		s.subs = true
	case "inproc":
		s.dial = inproc
		s.subs = true
	default:
		return nil, fmt.Errorf("transport %s", name)
	}
	return s, nil
}

var c19Transports = []string{"http", "ws", "ipc", "inproc"}

// runCase executes one request on one transport and evaluates every element of it.
func (h *c19harness) runCase(s *c19session, c c19case, caseNo int) {
	rep := h.rep
	if !s.ready() {
		return
	}
	partNo := uint64(1) // caseNo is the index into the grammar list, or into the random extension
	if c.part == "R" {
		partNo = 2
	}
	rng := verifutil.NewRng(verifutil.Seed(), 19, partNo, uint64(caseNo))
	liveBefore := s.live
	els := make([]c19elem, len(c.el))
	texts := make([]string, len(c.el))
	for i, sp := range c.el {
		env := c19env{
			tok:  fmt.Sprintf("%s%d.%d.%s", c.part, caseNo, i, s.name),
			live: liveBefore.id,
			dead: s.deadID,
			rnd:  "0x" + verifutil.Hex(rng.Bytes(8)),
		}
		els[i] = c19Build(rng, sp, c.env, env, h.key)
		texts[i] = els[i].text
	}
	text := texts[0]
	form := "single"
	if c.batch {
		text = "[" + strings.Join(texts, ",") + "]"
		form = "batch"
	}
	replay := map[string]interface{}{"part": c.part, "index": caseNo, "transport": s.name, "request": text, "api_key": h.key}
	rep.Progress("%s %s #%d %s", s.name, c.part, caseNo, verifutil.Trunc(text, 600))

	before := s.probe.snap()
	raw, st := s.roundTrip(text)
	after := s.probe.snap()
	replay["response"] = verifutil.Trunc(raw, 4000)

	// ---- accounting
	n := len(els)
	shape := make([]string, n)
	nKeyed, allowCall, allowSub := 0, int64(0), int64(0)
	mustParse := true
	firstTarget := -1
	keyedTarget := false
	unkeyedTarget := -1
	for i, e := range els {
		shape[i] = fmt.Sprintf("%s/%s/%s", c19KeyNames[e.spec.key], e.v.name, c19IdNames[e.spec.id])
		rep.Eval(1)
		rep.Count("key_"+c19KeyNames[e.spec.key], 1)
		rep.Count("meth_"+c19ClassNames[e.v.class], 1)
		if e.spec.key < kcBaseCount {
			rep.Count("kxm_"+c19KeyNames[e.spec.key]+"_"+c19ClassNames[e.v.class], 1)
		}
		rep.Count("id_"+c19IdNames[e.spec.id], 1)
		if e.keyed {
			nKeyed++
			rep.Count("elements_with_key", 1)
			if e.v.kind == kdCall {
				allowCall++
			}
			if e.v.kind == kdSub {
				allowSub++
			}
		} else {
			rep.Count("elements_without_key", 1)
			rep.Count("nokey_"+s.name+"_"+form, 1)
		}
		if !e.typed {
			mustParse = false
		}
		if e.v.targetsLive {
			if firstTarget < 0 {
				firstTarget = i
			}
			if e.keyed {
				keyedTarget = true
			} else if unkeyedTarget < 0 {
				unkeyedTarget = i
			}
		}
	}
	rep.Count("requests", 1)
	rep.Count("t_"+s.name, 1)
	rep.Count(fmt.Sprintf("%s_size_%d", form, n), 1)
	rep.Count("part_"+c.part, 1)
	if c.part != "R" {
		rep.Count("grammar_cases", 1)
	}
	rep.Distinct(s.name, form, c.env, strings.Join(shape, ","))
	if h.sampled[s.name] == 0 && h.wantSample(s, c, els, nKeyed) {
		h.sampled[s.name]++
		rep.Sample(map[string]interface{}{"transport": s.name, "part": c.part, "request": verifutil.Trunc(text, 1500), "response": verifutil.Trunc(raw, 1500)})
	}

	viol := func(oracle string, i int, format string, a ...interface{}) {
		kc, mc := "-", "-"
		if i >= 0 {
			kc, mc = c19KeyNames[els[i].spec.key], c19ClassNames[els[i].v.class]
		}
		sig := fmt.Sprintf("%s:%s:%s:key=%s:meth=%s", oracle, s.name, form, kc, mc)
		rep.Violation(sig, fmt.Sprintf("%s | transport=%s element=%d apiKey=%q request=%s response=%s", fmt.Sprintf(format, a...),
			s.name, i, h.key, verifutil.Trunc(text, 3000), verifutil.Trunc(raw, 3000)), replay)
	}

	// ---- (1) nothing attributable to an element without the key ran (independent of the answer)
	tokCalls, tokSubs := int64(0), int64(0)
	for i, e := range els {
		if e.keyed || e.tok == "" {
			continue
		}
		tokCalls += int64(s.probe.callsOf(e.tok))
		tokSubs += int64(s.probe.subsOf(e.tok))
		if k := s.probe.callsOf(e.tok); k != 0 {
			viol("method-ran", i, "a probe method was invoked %d time(s) by an element that does not carry the key", k)
		}
		if k := s.probe.subsOf(e.tok); k != 0 {
			viol("subscribe-ran", i, "a subscription method was entered %d time(s) by an element that does not carry the key", k)
		}
	}
	firstUnkeyed, firstTokenless := -1, -1
	for i, e := range els {
		if !e.keyed && firstUnkeyed < 0 {
			firstUnkeyed = i
		}
		if !e.keyed && e.tok == "" && firstTokenless < 0 {
			firstTokenless = i
		}
	}
	if firstTokenless < 0 {
		firstTokenless = firstUnkeyed
	}
	// global counters catch forms that carry no token (ping, ticks, ...). Runs already attributed
	// through a token above are not reported a second time.
	if d := after.calls - before.calls - tokCalls; d > allowCall {
		viol("method-ran", firstTokenless, "%d probe method invocations, but only %d element(s) with the key name a call", d, allowCall)
	}
	if d := after.subEntered - before.subEntered - tokSubs; d > allowSub {
		viol("subscribe-ran", firstTokenless, "%d subscription method entries, but only %d element(s) with the key subscribe", d, allowSub)
	}
	if d := after.subCreated - before.subCreated - tokSubs; d > allowSub {
		viol("subscription-created", firstTokenless, "%d subscriptions created, but only %d element(s) with the key subscribe", d, allowSub)
	}
	// the live subscription: Err() is closed exactly when an unsubscribe was executed
	cancelled := liveBefore.cancelled()
	reportCancel := func(r *c19resp) {
		if !cancelled || keyedTarget {
			return
		}
		at := unkeyedTarget
		if r != nil && c.batch {
			// attribute to the element that was told "true", if the answer shows one
			for i, e := range els {
				if !e.keyed && e.v.targetsLive && r.elems[i].hasResult && !r.elems[i].hasError {
					at = i
					break
				}
			}
		}
		viol("unsubscribe-ran", at, "live subscription %s was cancelled although no element with the key names it", liveBefore.id)
	}

	// ---- the answer
	if st != stOK {
		reportCancel(nil)
	}
	switch st {
	case stTimeout:
		rep.Inconcl("%s: no answer within %v to %s", s.name, h.timeout, verifutil.Trunc(text, 300))
		s.dropConn()
		return
	case stSendErr:
		rep.Inconcl("%s: transport error %s on %s", s.name, verifutil.Trunc(raw, 200), verifutil.Trunc(text, 300))
		s.dropConn()
		return
	case stNoAnswer:
		rep.Count("connection_closed_without_answer", 1)
		if firstUnkeyed >= 0 {
			viol("no-answer", firstUnkeyed, "the connection/response ended without any answer")
		}
		s.dropConn()
		return
	}
	r := c19ParseResp(raw)
	perElem := r.valid && (!c.batch && !r.isArray || c.batch && r.isArray && len(r.elems) == n)
	wholeErr := r.valid && !r.isArray && r.elems[0].isErr()
	if perElem {
		reportCancel(&r)
	} else {
		reportCancel(nil)
	}
	switch {
	case perElem:
		rep.Count("answered_per_element", 1)
	case c.batch && wholeErr:
		rep.Count("batch_rejected_as_a_whole", 1)
		if mustParse && nKeyed > 0 {
			viol("batch-rejected", -1, "a batch whose elements are all properly typed was rejected as a whole, so its element(s) with the key were not served")
		}
	default:
		if firstUnkeyed >= 0 {
			viol("not-an-error", firstUnkeyed, "the answer is neither one response per element nor an error object")
		} else if mustParse {
			viol("keyed-not-served", 0, "unusable answer to a properly typed request that carries the key")
		}
	}

	// ---- (2) elements without the key are answered with an error, the invalid-key error if otherwise well-formed
	for i, e := range els {
		if e.keyed {
			continue
		}
		var re c19respElem
		switch {
		case perElem && c.batch:
			re = r.elems[i]
		case perElem, wholeErr:
			re = r.elems[0]
		default:
			continue // already reported
		}
		if !re.isErr() {
			viol("not-an-error", i, "element without the key was not answered with an error")
			continue
		}
		if re.code == h.invalidKey {
			rep.Count("rejected_invalid_key", 1)
		} else {
			rep.Count("rejected_other_error", 1)
		}
		if e.strict && re.code != h.invalidKey && (perElem || mustParse) {
			viol("wrong-error", i, "well-formed element without the key got error %d %q instead of the invalid-key error", re.code, re.msg)
		}
		if e.strict {
			rep.Count("strict_checked", 1)
		}
	}

	// ---- (3) elements with the key are served when the message was processed element-wise
	if perElem {
		for i, e := range els {
			if !e.keyed {
				continue
			}
			re := r.elems[0]
			if c.batch {
				re = r.elems[i]
			}
			if !e.typed {
				continue // oddly typed itself: nothing demanded
			}
			if re.isErr() && re.code == h.invalidKey {
				viol("keyed-refused", i, "element that carries the key was answered with the invalid-key error")
				continue
			}
			if !e.v.canonical {
				rep.Count("keyed_not_refused", 1)
				continue
			}
			ok := true
			switch e.v.expect {
			case exEcho, exPair:
				if k := s.probe.callsOf(e.tok); k != 1 {
					ok = false
					viol("keyed-not-served", i, "call with the key ran %d times", k)
				} else if got, _ := re.result.(string); got != e.tok {
					ok = false
					viol("keyed-not-served", i, "call with the key returned %v", re.result)
				}
			case exPing:
				if got, _ := re.result.(string); got != "pong" {
					ok = false
					viol("keyed-not-served", i, "ping with the key returned %v", re.result)
				}
			case exResult:
				if !re.hasResult || re.hasError {
					ok = false
					viol("keyed-not-served", i, "rpc_modules with the key returned no result")
				}
			case exSubTok, exSubNoTok:
				if e.v.expect == exSubTok {
					if k := s.probe.subsOf(e.tok); k != 1 {
						ok = false
						viol("keyed-not-served", i, "subscribe with the key entered the subscription method %d times", k)
					}
				}
				if s.subs {
					id, _ := re.result.(string)
					if id == "" || s.probe.sub(id) == nil {
						ok = false
						viol("keyed-not-served", i, "subscribe with the key did not return the id of a created subscription")
					}
				}
			case exUnsubLive:
				if s.subs {
					if !cancelled {
						ok = false
						viol("keyed-not-served", i, "unsubscribe with the key did not cancel the live subscription")
					} else if i == firstTarget {
						if b, _ := re.result.(bool); !b {
							ok = false
							viol("keyed-not-served", i, "first unsubscribe of the live subscription (with the key) did not return true")
						}
					}
				}
			}
			if ok {
				rep.Count("keyed_served", 1)
				rep.Count("keyed_served_"+s.name+"_"+form, 1)
			}
		}
	}

	// ---- (4) connection state and "the live subscription still delivers"
	if s.post != nil {
		// http: the live subscription sits on the companion connection; it can never be cancelled from here
		if unkeyedTarget >= 0 && !cancelled {
			if ok, why := s.deliverCheck(); ok {
				rep.Count("live_delivery_verified", 1)
			} else {
				rep.Inconcl("http companion: %s", why)
				s.comp.dropConn()
			}
		}
		if cancelled {
			s.comp.live = nil
		}
		return
	}
	connAlive := true
	if wholeErr {
		// the server closes a persistent connection after a message it could not read
		a, ast := s.alive()
		if ast == stTimeout {
			rep.Inconcl("%s: barrier not answered within %v", s.name, h.timeout)
		}
		connAlive = a
	}
	if !connAlive {
		rep.Count("connection_closed_by_server", 1)
		s.dropConn()
		return
	}
	if cancelled {
		rep.Count("live_cancelled_with_key", 1)
		s.live = nil
		return
	}
	if unkeyedTarget >= 0 {
		if ok, why := s.deliverCheck(); ok {
			rep.Count("live_delivery_verified", 1)
		} else if liveBefore.cancelled() {
			viol("unsubscribe-ran", unkeyedTarget, "live subscription %s was cancelled", liveBefore.id)
			s.live = nil
		} else {
			rep.Inconcl("%s: live subscription did not deliver after %s: %s", s.name, verifutil.Trunc(text, 300), why)
			s.dropConn()
		}
	}
}

// wantSample picks request/answer pairs of different kinds on different shards and transports.
func (h *c19harness) wantSample(s *c19session, c c19case, els []c19elem, nKeyed int) bool {
	mixed := len(els) > 1 && nKeyed > 0 && nKeyed < len(els)
	switch (verifutil.Shard() + len(s.name)) % 3 {
	case 0:
		return c.part == "B2" && mixed && len(els) >= 3
	case 1:
		return c.part == "S" && !els[0].keyed && els[0].strict && (els[0].v.class == mcUnsubLive || els[0].v.class == mcSub)
	default:
		return (c.part == "B3" || c.part == "R") && mixed
	}
}

// c19LiteralKeys: operator-chosen keys whose text reads like a JSON literal (--apikey 123456).
var c19LiteralKeys = []string{"123456", "20240615", "true", "false", "null", "1.55", "-127"}

func c19MakeKey(rng *verifutil.Rng) string {
	if rng.Intn(4) == 0 {
		return c19LiteralKeys[rng.Intn(len(c19LiteralKeys))]
	}
	if rng.Bool() {
		// what the node generates: 32 lower-case hex digits
		k := []byte(verifutil.Hex(rng.Bytes(16)))
		k[rng.Intn(len(k))] = "abcdef"[rng.Intn(6)]
		return string(k)
	}
	k := []byte(c19RandStr(rng, rng.Range(6, 24)))
	k[rng.Intn(len(k))] = c19alnum[rng.Intn(52)]
	return string(k)
}

func TestVerifC19ApiKeyGate(t *testing.T) {
	if !verifutil.Enabled() {
		t.Skip("verif harness")
	}
	log.Root().SetHandler(log.DiscardHandler())
	rep := verifutil.NewReport()
	defer rep.Write()
	h := &c19harness{rep: rep, timeout: 30 * time.Second, sampled: map[string]int{}}
	h.key = c19MakeKey(verifutil.NewRng(verifutil.Seed(), 19, 7, uint64(verifutil.Shard())))
	if verifutil.Shard()%4 == 3 {
		// one process in four runs with an operator-chosen key that reads like a JSON literal
		h.key = c19LiteralKeys[(int(verifutil.Seed())+verifutil.Shard()/4)%len(c19LiteralKeys)]
		rep.Count("processes_with_literal_like_key", 1)
	}
	h.invalidKey = int64((&invalidApiKeyError{}).ErrorCode())
	shard, nshards := verifutil.Shard(), verifutil.NShards()

	g := c19Grammar()
	rep.SetInfo("grammar_requests_per_transport", len(g))
	rep.SetInfo("transports", c19Transports)
	rep.SetInfo("method_variants", len(c19BaseVariants()))
	nRandom := verifutil.Scale(0, 2000000)

	// replay of one recorded case
	if rf := os.Getenv("VERIF_REPLAY"); rf != "" {
		if shard != 0 {
			return
		}
		var doc struct {
			First struct {
				Replay struct {
					Part      string `json:"part"`
					Index     int    `json:"index"`
					Transport string `json:"transport"`
				} `json:"replay"`
			} `json:"first"`
		}
		b, err := ioutil.ReadFile(rf)
		if err != nil || json.Unmarshal(b, &doc) != nil {
			t.Fatalf("cannot read replay file %s", rf)
		}
		rp := doc.First.Replay
		tr := strings.TrimSuffix(rp.Transport, "-companion")
		s, err := h.newSession(tr)
		if err != nil {
			t.Fatalf("transport %s: %v", tr, err)
		}
		defer s.close()
		if rp.Part == "R" {
			h.runCase(s, c19RandomCase(verifutil.NewRng(verifutil.Seed(), 1900, uint64(rp.Index))), rp.Index)
		} else if rp.Index >= 0 && rp.Index < len(g) {
			h.runCase(s, g[rp.Index], rp.Index)
		}
		return
	}

	for k := range c19Transports {
		ti := (k + shard) % len(c19Transports) // rotated, so that the first samples of the shards differ
		tr := c19Transports[ti]
		s, err := h.newSession(tr)
		if err != nil {
			rep.Inconcl("transport %s could not be set up: %v", tr, err)
			continue
		}
		for i, c := range g {
			if (i+ti)%nshards != shard {
				continue
			}
			h.runCase(s, c, i)
		}
		for j := 0; j < nRandom; j++ {
			if j%len(c19Transports) != ti || (j/len(c19Transports))%nshards != shard {
				continue
			}
			h.runCase(s, c19RandomCase(verifutil.NewRng(verifutil.Seed(), 1900, uint64(j))), j)
		}
		rep.Count("probe_calls_"+tr, int(s.probe.snap().calls))
		rep.Count("probe_subscriptions_created_"+tr, int(s.probe.snap().subCreated))
		s.close()
	}
}
