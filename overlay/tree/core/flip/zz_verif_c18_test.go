package flip

// C18 (core/flip): the flip container stored in IPFS round-trips.

import (
	"testing"

	"github.com/idena-network/idena-go/verifutil"
)

func TestVerifC18Codec(t *testing.T) {
	if !verifutil.Enabled() {
		t.Skip("verif harness")
	}
	rep := verifutil.NewReport()
	defer rep.Write()
	s := &verifutil.Schema{}
	cr := &verifutil.CodecRun{Rep: rep, S: s, Pkg: "core/flip", PropNo: 18, Types: []*verifutil.CodecType{
		verifutil.StdCodec("flip.IpfsFlip", func() interface{} { return new(IpfsFlip) }),
	}}
	cr.Run(verifutil.Scale(600, 20000)/verifutil.NShards(), 0)
}
