package state

// C18 (core/state): the objects the state root commits to (account, identity, approved
// identity, global, status / delegation switches, delayed penalties, burnt coins) and the
// identity-state diff round-trip, and every non-transient field is part of the encoding.

import (
	"sort"
	"testing"

	"github.com/idena-network/idena-go/common"
	"github.com/idena-network/idena-go/verifutil"
)

// Reviewed against state_object.go / identity_statedb.go.
var c18Transient = map[string]string{
	"state.Identity.metadata": "per-block hook context handed from the tx handlers to the identity-update hook (SetMetadata), never state",
}

// Domain constraints of generated values (reviewed against Global.ToBytes).
var c18IntMax = map[string]uint64{
	// ToBytes emits one ShardSize entry per shard 1..ShardsNum; the number of shards is a small
	// consensus-controlled count, 2^32 of them is not a state
	"state.Global.ShardsNum": 8,
}

var c18FixedKeys = map[string]string{
	// the key set of ShardSizes is by construction 1..ShardsNum (that is what ToBytes walks)
	"state.Global.ShardSizes": "keys are determined by ShardsNum",
}

func c18Types() []*verifutil.CodecType {
	std := verifutil.StdCodec
	var ts []*verifutil.CodecType
	ts = append(ts, std("state.Account", func() interface{} { return new(Account) }))
	ts = append(ts, std("state.Identity", func() interface{} { return new(Identity) }))
	ts = append(ts, std("state.ApprovedIdentity", func() interface{} { return new(ApprovedIdentity) }))

	g := std("state.Global", func() interface{} { return new(Global) })
	// generated ShardSizes get the keys the state can hold: 1..ShardsNum
	g.Fix = func(x interface{}, _ *verifutil.Rng) {
		gl := x.(*Global)
		if gl.ShardSizes == nil {
			return
		}
		var keys []common.ShardId
		for k := range gl.ShardSizes {
			keys = append(keys, k)
		}
		sort.Slice(keys, func(i, j int) bool { return keys[i] < keys[j] })
		m := make(map[common.ShardId]uint32)
		for i, k := range keys {
			if uint32(i+1) > gl.ShardsNum {
				break
			}
			m[common.ShardId(i+1)] = gl.ShardSizes[k]
		}
		gl.ShardSizes = m
	}
	// Deliberate: ShardSizes is encoded as the dense list of sizes of shards 1..ShardsNum, so a
	// missing entry and a zero entry are the same state, and entries of shards that do not exist
	// are not state.
	g.Norm = func(x interface{}) {
		gl := x.(*Global)
		for k, v := range gl.ShardSizes {
			if v == 0 || k < 1 || uint32(k) > gl.ShardsNum {
				delete(gl.ShardSizes, k)
			}
		}
	}
	ts = append(ts, g)

	ts = append(ts, std("state.IdentityStatusSwitch", func() interface{} { return new(IdentityStatusSwitch) }))
	ts = append(ts, std("state.DelegationSwitch", func() interface{} { return new(DelegationSwitch) }))
	ts = append(ts, std("state.DelayedPenalties", func() interface{} { return new(DelayedPenalties) }))
	ts = append(ts, std("state.BurntCoins", func() interface{} { return new(BurntCoins) }))
	ts = append(ts, std("state.IdentityStateDiff", func() interface{} { return new(IdentityStateDiff) }))
	return ts
}

func TestVerifC18Codec(t *testing.T) {
	if !verifutil.Enabled() {
		t.Skip("verif harness")
	}
	rep := verifutil.NewReport()
	defer rep.Write()
	s := &verifutil.Schema{Transient: c18Transient, IntMax: c18IntMax, FixedKeys: c18FixedKeys}
	cr := &verifutil.CodecRun{Rep: rep, S: s, Pkg: "core/state", PropNo: 18, Types: c18Types()}
	cr.Run(verifutil.Scale(1000, 60000)/verifutil.NShards(), 0)
}
