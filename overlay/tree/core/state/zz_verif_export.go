//go:build verif

package state

// Forwarding shims for /verif (injected at build time, never part of the repository).

// VerifIterateAll walks every key/value of the last committed version of the state tree.
func (s *StateDB) VerifIterateAll(fn func(key, value []byte) bool) {
	s.tree.GetImmutable().Iterate(fn)
}

// VerifAvailableVersions lists the tree versions the store still holds.
func (s *StateDB) VerifAvailableVersions() []int { return s.tree.AvailableVersions() }

func (s *IdentityStateDB) VerifAvailableVersions() []int { return s.tree.AvailableVersions() }

// VerifGlobalBytes returns the stored encoding of the global object (next-block parameters).
func (s *StateDB) VerifGlobalBytes() []byte {
	_, v := s.tree.Get(globalKey)
	return v
}

// VerifTreeGet looks a raw tree key up through the tree's own search path (inner node keys).
func (s *StateDB) VerifTreeGet(key []byte) []byte {
	_, v := s.tree.Get(key)
	return v
}
