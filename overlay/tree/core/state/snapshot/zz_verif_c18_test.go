package snapshot

// C18 (core/state/snapshot): the snapshot manifest announced to peers round-trips.

import (
	"testing"

	"github.com/idena-network/idena-go/verifutil"
)

// Reviewed against snapshot.go and protobuf/models.proto (ProtoManifest has fields 2,3,4 only).
var c18Transient = map[string]string{
	"snapshot.Manifest.Cid": "legacy v1 snapshot cid: retired from the wire format (proto field 1 removed), no reader or writer left in the tree",
}

func TestVerifC18Codec(t *testing.T) {
	if !verifutil.Enabled() {
		t.Skip("verif harness")
	}
	rep := verifutil.NewReport()
	defer rep.Write()
	s := &verifutil.Schema{Transient: c18Transient}
	cr := &verifutil.CodecRun{Rep: rep, S: s, Pkg: "core/state/snapshot", PropNo: 18, Types: []*verifutil.CodecType{
		verifutil.StdCodec("snapshot.Manifest", func() interface{} { return new(Manifest) }),
	}}
	cr.Run(verifutil.Scale(600, 20000)/verifutil.NShards(), 0)
}
