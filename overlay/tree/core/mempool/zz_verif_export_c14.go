//go:build verif

package mempool

// Forwarding shims for the C14 mempool monitor of /verif (injected at build time, never part
// of the repository). Accessors only: they hold no logic of their own.

import (
	"github.com/idena-network/idena-go/blockchain/types"
	"github.com/idena-network/idena-go/stats/collector"
)

// VerifSetStatsCollector replaces the official stats hook of the pool (the object NewTxPool
// receives). Must be called before the pool is used concurrently.
func (pool *TxPool) VerifSetStatsCollector(c collector.StatsCollector) { pool.statsCollector = c }

// VerifQueueOf tells in which of the two per-sender queues the tx currently sits.
func (pool *TxPool) VerifQueueOf(tx *types.Transaction) (inExecutable, inPending bool) {
	sender, _ := types.Sender(tx)
	pool.mutex.Lock()
	defer pool.mutex.Unlock()
	if e, ok := pool.executableTxs[sender]; ok {
		for _, t := range e.txs {
			if t.Hash() == tx.Hash() {
				inExecutable = true
			}
		}
	}
	if p, ok := pool.pendingTxs[sender]; ok {
		_, inPending = p.txs[tx.Hash()]
	}
	return
}

// VerifQueueLen is the number of txs waiting in the gossip queue of the async pool.
func (pool *AsyncTxPool) VerifQueueLen() int { return len(pool.queue) }
