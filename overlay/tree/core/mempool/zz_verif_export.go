//go:build verif

package mempool

// Forwarding shims for /verif (injected at build time, never part of the repository).

import "github.com/idena-network/idena-go/blockchain/types"

// VerifForcePut places a tx into the pool's queues without admission validation (what a
// malicious or buggy proposer's pool could contain). It only forwards to pool.put.
func (pool *TxPool) VerifForcePut(tx *types.Transaction) error {
	pool.mutex.Lock()
	defer pool.mutex.Unlock()
	return pool.put(tx)
}

// VerifAll lists every tx the pool holds.
func (pool *TxPool) VerifAll() []*types.Transaction { return pool.all.List(All) }

// VerifRelease drops the references of the pool of a scratch node the harness is done with (the
// push tracker's loop goroutine never ends and keeps the pool reachable). The pool must not be
// used afterwards.
func (pool *TxPool) VerifRelease() {
	pool.appState, pool.bus, pool.statsCollector, pool.head = nil, nil, nil, nil
	pool.all, pool.shortHashAll, pool.txSyncCounts, pool.executableTxs, pool.pendingTxs = nil, nil, nil, nil, nil
	pool.knownDeferredTxs, pool.deferredTxs, pool.txSubscription = nil, nil, nil
}
