package mempool

// C18 (core/mempool): the list of encrypted private flip keys carried inside a
// PrivateFlipKeysPackage round-trips.

import (
	"testing"

	"github.com/idena-network/idena-go/log"
	"github.com/idena-network/idena-go/verifutil"
)

func TestVerifC18Codec(t *testing.T) {
	if !verifutil.Enabled() {
		t.Skip("verif harness")
	}
	log.Root().SetHandler(log.DiscardHandler())
	rep := verifutil.NewReport()
	defer rep.Write()
	s := &verifutil.Schema{}
	cr := &verifutil.CodecRun{Rep: rep, S: s, Pkg: "core/mempool", PropNo: 18, Types: []*verifutil.CodecType{
		verifutil.StdCodec("mempool.keysArray", func() interface{} { return new(keysArray) }),
	}}
	cr.Run(verifutil.Scale(600, 20000)/verifutil.NShards(), 0)
}
