//go:build verif

package ceremony

// Accessors for /verif property C17 (injected at build time, never part of the repository).
// They only read unexported fields of the ceremony object; they hold no logic.

import (
	"github.com/idena-network/idena-go/common"
	statsTypes "github.com/idena-network/idena-go/stats/types"
)

// VerifLotteryFinished reports whether the (asynchronous) flip lottery calculation is done.
func (vc *ValidationCeremony) VerifLotteryFinished() bool { return vc.lottery.finished }

// VerifShards is the number of shards of the current candidate table (0 = no table).
func (vc *ValidationCeremony) VerifShards() int { return len(vc.shardCandidates) }

// VerifCandidates lists the ceremony candidates of a shard in lottery order.
func (vc *ValidationCeremony) VerifCandidates(shard common.ShardId) []common.Address {
	s, ok := vc.shardCandidates[shard]
	if !ok {
		return nil
	}
	out := make([]common.Address, 0, len(s.candidates))
	for _, c := range s.candidates {
		out = append(out, c.Address)
	}
	return out
}

// VerifNonCandidates lists the identities of a shard that are not ceremony candidates.
func (vc *ValidationCeremony) VerifNonCandidates(shard common.ShardId) []common.Address {
	s, ok := vc.shardCandidates[shard]
	if !ok {
		return nil
	}
	return append([]common.Address{}, s.nonCandidates...)
}

// VerifFlips lists the flip cids of a shard in lottery order.
func (vc *ValidationCeremony) VerifFlips(shard common.ShardId) [][]byte {
	s, ok := vc.shardCandidates[shard]
	if !ok {
		return nil
	}
	return s.flips
}

// VerifFlipAuthor names the author the ceremony attributes a cid to.
func (vc *ValidationCeremony) VerifFlipAuthor(shard common.ShardId, cid []byte) (common.Address, bool) {
	s, ok := vc.shardCandidates[shard]
	if !ok {
		return common.Address{}, false
	}
	a, ok := s.flipAuthorMap[string(cid)]
	return a, ok
}

// VerifFlipsToSolve returns the flip indexes candidate #idx of a shard has to solve.
func (vc *ValidationCeremony) VerifFlipsToSolve(shard common.ShardId, idx int) (short, long []int) {
	s, ok := vc.shardCandidates[shard]
	if !ok {
		return nil, nil
	}
	if idx < len(s.shortFlipsPerCandidate) {
		short = s.shortFlipsPerCandidate[idx]
	}
	if idx < len(s.longFlipsPerCandidate) {
		long = s.longFlipsPerCandidate[idx]
	}
	return
}

// VerifEpochCache exposes the per-height epoch result cache.
func (vc *ValidationCeremony) VerifEpochCache(height uint64) (values map[common.Address]VerifEpochValue, failed bool, present bool) {
	c, ok := vc.epochApplyingCache[height]
	if !ok {
		return nil, false, false
	}
	values = make(map[common.Address]VerifEpochValue, len(c.epochApplyingResult))
	for a, v := range c.epochApplyingResult {
		values[a] = VerifEpochValue{State: v.state, PrevState: v.prevState, ShortQualifiedFlipsCount: v.shortQualifiedFlipsCount, ShortFlipPoint: v.shortFlipPoint,
			Birthday: v.birthday, Missed: v.missed, Participated: v.participated, Delegatee: v.delegatee}
	}
	return values, c.validationFailed, true
}

// VerifValidationStats exposes the statistics object of the last first-pass evaluation.
func (vc *ValidationCeremony) VerifValidationStats() *statsTypes.ValidationStats {
	return vc.validationStats
}

// VerifAnswerCounts returns how many short / long answer payloads the qualification holds.
func (vc *ValidationCeremony) VerifAnswerCounts() (short, long int) {
	q := vc.qualification
	q.lock.RLock()
	defer q.lock.RUnlock()
	return len(q.shortAnswers), len(q.longAnswers)
}

// VerifEpoch is the epoch the ceremony object believes to be in.
func (vc *ValidationCeremony) VerifEpoch() uint16 { return vc.epoch }
