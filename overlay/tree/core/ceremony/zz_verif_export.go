//go:build verif

package ceremony

// Forwarding shims for /verif (injected at build time, never part of the repository).
// They hold no logic.

import (
	"math/big"

	"github.com/idena-network/idena-go/common"
	"github.com/idena-network/idena-go/config"
	"github.com/idena-network/idena-go/core/appstate"
	"github.com/idena-network/idena-go/core/state"
	"github.com/idena-network/idena-go/stats/collector"
)

// VerifEpochValue mirrors the unexported cacheValue.
type VerifEpochValue struct {
	State, PrevState         state.IdentityState
	ShortQualifiedFlipsCount uint32
	ShortFlipPoint           float32
	Birthday                 uint16
	Missed, Participated     bool
	Delegatee                *common.Address
}

func VerifApplyOnState(cfg *config.ConsensusConf, appState *appstate.AppState, currentEpoch uint16, sc collector.StatsCollector, addr common.Address, v VerifEpochValue) (bool, *common.Address, *big.Int) {
	return applyOnState(cfg, appState, currentEpoch, sc, addr, cacheValue{
		state: v.State, prevState: v.PrevState, shortQualifiedFlipsCount: v.ShortQualifiedFlipsCount, shortFlipPoint: v.ShortFlipPoint,
		birthday: v.Birthday, missed: v.Missed, participated: v.Participated, delegatee: v.Delegatee,
	})
}

func VerifDetermineIdentityBirthday(currentEpoch uint16, identity state.Identity, newState state.IdentityState) uint16 {
	return determineIdentityBirthday(currentEpoch, identity, newState)
}
