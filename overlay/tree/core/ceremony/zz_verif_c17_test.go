package ceremony

// Property C17 part (a): rule implications of the status decision table
// (determineNewIdentityState), enumerated over the cross product of every prior status,
// score triples on and around every threshold (0, 0.6, 0.75, 0.92, 1, each +-1 ulp of
// float32), total qualified flips around 13 / 24 / 32, all flag combinations, required flips
// done / not done, short-session qualified flip counts. Only the implications the property
// states are asserted; no decision table is re-implemented here.

import (
	"fmt"
	"math"
	"testing"

	"github.com/idena-network/idena-go/common"
	"github.com/idena-network/idena-go/core/state"
	"github.com/idena-network/idena-go/verifutil"
)

var c17StateNames = map[state.IdentityState]string{state.Undefined: "Undefined", state.Invite: "Invite", state.Candidate: "Candidate", state.Verified: "Verified",
	state.Suspended: "Suspended", state.Killed: "Killed", state.Zombie: "Zombie", state.Newbie: "Newbie", state.Human: "Human"}

func c17Validated(s state.IdentityState) bool {
	return s == state.Newbie || s == state.Verified || s == state.Human
}

func TestVerifC17Rules(t *testing.T) {
	if !verifutil.Enabled() {
		t.Skip("verif harness")
	}
	rep := verifutil.NewReport()
	defer rep.Write()

	priors := []state.IdentityState{state.Undefined, state.Invite, state.Candidate, state.Verified, state.Suspended, state.Killed, state.Zombie, state.Newbie, state.Human}
	// score grid
	var scores []float32
	addAround := func(v float32) {
		scores = append(scores, math.Nextafter32(v, -1), v, math.Nextafter32(v, 2))
	}
	scores = append(scores, 0)
	addAround(float32(common.MinShortScore))      // 0.6
	addAround(float32(common.MinLongScore))       // 0.75 (== MinTotalScore)
	addAround(float32(common.MinHumanTotalScore)) // 0.92
	scores = append(scores, 1)
	onBoundary := func(v float32) bool { return v != 0 && v != 1 }
	totals := []uint32{0, common.MinFlipsForVerified - 1, common.MinFlipsForVerified, common.MinFlipsForVerified + 1,
		common.MinFlipsForHuman - 1, common.MinFlipsForHuman, common.MinFlipsForHuman + 1,
		common.MinTotalShortFlips - 1, common.MinTotalShortFlips, common.MinTotalShortFlips + 1}
	shortCounts := []uint32{0, 1, 2, 3, 6}
	type flipsCase struct {
		required uint8
		made     int
	}
	flipCases := []flipsCase{{0, 0}, {3, 3}, {3, 4}, {3, 2}, {3, 0}, {1, 0}}

	// the outer combinations are dealt round-robin to the shards; every shard enumerates the
	// complete inner cross product for its combinations (thorough and quick are both exhaustive)
	shard, nsh := verifutil.Shard(), verifutil.NShards()
	combo := 0
	sampled := 0
	var n int64
	for _, prior := range priors {
		for _, fc := range flipCases {
			id := state.Identity{State: prior, RequiredFlips: fc.required}
			for i := 0; i < fc.made; i++ {
				id.Flips = append(id.Flips, state.IdentityFlip{Cid: []byte{byte(i + 1)}, Pair: uint8(i)})
			}
			lacking := !id.HasDoneAllRequiredFlips()
			for flags := 0; flags < 64; flags++ {
				combo++
				if combo%nsh != shard {
					continue
				}
				missed, noQualShort, noQualLong := flags&1 != 0, flags&2 != 0, flags&4 != 0
				fix93, up10, up12 := flags&8 != 0, flags&16 != 0, flags&32 != 0
				var outcomeArr [16]int
				var boundaryArr [16]bool
				for _, sqf := range shortCounts {
					for _, tq := range totals {
						for _, ss := range scores {
							for _, ls := range scores {
								for _, ts := range scores {
									res := determineNewIdentityState(id, ss, ls, ts, tq, missed, noQualShort, noQualLong, fix93, up10, sqf, up12)
									n++
									outcomeArr[res&15]++
									if onBoundary(ss) || onBoundary(ls) || onBoundary(ts) {
										boundaryArr[res&15] = true
									}
									bad := ""
									switch {
									case missed && c17Validated(res):
										bad = "rule:missed-but-validated:" + c17StateNames[prior]
									case lacking && c17Validated(res):
										bad = "rule:lacking-flips-but-validated:" + c17StateNames[prior]
									case prior == state.Invite && res != state.Killed:
										bad = "rule:invite-not-terminated"
									case (prior == state.Killed || prior == state.Undefined) && res != state.Killed && res != state.Undefined:
										bad = "rule:terminated-came-back:" + c17StateNames[prior]
									}
									if bad != "" {
										rep.Violation(bad, fmt.Sprintf("determineNewIdentityState(prior=%s required=%d made=%d, short=%v long=%v total=%v totalQualifiedFlips=%d missed=%v noQualShort=%v noQualLong=%v epoch>=93:%v upgrade10=%v shortQualified=%d upgrade12=%v) = %s",
											c17StateNames[prior], fc.required, fc.made, ss, ls, ts, tq, missed, noQualShort, noQualLong, fix93, up10, sqf, up12, c17StateNames[res]),
											map[string]interface{}{"prior": int(prior), "required": fc.required, "made": fc.made, "short": ss, "long": ls, "total": ts, "totalQualifiedFlips": tq,
												"missed": missed, "noQualShort": noQualShort, "noQualLong": noQualLong, "epochGE93": fix93, "upgrade10": up10, "shortQualified": sqf, "upgrade12": up12})
									}
								}
							}
						}
					}
				}
				outcomes := map[state.IdentityState]int{}
				boundaryOutcomes := map[state.IdentityState]bool{}
				for k, v := range outcomeArr {
					if v > 0 {
						outcomes[state.IdentityState(k)] = v
					}
					if boundaryArr[k] {
						boundaryOutcomes[state.IdentityState(k)] = true
					}
				}
				rep.Count("rule_prior_"+c17StateNames[prior], 1)
				if lacking {
					rep.Count("rule_combos_lacking_flips", 1)
				}
				if missed {
					rep.Count("rule_combos_missed", 1)
				}
				for res := range outcomes {
					rep.Count("rule_outcome_"+c17StateNames[prior]+"_"+c17StateNames[res], 1)
				}
				for res := range boundaryOutcomes {
					// a distinct rule input class on a boundary: (prior, flips, flags) with the outcomes its boundary triples produce
					rep.Distinct("rule", int(prior), fc.required, fc.made, flags, int(res))
				}
				if sampled < 4 && !missed && !lacking && len(outcomes) > 1 {
					sampled++
					o := map[string]int{}
					for r, k := range outcomes {
						o[c17StateNames[r]] = k
					}
					rep.Sample(map[string]interface{}{"rule_case": map[string]interface{}{"prior": c17StateNames[prior], "requiredFlips": fc.required, "madeFlips": fc.made,
						"missed": missed, "noQualShort": noQualShort, "noQualLong": noQualLong, "epochGE93": fix93, "upgrade10": up10, "upgrade12": up12},
						"outcomes_over_score_grid": o, "score_grid": scores, "total_flips_grid": totals, "short_qualified_grid": shortCounts})
				}
			}
		}
	}
	rep.Eval(int(n))
	rep.Count("rule_cases", int(n))
}
