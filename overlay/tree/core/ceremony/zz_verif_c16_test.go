package ceremony

// C16: the flip lottery is a deterministic function of the seed, assigns only existing flips,
// never lists a flip twice per candidate and session, respects the short-session quota, gives
// every candidate a non-empty long list whenever the shard has flips, and "c is assigned a flip
// of author a" <=> "c is among the recipients a encrypts its key package for" (apart from the
// single placeholder flip of a candidate whose long list would be empty); with real keys the
// package entry at c's index decrypts to a's private flip key under c's key and under nobody
// else's.
//
// Runtime monitor: generated identity tables (1..4 shards, 0..400 candidates per shard, author
// subsets, 1..5 flips per author, 32-byte seeds; exhaustive for <= 7 candidates) are written
// into a real state.StateDB; the REAL ValidationCeremony.calculateCeremonyCandidates runs on it
// and is observed through the solver API (GetShortFlipsToSolve / GetLongFlipsToSolve,
// PrivateEncryptionKeyCandidates, getPrivateKeyPackageIndex, GetFlipKeys) and, in the real-key
// class, through mempool.EncryptPrivateKeysPackage -> KeysPool -> GetFlipKeys -> ECIES decrypt.
// Who authored which cid is the harness' own ground truth (it placed the flips), never the
// lottery's tables.
//
// Two consecutive epochs on one node: every layout of the real-key class is followed by a SECOND
// epoch on the same database, the same AppState and the same KeysPool object (whose caches the
// key oracle of the first epoch has filled). The node's own end-of-validation code runs in
// between (the validation-finishing block: epoch + 1, flips dropped, new identity states; the
// real ValidationCeremony.completeEpoch -> KeysPool.Clear; then the blocks in which the new
// flips are submitted), the identities stay (most authors publish again, some stop, some start,
// a few identities leave or join), every author has NEW flip keys and a package signed for the
// new epoch, the lottery seed is new, and the same oracles are applied to the second epoch. In
// two further histories the node is restarted after the epoch change (AppState, KeysPool and
// ceremony re-created on the same database). The second-epoch lottery is also compared with
// the one of a node that never saw the first epoch.

import (
	"bytes"
	"crypto/ecdsa"
	"crypto/sha256"
	"encoding/hex"
	"encoding/json"
	"fmt"
	"os"
	"path/filepath"
	"sort"
	"strings"
	"sync"
	"testing"
	"time"

	"github.com/idena-network/idena-go/blockchain/types"
	"github.com/idena-network/idena-go/common"
	"github.com/idena-network/idena-go/common/eventbus"
	"github.com/idena-network/idena-go/config"
	"github.com/idena-network/idena-go/core/appstate"
	"github.com/idena-network/idena-go/core/flip"
	"github.com/idena-network/idena-go/core/mempool"
	"github.com/idena-network/idena-go/core/state"
	"github.com/idena-network/idena-go/crypto"
	"github.com/idena-network/idena-go/crypto/ecies"
	"github.com/idena-network/idena-go/database"
	"github.com/idena-network/idena-go/events"
	"github.com/idena-network/idena-go/ipfs"
	"github.com/idena-network/idena-go/log"
	"github.com/idena-network/idena-go/secstore"
	"github.com/idena-network/idena-go/verifutil"
	dbm "github.com/tendermint/tm-db"
)

const (
	c16Epoch = uint16(7)

	c16PhaseRandom = 1
	c16PhaseReal   = 2
	c16PhaseDup    = 3
	c16PhaseExh    = 4
	c16PhaseCanon  = 5

	// how the node got from the first epoch of a history into the second one
	c16HistSameNode         = 0 // long-running node: same ceremony object, same keys pool
	c16HistRestartAtOnce    = 1 // completeEpoch, then a restart before the new flips are submitted
	c16HistRestartInLottery = 2 // completeEpoch, lottery of the new epoch, then a restart (ceremony restores)

	// epoch-db namespace of throw-away ceremony objects (never an epoch a history lives in)
	c16ScratchNs = c16Epoch + 1000
)

var c16HistNames = []string{
	"long-running node: real completeEpoch (KeysPool.Clear) on the same ceremony and keys pool",
	"completeEpoch, then restart (AppState, KeysPool, ceremony re-created on the same db) before the new flips are submitted",
	"completeEpoch, new flips, lottery, then restart (AppState and KeysPool re-created, ceremony restores the persisted lottery)",
}

// the quota the property speaks about: what the ceremony hands to the lottery as "short flips count"
var c16Quota = int(common.ShortSessionFlipsCount() + common.ShortSessionExtraFlipsCount())

type c16Ident struct {
	addr     common.Address
	pub      []byte
	key      *ecdsa.PrivateKey // real-key layouts only
	flipPub  *ecies.PrivateKey // the author's "public" flip key (published at short session start)
	flipPriv *ecies.PrivateKey // the author's private flip key (what the package carries)
	shard    int               // shifted shard id 1..shardsNum
	rawShard int               // value stored in the state (0 is legal with a single shard)
	st       state.IdentityState
	required uint8
	flips    [][]byte
	cand     bool // state.IsCeremonyCandidate(real identity read back from the state)
	pos      int  // rank among the candidates of its shard in address order, -1 if not a candidate
	badPub   bool // the identity's PubKey in the state is empty / unparsable (genesis-style identity)
}

type c16ShardPlan struct {
	flipsAt  []int // per candidate position: 0 = not an author, k = k flips
	nonCands int   // identities of this shard that are not ceremony candidates
}

type c16Layout struct {
	class     string
	phase     int
	index     int
	shardsNum int
	seed      []byte
	idents    []*c16Ident // sorted by address (the order the state iterates in)
	realKeys  bool
	variantB  int             // how the second evaluation is obtained
	dupCids   map[string]bool // "shard/cid" submitted by more than one candidate of the same shard
	xdup      bool            // a cid shared by authors of two different shards
	plans     []c16ShardPlan

	twoEpochs  bool                    // first epoch of a two-epoch history on one node
	epoch      uint16                  // the state epoch the layout is validated in (0: c16Epoch)
	epochNo    int                     // 2: second consecutive epoch of a history (0/1: first)
	hist       int                     // second epochs: c16Hist*
	mode       int                     // second epochs: who publishes again
	servedPrev map[common.Address]bool // second epochs: authors whose keys the node served in the previous epoch
	served     map[common.Address]bool // authors for whom the pool handed out a package entry in this epoch
}

func (l *c16Layout) ep() uint16 {
	if l.epoch == 0 {
		return c16Epoch
	}
	return l.epoch
}

type c16NotSyncing struct{}

func (c16NotSyncing) IsSyncing() bool { return false }

var (
	c16Once    sync.Once
	c16Sec     *secstore.SecStore
	c16Flipper *flip.Flipper
	c16KeyPool []*ecdsa.PrivateKey
	// completeEpoch reads the short session duration from it; nothing else of it is reached
	c16Config = &config.Config{Validation: &config.ValidationConfig{}}
)

func c16Init() {
	c16Once.Do(func() {
		log.Root().SetHandler(log.DiscardHandler())
		// the node's own key: never an identity of a layout, so the node itself solves nothing
		k, _ := crypto.ToECDSA(crypto.Keccak256([]byte("verif-c16-node")))
		c16Sec = secstore.NewSecStore()
		c16Sec.AddKey(crypto.FromECDSA(k))
		// only LoadInMemory(nil) is ever reached on it (the node has no flips to solve)
		c16Flipper = flip.NewFlipper(dbm.NewMemDB(), ipfs.NewMemoryIpfsProxy(), nil, nil, c16Sec, nil, eventbus.New())
	})
}

func c16Keys(n int) []*ecdsa.PrivateKey {
	for len(c16KeyPool) < n {
		i := len(c16KeyPool)
		k, err := crypto.ToECDSA(crypto.Keccak256([]byte(fmt.Sprintf("verif-c16-key-%d-%d", verifutil.Seed(), i))))
		if err != nil {
			k, _ = crypto.ToECDSA(crypto.Keccak256([]byte(fmt.Sprintf("verif-c16-key-alt-%d-%d", verifutil.Seed(), i))))
		}
		c16KeyPool = append(c16KeyPool, k)
	}
	return c16KeyPool[:n]
}

func c16FlipKey(tag string, addr common.Address) *ecies.PrivateKey {
	k, err := crypto.ToECDSA(crypto.Keccak256([]byte(tag), addr[:]))
	if err != nil {
		k, _ = crypto.ToECDSA(crypto.Keccak256([]byte(tag+"-alt"), addr[:]))
	}
	return ecies.ImportECDSA(k)
}

// ------------------------------------------------------------------ generators

func c16Cid(rng *verifutil.Rng, used map[string]bool) []byte {
	for {
		c := append([]byte{0x01, 0x55, 0x12, 0x20}, rng.Bytes(32)...) // CIDv1 raw sha2-256
		if !used[string(c)] {
			used[string(c)] = true
			return c
		}
	}
}

// c16Materialize turns per-shard plans into an identity table sorted by address.
func c16Materialize(rng *verifutil.Rng, l *c16Layout) {
	total := 0
	for _, p := range l.plans {
		total += len(p.flipsAt) + p.nonCands
	}
	type raw struct {
		addr common.Address
		pub  []byte
		key  *ecdsa.PrivateKey
	}
	raws := make([]raw, 0, total)
	if l.realKeys {
		keys := c16Keys(96)
		perm := rng.Perm(len(keys))
		for i := 0; i < total; i++ {
			k := keys[perm[i]]
			raws = append(raws, raw{crypto.PubkeyToAddress(k.PublicKey), crypto.FromECDSAPub(&k.PublicKey), k})
		}
	} else {
		seen := map[common.Address]bool{}
		for len(raws) < total {
			var a common.Address
			copy(a[:], rng.Bytes(20))
			if seen[a] || a == c16Sec.GetAddress() {
				continue
			}
			seen[a] = true
			raws = append(raws, raw{a, append([]byte{0x04}, append(a[:], rng.Bytes(44)...)...), nil})
		}
	}
	// partition into shards (generation order is random already), then roles by address rank
	usedCids := map[string]bool{}
	off := 0
	for si, p := range l.plans {
		n := len(p.flipsAt) + p.nonCands
		part := raws[off : off+n]
		off += n
		sort.Slice(part, func(i, j int) bool { return bytes.Compare(part[i].addr[:], part[j].addr[:]) < 0 })
		nonCandAt := map[int]bool{}
		for _, x := range rng.Perm(n)[:p.nonCands] {
			nonCandAt[x] = true
		}
		ci := 0
		for i, r := range part {
			id := &c16Ident{addr: r.addr, pub: r.pub, key: r.key, shard: si + 1, rawShard: si + 1, pos: -1}
			if l.shardsNum == 1 && rng.Bool() {
				id.rawShard = 0
			}
			if nonCandAt[i] {
				switch rng.Intn(4) {
				case 0: // has flips, but fewer than required: not a ceremony candidate, flips must stay out
					id.st, id.required = state.Newbie, 3
					for j := rng.Intn(3); j > 0; j-- {
						id.flips = append(id.flips, c16Cid(rng, usedCids))
					}
				case 1:
					id.st, id.rawShard = state.Killed, 0
				case 2:
					id.st, id.rawShard = state.Invite, 0
				default:
					id.st, id.required = state.Verified, 3
				}
			} else {
				k := p.flipsAt[ci]
				ci++
				if k == 0 {
					id.st = []state.IdentityState{state.Candidate, state.Suspended, state.Zombie, state.Newbie, state.Verified, state.Human}[rng.Intn(6)]
				} else {
					switch {
					case k >= 5:
						id.st = state.Human
					case k == 4:
						id.st = []state.IdentityState{state.Verified, state.Human}[rng.Intn(2)]
					default:
						id.st = []state.IdentityState{state.Newbie, state.Verified, state.Human}[rng.Intn(3)]
					}
					id.required = uint8(k)
					if id.required > 3 {
						id.required = 3
					}
					if rng.Chance(1, 4) {
						id.required = uint8(rng.Intn(int(id.required) + 1))
					}
					for j := 0; j < k; j++ {
						id.flips = append(id.flips, c16Cid(rng, usedCids))
					}
				}
			}
			l.idents = append(l.idents, id)
		}
	}
	sort.Slice(l.idents, func(i, j int) bool { return bytes.Compare(l.idents[i].addr[:], l.idents[j].addr[:]) < 0 })
	if l.realKeys {
		for _, id := range l.idents {
			if len(id.flips) > 0 {
				id.flipPub = c16FlipKey("verif-c16-flip-pub", id.addr)
				id.flipPriv = c16FlipKey("verif-c16-flip-priv", id.addr)
			}
		}
		// every third layout: one or two identities whose stored public key is empty or garbage
		// (identities that never sent an activation tx). They cannot receive keys; everybody else
		// still must.
		if rng.Chance(1, 3) && len(l.idents) > 2 {
			for n, x := range rng.Perm(len(l.idents))[:rng.Range(1, 2)] {
				id := l.idents[x]
				id.badPub = true
				k := rng.Intn(3)
				if k == 0 && n > 0 {
					k = 1 // the monitors identify recipients by their stored key bytes: at most one empty key
				}
				switch k {
				case 0:
					id.pub = nil
				case 1:
					id.pub = rng.Bytes(rng.Range(8, 40))
				default:
					id.pub = append([]byte{0x04}, rng.Bytes(64)...) // right shape, not on the curve
				}
			}
		}
	}
}

func c16SizeClass(n int) string {
	switch {
	case n == 0:
		return "n0"
	case n == 1:
		return "n1"
	case n <= 7:
		return "n2-7"
	case n <= 13:
		return "n8-13"
	case n <= 40:
		return "n14-40"
	case n <= 120:
		return "n41-120"
	default:
		return "n121-400"
	}
}

func c16AuthorClass(a, n int) string {
	switch {
	case a == 0:
		return "a0"
	case a == 1:
		return "a1"
	case a <= 7:
		return "a2-7"
	case a == 8:
		return "a8"
	case a <= 13:
		return "a9-13"
	case a == n:
		return "aAll"
	case 2*a <= n:
		return "a14+<=half"
	default:
		return "a14+>half"
	}
}

func c16FlipsClass(flipsAt []int) string {
	mn, mx := 99, 0
	for _, k := range flipsAt {
		if k == 0 {
			continue
		}
		if k < mn {
			mn = k
		}
		if k > mx {
			mx = k
		}
	}
	switch {
	case mx == 0:
		return "f0"
	case mx == 1:
		return "f1"
	case mn == mx:
		return "fsame2-5"
	default:
		return "fmixed"
	}
}

func c16RandomShard(rng *verifutil.Rng, maxN int) c16ShardPlan {
	var n int
	switch rng.Pick(5, 5, 15, 15, 25, 20, 15) {
	case 0:
		n = 0
	case 1:
		n = 1
	case 2:
		n = rng.Range(2, 7)
	case 3:
		n = rng.Range(8, 13)
	case 4:
		n = rng.Range(14, 40)
	case 5:
		n = rng.Range(41, 120)
	default:
		n = rng.Range(121, 400)
	}
	if n > maxN {
		n = rng.Range(0, maxN)
	}
	var a int
	switch rng.Pick(8, 8, 20, 6, 13, 25, 12, 8) {
	case 0:
		a = 0
	case 1:
		a = 1
	case 2:
		a = rng.Range(2, 7)
	case 3:
		a = 8
	case 4:
		a = rng.Range(9, 13)
	case 5:
		a = n/10 + rng.Intn(n*4/10+1)
	case 6:
		a = n/2 + rng.Intn(n/2+1)
	default:
		a = n
	}
	if a > n {
		a = n
	}
	p := c16ShardPlan{flipsAt: make([]int, n)}
	fc := rng.Pick(20, 30, 50)
	same := rng.Range(2, 5)
	for _, x := range rng.Perm(n)[:a] {
		switch fc {
		case 0:
			p.flipsAt[x] = 1
		case 1:
			p.flipsAt[x] = same
		default:
			p.flipsAt[x] = rng.Range(1, 5)
		}
	}
	if rng.Chance(1, 2) {
		p.nonCands = rng.Intn(4)
	}
	return p
}

func c16Seed(rng *verifutil.Rng) []byte {
	s := rng.Bytes(32)
	switch rng.Intn(12) {
	case 0: // small / degenerate first words (the PRNG seeds are derived from the first 8 bytes only)
		copy(s, make([]byte, 8))
	case 1:
		copy(s, bytes.Repeat([]byte{0xff}, 8))
	}
	return s
}

func c16GenRandom(rng *verifutil.Rng, realKeys bool) *c16Layout {
	l := &c16Layout{class: "random", realKeys: realKeys, seed: c16Seed(rng), variantB: rng.Intn(3)}
	l.shardsNum = 1 + rng.Pick(50, 20, 15, 15)
	maxN := 400
	if realKeys {
		l.class = "realkeys"
		l.shardsNum = 1 + rng.Pick(70, 30)
		maxN = 28
	}
	for s := 0; s < l.shardsNum; s++ {
		p := c16RandomShard(rng, maxN)
		if realKeys && p.nonCands > 2 {
			p.nonCands = 2
		}
		l.plans = append(l.plans, p)
	}
	c16Materialize(rng, l)
	// harmless by design: the same cid submitted in two different shards
	if !realKeys && l.shardsNum > 1 && rng.Chance(1, 12) {
		var as []*c16Ident
		for _, id := range l.idents {
			if len(id.flips) > 0 && id.required <= uint8(len(id.flips)) && id.st != state.Killed {
				as = append(as, id)
			}
		}
		if len(as) >= 2 {
			a, b := as[rng.Intn(len(as))], as[rng.Intn(len(as))]
			if a.shard != b.shard {
				b.flips[rng.Intn(len(b.flips))] = a.flips[rng.Intn(len(a.flips))]
				l.xdup = true
			}
		}
	}
	return l
}

// c16GenDup: two candidates of the SAME shard submit the same cid (SubmitFlipTx validation only
// compares a new cid with the sender's own flips, so the chain accepts this).
func c16GenDup(rng *verifutil.Rng, minimal bool) *c16Layout {
	l := &c16Layout{class: "dupcid", seed: c16Seed(rng), variantB: rng.Intn(3)}
	l.realKeys = rng.Chance(1, 3)
	l.shardsNum = 1 + rng.Pick(70, 30)
	if l.realKeys || minimal {
		l.shardsNum = 1
	}
	for s := 0; s < l.shardsNum; s++ {
		n := rng.Range(10, 70)
		if l.realKeys {
			n = rng.Range(10, 28)
		}
		a := rng.Range(9, n)
		if minimal {
			n, a = 20, 10
		}
		p := c16ShardPlan{flipsAt: make([]int, n)}
		for _, x := range rng.Perm(n)[:a] {
			p.flipsAt[x] = rng.Range(1, 4)
			if minimal {
				p.flipsAt[x] = 1
			}
		}
		l.plans = append(l.plans, p)
	}
	c16Materialize(rng, l)
	var as []*c16Ident
	for _, id := range l.idents {
		if id.shard == 1 && len(id.flips) > 0 {
			as = append(as, id)
		}
	}
	p := rng.Perm(len(as))
	victim, copier := as[p[0]], as[p[1]]
	if minimal { // first author in address order is copied by the last one
		victim, copier = as[0], as[len(as)-1]
	}
	copier.flips[rng.Intn(len(copier.flips))] = victim.flips[rng.Intn(len(victim.flips))]
	return l
}

type c16ExhCase struct{ n, mask, flips, seedIdx int }

func c16ExhCases() []c16ExhCase {
	var out []c16ExhCase
	for n := 0; n <= 7; n++ {
		for mask := 0; mask < 1<<uint(n); mask++ {
			for f := 1; f <= 3; f++ {
				if mask == 0 && f > 1 {
					continue // no authors: the flips-per-author count is immaterial
				}
				for s := 0; s < 8; s++ {
					out = append(out, c16ExhCase{n, mask, f, s})
				}
			}
		}
	}
	return out
}

func c16GenExh(c c16ExhCase, k int) *c16Layout {
	// independent of the shard number, so any sharding covers the same set
	rng := verifutil.NewRng(verifutil.Seed(), 1601, uint64(c.n), uint64(c.mask), uint64(c.flips))
	seedRng := verifutil.NewRng(verifutil.Seed(), 1602, uint64(c.seedIdx))
	l := &c16Layout{class: "exhaustive", shardsNum: 1, seed: seedRng.Bytes(32), variantB: k % 3}
	p := c16ShardPlan{flipsAt: make([]int, c.n)}
	for i := 0; i < c.n; i++ {
		if c.mask&(1<<uint(i)) != 0 {
			p.flipsAt[i] = c.flips
		}
	}
	l.plans = []c16ShardPlan{p}
	c16Materialize(rng, l)
	return l
}

// c16GenNextEpoch: the identity table of the epoch that follows l on the same chain. The
// identities stay (same address, key, stored public key, shard); roles are drawn again: most
// authors of l publish again (all of them in mode 0, nobody makes flips in mode 2), some
// candidates leave, some non-candidates come in, up to three identities are new. All cids are
// new, every author has new flip keys, the lottery seed is new.
func c16GenNextEpoch(rng *verifutil.Rng, l *c16Layout) *c16Layout {
	l2 := &c16Layout{class: l.class, phase: l.phase, index: l.index, shardsNum: l.shardsNum, seed: c16Seed(rng),
		realKeys: true, epoch: l.ep() + 1, epochNo: 2, variantB: l.variantB}
	l2.hist = rng.Pick(60, 20, 20)
	l2.mode = rng.Pick(30, 62, 8)
	usedCids := map[string]bool{}
	asAuthor := func(id *c16Ident, k int) {
		switch {
		case k >= 5:
			id.st = state.Human
		case k == 4:
			id.st = []state.IdentityState{state.Verified, state.Human}[rng.Intn(2)]
		default:
			id.st = []state.IdentityState{state.Newbie, state.Verified, state.Human}[rng.Intn(3)]
		}
		id.required = uint8(k)
		if id.required > 3 {
			id.required = 3
		}
		if rng.Chance(1, 4) {
			id.required = uint8(rng.Intn(int(id.required) + 1))
		}
		for j := 0; j < k; j++ {
			id.flips = append(id.flips, c16Cid(rng, usedCids))
		}
	}
	asPlainCandidate := func(id *c16Ident) {
		id.st = []state.IdentityState{state.Candidate, state.Suspended, state.Zombie, state.Newbie, state.Verified, state.Human}[rng.Intn(6)]
	}
	asNonCandidate := func(id *c16Ident) {
		switch rng.Intn(4) {
		case 0: // fewer flips than required: the flips must stay out of the lottery
			id.st, id.required = state.Newbie, 3
			for j := rng.Intn(3); j > 0; j-- {
				id.flips = append(id.flips, c16Cid(rng, usedCids))
			}
		case 1:
			id.st = state.Killed
		case 2:
			id.st = state.Invite
		default:
			id.st, id.required = state.Verified, 3
		}
	}
	finish := func(id *c16Ident) {
		id.rawShard = id.shard
		if l2.shardsNum == 1 && rng.Bool() {
			id.rawShard = 0
		}
		if id.st == state.Killed || id.st == state.Invite {
			id.rawShard = 0
		}
		l2.idents = append(l2.idents, id)
	}
	inUse := map[common.Address]bool{}
	for _, old := range l.idents {
		inUse[old.addr] = true
		id := &c16Ident{addr: old.addr, pub: old.pub, key: old.key, shard: old.shard, badPub: old.badPub, pos: -1}
		wasAuthor := old.cand && len(old.flips) > 0
		switch {
		case wasAuthor && l2.mode == 0:
			k := len(old.flips)
			if rng.Bool() {
				k = rng.Range(1, 5)
			}
			asAuthor(id, k)
		case old.cand:
			again := 1
			if wasAuthor {
				again = 3
			}
			switch {
			case rng.Chance(1, 12):
				asNonCandidate(id)
			case l2.mode != 2 && rng.Chance(again, 4):
				asAuthor(id, rng.Range(1, 5))
			default:
				asPlainCandidate(id)
			}
		default:
			switch {
			case rng.Bool():
				asNonCandidate(id)
			case l2.mode != 2 && rng.Chance(1, 3):
				asAuthor(id, rng.Range(1, 4))
			default:
				asPlainCandidate(id)
			}
		}
		finish(id)
	}
	// identities that did not exist in the previous epoch
	keys := c16Keys(96)
	joiners := rng.Intn(4)
	for _, x := range rng.Perm(len(keys)) {
		if joiners == 0 {
			break
		}
		k := keys[x]
		a := crypto.PubkeyToAddress(k.PublicKey)
		if inUse[a] {
			continue
		}
		inUse[a] = true
		joiners--
		id := &c16Ident{addr: a, pub: crypto.FromECDSAPub(&k.PublicKey), key: k, shard: rng.Range(1, l2.shardsNum), pos: -1}
		if l2.mode != 2 && rng.Chance(1, 3) {
			asAuthor(id, rng.Range(1, 3))
		} else {
			asPlainCandidate(id)
		}
		finish(id)
	}
	sort.Slice(l2.idents, func(i, j int) bool { return bytes.Compare(l2.idents[i].addr[:], l2.idents[j].addr[:]) < 0 })
	for _, id := range l2.idents {
		if len(id.flips) > 0 {
			id.flipPub = c16FlipKey(fmt.Sprintf("verif-c16-flip-pub-epoch-%d", l2.epoch), id.addr)
			id.flipPriv = c16FlipKey(fmt.Sprintf("verif-c16-flip-priv-epoch-%d", l2.epoch), id.addr)
		}
	}
	return l2
}

// ------------------------------------------------------------------ the world (real state, real ceremony)

type c16World struct {
	db       dbm.DB
	bus      eventbus.Bus
	app      *appstate.AppState
	keysPool *mempool.KeysPool
	flipper  *flip.Flipper // two-epoch histories only: completeEpoch resets it, which needs its AppState
	height   uint64        // committed state version = height of the head block
}

func c16WriteIdentity(st *state.StateDB, id *c16Ident) {
	st.SetState(id.addr, id.st)
	st.SetPubKey(id.addr, id.pub)
	st.SetShardId(id.addr, common.ShardId(id.rawShard))
	st.SetRequiredFlips(id.addr, id.required)
}

// c16GroundTruth: "is a ceremony candidate" by the chain's own predicate on the identity read
// back from the state, candidate ranks per shard, and same-shard duplicate cids among candidates.
func c16GroundTruth(st *state.StateDB, l *c16Layout) error {
	pos := map[int]int{}
	for _, id := range l.idents {
		ident := st.GetIdentity(id.addr)
		id.cand = state.IsCeremonyCandidate(ident)
		id.pos = -1
		if id.cand {
			id.pos = pos[id.shard]
			pos[id.shard]++
		}
		if int(ident.ShiftedShardId()) != id.shard && id.st.IsInShard() {
			return fmt.Errorf("harness: shard id not stored as planned")
		}
		if len(ident.Flips) != len(id.flips) {
			return fmt.Errorf("harness: %d flips stored for an identity planned with %d", len(ident.Flips), len(id.flips))
		}
	}
	l.dupCids = map[string]bool{}
	seen := map[string]bool{}
	for _, id := range l.idents {
		if !id.cand {
			continue
		}
		for _, c := range id.flips {
			k := fmt.Sprintf("%d/%s", id.shard, c)
			if seen[k] {
				l.dupCids[k] = true
			}
			seen[k] = true
		}
	}
	return nil
}

func c16Header(height uint64, flags types.BlockFlag) *types.Header {
	return &types.Header{ProposedHeader: &types.ProposedHeader{Height: height, Flags: flags}}
}

// commitBlock commits the state as the next block and announces the block on the bus the way
// the chain does (the keys pool follows the head through this event).
func (w *c16World) commitBlock(flags types.BlockFlag) error {
	if err := w.app.Commit(nil); err != nil {
		return err
	}
	w.height++
	w.bus.Publish(&events.NewBlockEvent{Block: &types.Block{Header: c16Header(w.height, flags), Body: &types.Body{}}})
	return nil
}

// restart: what a node start does for the objects involved - AppState loaded from the database
// at the head, a new KeysPool initialised at the head (it reloads what the epoch db holds).
func (w *c16World) restart() error {
	app, err := appstate.NewAppState(w.db, w.bus)
	if err != nil {
		return err
	}
	if err := app.Initialize(w.height); err != nil {
		return err
	}
	w.app = app
	w.keysPool = mempool.NewKeysPool(w.db, app, w.bus, c16Sec)
	w.keysPool.Initialize(c16Header(w.height, 0))
	w.flipper = flip.NewFlipper(w.db, ipfs.NewMemoryIpfsProxy(), w.keysPool, nil, c16Sec, app, w.bus)
	w.flipper.Initialize()
	return nil
}

func c16Build(l *c16Layout) (*c16World, error) {
	w := &c16World{db: dbm.NewMemDB(), bus: eventbus.New()}
	app, err := appstate.NewAppState(w.db, w.bus)
	if err != nil {
		return nil, err
	}
	if err := app.Initialize(0); err != nil {
		return nil, err
	}
	w.app = app
	st := app.State
	st.SetGlobalEpoch(l.ep())
	st.SetShardsNum(uint32(l.shardsNum))
	for _, id := range l.idents {
		c16WriteIdentity(st, id)
		for j, c := range id.flips {
			st.AddFlip(id.addr, c, uint8(j))
		}
	}
	if err := w.commitBlock(0); err != nil { // version 1
		return nil, err
	}
	if err := c16GroundTruth(st, l); err != nil {
		return nil, err
	}
	if l.realKeys {
		w.keysPool = mempool.NewKeysPool(w.db, app, w.bus, c16Sec)
		w.keysPool.Initialize(c16Header(w.height, 0))
	}
	if l.twoEpochs {
		w.flipper = flip.NewFlipper(w.db, ipfs.NewMemoryIpfsProxy(), w.keysPool, nil, c16Sec, app, w.bus)
		w.flipper.Initialize()
	}
	return w, nil
}

func (w *c16World) newVC(ns uint16, seed []byte) *ValidationCeremony {
	vc := &ValidationCeremony{
		appState:           w.app,
		db:                 w.db,
		bus:                w.bus,
		secStore:           c16Sec,
		flipper:            c16Flipper,
		keysPool:           w.keysPool,
		log:                log.New(),
		syncer:             c16NotSyncing{},
		config:             c16Config,
		epochDb:            database.NewEpochDb(w.db, ns),
		epoch:              w.app.State.Epoch(),
		epochApplyingCache: make(map[uint64]epochApplyingCache),
		flipWordsInfo:      &flipWordsInfo{pool: &sync.Map{}},
		lottery:            &lottery{},
	}
	if w.flipper != nil {
		vc.flipper = w.flipper
	}
	if seed != nil {
		vc.epochDb.WriteLotterySeed(seed)
	}
	return vc
}

// ------------------------------------------------------------------ observation through the solver API

type c16Obs struct {
	short, long [][][]byte // per identity (layout order)
	recip       [][][]byte // per identity: pubkeys the identity would encrypt for (nil: API error)
	recipOK     []bool
	flips       map[int][][]byte         // the shard flip lists the ceremony holds
	cands       map[int][]common.Address // the candidate tables the ceremony holds
}

func c16Observe(vc *ValidationCeremony, l *c16Layout) *c16Obs {
	o := &c16Obs{flips: map[int][][]byte{}, cands: map[int][]common.Address{}}
	for _, id := range l.idents {
		o.short = append(o.short, vc.GetShortFlipsToSolve(id.addr, common.ShardId(id.shard)))
		o.long = append(o.long, vc.GetLongFlipsToSolve(id.addr, common.ShardId(id.shard)))
		pk, err := vc.PrivateEncryptionKeyCandidates(id.addr)
		o.recip = append(o.recip, pk)
		o.recipOK = append(o.recipOK, err == nil)
	}
	for s := 1; s <= l.shardsNum; s++ {
		if sh, ok := vc.shardCandidates[common.ShardId(s)]; ok && sh != nil {
			o.flips[s] = sh.flips
			for _, c := range sh.candidates {
				o.cands[s] = append(o.cands[s], c.Address)
			}
		}
	}
	return o
}

func c16Hash(parts ...[]byte) string {
	h := sha256.New()
	for _, p := range parts {
		fmt.Fprintf(h, "%d:", len(p))
		h.Write(p)
	}
	return hex.EncodeToString(h.Sum(nil)[:12])
}

func c16ListDigest(tag string, ls [][][]byte, ok []bool) string {
	h := sha256.New()
	fmt.Fprintf(h, "%s/%d;", tag, len(ls))
	for i, l := range ls {
		if ok != nil {
			fmt.Fprintf(h, "%v", ok[i])
		}
		fmt.Fprintf(h, "[%d]", len(l))
		for _, c := range l {
			fmt.Fprintf(h, "%d:", len(c))
			h.Write(c)
		}
	}
	return hex.EncodeToString(h.Sum(nil)[:12])
}

// parts of the observation, digested separately so that a disagreement names its component
func (o *c16Obs) digests(l *c16Layout) map[string]string {
	d := map[string]string{
		"short":      c16ListDigest("s", o.short, nil),
		"long":       c16ListDigest("l", o.long, nil),
		"recipients": c16ListDigest("r", o.recip, o.recipOK),
	}
	h := sha256.New()
	for s := 1; s <= l.shardsNum; s++ {
		fmt.Fprintf(h, "shard%d/%d/%d;", s, len(o.flips[s]), len(o.cands[s]))
		for _, f := range o.flips[s] {
			h.Write(f)
		}
		for _, a := range o.cands[s] {
			h.Write(a[:])
		}
	}
	d["tables"] = hex.EncodeToString(h.Sum(nil)[:12])
	return d
}

func c16JoinDigests(d map[string]string) string {
	return d["tables"] + d["short"] + d["long"] + d["recipients"]
}

// ------------------------------------------------------------------ description / samples

func (l *c16Layout) describe() map[string]interface{} {
	var shards []interface{}
	for s := 1; s <= l.shardsNum; s++ {
		n, nonc := 0, 0
		authors := map[string]int{}
		for _, id := range l.idents {
			if id.shard != s {
				continue
			}
			if !id.cand {
				nonc++
				continue
			}
			n++
			if len(id.flips) > 0 {
				authors[fmt.Sprint(id.pos)] = len(id.flips)
			}
		}
		shards = append(shards, map[string]interface{}{"shard": s, "candidates": n, "authors_pos_to_flips": authors, "non_candidates": nonc})
	}
	d := map[string]interface{}{"class": l.class, "phase": l.phase, "index": l.index, "verif_shard": verifutil.Shard(), "verif_nshards": verifutil.NShards(),
		"shards_num": l.shardsNum, "lottery_seed": hex.EncodeToString(l.seed), "real_keys": l.realKeys, "second_evaluation": []string{"fresh ceremony, fresh epoch db", "fresh ceremony restoring persisted lottery identities", "state rebuilt from scratch"}[l.variantB], "shards": shards}
	if l.epochNo == 2 {
		// replaying (phase, index) re-runs the first epoch and then this one
		d["epoch_of_history"] = 2
		d["state_epoch"] = l.epoch
		d["history"] = c16HistNames[l.hist]
		d["who_publishes_again"] = []string{"every author of the first epoch", "drawn per identity", "nobody makes flips"}[l.mode]
		delete(d, "second_evaluation")
	}
	return d
}

func (l *c16Layout) dump() []interface{} {
	var out []interface{}
	for _, id := range l.idents {
		var fl []string
		for _, f := range id.flips {
			fl = append(fl, hex.EncodeToString(f[4:10]))
		}
		out = append(out, map[string]interface{}{"addr": id.addr.Hex(), "shard": id.shard, "state": int(id.st), "required_flips": id.required,
			"candidate": id.cand, "pos": id.pos, "flips": fl})
	}
	return out
}

// ------------------------------------------------------------------ one case

type c16Runner struct {
	rep *verifutil.Report
}

func (r *c16Runner) violation(l *c16Layout, sig, size, desc string) {
	rp := l.describe()
	if len(l.idents) <= 40 {
		rp["identities"] = l.dump()
	}
	if l.epochNo == 2 {
		sig += ":second-epoch"
		desc = "SECOND EPOCH on one node (" + c16HistNames[l.hist] + "): " + desc
	}
	if size != "" {
		sig = sig + "/" + size
	}
	r.rep.Violation(sig, desc+" | layout: "+c16JSON(l.describe()), rp)
}

func c16JSON(v interface{}) string {
	b, _ := json.Marshal(v)
	return string(b)
}

func c16Short(c []byte) string {
	if len(c) >= 10 {
		return hex.EncodeToString(c[4:10])
	}
	return hex.EncodeToString(c)
}

// run executes one layout; returns the digest of everything observed.
func (r *c16Runner) run(l *c16Layout) (digest string) {
	c16Init()
	rep := r.rep
	rep.Progress("phase %d case %d class %s", l.phase, l.index, l.class)
	p, stack := verifutil.Catch(func() { digest = r.runInner(l) })
	if p != nil {
		r.violation(l, "panic:"+c16TopFrame(stack), "", fmt.Sprintf("panic while evaluating the lottery: %v\n%s", p, verifutil.Trunc(stack, 3000)))
	}
	rep.Eval(1)
	return digest
}

// c16TopFrame: top frame of the code under test (also when the tree is compiled from a scratch
// worktree, where file paths do not start with /repo).
func c16TopFrame(stack string) string {
	if f := verifutil.TopRepoFrame(stack); f != "?" {
		return f
	}
	lines := strings.Split(stack, "\n")
	for i := 0; i+1 < len(lines); i++ {
		fn, loc := lines[i], lines[i+1]
		if !strings.HasPrefix(loc, "\t") || !strings.Contains(fn, "idena-network/idena-go/") {
			continue
		}
		if strings.Contains(loc, "zz_verif") || strings.Contains(loc, "/verifutil/") || strings.Contains(fn, "c16") {
			continue
		}
		if k := strings.LastIndex(fn, "("); k > 0 {
			fn = fn[:k]
		}
		return fn
	}
	return "?"
}

func (r *c16Runner) runInner(l *c16Layout) string {
	rep := r.rep
	w, err := c16Build(l)
	if err != nil {
		rep.Inconcl("harness: cannot build state for layout: %v", err)
		return ""
	}
	vcA := w.newVC(l.ep(), l.seed)
	vcA.calculateCeremonyCandidates(false)
	if !vcA.lottery.finished {
		rep.Inconcl("harness: lottery did not run")
		return ""
	}
	obsA := c16Observe(vcA, l)
	dA := obsA.digests(l)

	// ---- oracle 1: determinism (second evaluation of the same inputs)
	var vcB *ValidationCeremony
	switch l.variantB {
	case 0:
		vcB = w.newVC(c16ScratchNs, l.seed)
		vcB.calculateCeremonyCandidates(false)
		rep.Count("second_eval_fresh", 1)
	case 1:
		vcB = w.newVC(l.ep(), nil) // the seed and the lottery identities were persisted by the first
		vcB.calculateCeremonyCandidates(true)
		rep.Count("second_eval_restore", 1)
	default:
		rk, te := l.realKeys, l.twoEpochs
		l.realKeys, l.twoEpochs = false, false // no second keys pool
		w2, err := c16Build(l)
		l.realKeys, l.twoEpochs = rk, te
		if err != nil {
			rep.Inconcl("harness: cannot rebuild state: %v", err)
			return ""
		}
		vcB = w2.newVC(l.ep(), l.seed)
		vcB.calculateCeremonyCandidates(false)
		rep.Count("second_eval_rebuilt_state", 1)
	}
	obsB := c16Observe(vcB, l)
	dB := obsB.digests(l)
	maxN := 0
	for s := 1; s <= l.shardsNum; s++ {
		if n := len(obsA.cands[s]); n > maxN {
			maxN = n
		}
	}
	layoutSize := c16SizeClass(maxN)
	for _, k := range []string{"tables", "recipients", "short", "long"} {
		if dA[k] != dB[k] {
			r.violation(l, "determinism:"+k, layoutSize, fmt.Sprintf("two evaluations of the same inputs disagree on %s: %s vs %s%s", k, dA[k], dB[k], c16FirstDiff(l, obsA, obsB)))
			break
		}
	}

	r.check(l, w, vcA, obsA)

	full := c16JoinDigests(dA)
	ld := c16Hash([]byte(c16JSON(l.describe()["shards"])), l.seed, []byte(full))
	rep.Distinct("layout", ld)

	if l.twoEpochs && l.realKeys {
		r.secondEpoch(l, w, vcA)
	}
	return ld
}

// secondEpoch: the epoch that follows l on the SAME node. w holds the database, the AppState
// and the KeysPool that went through l's key oracle (packages published, keys fetched through
// GetFlipKeys, i.e. the pool's caches are filled); vc is the ceremony object that ran l.
func (r *c16Runner) secondEpoch(l1 *c16Layout, w *c16World, vc *ValidationCeremony) {
	rep := r.rep
	l2 := c16GenNextEpoch(verifutil.Stream(16, uint64(l1.phase), uint64(l1.index), 2), l1)
	l2.servedPrev = l1.served
	rep.Progress("phase %d case %d class %s: second epoch, history %d mode %d", l2.phase, l2.index, l2.class, l2.hist, l2.mode)
	rep.Eval(1)
	fail := func(what string, err error) {
		rep.Inconcl("harness: second epoch (history %d): %s: %v", l2.hist, what, err)
	}

	// ---- the validation-finishing block of the first epoch, reduced to what the lottery and the
	// keys pool read: the epoch number goes up, the flips of the finished epoch are dropped,
	// the identities get the state / flip duty they start the new epoch with
	st := w.app.State
	st.IncEpoch()
	isOld := map[common.Address]bool{}
	for _, id := range l1.idents {
		isOld[id.addr] = true
	}
	for _, id := range l2.idents {
		if isOld[id.addr] {
			st.ClearFlips(id.addr)
			c16WriteIdentity(st, id)
		}
	}
	if err := w.commitBlock(types.ValidationFinished); err != nil {
		fail("commit of the validation-finishing block", err)
		return
	}
	if st.Epoch() != l2.epoch {
		fail("epoch", fmt.Errorf("state epoch %d, planned %d", st.Epoch(), l2.epoch))
		return
	}
	// ---- what ValidationCeremony.addBlock does on a block with the ValidationFinished flag
	vc.completeEpoch() // new epoch db, flipper.Clear, keysPool.Clear, evidence map, lottery tables dropped
	if l2.hist == c16HistRestartAtOnce {
		if err := w.restart(); err != nil {
			fail("restart", err)
			return
		}
		st = w.app.State
		vc = w.newVC(l2.epoch, nil)
		rep.Count("second_epoch_restart_before_flips", 1)
	}
	// ---- the new epoch goes by: new identities are activated, flips are submitted
	for _, id := range l2.idents {
		if !isOld[id.addr] {
			c16WriteIdentity(st, id)
			rep.Count("second_epoch_identities_joined", 1)
		}
		for j, c := range id.flips {
			st.AddFlip(id.addr, c, uint8(j))
		}
	}
	if err := w.commitBlock(types.FlipLotteryStarted); err != nil {
		fail("commit of the new flips", err)
		return
	}
	// ---- the lottery of the second epoch on a node that never saw the first one (reference for
	// the determinism oracle; built first so that the ground truth below comes from the node under test)
	l2.realKeys = false
	wRef, err := c16Build(l2)
	l2.realKeys = true
	if err != nil {
		fail("reference state", err)
		return
	}
	vcRef := wRef.newVC(l2.epoch, l2.seed)
	vcRef.calculateCeremonyCandidates(false)
	if !vcRef.lottery.finished {
		fail("reference lottery", fmt.Errorf("did not run"))
		return
	}
	obsRef := c16Observe(vcRef, l2)
	dRef := obsRef.digests(l2)
	if err := c16GroundTruth(st, l2); err != nil {
		fail("ground truth", err)
		return
	}
	// ---- flip lottery of the second epoch (handleFlipLotteryPeriod: seed into the epoch db, then the calculation)
	vc.epochDb.WriteLotterySeed(l2.seed)
	vc.calculateCeremonyCandidates(false)
	if l2.hist == c16HistRestartInLottery {
		if err := w.restart(); err != nil {
			fail("restart", err)
			return
		}
		vc = w.newVC(l2.epoch, nil)
		vc.calculateCeremonyCandidates(true) // restoreState during the flip lottery period
		rep.Count("second_epoch_restart_in_lottery", 1)
	}
	// (a lottery that does not come about on this node, while it does on the reference node for
	// the same table and seed, is seen by the comparison below: every list is empty then)
	lotteryRan := vc.lottery.finished
	if l2.hist == c16HistSameNode {
		rep.Count("second_epoch_same_node", 1)
	}
	rep.Count("second_epoch_layouts", 1)
	rep.Count(fmt.Sprintf("second_epoch_mode_%d", l2.mode), 1)
	both, bothServed := 0, 0
	wasAuthor := map[common.Address]bool{}
	for _, id := range l1.idents {
		wasAuthor[id.addr] = id.cand && len(id.flips) > 0
	}
	for _, id := range l2.idents {
		if id.cand && len(id.flips) > 0 && wasAuthor[id.addr] {
			both++
			if l1.served[id.addr] {
				bothServed++
			}
		}
	}
	rep.Count("second_epoch_authors_in_both_epochs", both)
	rep.Count("second_epoch_authors_in_both_epochs_served_in_first", bothServed)
	if both > 0 && l2.hist == c16HistSameNode {
		rep.Count("second_epoch_same_node_layouts_with_repeat_authors", 1)
	}

	obs := c16Observe(vc, l2)
	d := obs.digests(l2)
	maxN := 0
	for s := 1; s <= l2.shardsNum; s++ {
		if n := len(obsRef.cands[s]); n > maxN {
			maxN = n
		}
	}
	// ---- oracle 1 across histories: the lottery is a function of the table and the seed, not of
	// what the node did in the epoch before
	diverged := ""
	for _, k := range []string{"tables", "recipients", "short", "long"} {
		if d[k] != dRef[k] {
			diverged = k
			note := ""
			if !lotteryRan {
				note = " (on this node the lottery did not come about at all after the seed was stored and calculateCeremonyCandidates was called)"
			}
			r.violation(l2, "determinism:"+k, c16SizeClass(maxN), fmt.Sprintf("the node that ran the previous epoch and a node that did not disagree on %s for the same table and seed: %s vs %s%s%s", k, d[k], dRef[k], c16FirstDiff(l2, obs, obsRef), note))
			break
		}
	}
	rep.Count("second_epoch_compared_with_fresh_node", 1)
	if !lotteryRan || diverged == "tables" {
		// nothing the other oracles could add: they would all report the same stale / missing tables
		rep.Count("second_epoch_oracles_skipped_after_divergence", 1)
		return
	}

	r.check(l2, w, vc, obs)
	rep.Distinct("layout", c16Hash([]byte("second-epoch"), []byte(c16JSON(l2.describe()["shards"])), l2.seed, []byte(c16JoinDigests(d))))

	if rep.Get("second_epoch_samples") < 1 && both >= 3 && len(l2.idents) <= 24 {
		rep.Count("second_epoch_samples", 1)
		rep.Sample(map[string]interface{}{"two_epoch_history": l2.describe(), "first_epoch": l1.describe(),
			"authors_publishing_in_both_epochs": both, "identities_first_epoch": l1.dump(), "identities_second_epoch": l2.dump()})
	}
}

func c16FirstDiff(l *c16Layout, a, b *c16Obs) string {
	for i, id := range l.idents {
		if c16ListDigest("", [][][]byte{a.short[i]}, nil) != c16ListDigest("", [][][]byte{b.short[i]}, nil) {
			return fmt.Sprintf(" (first difference: short list of %s, shard %d pos %d: %s vs %s)", id.addr.Hex(), id.shard, id.pos, c16Cids(a.short[i]), c16Cids(b.short[i]))
		}
		if c16ListDigest("", [][][]byte{a.long[i]}, nil) != c16ListDigest("", [][][]byte{b.long[i]}, nil) {
			return fmt.Sprintf(" (first difference: long list of %s, shard %d pos %d: %s vs %s)", id.addr.Hex(), id.shard, id.pos, c16Cids(a.long[i]), c16Cids(b.long[i]))
		}
		if a.recipOK[i] != b.recipOK[i] || c16ListDigest("", [][][]byte{a.recip[i]}, nil) != c16ListDigest("", [][][]byte{b.recip[i]}, nil) {
			return fmt.Sprintf(" (first difference: recipient list of %s, shard %d pos %d: %d vs %d entries)", id.addr.Hex(), id.shard, id.pos, len(a.recip[i]), len(b.recip[i]))
		}
	}
	return ""
}

func c16Cids(l [][]byte) string {
	var s []string
	for _, c := range l {
		s = append(s, c16Short(c))
	}
	return "[" + strings.Join(s, " ") + "]"
}

// check applies oracles 2..7 to one evaluation.
func (r *c16Runner) check(l *c16Layout, w *c16World, vc *ValidationCeremony, o *c16Obs) {
	rep := r.rep
	count := func(name string, n int) { // second epochs have counters of their own
		if l.epochNo == 2 {
			name = "second_epoch_" + name
		}
		rep.Count(name, n)
	}
	// ---- ground truth from what the harness placed
	type shardTruth struct {
		cands    []int            // identity indexes in candidate order
		authors  []int            // candidates with flips
		flipsBy  map[string][]int // cid -> identity indexes (candidates of this shard) that submitted it
		nFlips   int
		flipsAt  []int
		sizeCls  string
		nonCands int
	}
	truth := map[int]*shardTruth{}
	for s := 1; s <= l.shardsNum; s++ {
		truth[s] = &shardTruth{flipsBy: map[string][]int{}}
	}
	byPub := map[string]int{}
	for i, id := range l.idents {
		byPub[string(id.pub)] = i
		t := truth[id.shard]
		if !id.cand {
			t.nonCands++
			continue
		}
		t.cands = append(t.cands, i)
		t.flipsAt = append(t.flipsAt, len(id.flips))
		if len(id.flips) > 0 {
			t.authors = append(t.authors, i)
		}
		for _, c := range id.flips {
			t.flipsBy[string(c)] = append(t.flipsBy[string(c)], i)
			t.nFlips++
		}
	}
	shardsWithCands := 0
	for s := 1; s <= l.shardsNum; s++ {
		t := truth[s]
		t.sizeCls = c16SizeClass(len(t.cands))
		if len(t.cands) > 0 {
			shardsWithCands++
		}
		// the harness' expectation about the table the ceremony works on (assumption, not a verdict)
		okTable := len(o.cands[s]) == len(t.cands)
		for k := 0; okTable && k < len(t.cands); k++ {
			okTable = o.cands[s][k] == l.idents[t.cands[k]].addr
		}
		if !okTable {
			rep.Inconcl("harness assumption: ceremony candidate table of shard %d (%d entries) differs from the candidates placed (%d)", s, len(o.cands[s]), len(t.cands))
			return
		}
		// coverage: classes + fallback paths
		ac, fc := c16AuthorClass(len(t.authors), len(t.cands)), c16FlipsClass(t.flipsAt)
		rep.Distinct("class", t.sizeCls, ac, fc)
		count("shards_evaluated", 1)
		count("size_"+t.sizeCls, 1)
		count("authors_"+ac, 1)
		count("flips_"+fc, 1)
		switch {
		case len(t.cands) == 0:
			count("path_zero_candidates", 1)
		case t.nFlips == 0:
			count("path_zero_flips", 1)
		}
		if t.nFlips == 1 {
			count("path_single_flip", 1)
		}
		if len(t.authors) >= 1 && len(t.authors) < c16Quota {
			count("path_few_authors", 1)
		}
		if len(t.authors) > 7 {
			count("path_topup_over7_authors", 1)
		}
		if len(t.authors) >= c16Quota && t.nFlips == len(t.authors) {
			count("path_one_flip_each_quota_or_more_authors", 1) // where long lists can come out empty
		}
		if sl := vc.shardLotteries[common.ShardId(s)]; sl != nil { // coverage only, never a verdict
			for c, as := range sl.authorsPerCandidate {
				m := map[int]bool{}
				for _, a := range as {
					m[a] = true
				}
				if m[c] {
					count("cov_self_assignment", 1)
				}
				if len(m) < c16Quota {
					count("cov_rotation_branch", 1)
				} else {
					count("cov_full_branch", 1)
				}
				if len(as) > c16Quota {
					count("cov_topup_links", len(as)-c16Quota)
				}
				if len(m) < len(as) {
					count("cov_repeated_author_for_candidate", 1)
				}
			}
		}
	}
	if shardsWithCands >= 2 {
		count("path_multi_shard", 1)
	}
	if l.xdup {
		count("path_cross_shard_same_cid", 1)
	}
	if len(l.dupCids) > 0 {
		count("path_same_shard_same_cid", 1)
	}

	// ---- recipients per author as sets of identity indexes
	recSet := make([]map[int]bool, len(l.idents))
	for i, id := range l.idents {
		if !o.recipOK[i] {
			continue
		}
		recSet[i] = map[int]bool{}
		for _, pk := range o.recip[i] {
			j, ok := byPub[string(pk)]
			if !ok {
				r.violation(l, "link:recipient-unknown", truth[id.shard].sizeCls, fmt.Sprintf("author %s (shard %d pos %d) would encrypt for a public key that belongs to no identity", id.addr.Hex(), id.shard, id.pos))
				continue
			}
			recSet[i][j] = true
		}
		if len(recSet[i]) < len(o.recip[i]) {
			count("cov_recipient_listed_repeatedly", 1)
		}
	}

	assigned := make([]map[string]bool, len(l.idents))
	placeholders := 0
	for i, id := range l.idents {
		if !id.cand {
			if len(o.short[i])+len(o.long[i]) > 0 {
				count("cov_noncandidate_with_lists", 1)
			}
			continue
		}
		t := truth[id.shard]
		who := fmt.Sprintf("candidate %s (shard %d pos %d of %d, %d authors, %d flips in shard)", id.addr.Hex(), id.shard, id.pos, len(t.cands), len(t.authors), t.nFlips)
		assigned[i] = map[string]bool{}
		for si, list := range [][][]byte{o.short[i], o.long[i]} {
			sess := []string{"short", "long"}[si]
			// ---- oracle 2: only existing flips; none when the shard has none
			if t.nFlips == 0 && len(list) > 0 {
				r.violation(l, "range:no-flips:"+sess, t.sizeCls, fmt.Sprintf("%s is given %d %s flip(s) %s although its shard has no flips", who, len(list), sess, c16Cids(list)))
				continue
			}
			seen := map[string]bool{}
			for _, c := range list {
				if _, ok := t.flipsBy[string(c)]; !ok {
					r.violation(l, "range:"+sess, t.sizeCls, fmt.Sprintf("%s: %s list names %s which is not a flip of a candidate of its shard", who, sess, c16Short(c)))
					continue
				}
				// ---- oracle 3: no duplicates per candidate and session
				if seen[string(c)] {
					r.violation(l, "dup:"+sess, t.sizeCls, fmt.Sprintf("%s: flip %s listed twice in the %s list %s", who, c16Short(c), sess, c16Cids(list)))
				}
				seen[string(c)] = true
				assigned[i][string(c)] = true
			}
		}
		// ---- oracle 4: short quota
		if len(o.short[i]) > c16Quota {
			r.violation(l, "quota:short", t.sizeCls, fmt.Sprintf("%s: short list has %d flips, quota is %d", who, len(o.short[i]), c16Quota))
		}
		// ---- oracle 5: long list non-empty whenever the shard has flips
		if t.nFlips > 0 && len(o.long[i]) == 0 {
			r.violation(l, "long-empty", t.sizeCls, fmt.Sprintf("%s: empty long list although the shard has %d flips", who, t.nFlips))
		}
		if t.nFlips > 0 && len(o.short[i]) == 0 {
			count("cov_short_empty_with_flips", 1)
		}

		// ---- oracle 6, forward: assigned => recipient of the flip's author (and the index lookup points at c's entry)
		isPlaceholder := func(sess int, c []byte) bool {
			return sess == 1 && len(o.long[i]) == 1 && len(o.flips[id.shard]) > 0 && bytes.Equal(c, o.flips[id.shard][0])
		}
		for si, list := range [][][]byte{o.short[i], o.long[i]} {
			for _, c := range list {
				subs := t.flipsBy[string(c)]
				if len(subs) == 0 {
					continue // reported by the range oracle
				}
				a := subs[0]
				dup := len(subs) > 1
				if dup {
					self := false
					for _, x := range subs {
						self = self || x == i
					}
					if self { // one of the submitters itself: it has its own key, nothing is demanded
						count("cov_dupcid_assigned_to_submitter", 1)
						continue
					}
					// two candidates submitted this cid: the candidate will consult the package of
					// whoever the ceremony names as the author
					named, ok := vc.shardCandidates[common.ShardId(id.shard)].flipAuthorMap[string(c)]
					a = -1
					for _, x := range subs {
						if ok && l.idents[x].addr == named {
							a = x
						}
					}
					if a < 0 {
						r.violation(l, "link:dup-cid", "", fmt.Sprintf("%s: flip %s was submitted by %d candidates and the ceremony names none of them as its author", who, c16Short(c), len(subs)))
						continue
					}
				}
				au := l.idents[a]
				fail := ""
				if recSet[a] == nil || !recSet[a][i] {
					fail = fmt.Sprintf("is assigned flip %s of author %s (pos %d) but is not among the %d recipients that author encrypts its key for", c16Short(c), au.addr.Hex(), au.pos, len(o.recip[a]))
				} else if idx := vc.getPrivateKeyPackageIndex(id.addr, au.addr); idx < 0 || idx >= len(o.recip[a]) || !bytes.Equal(o.recip[a][idx], id.pub) {
					fail = fmt.Sprintf("is assigned flip %s of author %s (pos %d) but the package index lookup gives %d, which is not its entry", c16Short(c), au.addr.Hex(), au.pos, idx)
				}
				if fail == "" {
					if a == i {
						count("cov_own_flip_assigned", 1)
					}
					continue
				}
				if isPlaceholder(si, c) {
					placeholders++
					count("placeholder_exempted", 1)
					continue
				}
				if dup {
					var ss []string
					for _, x := range subs {
						ss = append(ss, fmt.Sprintf("%s(pos %d, recipient=%v)", l.idents[x].addr.Hex(), l.idents[x].pos, recSet[x] != nil && recSet[x][i]))
					}
					r.violation(l, "link:dup-cid", "", fmt.Sprintf("%s %s; the cid was submitted by %s and the ceremony names %s as THE author, so the candidate cannot obtain a key for it", who, fail, strings.Join(ss, ", "), au.addr.Hex()))
				} else {
					r.violation(l, "link:assigned-not-recipient", t.sizeCls, who+" "+fail)
				}
			}
		}
	}
	if placeholders > 0 {
		count("path_placeholder_layouts", 1)
	}
	// ---- oracle 6, converse: recipient => assigned at least one flip of that author
	for s := 1; s <= l.shardsNum; s++ {
		t := truth[s]
		for _, a := range t.authors {
			au := l.idents[a]
			if recSet[a] == nil {
				count("cov_author_without_recipients", 1)
				continue
			}
			done := map[int]bool{}
			for _, pk := range o.recip[a] {
				c, known := byPub[string(pk)]
				if !known || done[c] {
					continue
				}
				done[c] = true
				cd := l.idents[c]
				ok := false
				if assigned[c] != nil {
					for _, f := range au.flips {
						if assigned[c][string(f)] {
							ok = true
							break
						}
					}
				}
				if !ok {
					r.violation(l, "link:recipient-not-assigned", t.sizeCls, fmt.Sprintf("author %s (shard %d pos %d, %d flips) encrypts its key for %s (shard %d pos %d, candidate=%v) who is assigned none of its flips; short=%s long=%s",
						au.addr.Hex(), au.shard, au.pos, len(au.flips), cd.addr.Hex(), cd.shard, cd.pos, cd.cand, c16Cids(o.short[c]), c16Cids(o.long[c])))
				}
			}
		}
	}

	if l.realKeys {
		r.checkKeys(l, w, vc, o, recSet, func(i int, sess int, c []byte) bool {
			id := l.idents[i]
			return sess == 1 && len(o.long[i]) == 1 && len(o.flips[id.shard]) > 0 && bytes.Equal(c, o.flips[id.shard][0])
		})
	}

	nC, nA := 0, 0
	for s := 1; s <= l.shardsNum; s++ {
		nC += len(truth[s].cands)
		nA += len(truth[s].authors)
	}
	want := false
	if rep.Get("samples_taken") < 2 && l.epochNo != 2 {
		switch verifutil.Shard() % 4 {
		case 0:
			want = l.phase == c16PhaseExh && nC >= 5 && nA >= 2 && nA < nC
		case 1:
			want = l.phase == c16PhaseRandom && shardsWithCands >= 2 && nC >= 6 && nC <= 16 && nA >= 3
		case 2:
			want = l.phase == c16PhaseReal && nC >= 9 && nC <= 16 && nA >= 9
		default:
			want = l.phase == c16PhaseRandom && nC >= 9 && nC <= 14 && nA >= 8
		}
	}
	if want {
		count("samples_taken", 1)
		idx := map[string]string{}
		for s := 1; s <= l.shardsNum; s++ {
			for k, f := range o.flips[s] {
				idx[string(f)] = fmt.Sprintf("s%d#%d", s, k)
			}
		}
		names := func(ls [][]byte) []string {
			var out []string
			for _, c := range ls {
				out = append(out, idx[string(c)])
			}
			return out
		}
		var rows []interface{}
		for i, id := range l.idents {
			if !id.cand {
				continue
			}
			row := map[string]interface{}{"shard": id.shard, "pos": id.pos, "own_flips": names(id.flips), "short": names(o.short[i]), "long": names(o.long[i])}
			if recSet[i] != nil {
				var rc []int
				for _, pk := range o.recip[i] {
					rc = append(rc, l.idents[byPub[string(pk)]].pos)
				}
				row["encrypts_for_pos"] = rc
			}
			rows = append(rows, row)
		}
		rep.Sample(map[string]interface{}{"layout": l.describe(), "assignment": rows})
	}
}

// checkKeys: oracle 7, the real key path. Every author builds its package with the real
// EncryptPrivateKeysPackage for the recipients the ceremony names, publishes it (and its public
// flip key) into a real KeysPool; every candidate then asks GetFlipKeys for each assigned flip
// and decrypts with its own key.
func (r *c16Runner) checkKeys(l *c16Layout, w *c16World, vc *ValidationCeremony, o *c16Obs, recSet []map[int]bool, isPlaceholder func(i, sess int, c []byte) bool) {
	rep := r.rep
	count := func(name string, n int) {
		if l.epochNo == 2 {
			name = "second_epoch_" + name
		}
		rep.Count(name, n)
	}
	rng := verifutil.NewRng(verifutil.Seed(), 1603, uint64(l.index), uint64(l.phase))
	if l.epochNo == 2 {
		rng = verifutil.NewRng(verifutil.Seed(), 1603, uint64(l.index), uint64(l.phase), 2)
	}
	l.served = map[common.Address]bool{}
	authorsOf := map[string][]int{}
	published := map[int]bool{}
	sizeOf := map[int]string{}
	for s := 1; s <= l.shardsNum; s++ {
		sizeOf[s] = c16SizeClass(len(o.cands[s]))
	}
	for i, id := range l.idents {
		if !id.cand || len(id.flips) == 0 {
			continue
		}
		for _, c := range id.flips {
			k := fmt.Sprintf("%d/%s", id.shard, c)
			authorsOf[k] = append(authorsOf[k], i)
		}
		if !o.recipOK[i] {
			continue
		}
		data := mempool.EncryptPrivateKeysPackage(id.flipPub, id.flipPriv, o.recip[i])
		pkg, err := types.SignFlipKeysPackage(&types.PrivateFlipKeysPackage{Data: data, Epoch: l.ep()}, id.key)
		if err != nil {
			rep.Inconcl("harness: cannot sign package: %v", err)
			return
		}
		if err := w.keysPool.AddPrivateKeysPackage(pkg, false); err != nil {
			rep.Inconcl("harness: keys pool refused a package of %d bytes for %d recipients: %v", len(data), len(o.recip[i]), err)
			return
		}
		pk, err := types.SignFlipKey(&types.PublicFlipKey{Key: crypto.FromECDSA(id.flipPub.ExportECDSA()), Epoch: l.ep()}, id.key)
		if err != nil {
			rep.Inconcl("harness: cannot sign flip key: %v", err)
			return
		}
		if err := w.keysPool.AddPublicFlipKey(pk, false); err != nil {
			rep.Inconcl("harness: keys pool refused a public flip key: %v", err)
			return
		}
		published[i] = true
		count("keys_packages_published", 1)
	}
	for i, id := range l.idents {
		if !id.cand {
			continue
		}
		if id.badPub {
			if _, err := crypto.UnmarshalPubkey(id.pub); err != nil {
				count("keys_recipient_without_valid_pubkey", 1)
				continue // nobody can encrypt for it
			}
		}
		size := sizeOf[id.shard]
		who := fmt.Sprintf("candidate %s (shard %d pos %d)", id.addr.Hex(), id.shard, id.pos)
		for si, list := range [][][]byte{o.short[i], o.long[i]} {
			for _, c := range list {
				subs := authorsOf[fmt.Sprintf("%d/%s", id.shard, c)]
				if len(subs) == 0 {
					continue // reported by the range oracle
				}
				pub, enc, err := vc.GetFlipKeys(id.addr, c)
				if len(subs) > 1 {
					self := false
					for _, x := range subs {
						self = self || x == i
					}
					if self {
						continue
					}
					// same cid submitted by several candidates of the shard: the candidate must at least
					// obtain the key of one of them
					ok := false
					if err == nil {
						if dec, derr := ecies.ImportECDSA(id.key).Decrypt(enc, nil, nil); derr == nil {
							for _, x := range subs {
								ok = ok || bytes.Equal(dec, crypto.FromECDSA(l.idents[x].flipPriv.ExportECDSA()))
							}
						}
					}
					if !ok && !isPlaceholder(i, si, c) {
						var ss []string
						for _, x := range subs {
							ss = append(ss, fmt.Sprintf("%s(pos %d, encrypts for the candidate=%v)", l.idents[x].addr.Hex(), l.idents[x].pos, recSet[x] != nil && recSet[x][i]))
						}
						r.violation(l, "link:dup-cid", "", fmt.Sprintf("%s is assigned flip %s submitted by %s, but GetFlipKeys gives it no usable key: err=%v", who, c16Short(c), strings.Join(ss, ", "), err))
					} else if ok {
						count("keys_dupcid_decrypted_ok", 1)
					}
					continue
				}
				au := l.idents[subs[0]]
				if err == nil {
					l.served[au.addr] = true // the pool handed out an entry of this author's package
				}
				if err != nil {
					if isPlaceholder(i, si, c) {
						count("keys_placeholder_exempted", 1)
						continue
					}
					r.violation(l, "keys:extract", size, fmt.Sprintf("%s is assigned flip %s of %s but GetFlipKeys fails: %v", who, c16Short(c), au.addr.Hex(), err))
					continue
				}
				if !bytes.Equal(pub, crypto.FromECDSA(au.flipPub.ExportECDSA())) {
					r.violation(l, "keys:public-key", size, fmt.Sprintf("%s: GetFlipKeys(%s) returns a public flip key that is not the author's", who, c16Short(c)))
				}
				dec, err := ecies.ImportECDSA(id.key).Decrypt(enc, nil, nil)
				if err != nil || !bytes.Equal(dec, crypto.FromECDSA(au.flipPriv.ExportECDSA())) {
					if isPlaceholder(i, si, c) {
						count("keys_placeholder_exempted", 1)
						continue
					}
					r.violation(l, "keys:decrypt", size, fmt.Sprintf("%s: the package entry for flip %s of %s does not decrypt to the author's private flip key under the candidate's key (err=%v)", who, c16Short(c), au.addr.Hex(), err))
					continue
				}
				count("keys_decrypted_ok", 1)
				if l.servedPrev[au.addr] {
					// the author published in the previous epoch too and the node served that package then
					count("keys_decrypted_ok_author_served_in_first_epoch", 1)
				}
			}
		}
	}
	// a non-recipient cannot decrypt any entry
	var pubs []int
	for a := range published {
		pubs = append(pubs, a)
	}
	sort.Ints(pubs)
	for _, a := range pubs {
		au := l.idents[a]
		n := len(o.recip[a])
		idxs := rng.Perm(n)
		if len(idxs) > 10 {
			idxs = idxs[:10]
		}
		var outsiders []int
		for j, x := range l.idents {
			if j != a && !recSet[a][j] && x.key != nil {
				outsiders = append(outsiders, j)
			}
		}
		if len(outsiders) == 0 {
			count("keys_author_without_outsiders", 1)
			continue
		}
		for _, k := range idxs {
			enc := w.keysPool.GetEncryptedPrivateFlipKey(k, au.addr)
			if _, perr := crypto.UnmarshalPubkey(o.recip[a][k]); perr != nil && len(enc) == 0 {
				count("keys_empty_entry_for_invalid_pubkey", 1)
				continue
			}
			if len(enc) == 0 {
				r.violation(l, "keys:entry-missing", "", fmt.Sprintf("package of author %s has no entry %d of %d", au.addr.Hex(), k, n))
				continue
			}
			l.served[au.addr] = true
			for t := 0; t < 2; t++ {
				x := l.idents[outsiders[rng.Intn(len(outsiders))]]
				if dec, err := ecies.ImportECDSA(x.key).Decrypt(enc, nil, nil); err == nil {
					r.violation(l, "keys:non-recipient-decrypts", "", fmt.Sprintf("entry %d of the package of author %s decrypts (%d bytes) under the key of %s, who is not among its recipients", k, au.addr.Hex(), len(dec), x.addr.Hex()))
				} else {
					count("keys_outsider_refused", 1)
				}
			}
		}
	}
}

// ------------------------------------------------------------------ driver

func TestVerifC16Lottery(t *testing.T) {
	if !verifutil.Enabled() {
		t.Skip("verif harness")
	}
	c16Init()
	rep := verifutil.NewReport()
	defer rep.Write()
	r := &c16Runner{rep: rep}
	shard, nsh := verifutil.Shard(), verifutil.NShards()

	if rp := os.Getenv("VERIF_REPLAY"); rp != "" {
		c16Replay(t, r, rp)
		return
	}

	t0 := time.Now() // diagnostics in the child log only; no oracle and no budget reads the clock
	lap := func(what string) { t.Logf("phase %s done after %.1fs", what, time.Since(t0).Seconds()) }
	// ---- canonical layouts: identical in every child process, digests compared across processes
	canon := sha256.New()
	for i := 0; i < 40; i++ {
		rng := verifutil.NewRng(verifutil.Seed(), 1600, uint64(i))
		l := c16GenRandom(rng, false)
		l.phase, l.index = c16PhaseCanon, i
		fmt.Fprintf(canon, "%s;", r.run(l))
	}
	canonDigest := hex.EncodeToString(canon.Sum(nil)[:16])
	rep.SetInfo("canonical_digest_seed_"+fmt.Sprint(verifutil.Seed()), canonDigest)
	out := os.Getenv("VERIF_OUT")
	myFile := filepath.Join(out, "c16-canon-"+os.Getenv("VERIF_JOB")+".txt")
	os.WriteFile(myFile+".tmp", []byte(canonDigest), 0644)
	os.Rename(myFile+".tmp", myFile)

	lap("canonical")
	// ---- exhaustive small layouts
	cases := c16ExhCases()
	for k, c := range cases {
		if k%nsh != shard {
			continue
		}
		l := c16GenExh(c, k)
		l.phase, l.index = c16PhaseExh, k
		r.run(l)
		rep.Count("exhaustive_cases", 1)
	}
	rep.SetInfo("exhaustive_total_cases", len(cases))

	lap("exhaustive")
	// ---- random layouts
	n := verifutil.Scale(4000, 100000) / nsh
	for i := 0; i < n; i++ {
		l := c16GenRandom(verifutil.Stream(16, c16PhaseRandom, uint64(i)), false)
		l.phase, l.index = c16PhaseRandom, i
		r.run(l)
		rep.Count("random_layouts", 1)
	}
	lap("random")
	// ---- real keys
	n = verifutil.Scale(320, 2400) / nsh
	for i := 0; i < n; i++ {
		l := c16GenRandom(verifutil.Stream(16, c16PhaseReal, uint64(i)), true)
		l.phase, l.index = c16PhaseReal, i
		l.twoEpochs = true // followed by a second epoch on the same node
		r.run(l)
		rep.Count("realkey_layouts", 1)
	}
	lap("realkeys")
	// ---- same cid submitted by two candidates of one shard
	n = verifutil.Scale(160, 2400) / nsh
	for i := 0; i < n; i++ {
		l := c16GenDup(verifutil.Stream(16, c16PhaseDup, uint64(i)), i == 0 && shard == 0)
		l.phase, l.index = c16PhaseDup, i
		r.run(l)
		rep.Count("dupcid_layouts", 1)
	}

	lap("dupcid")
	// ---- cross-process determinism: compare with every sibling that already published
	files, _ := filepath.Glob(filepath.Join(out, "c16-canon-*.txt"))
	for _, f := range files {
		if f == myFile {
			continue
		}
		b, err := os.ReadFile(f)
		if err != nil {
			continue
		}
		rep.Count("cross_process_comparisons", 1)
		if string(b) != canonDigest {
			rep.Violation("determinism:cross-process", fmt.Sprintf("the 40 canonical layouts evaluate to %s in this process and to %s in %s", canonDigest, b, filepath.Base(f)), nil)
		}
	}
}

func c16Replay(t *testing.T, r *c16Runner, path string) {
	b, err := os.ReadFile(path)
	if err != nil {
		t.Fatalf("replay: %v", err)
	}
	var f struct {
		First struct {
			Replay struct {
				Phase   int `json:"phase"`
				Index   int `json:"index"`
				Shard   int `json:"verif_shard"`
				NShards int `json:"verif_nshards"`
			} `json:"replay"`
		} `json:"first"`
	}
	if err := json.Unmarshal(b, &f); err != nil {
		t.Fatalf("replay: %v", err)
	}
	rp := f.First.Replay
	if rp.Phase != c16PhaseExh && rp.Phase != c16PhaseCanon && (rp.Shard != verifutil.Shard() || rp.NShards != verifutil.NShards()) {
		return
	}
	if (rp.Phase == c16PhaseExh || rp.Phase == c16PhaseCanon) && verifutil.Shard() != 0 {
		return
	}
	var l *c16Layout
	switch rp.Phase {
	case c16PhaseRandom:
		l = c16GenRandom(verifutil.Stream(16, c16PhaseRandom, uint64(rp.Index)), false)
	case c16PhaseReal:
		l = c16GenRandom(verifutil.Stream(16, c16PhaseReal, uint64(rp.Index)), true)
		l.twoEpochs = true
	case c16PhaseDup:
		l = c16GenDup(verifutil.Stream(16, c16PhaseDup, uint64(rp.Index)), rp.Index == 0 && verifutil.Shard() == 0)
	case c16PhaseExh:
		cs := c16ExhCases()
		if rp.Index < 0 || rp.Index >= len(cs) {
			t.Fatalf("replay: bad index")
		}
		l = c16GenExh(cs[rp.Index], rp.Index)
	case c16PhaseCanon:
		l = c16GenRandom(verifutil.NewRng(verifutil.Seed(), 1600, uint64(rp.Index)), false)
	default:
		t.Fatalf("replay: unknown phase %d", rp.Phase)
	}
	l.phase, l.index = rp.Phase, rp.Index
	r.run(l)
	r.rep.Count("replayed_cases", 1)
}
