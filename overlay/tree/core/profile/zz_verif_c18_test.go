package profile

// C18 (core/profile): the profile blob stored in IPFS round-trips.

import (
	"testing"

	"github.com/idena-network/idena-go/verifutil"
)

func TestVerifC18Codec(t *testing.T) {
	if !verifutil.Enabled() {
		t.Skip("verif harness")
	}
	rep := verifutil.NewReport()
	defer rep.Write()
	s := &verifutil.Schema{}
	cr := &verifutil.CodecRun{Rep: rep, S: s, Pkg: "core/profile", PropNo: 18, Types: []*verifutil.CodecType{
		verifutil.StdCodec("profile.Profile", func() interface{} { return new(Profile) }),
	}}
	cr.Run(verifutil.Scale(600, 20000)/verifutil.NShards(), 0)
}
