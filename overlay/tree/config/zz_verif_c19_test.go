package config

// C19 (configuration side): the key the RPC gate compares with comes from Config.SetApiKey.
// Whatever state the key file is in (missing, empty, blank, holding a key, unreadable garbage,
// left truncated by a crash between the truncating open and the write), a node that was not
// given a key on the command line must end up with a NON-EMPTY key (an empty one switches the
// gate off), the same key on the next start, and the file must hold it.

import (
	"fmt"
	"io/ioutil"
	"os"
	"path/filepath"
	"strings"
	"testing"

	"github.com/idena-network/idena-go/rpc"
	"github.com/idena-network/idena-go/verifutil"
)

func TestVerifC19KeyFile(t *testing.T) {
	if !verifutil.Enabled() {
		t.Skip("verif harness")
	}
	rep := verifutil.NewReport()
	defer rep.Write()
	n := verifutil.Scale(300, 3000)
	base, err := ioutil.TempDir(".", "c19keyfile")
	if err != nil {
		t.Fatal(err)
	}
	defer os.RemoveAll(base)
	for i := 0; i < n; i++ {
		r := verifutil.Stream(19, 500, uint64(i))
		dir := filepath.Join(base, fmt.Sprint(i))
		os.MkdirAll(dir, 0755)
		file := filepath.Join(dir, apiKeyFileName)
		class, flagKey := "", ""
		switch r.Intn(8) {
		case 0:
			class = "missing"
		case 1:
			class = "empty"
			ioutil.WriteFile(file, nil, 0666)
		case 2:
			class = "blank"
			ioutil.WriteFile(file, []byte([]string{" ", "\n", "\t\n", "  \r\n "}[r.Intn(4)]), 0666)
		case 3:
			class = "key"
			ioutil.WriteFile(file, []byte(verifutil.Hex(r.Bytes(16))), 0666)
		case 4:
			class = "key-with-newline"
			ioutil.WriteFile(file, []byte(verifutil.Hex(r.Bytes(16))+"\n"), 0666)
		case 5:
			class = "binary"
			ioutil.WriteFile(file, r.Bytes(r.Range(1, 40)), 0666)
		case 6:
			class = "flag-key-and-empty-file"
			flagKey = verifutil.Hex(r.Bytes(8))
			ioutil.WriteFile(file, nil, 0666)
		default:
			class = "flag-key-and-missing-file"
			flagKey = verifutil.Hex(r.Bytes(8))
		}
		rep.Eval(1)
		rep.Count("key_file_state:"+class, 1)
		var keys []string
		for start := 0; start < 3; start++ { // three starts of the node on the same data dir
			c := &Config{DataDir: dir, RPC: &rpc.Config{APIKey: flagKey}}
			if start > 0 && strings.HasPrefix(class, "flag-key") && r.Bool() {
				c.RPC.APIKey = "" // later starts without the flag: the stored key applies
			}
			if err := c.SetApiKey(); err != nil {
				rep.Note("SetApiKey failed (%s): %v", class, err)
				break
			}
			if c.RPC.APIKey == "" {
				rep.Violation("empty-api-key:"+class, fmt.Sprintf("key file state %q, start %d: the node ends up with an EMPTY API key (the gate is switched off); file now holds %q", class, start, readFile(file)), nil)
				break
			}
			if strings.TrimSpace(c.RPC.APIKey) != c.RPC.APIKey {
				rep.Violation("api-key-with-surrounding-blanks:"+class, fmt.Sprintf("key file state %q: key %q", class, c.RPC.APIKey), nil)
			}
			keys = append(keys, c.RPC.APIKey)
			if got := strings.TrimSpace(readFile(file)); got != c.RPC.APIKey {
				rep.Violation("key-file-does-not-hold-the-key:"+class, fmt.Sprintf("key file state %q, start %d: node uses %q, the file holds %q", class, start, c.RPC.APIKey, got), nil)
			}
		}
		for j := 1; j < len(keys); j++ {
			if keys[j] != keys[0] {
				rep.Violation("api-key-changes-between-starts:"+class, fmt.Sprintf("key file state %q: keys of consecutive starts %q", class, keys), nil)
				break
			}
		}
		if class == "key" || class == "key-with-newline" {
			rep.Distinct(class, len(keys))
		} else {
			rep.Distinct(class)
		}
		os.RemoveAll(dir)
	}
}

func readFile(p string) string {
	b, _ := ioutil.ReadFile(p)
	return string(b)
}
