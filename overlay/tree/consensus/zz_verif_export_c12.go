//go:build verif && c12

package consensus

// Forwarding shims of the C12 monitor (hostile-input, engine E3): the two consumers of
// block ranges that live in this package. No logic of their own.

import (
	"github.com/idena-network/idena-go/blockchain"
	"github.com/idena-network/idena-go/blockchain/types"
	"github.com/idena-network/idena-go/common"
	"github.com/libp2p/go-libp2p-core/peer"
)

// VerifC12ProcessBlocks = ForkResolver.processBlocks (what loadAndVerifyFork runs on the
// bundles a potentially forked peer served).
func (resolver *ForkResolver) VerifC12ProcessBlocks(blocks chan types.BlockBundle, id peer.ID) error {
	return resolver.processBlocks(blocks, id)
}

func (resolver *ForkResolver) VerifC12DropFork() { resolver.applicableFork = nil }

// VerifC12NextBlockExist = nextBlockDetector.nextBlockExist on a detector whose seeking
// channel is already open (what the engine runs on the bundle a forward peer served).
func VerifC12NextBlockExist(chain *blockchain.Blockchain, seeking chan *types.BlockBundle, round uint64, emptyBlockHash common.Hash) bool {
	d := &nextBlockDetector{chain: chain, activeSeeking: seeking}
	return d.nextBlockExist(round, emptyBlockHash)
}
