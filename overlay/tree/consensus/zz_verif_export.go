//go:build verif

package consensus

// Forwarding shims for /verif (injected at build time, never part of the repository).

import "github.com/idena-network/idena-go/blockchain/types"

// VerifProcessBlocks feeds fork bundles to the real processBlocks, as the downloader's
// channel would.
func (resolver *ForkResolver) VerifProcessBlocks(blocks []types.BlockBundle) error {
	ch := make(chan types.BlockBundle, len(blocks)+1)
	for _, b := range blocks {
		ch <- b
	}
	close(ch)
	return resolver.processBlocks(ch, "verif-peer")
}
