package consensus

// C07 — "A certificate is accepted iff it holds a quorum of distinct committee votes".
//
// Runtime monitor around the REAL ValidateBlockCert / countVotes / Votes.AddVote /
// GetOnlineValidators, driven with generated validator sets and vote multisets.
//
// Oracles
//  (1) reference predicate (written from the protocol rule, using the block and not the
//      certificate's own claims): #distinct eligible committee members whose signature is valid
//      over (block hash, parent hash, round = height, cert step) >= threshold(size) - subtrahend.
//        ValidateBlockCert == nil  =>  reference holds                      (else: false accept)
//        all entries genuine && cert names this block && reference holds
//                                  =>  ValidateBlockCert == nil             (else: false reject)
//  (2) every certificate returned by countVotes (votes admitted through Votes.AddVote) consists of
//      distinct genuine eligible votes, satisfies (1) and is accepted after Compress().
//  (3) committee determinism: the draw is identical for caches built by Load, by incremental
//      diffs in different batchings, by Clone; it is a subset of the online set after pool
//      collapsing and has exactly `limit` original members.
//
// Deliberately NOT asserted: refusal of a certificate that contains an outsider/forged entry
// next to a quorum (allowed strictness); emission of a certificate by countVotes when a quorum
// is present (a timeout is "no cert"); eligibility of a pool whose members are partly
// discriminated (the property text is silent; the code's notion is used as given).

import (
	"bytes"
	"crypto/sha256"
	"encoding/hex"
	"encoding/json"
	"fmt"
	"math"
	"os"
	"path/filepath"
	"sort"
	"strings"
	"sync"
	"sync/atomic"
	"testing"
	"time"

	"github.com/idena-network/idena-go/blockchain"
	"github.com/idena-network/idena-go/blockchain/types"
	"github.com/idena-network/idena-go/common"
	"github.com/idena-network/idena-go/common/eventbus"
	"github.com/idena-network/idena-go/config"
	"github.com/idena-network/idena-go/core/appstate"
	"github.com/idena-network/idena-go/core/upgrade"
	"github.com/idena-network/idena-go/core/validators"
	"github.com/idena-network/idena-go/crypto"
	"github.com/idena-network/idena-go/log"
	"github.com/idena-network/idena-go/pengings"
	"github.com/idena-network/idena-go/secstore"
	"github.com/idena-network/idena-go/stats/collector"
	"github.com/idena-network/idena-go/verifutil"
	dbm "github.com/tendermint/tm-db"
)

// ---------------------------------------------------------------- protocol constants (copied)

// votes needed when there are 0..8 validators
var c07SmallTable = []int{1, 1, 2, 2, 3, 3, 4, 4, 5}

type c07Params struct {
	name                  string
	committeePercent      float64
	finalCommitteePercent float64
	agreement             float64
	maxCommittee          int
}

var c07Profiles = []c07Params{
	{"default", 0.3, 0.7, 0.65, 100}, // the network's consensus constants
	{"smallcap", 0.5, 0.8, 0.65, 12}, // harness-chosen sampling parameters: reaches the cap with small sets
}

func c07RefCommitteeSize(cnt int, final bool, p *c07Params) int {
	if cnt <= 8 {
		return cnt
	}
	pc := p.committeePercent
	if final {
		pc = p.finalCommitteePercent
	}
	n := int(math.Round(float64(cnt) * pc))
	if n > p.maxCommittee {
		n = p.maxCommittee
	}
	return n
}

func c07RefThreshold(cnt int, final bool, p *c07Params) int {
	if cnt < len(c07SmallTable) {
		return c07SmallTable[cnt]
	}
	return int(math.Round(float64(c07RefCommitteeSize(cnt, final, p)) * p.agreement))
}

func c07RefSubtrahend(original, approved int, p *c07Params) int {
	return int(math.Round(float64(original-approved) * p.agreement))
}

// ---------------------------------------------------------------- environment

type c07Env struct {
	p     *c07Params
	chain *blockchain.Blockchain
	cfg   *config.Config
	od    *blockchain.OfflineDetector
	upg   *upgrade.Upgrader
}

func c07Setup(t *testing.T) []*c07Env {
	log.Root().SetHandler(log.DiscardHandler())
	c07InitKeys()
	var envs []*c07Env
	for i := range c07Profiles {
		p := &c07Profiles[i]
		conf := blockchain.GetDefaultConsensusConfig()
		conf.Automine = true
		if p.name != "default" {
			conf.CommitteePercent = p.committeePercent
			conf.FinalCommitteePercent = p.finalCommitteePercent
			conf.MaxCommitteeSize = p.maxCommittee
			conf.AgreementThreshold = p.agreement
		}
		tb, _, _, _ := blockchain.NewTestBlockchainWithConfig(false, conf, &config.ValidationConfig{}, nil, -1, -1, 0, 0)
		if tb == nil || tb.Blockchain == nil {
			t.Fatal("c07: cannot build test blockchain")
		}
		cfg := &config.Config{Consensus: conf, OfflineDetection: config.GetDefaultOfflineDetectionConfig()}
		db := dbm.NewMemDB()
		envs = append(envs, &c07Env{
			p: p, chain: tb.Blockchain, cfg: cfg,
			od:  blockchain.NewOfflineDetector(cfg, db, nil, secstore.NewSecStore(), eventbus.New()),
			upg: upgrade.NewUpgrader(cfg, nil, db),
		})
	}
	return envs
}

// ---------------------------------------------------------------- votes and signatures

type c07Hdr struct {
	round  uint64
	step   uint8
	parent common.Hash
	voted  common.Hash
	off    bool
	upg    uint32
}

func c07NewVote(h c07Hdr, sig []byte) *types.Vote {
	return &types.Vote{Header: &types.VoteHeader{Round: h.round, Step: h.step, ParentHash: h.parent, VotedHash: h.voted,
		TurnOffline: h.off, Upgrade: h.upg}, Signature: append([]byte{}, sig...)}
}

type c07SigKey struct {
	k int
	h c07Hdr
}

type c07Signer struct{ cache map[c07SigKey][]byte }

func (s *c07Signer) sign(k int, h c07Hdr) []byte {
	key := c07SigKey{k, h}
	if sig, ok := s.cache[key]; ok {
		return sig
	}
	hash := crypto.SignatureHash(c07NewVote(h, nil))
	sig, err := crypto.Sign(hash[:], c07Keys[k])
	if err != nil {
		panic(err)
	}
	s.cache[key] = sig
	return sig
}

// entry of a certificate under construction, with provenance for the replay file
type c07Entry struct {
	sig  []byte
	off  bool
	upg  uint32
	what string
}

func c07StepName(step uint8) string {
	switch step {
	case types.Final:
		return "final"
	case types.ReductionOne:
		return "red1"
	case types.ReductionTwo:
		return "red2"
	}
	return "ba"
}

// ---------------------------------------------------------------- one generated situation

type c07Committee struct {
	sv        *validators.StepValidators
	original  int
	eligible  map[common.Address]bool
	required  int
	threshold int
	sub       int
	E         []int // key indexes of eligible members (sorted by address)
	discrM    []int // committee members (collapsed) that are not eligible
	delegs    []int // delegators among the original members
	notDrawn  []int // online members (after pool collapsing) that were not drawn into this committee
}

type c07Ctx struct {
	rep    *verifutil.Report
	rng    *verifutil.Rng
	env    *c07Env
	set    *c07Set
	cnt    int
	vcRef  *validators.ValidatorsCache   // built by Load on the final state
	vcs    []*validators.ValidatorsCache // equivalent caches (incremental, clones) used for the calls
	signer *c07Signer
	prev   *types.Header
	blockA *types.Header
	blockB *types.Header
	h      uint64
	comm   map[uint8]*c07Committee
	outs   []int // key indexes of non-members
	shape  string
	caseNo int
	addrC  map[string]common.Address
}

func (c *c07Ctx) committee(step uint8) *c07Committee {
	if cm, ok := c.comm[step]; ok {
		return cm
	}
	final := step == types.Final
	limit := c07RefCommitteeSize(c.cnt, final, c.env.p)
	sv := c.vcRef.GetOnlineValidators(c.prev.Seed(), c.h, step, limit)
	cm := &c07Committee{sv: sv, eligible: map[common.Address]bool{}}
	c.comm[step] = cm
	if sv == nil {
		return cm
	}
	cm.original = sv.Original.Cardinality()
	for _, a := range c07SetAddrs(sv.ApprovedValidators) {
		cm.eligible[a] = true
		if a == c.set.god.addr {
			cm.E = append(cm.E, c.set.god.k)
		} else {
			cm.E = append(cm.E, c07KeyOf[a])
		}
	}
	for _, a := range c07SetAddrs(sv.Validators) {
		if !cm.eligible[a] {
			cm.discrM = append(cm.discrM, c07KeyOf[a])
		}
	}
	for _, a := range c07SetAddrs(sv.Original) {
		if id := c.set.by[a]; id != nil && id.deleg != nil {
			cm.delegs = append(cm.delegs, id.k)
		}
	}
	inComm := map[common.Address]bool{}
	for _, a := range c07SetAddrs(sv.Validators) {
		inComm[a] = true
	}
	var nd []common.Address
	for a := range c.set.members() {
		if ca := c.set.collapse(a); !inComm[ca] {
			inComm[ca] = true
			nd = append(nd, ca)
		}
	}
	for _, a := range c07SortAddrs(nd) {
		cm.notDrawn = append(cm.notDrawn, c07KeyOf[a])
	}
	cm.threshold = c07RefThreshold(c.cnt, final, c.env.p)
	cm.sub = c07RefSubtrahend(cm.original, len(cm.eligible), c.env.p)
	cm.required = cm.threshold - cm.sub
	return cm
}

// reference count for a certificate against (prev, block): distinct eligible committee members
// with a signature valid over what THIS block requires.
func (c *c07Ctx) refEval(cert *types.BlockCert, block *types.Header) (distinct int, allGenuine bool, cm *c07Committee) {
	cm = c.committee(cert.Step)
	seen := map[common.Address]bool{}
	allGenuine = true
	for _, s := range cert.Signatures {
		v := &types.Vote{Header: &types.VoteHeader{Round: block.Height(), Step: cert.Step, ParentHash: c.prev.Hash(),
			VotedHash: block.Hash(), TurnOffline: s.TurnOffline, Upgrade: s.Upgrade}, Signature: s.Signature}
		a := v.VoterAddr()
		if cm.eligible[a] {
			seen[a] = true
		} else {
			allGenuine = false
		}
	}
	return len(seen), allGenuine, cm
}

func c07Hex(b []byte) string { return hex.EncodeToString(b) }

func c07CertReplay(cert *types.BlockCert) interface{} {
	var sigs []map[string]interface{}
	for _, s := range cert.Signatures {
		sigs = append(sigs, map[string]interface{}{"sig": c07Hex(s.Signature), "off": s.TurnOffline, "upg": s.Upgrade})
	}
	return map[string]interface{}{"round": cert.Round, "step": cert.Step, "voted": cert.VotedHash.Hex(), "signatures": sigs}
}

func (c *c07Ctx) replay(extra map[string]interface{}) map[string]interface{} {
	m := map[string]interface{}{
		"profile": c.env.p.name, "set": c.set.describe(), "god": c.set.god.addr.Hex(), "validators": c.cnt,
		"seed": c07Hex(c.prev.Seed().Bytes()), "height": c.h, "prevHash": c.prev.Hash().Hex(),
		"blockA": c.blockA.Hash().Hex(), "blockB": c.blockB.Hash().Hex(), "verifSeed": verifutil.Seed(), "shard": verifutil.Shard(), "case": c.caseNo,
	}
	for k, v := range extra {
		m[k] = v
	}
	return m
}

// decide runs oracle (1) on one certificate.
func (c *c07Ctx) decide(class string, cert *types.BlockCert, block *types.Header, entries []c07Entry) {
	rep := c.rep
	vc := c.vcs[c.rng.Intn(len(c.vcs))]
	var cache map[string]common.Address
	if c.rng.Bool() {
		cache = c.addrC
	}
	var got error
	p, stack := verifutil.Catch(func() { got = c.env.chain.ValidateBlockCert(c.prev, block, cert, vc, cache) })
	rep.Eval(1)
	rep.Count("cert_decisions", 1)
	rep.Count("class_"+class, 1)
	if p != nil {
		rep.Violation("panic:ValidateBlockCert:"+class, fmt.Sprintf("ValidateBlockCert panicked: %v at %s", p, verifutil.TopRepoFrame(stack)),
			c.replay(map[string]interface{}{"class": class, "cert": c07CertReplay(cert), "stack": verifutil.Trunc(stack, 3000)}))
		return
	}
	distinct, genuine, cm := c.refEval(cert, block)
	refHolds := distinct >= cm.required
	named := cert.Round == block.Height() && cert.VotedHash == block.Hash()
	what := func() []string {
		var l []string
		for _, e := range entries {
			l = append(l, e.what)
		}
		return l
	}
	desc := fmt.Sprintf("profile=%s validators=%d step=%d committee(original=%d eligible=%d) threshold=%d subtrahend=%d required=%d; cert has %d signatures, %d distinct eligible valid voters; ValidateBlockCert=%v",
		c.env.p.name, c.cnt, cert.Step, cm.original, len(cm.eligible), cm.threshold, cm.sub, cm.required, len(cert.Signatures), distinct, got)
	if got == nil {
		rep.Count("cert_accept", 1)
		if !refHolds {
			rep.Violation("false-accept:"+class, "certificate accepted below quorum: "+desc,
				c.replay(map[string]interface{}{"class": class, "cert": c07CertReplay(cert), "entries": what(), "block": block.Hash().Hex()}))
		}
		if len(cert.Signatures) == 0 {
			rep.Count("accepted_empty_cert_required_le_0", 1)
		}
	} else {
		rep.Count("cert_reject", 1)
		if refHolds && genuine && named {
			rep.Violation("false-reject:"+class, "certificate made of a quorum of genuine eligible votes refused: "+desc,
				c.replay(map[string]interface{}{"class": class, "cert": c07CertReplay(cert), "entries": what(), "block": block.Hash().Hex()}))
		}
		if refHolds && !(genuine && named) {
			rep.Count("reject_quorum_plus_foreign_entry", 1) // allowed strictness
		}
	}
	if refHolds && genuine && named {
		rep.Count("ref_genuine_quorum", 1)
	}
	if !refHolds {
		rep.Count("ref_below_quorum", 1)
	}
	outcome := "rej"
	if got == nil {
		outcome = "acc"
	}
	rep.Distinct("cert", c.shape, c07StepName(cert.Step), class, outcome, distinct >= cm.required, cm.required <= 0)
	if c.rng.Chance(1, 400) {
		rep.Sample(map[string]interface{}{"kind": "cert-decision", "profile": c.env.p.name, "shape": c.shape, "step": cert.Step, "class": class,
			"signatures": len(cert.Signatures), "distinctEligible": distinct, "required": cm.required, "accepted": got == nil})
	}
}

// ---------------------------------------------------------------- certificate generator

func (c *c07Ctx) flags() (bool, uint32) {
	return c.rng.Chance(1, 6), []uint32{0, 0, 0, 12, 13}[c.rng.Intn(5)]
}

func (c *c07Ctx) entry(k int, h c07Hdr, what string) c07Entry {
	return c07Entry{sig: c.signer.sign(k, h), off: h.off, upg: h.upg, what: fmt.Sprintf("k%d:%s", k, what)}
}

func (c *c07Ctx) canon(step uint8, block *types.Header) c07Hdr {
	return c07Hdr{round: c.h, step: step, parent: c.prev.Hash(), voted: block.Hash()}
}

// good returns n genuine entries of distinct eligible members plus the key indexes not used.
func (c *c07Ctx) good(cm *c07Committee, step uint8, n int) ([]c07Entry, []int, []int) {
	if n > len(cm.E) {
		n = len(cm.E)
	}
	if n < 0 {
		n = 0
	}
	perm := c.rng.Perm(len(cm.E))
	var es []c07Entry
	var used, rest []int
	for i, pi := range perm {
		k := cm.E[pi]
		if i < n {
			h := c.canon(step, c.blockA)
			h.off, h.upg = c.flags()
			es = append(es, c.entry(k, h, "good"))
			used = append(used, k)
		} else {
			rest = append(rest, k)
		}
	}
	return es, used, rest
}

// outsider: somebody who is not a voter of this committee (online-but-not-drawn, offline, unknown key)
func (c *c07Ctx) outsider(cm *c07Committee) int {
	if len(cm.notDrawn) > 0 && c.rng.Bool() {
		return cm.notDrawn[c.rng.Intn(len(cm.notDrawn))]
	}
	return c.outs[c.rng.Intn(len(c.outs))]
}

func (c *c07Ctx) forged(cm *c07Committee, step uint8, kHint int) c07Entry {
	h := c.canon(step, c.blockA)
	switch c.rng.Intn(6) {
	case 0:
		return c07Entry{sig: c.rng.Bytes(65), what: "forged:random65"}
	case 1:
		sig := append([]byte{}, c.signer.sign(kHint, h)...)
		sig[c.rng.Intn(64)] ^= 1 << uint(c.rng.Intn(8))
		return c07Entry{sig: sig, what: "forged:bitflip"}
	case 2:
		sig := c.signer.sign(kHint, h)
		return c07Entry{sig: append([]byte{}, sig[:c.rng.Intn(65)]...), what: "forged:truncated"}
	case 3:
		return c07Entry{sig: nil, what: "forged:empty"}
	case 4: // genuine signature, flags in the certificate differ from the signed ones
		e := c.entry(kHint, h, "forged:flag-mismatch")
		e.off = !e.off
		return e
	default:
		e := c.entry(kHint, h, "forged:upgrade-mismatch")
		e.upg = e.upg + 1
		return e
	}
}

func (c *c07Ctx) mkCert(round uint64, step uint8, voted common.Hash, es []c07Entry) *types.BlockCert {
	cert := &types.BlockCert{Round: round, Step: step, VotedHash: voted}
	for _, i := range c.rng.Perm(len(es)) {
		e := es[i]
		cert.Signatures = append(cert.Signatures, &types.BlockCertSignature{TurnOffline: e.off, Upgrade: e.upg, Signature: append([]byte{}, e.sig...)})
	}
	return cert
}

var c07CertClasses = []string{"exact", "minus1", "all", "subset", "empty", "dup-same-sig", "dup-flags", "outsider+quorum", "outsider-pad",
	"discr-pad", "delegator-pad", "forged-pad", "round-consistent", "round-pad", "round-certonly", "parent-all", "parent-pad",
	"hash-consistent", "hash-pad", "hash-certonly", "step-consistent", "step-pad", "equivocation-pad", "random-mix"}

func (c *c07Ctx) otherStep(step uint8) uint8 {
	for {
		s := []uint8{1, 2, 3, uint8(c.rng.Range(4, 149)), types.ReductionOne, types.ReductionTwo, types.Final}[c.rng.Intn(7)]
		if s != step {
			return s
		}
	}
}

func (c *c07Ctx) otherRound() uint64 {
	switch c.rng.Intn(4) {
	case 0:
		return c.h - 1
	case 1:
		return c.h + 1
	case 2:
		return c.h + uint64(c.rng.Range(2, 1000))
	}
	return 0
}

// runCertClass builds one certificate of the class and decides it. Returns false if the class is
// not applicable to this committee.
func (c *c07Ctx) runCertClass(class string, step uint8) bool {
	cm := c.committee(step)
	if cm.sv == nil {
		return false
	}
	req := cm.required
	A := c.blockA
	canon := c.canon(step, A)
	anyKey := func(l []int) int {
		if len(l) > 0 {
			return l[c.rng.Intn(len(l))]
		}
		return c.outs[c.rng.Intn(len(c.outs))]
	}
	// pad classes: req-1 genuine distinct voters, then entries that must not count
	pad := func(mk func(used, rest []int, i int) c07Entry) ([]c07Entry, bool) {
		if req < 1 {
			return nil, false
		}
		es, used, rest := c.good(cm, step, req-1)
		if len(es) != req-1 {
			return nil, false
		}
		m := c.rng.Range(1, 3) + c.rng.Intn(2)*len(cm.E)/3
		for i := 0; i < m; i++ {
			es = append(es, mk(used, rest, i))
		}
		return es, true
	}
	var es []c07Entry
	ok := true
	round, cstep, voted, block := c.h, step, A.Hash(), A
	switch class {
	case "exact":
		if req < 1 || req > len(cm.E) {
			return false
		}
		es, _, _ = c.good(cm, step, req)
	case "minus1":
		if req < 1 || req-1 > len(cm.E) {
			return false
		}
		es, _, _ = c.good(cm, step, req-1)
	case "all":
		es, _, _ = c.good(cm, step, len(cm.E))
	case "subset":
		es, _, _ = c.good(cm, step, c.rng.Intn(len(cm.E)+1))
	case "empty":
	case "dup-same-sig":
		if req < 2 {
			return false
		}
		es, ok = pad(func(used, rest []int, i int) c07Entry { return c07Entry{} })
		if ok {
			es = es[:req-1]
			for n := c.rng.Range(1, 3) + c.rng.Intn(2)*req; n > 0; n-- {
				d := es[c.rng.Intn(req-1)]
				d.what += "(dup)"
				es = append(es, d)
			}
		}
	case "dup-flags":
		if req < 2 {
			return false
		}
		es, ok = pad(func(used, rest []int, i int) c07Entry {
			h := canon
			h.off, h.upg = c.rng.Bool(), uint32(c.rng.Range(20, 40))
			return c.entry(used[c.rng.Intn(len(used))], h, "same-voter-other-flags")
		})
	case "outsider+quorum":
		if req < 1 || req > len(cm.E) {
			return false
		}
		es, _, _ = c.good(cm, step, c.rng.Range(req, len(cm.E)))
		es = append(es, c.entry(c.outsider(cm), canon, "outsider"))
	case "outsider-pad":
		es, ok = pad(func(used, rest []int, i int) c07Entry { return c.entry(c.outsider(cm), canon, "outsider") })
	case "discr-pad":
		if len(cm.discrM) == 0 {
			return false
		}
		es, ok = pad(func(used, rest []int, i int) c07Entry { return c.entry(anyKey(cm.discrM), canon, "discriminated-member") })
	case "delegator-pad":
		if len(cm.delegs) == 0 {
			return false
		}
		es, ok = pad(func(used, rest []int, i int) c07Entry { return c.entry(anyKey(cm.delegs), canon, "delegator-own-key") })
	case "forged-pad":
		es, ok = pad(func(used, rest []int, i int) c07Entry { return c.forged(cm, step, anyKey(rest)) })
	case "round-consistent": // a complete certificate of another round, presented for this block
		if len(cm.E) == 0 {
			return false
		}
		round = c.otherRound()
		h := canon
		h.round = round
		for _, k := range cm.E {
			es = append(es, c.entry(k, h, "other-round"))
		}
	case "round-pad":
		r := c.otherRound()
		es, ok = pad(func(used, rest []int, i int) c07Entry {
			h := canon
			h.round = r
			if i < len(rest) {
				return c.entry(rest[i], h, "other-round")
			}
			return c.entry(anyKey(cm.E), h, "other-round")
		})
	case "round-certonly":
		if len(cm.E) == 0 {
			return false
		}
		es, _, _ = c.good(cm, step, len(cm.E))
		round = c.otherRound()
	case "parent-all":
		if len(cm.E) == 0 {
			return false
		}
		h := canon
		h.parent = common.BytesToHash(c.rng.Bytes(32))
		for _, k := range cm.E {
			es = append(es, c.entry(k, h, "other-parent"))
		}
	case "parent-pad":
		ph := common.BytesToHash(c.rng.Bytes(32))
		if c.rng.Bool() {
			ph = c.prev.ParentHash()
		}
		es, ok = pad(func(used, rest []int, i int) c07Entry {
			h := canon
			h.parent = ph
			if i < len(rest) {
				return c.entry(rest[i], h, "other-parent")
			}
			return c.entry(anyKey(cm.E), h, "other-parent")
		})
	case "hash-consistent": // a complete certificate for block B, presented for block A
		if len(cm.E) == 0 {
			return false
		}
		h := c.canon(step, c.blockB)
		for _, k := range cm.E {
			es = append(es, c.entry(k, h, "votes-for-B"))
		}
		voted = c.blockB.Hash()
	case "hash-pad", "equivocation-pad":
		es, ok = pad(func(used, rest []int, i int) c07Entry {
			h := c.canon(step, c.blockB)
			if class == "equivocation-pad" && len(used) > 0 {
				return c.entry(used[c.rng.Intn(len(used))], h, "same-voter-votes-B")
			}
			if i < len(rest) {
				return c.entry(rest[i], h, "votes-for-B")
			}
			return c.entry(anyKey(cm.E), h, "votes-for-B")
		})
	case "hash-certonly":
		if len(cm.E) == 0 {
			return false
		}
		es, _, _ = c.good(cm, step, len(cm.E))
		voted = c.blockB.Hash()
	case "step-consistent": // a certificate of another step: judged against THAT step's committee
		if len(cm.E) == 0 {
			return false
		}
		cstep = c.otherStep(step)
		h := canon
		h.step = cstep
		for _, k := range cm.E {
			if c.rng.Chance(5, 6) {
				es = append(es, c.entry(k, h, "signed-for-cert-step"))
			}
		}
	case "step-pad":
		os := c.otherStep(step)
		es, ok = pad(func(used, rest []int, i int) c07Entry {
			h := canon
			h.step = os
			if i < len(rest) {
				return c.entry(rest[i], h, "other-step")
			}
			return c.entry(anyKey(cm.E), h, "other-step")
		})
	case "random-mix":
		n := c.rng.Intn(len(cm.E) + 4)
		for i := 0; i < n; i++ {
			h := canon
			switch c.rng.Pick(8, 1, 1, 1, 1, 1, 1, 1, 1) {
			case 0:
				h.off, h.upg = c.flags()
				es = append(es, c.entry(anyKey(cm.E), h, "good"))
			case 1:
				es = append(es, c.entry(c.outsider(cm), h, "outsider"))
			case 2:
				es = append(es, c.entry(anyKey(cm.discrM), h, "discriminated-or-outsider"))
			case 3:
				es = append(es, c.entry(anyKey(cm.delegs), h, "delegator-or-outsider"))
			case 4:
				es = append(es, c.forged(cm, step, anyKey(cm.E)))
			case 5:
				h.round = c.otherRound()
				es = append(es, c.entry(anyKey(cm.E), h, "other-round"))
			case 6:
				h.parent = common.BytesToHash(c.rng.Bytes(32))
				es = append(es, c.entry(anyKey(cm.E), h, "other-parent"))
			case 7:
				h.voted = c.blockB.Hash()
				es = append(es, c.entry(anyKey(cm.E), h, "votes-for-B"))
			case 8:
				h.step = c.otherStep(step)
				es = append(es, c.entry(anyKey(cm.E), h, "other-step"))
			}
		}
	default:
		return false
	}
	if !ok {
		return false
	}
	c.decide(class, c.mkCert(round, cstep, voted, es), block, es)
	return true
}

// ---------------------------------------------------------------- oracle (3): committee determinism

func c07SVEqual(a, b *validators.StepValidators) bool {
	if a == nil || b == nil {
		return a == b
	}
	return a.Original.Equal(b.Original) && a.Validators.Equal(b.Validators) && a.ApprovedValidators.Equal(b.ApprovedValidators)
}

func c07SVStr(a *validators.StepValidators) string {
	if a == nil {
		return "<nil>"
	}
	return fmt.Sprintf("original[%s] validators[%s] approved[%s]", c07AddrsStr(c07SetAddrs(a.Original)), c07AddrsStr(c07SetAddrs(a.Validators)), c07AddrsStr(c07SetAddrs(a.ApprovedValidators)))
}

type c07Probe struct {
	seed  types.Seed
	round uint64
	step  uint8
	limit int
}

func (c *c07Ctx) probes() []c07Probe {
	var ps []c07Probe
	for _, st := range []uint8{1, types.Final, c.otherStep(1)} {
		ps = append(ps, c07Probe{c.prev.Seed(), c.h, st, c07RefCommitteeSize(c.cnt, st == types.Final, c.env.p)})
	}
	ps = append(ps, c07Probe{types.BytesToSeed(c.rng.Bytes(32)), uint64(c.rng.Range(1, 1<<30)), uint8(c.rng.Intn(256)), c07RefCommitteeSize(c.cnt, false, c.env.p)})
	ps = append(ps, c07Probe{types.BytesToSeed(c.rng.Bytes(32)), c.h + 1, types.Final, c.cnt})
	if c.cnt > 1 {
		ps = append(ps, c07Probe{c.prev.Seed(), c.h, 2, c.rng.Range(1, c.cnt)})
	}
	return ps
}

// checkSeedSwitch: one cache object is asked for the committee of the same (round, step, size)
// under two different seeds, as a node is after it switched to an equally high fork (same round,
// another parent seed, no identity update in between). The second answer must be the one a cache
// that never saw the first seed gives.
func (c *c07Ctx) checkSeedSwitch(built []*c07Built) {
	rep := c.rep
	for _, p := range c.probes()[:3] {
		seedB := types.BytesToSeed(c.rng.Bytes(32))
		want := c.vcRef.Clone().GetOnlineValidators(seedB, p.round, p.step, p.limit)
		first := c.vcRef.Clone().GetOnlineValidators(p.seed, p.round, p.step, p.limit)
		if want != nil && first != nil && !c07SVEqual(want, first) {
			rep.Count("seed_switches_with_different_committees", 1)
		}
		for i, b := range built {
			for j, vc := range []*validators.ValidatorsCache{b.vc, b.vc.Clone()} {
				vc.GetOnlineValidators(p.seed, p.round, p.step, p.limit)
				got := vc.GetOnlineValidators(seedB, p.round, p.step, p.limit)
				rep.Eval(1)
				rep.Count("seed_switch_comparisons", 1)
				if !c07SVEqual(want, got) {
					rep.Violation("committee:stale-after-seed-switch", fmt.Sprintf("a cache (#%d, built by %s, clone=%v) asked for (round=%d, step=%d, limit=%d) first under one seed and then under another answers the second question with %s; a cache that never saw the first seed answers %s",
						i, b.how, j == 1, p.round, p.step, p.limit, c07SVStr(got), c07SVStr(want)), c.replay(map[string]interface{}{"probe": fmt.Sprintf("%x->%x/%d/%d/%d", p.seed, seedB, p.round, p.step, p.limit)}))
					return
				}
			}
		}
	}
}

func (c *c07Ctx) checkDeterminism(built []*c07Built) {
	rep := c.rep
	members := c.set.members()
	if got := c.vcRef.ValidatorsSize(); got != len(members) {
		rep.Violation("committee:validators-size", fmt.Sprintf("ValidatorsSize()=%d after Load but the set has %d online validated identities + delegators of online pools", got, len(members)),
			c.replay(nil))
	}
	for _, p := range c.probes() {
		ref := c.vcRef.GetOnlineValidators(p.seed, p.round, p.step, p.limit)
		rep.Eval(1)
		rep.Count("committee_draws", 1)
		// same draw from every equivalently built cache, and from repeated evaluation
		for i, b := range built {
			for j, vc := range []*validators.ValidatorsCache{b.vc, b.vc.Clone()} {
				rep.Count("committee_comparisons", 1)
				if got := vc.GetOnlineValidators(p.seed, p.round, p.step, p.limit); !c07SVEqual(ref, got) {
					kind := "incremental"
					if b.how == "load" {
						kind = "load"
					}
					if j == 1 {
						kind += "+clone"
					}
					rep.Violation("committee:differs:"+kind, fmt.Sprintf("committee for (seed,round=%d,step=%d,limit=%d) differs between a cache built by Load and one built by %s (#%d, %d commits): load=%s other=%s",
						p.round, p.step, p.limit, b.how, i, b.commits, c07SVStr(ref), c07SVStr(got)),
						c.replay(map[string]interface{}{"probe": fmt.Sprintf("%x/%d/%d/%d", p.seed, p.round, p.step, p.limit), "how": b.how}))
				}
			}
		}
		if ref == nil {
			if p.limit <= len(members) {
				rep.Violation("committee:nil", fmt.Sprintf("no committee for limit=%d with %d validators", p.limit, len(members)), c.replay(nil))
			}
			continue
		}
		orig := c07SetAddrs(ref.Original)
		if c.set.onlineCount() == 0 {
			rep.Count("committee_god_only", 1)
			if len(orig) != 1 || orig[0] != c.set.god.addr || !ref.Approved(c.set.god.addr) {
				rep.Violation("committee:god-only", "no online identity but committee is not {god}: "+c07SVStr(ref), c.replay(nil))
			}
			continue
		}
		if len(orig) != p.limit {
			rep.Violation("committee:size", fmt.Sprintf("committee has %d original members, limit=%d, validators=%d", len(orig), p.limit, len(members)), c.replay(nil))
		}
		wantV := map[common.Address]bool{}
		for _, a := range orig {
			if !members[a] {
				rep.Violation("committee:non-member", fmt.Sprintf("%s drawn but is neither an online validated identity nor a delegator of an online pool", a.Hex()), c.replay(nil))
			}
			wantV[c.set.collapse(a)] = true
		}
		gotV := c07SetAddrs(ref.Validators)
		okV := len(gotV) == len(wantV)
		for _, a := range gotV {
			if !wantV[a] {
				okV = false
			}
			if id := c.set.by[a]; id == nil || !id.online {
				rep.Violation("committee:offline-voter", fmt.Sprintf("%s may vote but is not online", a.Hex()), c.replay(nil))
			}
		}
		if !okV {
			rep.Violation("committee:pool-collapsing", fmt.Sprintf("voters are not the original members with delegators replaced by their pool: %s", c07SVStr(ref)), c.replay(nil))
		}
		for _, a := range c07SetAddrs(ref.ApprovedValidators) {
			if !wantV[a] {
				rep.Violation("committee:approved-not-voter", a.Hex()+" approved but not a voter", c.replay(nil))
			}
		}
		// eligibility, only where unambiguous
		for _, a := range gotV {
			id := c.set.by[a]
			if id == nil {
				continue
			}
			appr := ref.Approved(a)
			if !c.set.isPool(id) && id.deleg == nil {
				if appr == id.discr {
					rep.Violation("committee:eligibility-single", fmt.Sprintf("%s discriminated=%v but approved=%v", a.Hex(), id.discr, appr), c.replay(nil))
				}
				if id.discr {
					rep.Count("discriminated_member_seen", 1)
				}
				continue
			}
			switch c.set.poolClass(id) {
			case "all":
				rep.Count("pool_in_committee", 1)
				if !appr {
					rep.Violation("committee:eligibility-pool", fmt.Sprintf("pool %s has only approved members but is not approved", a.Hex()), c.replay(nil))
				}
			case "none":
				rep.Count("discriminated_pool_seen", 1)
				if appr {
					rep.Violation("committee:eligibility-pool", fmt.Sprintf("pool %s has no approved member but is approved", a.Hex()), c.replay(nil))
				}
			default:
				rep.Count("pool_in_committee", 1)
				rep.Count("mixed_pool_seen", 1)
			}
		}
	}
}

// ---------------------------------------------------------------- oracle (2): the real vote counter

type c07Collector struct {
	collector.StatsCollector
	passes int32
}

func (c *c07Collector) SubmitVoteCountingStepResult(round uint64, step uint8, votesByBlock map[common.Hash]map[common.Address]*types.Vote, necessaryVotesCount, checkedRoundVotes int) {
	atomic.AddInt32(&c.passes, 1)
}
func (c *c07Collector) SubmitVoteCountingResult(round uint64, step uint8, validators *validators.StepValidators, hash common.Hash, cert *types.FullBlockCert, err error) {
}

type c07CVJob struct {
	rep       *verifutil.Report
	env       *c07Env
	vc        *validators.ValidatorsCache
	prev      *types.Header
	blocks    []*types.Header
	h         uint64
	step      uint8
	pre, late [][]byte
	timeout   time.Duration
	lateAfter time.Duration
	class     string
	shape     string
	eligible  map[common.Address]bool
	required  int
	quorumFor int // number of distinct eligible genuine pre-fed voters for block A
	replay    map[string]interface{}
	desc      string
}

func (j *c07CVJob) run() {
	rep := j.rep
	head := j.prev
	chain := *j.env.chain // shallow copy: own Head, shared config
	chain.Head = head
	as := &appstate.AppState{ValidatorsCache: j.vc}
	votes := pengings.NewVotes(as, eventbus.New(), j.env.od, j.env.upg)
	votes.Initialize(head)
	sc := &c07Collector{StatsCollector: collector.NewStatsCollector()}
	eng := &Engine{chain: &chain, log: log.New(), cfg: j.env.cfg, votes: votes, appState: as, offlineDetector: j.env.od, statsCollector: sc}
	feed := func(l [][]byte) {
		for _, b := range l {
			v := new(types.Vote)
			if err := v.FromBytes(b); err != nil || !v.IsValid() {
				continue
			}
			if votes.AddVote(v) {
				rep.Count("votes_admitted", 1)
			} else {
				rep.Count("votes_refused", 1)
			}
		}
	}
	var hash common.Hash
	var cert *types.FullBlockCert
	var err error
	final := j.step == types.Final
	p, stack := verifutil.Catch(func() {
		feed(j.pre)
		var wg sync.WaitGroup
		if len(j.late) > 0 {
			wg.Add(1)
			go func() {
				defer wg.Done()
				time.Sleep(j.lateAfter)
				feed(j.late)
			}()
		}
		hash, cert, err = eng.countVotes(j.h, j.step, head.Hash(), chain.GetCommitteeVotesThreshold(j.vc, final), j.timeout)
		wg.Wait()
	})
	rep.Eval(1)
	rep.Count("countvotes_runs", 1)
	rep.Count("cv_class_"+j.class, 1)
	if p != nil {
		rep.Violation("panic:countVotes:"+j.class, fmt.Sprintf("countVotes panicked: %v at %s", p, verifutil.TopRepoFrame(stack)), j.replay)
		return
	}
	if atomic.LoadInt32(&sc.passes) > 0 {
		rep.Count("countvotes_runs_with_pass", 1)
	}
	if err != nil || cert == nil {
		rep.Count("countvotes_timeouts", 1)
		if j.quorumFor >= j.required && j.required >= 1 && len(j.late) == 0 {
			rep.Count("countvotes_quorum_present_but_no_cert", 1) // not a verdict
		}
		rep.Distinct("cv", j.shape, c07StepName(j.step), j.class, "nocert")
		return
	}
	rep.Count("countvotes_certs", 1)
	rep.Distinct("cv", j.shape, c07StepName(j.step), j.class, "cert")
	bad := func(kind, msg string) {
		m := map[string]interface{}{"emittedHash": hash.Hex(), "emitted": c07CertReplay(cert.Compress())}
		for k, v := range j.replay {
			m[k] = v
		}
		rep.Violation("bad-emitted-cert:"+kind+":"+j.class, msg+" ["+j.desc+"]", m)
	}
	var block *types.Header
	for _, b := range j.blocks {
		if b.Hash() == hash {
			block = b
		}
	}
	if block == nil {
		bad("unknown-hash", "countVotes returned a certificate for a hash nobody eligible voted for: "+hash.Hex())
		return
	}
	// every vote of the emitted certificate is a distinct genuine eligible vote for (hash, parent, round, step)
	voters := map[common.Address]bool{}
	for _, v := range cert.Votes {
		fresh := c07NewVote(c07Hdr{round: v.Header.Round, step: v.Header.Step, parent: v.Header.ParentHash, voted: v.Header.VotedHash,
			off: v.Header.TurnOffline, upg: v.Header.Upgrade}, v.Signature)
		a := fresh.VoterAddr()
		switch {
		case v.Header.Round != j.h:
			bad("other-round", fmt.Sprintf("vote of round %d in a certificate for round %d", v.Header.Round, j.h))
		case v.Header.Step != j.step:
			bad("other-step", fmt.Sprintf("vote of step %d in a certificate for step %d", v.Header.Step, j.step))
		case v.Header.ParentHash != head.Hash():
			bad("other-parent", "vote over another parent hash")
		case v.Header.VotedHash != hash:
			bad("other-hash", "vote for another block hash")
		case !j.eligible[a]:
			bad("ineligible-voter", "vote of "+a.Hex()+" which is not an eligible committee member")
		case voters[a]:
			bad("duplicate-voter", "two votes of "+a.Hex())
		}
		voters[a] = true
	}
	comp := cert.Compress()
	seen := map[common.Address]bool{}
	for _, s := range comp.Signatures {
		v := &types.Vote{Header: &types.VoteHeader{Round: block.Height(), Step: j.step, ParentHash: head.Hash(), VotedHash: block.Hash(),
			TurnOffline: s.TurnOffline, Upgrade: s.Upgrade}, Signature: s.Signature}
		if a := v.VoterAddr(); j.eligible[a] {
			seen[a] = true
		}
	}
	if len(seen) < j.required || comp.Step != j.step {
		bad("below-quorum", fmt.Sprintf("emitted certificate (step %d) holds %d distinct eligible valid voters, required %d", comp.Step, len(seen), j.required))
	}
	var verr error
	if p, stack := verifutil.Catch(func() { verr = chain.ValidateBlockCert(head, block, comp, j.vc, nil) }); p != nil {
		bad("validator-panic", fmt.Sprintf("ValidateBlockCert panicked on an emitted certificate: %v at %s", p, verifutil.TopRepoFrame(stack)))
	} else if verr != nil {
		bad("refused-by-validator", "ValidateBlockCert refuses the compressed emitted certificate: "+verr.Error())
	} else {
		rep.Count("countvotes_certs_accepted_by_validator", 1)
	}
}

type c07Pool struct {
	ch chan *c07CVJob
	wg sync.WaitGroup
}

func c07NewPool(workers int) *c07Pool {
	p := &c07Pool{ch: make(chan *c07CVJob, workers)}
	for i := 0; i < workers; i++ {
		p.wg.Add(1)
		go func() {
			defer p.wg.Done()
			for j := range p.ch {
				j.run()
			}
		}()
	}
	return p
}
func (p *c07Pool) wait() { close(p.ch); p.wg.Wait() }

var c07CVClasses = []string{"quorum", "exact", "minus1+noise", "split", "split-win", "late", "noise-only", "equivocate-all"}

func (c *c07Ctx) voteBytes(k int, h c07Hdr) []byte {
	b, err := c07NewVote(h, c.signer.sign(k, h)).ToBytes()
	if err != nil {
		panic(err)
	}
	return b
}

// noise: votes that must never count towards block A at (round h, step, parent prev)
func (c *c07Ctx) noise(cm *c07Committee, step uint8, rest []int, n int) ([][]byte, []string) {
	var out [][]byte
	var what []string
	canon := c.canon(step, c.blockA)
	anyKey := func(l []int) int {
		if len(l) > 0 {
			return l[c.rng.Intn(len(l))]
		}
		return c.outs[c.rng.Intn(len(c.outs))]
	}
	restOrE := rest
	if len(restOrE) == 0 {
		restOrE = cm.E
	}
	for i := 0; i < n; i++ {
		h := canon
		switch c.rng.Intn(9) {
		case 0:
			k := anyKey(cm.discrM)
			out, what = append(out, c.voteBytes(k, h)), append(what, fmt.Sprintf("k%d:discriminated-or-outsider", k))
		case 1:
			k := anyKey(cm.delegs)
			out, what = append(out, c.voteBytes(k, h)), append(what, fmt.Sprintf("k%d:delegator-or-outsider", k))
		case 2:
			k := c.outsider(cm)
			out, what = append(out, c.voteBytes(k, h)), append(what, fmt.Sprintf("k%d:outsider", k))
		case 3:
			k := anyKey(restOrE)
			h.parent = common.BytesToHash(c.rng.Bytes(32))
			out, what = append(out, c.voteBytes(k, h)), append(what, fmt.Sprintf("k%d:other-parent", k))
		case 4:
			k := anyKey(restOrE)
			h.step = c.otherStep(step)
			out, what = append(out, c.voteBytes(k, h)), append(what, fmt.Sprintf("k%d:other-step", k))
		case 5:
			k := anyKey(restOrE)
			h.round = []uint64{c.h - 1, c.h + 1, c.h + 2}[c.rng.Intn(3)]
			out, what = append(out, c.voteBytes(k, h)), append(what, fmt.Sprintf("k%d:other-round", k))
		case 6: // forged: header altered after signing / garbage signature
			k := anyKey(restOrE)
			v := c07NewVote(h, c.signer.sign(k, h))
			if c.rng.Bool() {
				v.Signature = c.rng.Bytes(65)
			} else {
				v.Signature[c.rng.Intn(64)] ^= 0x10
			}
			b, _ := v.ToBytes()
			out, what = append(out, b), append(what, "forged")
		case 7: // raw duplicate of an earlier message
			if len(out) > 0 {
				out, what = append(out, out[c.rng.Intn(len(out))]), append(what, "raw-duplicate")
			}
		case 8: // an outsider that is online but was not drawn / a vote for B by a non-member
			k := c.outsider(cm)
			h.voted = c.blockB.Hash()
			out, what = append(out, c.voteBytes(k, h)), append(what, fmt.Sprintf("k%d:outsider-votes-B", k))
		}
	}
	return out, what
}

func (c *c07Ctx) submitCV(pool *c07Pool, class string, step uint8) bool {
	cm := c.committee(step)
	if cm.sv == nil {
		return false
	}
	req := cm.required
	canonA, canonB := c.canon(step, c.blockA), c.canon(step, c.blockB)
	j := &c07CVJob{rep: c.rep, env: c.env, vc: c.vcs[c.rng.Intn(len(c.vcs))], prev: c.prev, blocks: []*types.Header{c.blockA, c.blockB}, h: c.h,
		step: step, class: class, shape: c.shape, eligible: cm.eligible, required: req, timeout: 300 * time.Millisecond}
	var what []string
	voteFor := func(ks []int, h c07Hdr, tag string, dst *[][]byte) {
		for _, k := range ks {
			hh := h
			hh.off, hh.upg = c.flags()
			*dst = append(*dst, c.voteBytes(k, hh))
			what = append(what, fmt.Sprintf("k%d:%s", k, tag))
			if c.rng.Chance(1, 5) { // the same voter again with other flags: a different message, same voter
				hh.upg += 7
				*dst = append(*dst, c.voteBytes(k, hh))
				what = append(what, fmt.Sprintf("k%d:%s(again,other flags)", k, tag))
			}
		}
	}
	perm := c.rng.Perm(len(cm.E))
	E := make([]int, len(perm))
	for i, pi := range perm {
		E[i] = cm.E[pi]
	}
	take := func(n int) ([]int, []int) {
		if n < 0 {
			n = 0
		}
		if n > len(E) {
			n = len(E)
		}
		return E[:n], E[n:]
	}
	switch class {
	case "quorum":
		if req < 1 || req > len(E) {
			return false
		}
		a, rest := take(c.rng.Range(req, len(E)))
		voteFor(a, canonA, "A", &j.pre)
		nz, w := c.noise(cm, step, rest, c.rng.Intn(6))
		j.pre, what = append(j.pre, nz...), append(what, w...)
		j.quorumFor = len(a)
	case "exact":
		if req < 1 || req > len(E) {
			return false
		}
		a, rest := take(req)
		voteFor(a, canonA, "A", &j.pre)
		nz, w := c.noise(cm, step, rest, c.rng.Intn(4))
		j.pre, what = append(j.pre, nz...), append(what, w...)
		j.quorumFor = len(a)
	case "minus1+noise":
		if req < 1 || req-1 > len(E) {
			return false
		}
		a, rest := take(req - 1)
		voteFor(a, canonA, "A", &j.pre)
		nz, w := c.noise(cm, step, rest, c.rng.Range(2, 8)+len(E)/4)
		j.pre, what = append(j.pre, nz...), append(what, w...)
		j.quorumFor = len(a)
	case "split": // eligible voters split between A and B, neither side reaches the quorum
		if req < 2 {
			return false
		}
		na := c.rng.Range(0, req-1)
		a, rest := take(na)
		nb := c.rng.Range(0, req-1)
		if nb > len(rest) {
			nb = len(rest)
		}
		voteFor(a, canonA, "A", &j.pre)
		voteFor(rest[:nb], canonB, "B", &j.pre)
		// some A-voters equivocate towards B as long as B stays below the quorum
		for i := 0; i < len(a) && nb+i+1 <= req-1; i++ {
			if c.rng.Bool() {
				voteFor(a[i:i+1], canonB, "B(equivocation)", &j.pre)
				nb++
			}
		}
		j.quorumFor = len(a)
	case "split-win":
		if req < 1 || req > len(E) {
			return false
		}
		a, rest := take(req)
		voteFor(a, canonA, "A", &j.pre)
		nb := c.rng.Intn(len(rest) + 1)
		if nb > req-1 {
			nb = req - 1
		}
		voteFor(rest[:nb], canonB, "B", &j.pre)
		j.quorumFor = len(a)
	case "late":
		if req < 2 || req > len(E) {
			return false
		}
		a, rest := take(req)
		cut := c.rng.Range(0, req-1)
		voteFor(a[:cut], canonA, "A", &j.pre)
		voteFor(a[cut:], canonA, "A(late)", &j.late)
		nz, w := c.noise(cm, step, rest, c.rng.Intn(4))
		j.pre, what = append(j.pre, nz...), append(what, w...)
		j.timeout, j.lateAfter = 1600*time.Millisecond, 120*time.Millisecond
		j.quorumFor = cut
	case "noise-only":
		nz, w := c.noise(cm, step, nil, c.rng.Range(1, 10))
		j.pre, what = nz, w
	case "equivocate-all": // every eligible member votes for both blocks
		if len(E) == 0 {
			return false
		}
		voteFor(E, canonA, "A", &j.pre)
		voteFor(E, canonB, "B", &j.pre)
		j.quorumFor = len(E)
	default:
		return false
	}
	// arrival order is arbitrary
	for i := len(j.pre) - 1; i > 0; i-- {
		k := c.rng.Intn(i + 1)
		j.pre[i], j.pre[k] = j.pre[k], j.pre[i]
	}
	j.desc = fmt.Sprintf("profile=%s validators=%d step=%d committee(original=%d eligible=%d) threshold=%d subtrahend=%d required=%d class=%s",
		c.env.p.name, c.cnt, step, cm.original, len(cm.eligible), cm.threshold, cm.sub, req, class)
	var hexVotes []string
	for _, b := range append(append([][]byte{}, j.pre...), j.late...) {
		hexVotes = append(hexVotes, c07Hex(b))
	}
	j.replay = c.replay(map[string]interface{}{"class": class, "step": step, "votes": what, "voteBytes": hexVotes, "required": req})
	pool.ch <- j
	return true
}

// ---------------------------------------------------------------- case driver

func c07SizeClass(cnt int, p *c07Params) string {
	capLo := 0
	for n := 9; n < 400; n++ {
		if c07RefCommitteeSize(n, true, p) >= p.maxCommittee-1 {
			capLo = n
			break
		}
	}
	switch {
	case cnt <= 9:
		return fmt.Sprintf("size_%d", cnt)
	case cnt >= capLo:
		return "size_near_or_above_cap"
	case cnt <= 30:
		return "size_10_30"
	default:
		return "size_31_up"
	}
}

func c07Bucket(n int) string {
	switch {
	case n <= 3:
		return fmt.Sprint(n)
	case n <= 8:
		return "4-8"
	case n <= 30:
		return "9-30"
	}
	return "31+"
}

func c07Header(rng *verifutil.Rng, height uint64, parent common.Hash, seed types.Seed, empty bool) *types.Header {
	if empty {
		return &types.Header{EmptyBlockHeader: &types.EmptyBlockHeader{ParentHash: parent, Height: height, Root: common.BytesToHash(rng.Bytes(32)),
			IdentityRoot: common.BytesToHash(rng.Bytes(32)), BlockSeed: seed, Time: int64(rng.Range(1, 1<<30))}}
	}
	return &types.Header{ProposedHeader: &types.ProposedHeader{ParentHash: parent, Height: height, Time: int64(rng.Range(1, 1<<30)),
		TxHash: common.BytesToHash(rng.Bytes(32)), ProposerPubKey: rng.Bytes(65), Root: common.BytesToHash(rng.Bytes(32)),
		IdentityRoot: common.BytesToHash(rng.Bytes(32)), BlockSeed: seed, SeedProof: rng.Bytes(16)}}
}

// c07Target picks the number of validators of case i: every small size, table boundaries, the
// sampling region and the neighbourhood of MaxCommitteeSize.
func c07Target(rng *verifutil.Rng, i int, p *c07Params) int {
	capFinal, capStep := 0, 0
	for n := 9; n < 600 && (capFinal == 0 || capStep == 0); n++ {
		if capFinal == 0 && c07RefCommitteeSize(n, true, p) >= p.maxCommittee {
			capFinal = n
		}
		if capStep == 0 && c07RefCommitteeSize(n, false, p) >= p.maxCommittee {
			capStep = n
		}
	}
	switch i % 20 {
	case 0:
		return 0
	case 1, 2, 3, 4, 5, 6, 7, 8, 9:
		return i % 20
	case 10:
		return 10
	case 11:
		return rng.Range(11, 16)
	case 12, 13:
		return rng.Range(12, 30)
	case 14:
		return rng.Range(1, 9)
	case 15:
		return rng.Range(7, 10)
	case 16:
		if p.name == "default" {
			return rng.Range(31, 70)
		}
		return rng.Range(capStep-3, capStep+3)
	case 17:
		if p.name == "default" {
			if (i/20)%4 == 0 {
				return rng.Range(capFinal-3, capFinal+3) // 141..147: committee 99..100(cap)
			}
			return rng.Range(71, 130)
		}
		return rng.Range(capFinal-2, capFinal+3)
	case 18:
		return rng.Range(2, 8)
	}
	return rng.Range(0, 40)
}

func c07RunCase(rep *verifutil.Report, envs []*c07Env, rng *verifutil.Rng, i int, pool *c07Pool) {
	env := envs[0]
	if (i/20)%3 == 2 {
		env = envs[1]
	}
	target := c07Target(rng, i, env.p)
	flav := rng.Intn(c07NFlav)
	if target == 0 {
		flav = rng.Intn(3)
	}
	set := c07Gen(rng, target, flav)
	if rng.Chance(2, 5) {
		set.churn(rng, rng.Range(1, 6))
	}
	// ---- build the real caches: one Load on the final state, incremental ones in other batchings
	ng := len(set.groups)
	cutsAll := make([]bool, ng)
	cutsFine := make([]bool, ng)
	cutsRnd := make([]bool, ng)
	for g := range cutsFine {
		cutsFine[g] = true
		cutsRnd[g] = rng.Chance(1, 3)
	}
	var built []*c07Built
	for _, v := range []struct {
		cuts   []bool
		loadAt int
		how    string
	}{{cutsAll, -1, "load"}, {cutsFine, 0, "incremental(one diff per step)"}, {cutsRnd, 0, "incremental(random batching)"},
		{cutsAll, 0, "incremental(single diff)"}, {cutsFine, rng.Range(1, ng+1), "load-then-incremental"}} {
		b, err := c07Replay(set, v.cuts, v.loadAt, v.how)
		if err != nil {
			rep.Inconcl("c07: identity state replay failed: %v", err)
			return
		}
		built = append(built, b)
	}
	for _, b := range built[1:] {
		if b.content != built[0].content {
			rep.Count("harness_history_content_diverged", 1) // batching changed the final state: not the same validator set
			rep.Note("case %d: final identity state differs between batchings (%s); case skipped", i, b.how)
			return
		}
	}
	h := uint64(rng.Range(5, 1<<20))
	if rng.Chance(1, 8) {
		h = uint64(rng.Range(2, 5))
	}
	seed := types.BytesToSeed(rng.Bytes(32))
	prev := c07Header(rng, h-1, common.BytesToHash(rng.Bytes(32)), seed, rng.Chance(1, 4))
	ctx := &c07Ctx{rep: rep, rng: rng, env: env, set: set, cnt: len(set.members()), vcRef: built[0].vc, signer: &c07Signer{cache: map[c07SigKey][]byte{}},
		prev: prev, h: h, comm: map[uint8]*c07Committee{}, caseNo: i, addrC: map[string]common.Address{}}
	ctx.blockA = c07Header(rng, h, prev.Hash(), types.BytesToSeed(rng.Bytes(32)), rng.Chance(1, 4))
	ctx.blockB = c07Header(rng, h, prev.Hash(), types.BytesToSeed(rng.Bytes(32)), rng.Chance(1, 2))
	for _, b := range built {
		ctx.vcs = append(ctx.vcs, b.vc)
	}
	ctx.vcs = append(ctx.vcs, built[0].vc.Clone())

	// shape and coverage
	nPools, nDiscr := 0, 0
	for _, x := range set.ids {
		if x.online && set.isPool(x) {
			nPools++
		}
		if x.discr && x.validated && !x.killed {
			nDiscr++
		}
	}
	ctx.shape = fmt.Sprintf("%s|n=%s|pools=%s|discr=%s|%s", env.p.name, c07SizeClassShape(ctx.cnt), c07Bucket(nPools), c07Bucket(nDiscr), c07FlavNames[flav])
	rep.Count("sets", 1)
	rep.Count(c07SizeClass(ctx.cnt, env.p), 1)
	rep.Count("profile_"+env.p.name, 1)
	if nPools > 0 {
		rep.Count("sets_with_online_pools", 1)
	}
	if nDiscr > 0 {
		rep.Count("sets_with_discriminated", 1)
	}
	if set.onlineCount() == 0 {
		rep.Count("god_only_sets", 1)
	}
	if set.churned > 0 {
		rep.Count("sets_with_churn", 1)
	}
	// outsiders: identities of the set that cannot be drawn, plus fresh keys
	members := set.members()
	for _, x := range set.ids {
		if !members[x.addr] && !(x.online && set.isPool(x)) {
			ctx.outs = append(ctx.outs, x.k)
		}
	}
	for n := 0; n < 3 && set.next < len(set.perm); n++ {
		ctx.outs = append(ctx.outs, set.perm[set.next])
		set.next++
	}
	if set.onlineCount() > 0 {
		ctx.outs = append(ctx.outs, set.god.k) // god is an outsider as soon as somebody is online
	}

	// ---- oracle (3)
	ctx.checkDeterminism(built)
	ctx.checkSeedSwitch(built)

	// ---- oracle (1)
	steps := []uint8{types.Final, []uint8{1, 2, 3, uint8(rng.Range(4, 149)), types.ReductionOne, types.ReductionTwo}[rng.Intn(6)]}
	big := ctx.cnt > 40
	for si, step := range steps {
		cm := ctx.committee(step)
		if cm.sv == nil {
			rep.Violation("committee:nil", fmt.Sprintf("GetOnlineValidators returned nil for limit=%d with %d validators", c07RefCommitteeSize(ctx.cnt, step == types.Final, env.p), ctx.cnt), ctx.replay(nil))
			continue
		}
		if cm.required <= 0 {
			rep.Count("committees_with_required_le_0", 1)
			if len(cm.E) > 0 {
				rep.Count("committees_with_required_le_0_despite_eligible_members", 1)
			}
		}
		if len(cm.E) < cm.original {
			rep.Count("committees_with_subtrahend_or_collapsing", 1)
		}
		if step == types.Final {
			rep.Count("step_final", 1)
		} else {
			rep.Count("step_other", 1)
		}
		if ctx.cnt > c07RefCommitteeSize(ctx.cnt, step == types.Final, env.p) {
			rep.Count("committees_sampled", 1)
		}
		if c07RefCommitteeSize(ctx.cnt, step == types.Final, env.p) == env.p.maxCommittee {
			rep.Count("committees_at_cap", 1)
		}
		classes := c07CertClasses
		if big {
			if si == 1 && ctx.cnt > 100 {
				continue
			}
			var sel []string
			for _, ci := range rng.Perm(len(c07CertClasses))[:7] {
				sel = append(sel, c07CertClasses[ci])
			}
			classes = append([]string{"exact", "minus1", "dup-same-sig"}, sel...)
		}
		for _, cl := range classes {
			rep.Progress("case %d step %d cert class %s", i, step, cl)
			ctx.runCertClass(cl, step)
		}
	}
	// ---- oracle (2)
	ncv := 3
	if big {
		ncv = 1
	}
	for n := 0; n < ncv; n++ {
		step := steps[rng.Intn(len(steps))]
		cl := c07CVClasses[rng.Pick(4, 3, 3, 1, 2, 1, 1, 1)]
		rep.Progress("case %d step %d countVotes class %s", i, step, cl)
		if !ctx.submitCV(pool, cl, step) {
			ctx.submitCV(pool, "noise-only", step)
		}
	}
}

func c07SizeClassShape(cnt int) string {
	if cnt <= 12 {
		return fmt.Sprint(cnt)
	}
	return c07Bucket(cnt)
}

func TestVerifC07Cert(t *testing.T) {
	if !verifutil.Enabled() {
		t.Skip("verif harness")
	}
	rep := verifutil.NewReport()
	defer rep.Write()
	envs := c07Setup(t)
	pool := c07NewPool(32)
	n := verifutil.Scale(3200, 64000) / verifutil.NShards()
	only := -1
	if f := os.Getenv("VERIF_REPLAY"); f != "" { // ./check C07 <tier> --replay FILE: re-run exactly the recorded case
		var r struct {
			First struct {
				Replay struct {
					Case  int `json:"case"`
					Shard int `json:"shard"`
				} `json:"replay"`
			} `json:"first"`
		}
		raw, err := os.ReadFile(f)
		if err != nil || json.Unmarshal(raw, &r) != nil {
			t.Fatalf("c07: cannot read replay file %s", f)
		}
		if r.First.Replay.Shard != verifutil.Shard() {
			n = 0
		}
		only = r.First.Replay.Case
	}
	for i := 0; i < n; i++ {
		if only >= 0 && i != only {
			continue
		}
		rng := verifutil.Stream(7, uint64(i))
		rep.Progress("case %d", i)
		if p, stack := verifutil.Catch(func() { c07RunCase(rep, envs, rng, i, pool) }); p != nil {
			rep.Violation("panic:"+verifutil.TopRepoFrame(stack), fmt.Sprintf("case %d panicked: %v\n%s", i, p, verifutil.Trunc(stack, 3000)), map[string]interface{}{"case": i})
		}
	}
	pool.wait()
	rep.SetInfo("reference_constants", map[string]interface{}{"small_table": c07SmallTable, "profiles": fmt.Sprintf("%+v", c07Profiles)})
}

// ---------------------------------------------------------------- cross-process determinism of the draw

// TestVerifC07Draw computes the committees of a shard-independent list of validator sets and probes
// and compares the digests with those written by every other child process of this check (other
// shards, other GOMAXPROCS): all nodes must derive the same committee from the same input.
func TestVerifC07Draw(t *testing.T) {
	if !verifutil.Enabled() {
		t.Skip("verif harness")
	}
	rep := verifutil.NewReport()
	defer rep.Write()
	log.Root().SetHandler(log.DiscardHandler())
	c07InitKeys()
	n := verifutil.Scale(60, 300)
	var digests []string
	for i := 0; i < n; i++ {
		rng := verifutil.NewRng(verifutil.Seed(), 7007, uint64(i)) // NOT shard dependent
		p := &c07Profiles[i%2]
		set := c07Gen(rng, c07Target(rng, i, p), rng.Intn(c07NFlav))
		if rng.Bool() {
			set.churn(rng, rng.Range(1, 5))
		}
		cuts := make([]bool, len(set.groups))
		for g := range cuts {
			cuts[g] = rng.Bool()
		}
		b, err := c07Replay(set, cuts, rng.Range(-1, 1), "draw")
		if err != nil {
			rep.Inconcl("replay failed: %v", err)
			return
		}
		cnt := len(set.members())
		hsh := sha256.New()
		for q := 0; q < 6; q++ {
			seed := types.BytesToSeed(rng.Bytes(32))
			round := uint64(rng.Range(1, 1<<30))
			step := uint8(rng.Intn(256))
			if q%2 == 0 {
				step = types.Final
			}
			sv := b.vc.GetOnlineValidators(seed, round, step, c07RefCommitteeSize(cnt, step == types.Final, p))
			fmt.Fprintf(hsh, "%x|%d|%d|%s\n", seed, round, step, c07SVStr(sv))
			rep.Eval(1)
			rep.Count("draw_probes", 1)
		}
		digests = append(digests, c07Hex(hsh.Sum(nil)))
		rep.Distinct("draw", i, digests[len(digests)-1])
	}
	out := os.Getenv("VERIF_OUT")
	job := os.Getenv("VERIF_JOB")
	data, _ := json.Marshal(digests)
	tmp := filepath.Join(out, "c07draw-"+job+".tmp")
	if err := os.WriteFile(tmp, data, 0644); err != nil {
		rep.Inconcl("cannot write digest file: %v", err)
		return
	}
	os.Rename(tmp, filepath.Join(out, "c07draw-"+job+".json"))
	// write-then-read: of any two children at least one sees the other's file
	files, _ := filepath.Glob(filepath.Join(out, "c07draw-*.json"))
	sort.Strings(files)
	for _, f := range files {
		if strings.HasSuffix(f, "c07draw-"+job+".json") {
			continue
		}
		raw, err := os.ReadFile(f)
		var other []string
		if err != nil || json.Unmarshal(raw, &other) != nil {
			continue
		}
		rep.Count("draw_peers_compared", 1)
		if len(other) != len(digests) {
			rep.Violation("committee:cross-process", fmt.Sprintf("%s computed %d digests, this process %d", filepath.Base(f), len(other), len(digests)), nil)
			continue
		}
		for i := range other {
			if !bytes.Equal([]byte(other[i]), []byte(digests[i])) {
				rep.Violation("committee:cross-process", fmt.Sprintf("committees of set %d differ between this process (%s, GOMAXPROCS=%s) and %s", i, job, os.Getenv("GOMAXPROCS"), filepath.Base(f)),
					map[string]interface{}{"set": i, "mine": digests[i], "other": other[i]})
				break
			}
		}
	}
}
