package consensus

// C07 — harness-side model of a validator set (who is validated / online / discriminated /
// delegating to whom), its generator, protocol-like churn, and replay of the resulting
// identity-state history into real IdentityStateDB instances with different batchings.
// Nothing here decides a verdict on its own; see zz_verif_c07_test.go for the oracles.

import (
	"bytes"
	"crypto/ecdsa"
	"fmt"
	"sort"
	"strings"

	"github.com/idena-network/idena-go/common"
	"github.com/idena-network/idena-go/core/state"
	"github.com/idena-network/idena-go/core/validators"
	"github.com/idena-network/idena-go/crypto"
	"github.com/idena-network/idena-go/verifutil"
	dbm "github.com/tendermint/tm-db"
)

// ---------------------------------------------------------------- deterministic key pool

const c07NKeys = 260

var (
	c07Keys  []*ecdsa.PrivateKey
	c07Addrs []common.Address
	c07KeyOf map[common.Address]int
)

func c07InitKeys() {
	if c07Keys != nil {
		return
	}
	c07KeyOf = map[common.Address]int{}
	for i := 0; len(c07Keys) < c07NKeys; i++ {
		d := crypto.Keccak256([]byte(fmt.Sprintf("verif-c07-key-%d-%d", verifutil.Seed(), i)))
		k, err := crypto.ToECDSA(d)
		if err != nil {
			continue
		}
		a := crypto.PubkeyToAddress(k.PublicKey)
		c07KeyOf[a] = len(c07Keys)
		c07Keys = append(c07Keys, k)
		c07Addrs = append(c07Addrs, a)
	}
}

// ---------------------------------------------------------------- model

type c07Id struct {
	k         int
	addr      common.Address
	validated bool
	online    bool
	discr     bool
	deleg     *c07Id // pool owner this identity delegates to
	killed    bool   // removed by a kill; never touched again
	wasUndel  bool   // undelegated during this history; never re-delegated
}

const (
	c07OpValidated = iota
	c07OpOnline
	c07OpDiscr
	c07OpDeleg
	c07OpUndeleg
	c07OpRemove
)

type c07Op struct {
	a    common.Address
	kind int
	b    bool
	to   common.Address
}

func (o c07Op) apply(ist *state.IdentityStateDB) {
	switch o.kind {
	case c07OpValidated:
		ist.SetValidated(o.a, o.b)
	case c07OpOnline:
		ist.SetOnline(o.a, o.b)
	case c07OpDiscr:
		ist.SetDiscriminated(o.a, o.b)
	case c07OpDeleg:
		ist.SetDelegatee(o.a, o.to)
	case c07OpUndeleg:
		ist.RemoveDelegatee(o.a)
	case c07OpRemove:
		ist.Remove(o.a)
	}
}

type c07Set struct {
	ids     []*c07Id
	by      map[common.Address]*c07Id
	god     *c07Id
	perm    []int
	next    int
	groups  [][]c07Op // history: one group = one protocol-like step
	churned int
}

func c07NewSet(rng *verifutil.Rng) *c07Set {
	s := &c07Set{by: map[common.Address]*c07Id{}, perm: rng.Perm(c07NKeys)}
	s.god = s.fresh()
	delete(s.by, s.god.addr)
	s.ids = s.ids[:0]
	return s
}

func (s *c07Set) fresh() *c07Id {
	if s.next >= len(s.perm) {
		panic("c07: key pool exhausted")
	}
	k := s.perm[s.next]
	s.next++
	id := &c07Id{k: k, addr: c07Addrs[k]}
	s.ids = append(s.ids, id)
	s.by[id.addr] = id
	return id
}

func (s *c07Set) delegatorsOf(o *c07Id) []*c07Id {
	var r []*c07Id
	for _, x := range s.ids {
		if x.deleg == o && x.validated && !x.killed {
			r = append(r, x)
		}
	}
	return r
}

func (s *c07Set) isPool(o *c07Id) bool { return len(s.delegatorsOf(o)) > 0 }

// members: the identities a committee is drawn from (delegators counted individually).
func (s *c07Set) members() map[common.Address]bool {
	m := map[common.Address]bool{}
	for _, x := range s.ids {
		if x.killed {
			continue
		}
		if x.deleg != nil {
			if x.validated && x.deleg.online {
				m[x.addr] = true
			}
			continue
		}
		if x.validated && x.online {
			m[x.addr] = true
		}
	}
	return m
}

func (s *c07Set) onlineCount() int {
	n := 0
	for _, x := range s.ids {
		if x.online {
			n++
		}
	}
	return n
}

func (s *c07Set) collapse(a common.Address) common.Address {
	if id := s.by[a]; id != nil && id.deleg != nil {
		return id.deleg.addr
	}
	return a
}

func c07Approved(x *c07Id) bool { return x.validated && !x.discr && !x.killed }

// poolClass: "all" = owner (if validated) and every delegator approved; "none" = nobody
// approved; "mixed" otherwise. Only the two unambiguous classes are asserted upon.
func (s *c07Set) poolClass(o *c07Id) string {
	ds := s.delegatorsOf(o)
	ok, bad := 0, 0
	if o.validated && !o.killed {
		if c07Approved(o) {
			ok++
		} else {
			bad++
		}
	}
	for _, d := range ds {
		if c07Approved(d) {
			ok++
		} else {
			bad++
		}
	}
	switch {
	case bad == 0 && ok > 0:
		return "all"
	case ok == 0:
		return "none"
	}
	return "mixed"
}

func (s *c07Set) describe() []string {
	var out []string
	for _, x := range s.ids {
		d := ""
		if x.deleg != nil {
			d = " ->" + x.deleg.addr.Hex()[:10]
		}
		out = append(out, fmt.Sprintf("k%d %s v=%v on=%v d=%v killed=%v%s", x.k, x.addr.Hex()[:10], x.validated, x.online, x.discr, x.killed, d))
	}
	return out
}

// ---------------------------------------------------------------- generator

const (
	c07FlavPlain = iota
	c07FlavDiscrSome
	c07FlavPools
	c07FlavMixed
	c07FlavAllDiscr
	c07FlavPoolQuirk
	c07FlavBigPools
	c07NFlav
)

var c07FlavNames = []string{"plain", "discr-some", "pools", "mixed", "all-discr", "pool-quirk", "big-pools"}

// c07Gen builds a validator set with exactly `target` committee-eligible members
// (ValidatorsSize) before churn. Shapes follow what the protocol can produce: delegators are
// validated and offline, a pool owner may be a non-identity that is only online, discrimination
// is only ever set on validated identities.
func c07Gen(rng *verifutil.Rng, target, flav int) *c07Set {
	s := c07NewSet(rng)
	pools := flav == c07FlavPools || flav == c07FlavMixed || flav == c07FlavAllDiscr || flav == c07FlavPoolQuirk || flav == c07FlavBigPools
	discrP := 0 // per-identity probability (in 1/6) of being discriminated
	switch flav {
	case c07FlavDiscrSome, c07FlavMixed:
		discrP = 2
	case c07FlavAllDiscr:
		discrP = 6
	}
	remaining := target
	for remaining > 0 {
		poolChance := 2
		if flav == c07FlavBigPools {
			poolChance = 5
		}
		if pools && rng.Chance(poolChance, 6) {
			k := rng.Range(1, 5)
			ownerValidated := rng.Bool()
			if ownerValidated && remaining == 1 {
				ownerValidated = false
			}
			if ownerValidated {
				if k > remaining-1 {
					k = remaining - 1
				}
			} else if k > remaining {
				k = remaining
			}
			o := s.fresh()
			o.online = true
			o.validated = ownerValidated
			if ownerValidated {
				o.discr = rng.Chance(discrP, 6)
				remaining--
			}
			var ds []*c07Id
			for i := 0; i < k; i++ {
				d := s.fresh()
				d.validated = true
				d.deleg = o
				d.discr = rng.Chance(discrP, 6)
				ds = append(ds, d)
				remaining--
			}
			if flav == c07FlavPoolQuirk {
				switch rng.Intn(4) {
				case 0: // fully discriminated pool
					for _, d := range ds {
						d.discr = true
					}
					if o.validated {
						o.discr = true
					}
				case 1: // owner discriminated, delegators fine
					if o.validated {
						o.discr = true
					}
				case 2: // only the owner is fine
					for _, d := range ds {
						d.discr = true
					}
				}
			}
			continue
		}
		x := s.fresh()
		x.validated, x.online = true, true
		x.discr = rng.Chance(discrP, 6)
		if flav == c07FlavPoolQuirk {
			x.discr = rng.Chance(1, 4)
		}
		remaining--
	}
	// bystanders that must never count: offline identities, offline pools
	if rng.Bool() {
		for i, n := 0, rng.Intn(4); i < n; i++ {
			x := s.fresh()
			x.validated = true
			x.discr = rng.Chance(1, 4)
		}
		for i, n := 0, rng.Intn(3); i < n; i++ {
			o := s.fresh()
			o.validated = rng.Bool()
			for j, m := 0, rng.Range(1, 3); j < m; j++ {
				d := s.fresh()
				d.validated = true
				d.deleg = o
				d.discr = rng.Chance(1, 4)
			}
		}
	}
	// creation history: identities appear in random order, in random groupings
	order := rng.Perm(len(s.ids))
	var g []c07Op
	for _, i := range order {
		x := s.ids[i]
		if x.validated {
			g = append(g, c07Op{a: x.addr, kind: c07OpValidated, b: true})
		}
		if x.online {
			g = append(g, c07Op{a: x.addr, kind: c07OpOnline, b: true})
		}
		if x.discr {
			g = append(g, c07Op{a: x.addr, kind: c07OpDiscr, b: true})
		}
		if x.deleg != nil {
			g = append(g, c07Op{a: x.addr, kind: c07OpDeleg, to: x.deleg.addr})
		}
		if rng.Chance(1, 3) && len(g) > 0 {
			s.groups = append(s.groups, g)
			g = nil
		}
	}
	if len(g) > 0 {
		s.groups = append(s.groups, g)
	}
	return s
}

// ---------------------------------------------------------------- churn (protocol-like steps)

func (s *c07Set) pick(rng *verifutil.Rng, f func(*c07Id) bool) *c07Id {
	var c []*c07Id
	for _, x := range s.ids {
		if f(x) {
			c = append(c, x)
		}
	}
	if len(c) == 0 {
		return nil
	}
	return c[rng.Intn(len(c))]
}

// poolLostMember: a non-identity pool owner that lost its last delegator goes offline
// (switchPoolsToOffline).
func (s *c07Set) poolLostMember(o *c07Id, g *[]c07Op) {
	if o != nil && !o.validated && o.online && len(s.delegatorsOf(o)) == 0 {
		o.online = false
		*g = append(*g, c07Op{a: o.addr, kind: c07OpOnline, b: false})
	}
}

func (s *c07Set) churn(rng *verifutil.Rng, n int) {
	for i := 0; i < n; i++ {
		var g []c07Op
		switch rng.Intn(7) {
		case 0: // status switch of an identity (single or identity pool owner)
			x := s.pick(rng, func(x *c07Id) bool { return x.validated && !x.killed && x.deleg == nil })
			if x == nil {
				continue
			}
			x.online = !x.online
			g = append(g, c07Op{a: x.addr, kind: c07OpOnline, b: x.online})
		case 1: // status switch of a non-identity pool owner
			x := s.pick(rng, func(x *c07Id) bool { return !x.validated && !x.killed && x.deleg == nil && s.isPool(x) })
			if x == nil {
				continue
			}
			x.online = !x.online
			g = append(g, c07Op{a: x.addr, kind: c07OpOnline, b: x.online})
		case 2: // discrimination switch
			x := s.pick(rng, func(x *c07Id) bool { return x.validated && !x.killed })
			if x == nil {
				continue
			}
			x.discr = !x.discr
			g = append(g, c07Op{a: x.addr, kind: c07OpDiscr, b: x.discr})
		case 3: // kill
			x := s.pick(rng, func(x *c07Id) bool { return x.validated && !x.killed })
			if x == nil {
				continue
			}
			x.validated, x.online, x.killed = false, false, true
			g = append(g, c07Op{a: x.addr, kind: c07OpRemove})
			s.poolLostMember(x.deleg, &g)
		case 4: // new identity
			if s.next >= len(s.perm)-2 {
				continue
			}
			x := s.fresh()
			x.validated = true
			x.online = rng.Bool()
			x.discr = rng.Chance(1, 4)
			g = append(g, c07Op{a: x.addr, kind: c07OpValidated, b: true})
			if x.online {
				g = append(g, c07Op{a: x.addr, kind: c07OpOnline, b: true})
			}
			if x.discr {
				g = append(g, c07Op{a: x.addr, kind: c07OpDiscr, b: true})
			}
		case 5: // delegate
			d := s.pick(rng, func(x *c07Id) bool {
				return x.validated && !x.killed && x.deleg == nil && !x.wasUndel && !s.isPool(x)
			})
			if d == nil {
				continue
			}
			var p *c07Id
			if rng.Chance(1, 4) && s.next < len(s.perm)-2 {
				p = s.fresh() // brand-new non-identity pool address (offline)
			} else {
				p = s.pick(rng, func(x *c07Id) bool { return x != d && !x.killed && x.deleg == nil && (x.validated || x.online || s.isPool(x)) })
			}
			if p == nil {
				continue
			}
			d.deleg = p
			d.discr = rng.Chance(1, 4)
			d.online = false
			g = append(g, c07Op{a: d.addr, kind: c07OpDeleg, to: p.addr}, c07Op{a: d.addr, kind: c07OpDiscr, b: d.discr}, c07Op{a: d.addr, kind: c07OpOnline, b: false})
		case 6: // undelegate
			d := s.pick(rng, func(x *c07Id) bool { return x.validated && !x.killed && x.deleg != nil })
			if d == nil {
				continue
			}
			o := d.deleg
			d.deleg = nil
			d.wasUndel = true
			d.discr = rng.Chance(1, 4)
			g = append(g, c07Op{a: d.addr, kind: c07OpUndeleg}, c07Op{a: d.addr, kind: c07OpDiscr, b: d.discr})
			s.poolLostMember(o, &g)
		}
		if len(g) > 0 {
			s.groups = append(s.groups, g)
			s.churned++
		}
	}
}

// ---------------------------------------------------------------- replay into real state

type c07Built struct {
	ist     *state.IdentityStateDB
	vc      *validators.ValidatorsCache
	content string
	commits int
	how     string
}

// c07Replay executes the history on a fresh IdentityStateDB, committing after the groups marked in
// cuts (and at the end). The cache is created by Load() after `loadAt` commits (0 = on the
// empty state) and follows every later commit through UpdateFromIdentityStateDiff, exactly
// like a running node; loadAt < 0 = only one Load at the very end (a restarted node).
func c07Replay(s *c07Set, cuts []bool, loadAt int, how string) (*c07Built, error) {
	ist, err := state.NewLazyIdentityState(dbm.NewMemDB())
	if err != nil {
		return nil, err
	}
	b := &c07Built{ist: ist, how: how}
	if loadAt == 0 {
		b.vc = validators.NewValidatorsCache(ist, s.god.addr)
		b.vc.Load()
	}
	for gi, g := range s.groups {
		for _, op := range g {
			op.apply(ist)
		}
		if cuts[gi] || gi == len(s.groups)-1 {
			_, _, diff, err := ist.Commit(true)
			if err != nil {
				return nil, err
			}
			b.commits++
			if b.vc != nil {
				b.vc.UpdateFromIdentityStateDiff(diff)
			} else if loadAt > 0 && b.commits >= loadAt {
				b.vc = validators.NewValidatorsCache(ist, s.god.addr)
				b.vc.Load()
			}
		}
	}
	if b.vc == nil {
		b.vc = validators.NewValidatorsCache(ist, s.god.addr)
		b.vc.Load()
	}
	var sb strings.Builder
	ist.IterateIdentities(func(key []byte, value []byte) bool {
		fmt.Fprintf(&sb, "%x=%x;", key, value)
		return false
	})
	b.content = sb.String()
	return b, nil
}

// ---------------------------------------------------------------- small helpers

func c07SortAddrs(l []common.Address) []common.Address {
	sort.Slice(l, func(i, j int) bool { return bytes.Compare(l[i][:], l[j][:]) < 0 })
	return l
}

func c07SetAddrs(set interface{ ToSlice() []interface{} }) []common.Address {
	if set == nil {
		return nil
	}
	var l []common.Address
	for _, v := range set.ToSlice() {
		l = append(l, v.(common.Address))
	}
	return c07SortAddrs(l)
}

func c07AddrsStr(l []common.Address) string {
	var sb strings.Builder
	for _, a := range l {
		sb.WriteString(a.Hex()[2:10])
		sb.WriteByte(',')
	}
	return sb.String()
}
