package attachments

// C18 (blockchain/attachments): every transaction attachment round-trips and every field is
// part of the payload that the transaction signature covers.

import (
	"testing"

	"github.com/idena-network/idena-go/verifutil"
)

func TestVerifC18Codec(t *testing.T) {
	if !verifutil.Enabled() {
		t.Skip("verif harness")
	}
	rep := verifutil.NewReport()
	defer rep.Write()
	std := verifutil.StdCodec
	s := &verifutil.Schema{} // no transient fields: attachments are plain data
	cr := &verifutil.CodecRun{Rep: rep, S: s, Pkg: "blockchain/attachments", PropNo: 18, Types: []*verifutil.CodecType{
		std("attachments.ShortAnswerAttachment", func() interface{} { return new(ShortAnswerAttachment) }),
		std("attachments.LongAnswerAttachment", func() interface{} { return new(LongAnswerAttachment) }),
		std("attachments.FlipSubmitAttachment", func() interface{} { return new(FlipSubmitAttachment) }),
		std("attachments.OnlineStatusAttachment", func() interface{} { return new(OnlineStatusAttachment) }),
		std("attachments.BurnAttachment", func() interface{} { return new(BurnAttachment) }),
		std("attachments.ChangeProfileAttachment", func() interface{} { return new(ChangeProfileAttachment) }),
		std("attachments.DeleteFlipAttachment", func() interface{} { return new(DeleteFlipAttachment) }),
		std("attachments.CallContractAttachment", func() interface{} { return new(CallContractAttachment) }),
		std("attachments.DeployContractAttachment", func() interface{} { return new(DeployContractAttachment) }),
		std("attachments.TerminateContractAttachment", func() interface{} { return new(TerminateContractAttachment) }),
		std("attachments.StoreToIpfsAttachment", func() interface{} { return new(StoreToIpfsAttachment) }),
	}}
	cr.Run(verifutil.Scale(600, 40000)/verifutil.NShards(), 0)
}
