//go:build verif

package blockchain

// Forwarding shims for /verif (injected at build time, never part of the repository).
// They hold no logic of their own.

import (
	"github.com/idena-network/idena-go/blockchain/types"
	"github.com/idena-network/idena-go/core/appstate"
	"github.com/idena-network/idena-go/database"
)

// VerifValidateOnCheck = ForCheck(head) + validateBlock. Returns the private post-state view
// (working tree after Precommit), the receipts and the validation error.
func (chain *Blockchain) VerifValidateOnCheck(block *types.Block) (*appstate.AppState, types.TxReceipts, error) {
	checkState, err := chain.appState.ForCheck(chain.Head.Height())
	if err != nil {
		return nil, nil, err
	}
	res, err := chain.validateBlock(checkState, block, chain.Head, nil)
	if err != nil {
		return checkState, nil, err
	}
	return checkState, res.txReceipts, nil
}

func (chain *Blockchain) VerifRepo() *database.Repo { return chain.repo }

func (chain *Blockchain) VerifAppState() *appstate.AppState { return chain.appState }

// VerifRelease drops the references of a scratch node the harness is done with: the chain's ipfs
// loader goroutine never ends and would keep the whole object graph (pool, state, detector
// buffers, database) reachable for the rest of the process. The chain must not be used afterwards.
func (chain *Blockchain) VerifRelease() {
	chain.txpool, chain.appState, chain.offlineDetector, chain.upgrader = nil, nil, nil, nil
	chain.repo, chain.secStore, chain.bus, chain.indexer, chain.subManager = nil, nil, nil, nil, nil
	chain.applyNewEpochFn, chain.middlewares = nil, nil
}
