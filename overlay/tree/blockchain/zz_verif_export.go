//go:build verif

package blockchain

// Forwarding shims for /verif (injected at build time, never part of the repository).
// They hold no logic of their own.

import (
	"github.com/idena-network/idena-go/blockchain/types"
	"github.com/idena-network/idena-go/core/appstate"
	"github.com/idena-network/idena-go/database"
)

// VerifValidateOnCheck = ForCheck(head) + validateBlock. Returns the private post-state view
// (working tree after Precommit), the receipts and the validation error.
func (chain *Blockchain) VerifValidateOnCheck(block *types.Block) (*appstate.AppState, types.TxReceipts, error) {
	checkState, err := chain.appState.ForCheck(chain.Head.Height())
	if err != nil {
		return nil, nil, err
	}
	res, err := chain.validateBlock(checkState, block, chain.Head, nil)
	if err != nil {
		return checkState, nil, err
	}
	return checkState, res.txReceipts, nil
}

func (chain *Blockchain) VerifRepo() *database.Repo { return chain.repo }

func (chain *Blockchain) VerifAppState() *appstate.AppState { return chain.appState }
