package types

// C18 (blockchain/types): encodings round-trip, hashes are stable across the round trip,
// every non-transient field is part of the encoding, signatures bind every signed field.
// Engine: verifutil.CodecRun (reflection filler + single-leaf mutator); every oracle is
// differential between executions of the real ToBytes/FromBytes/Hash/Sign/Sender functions.

import (
	"crypto/ecdsa"
	"errors"
	"fmt"
	"testing"

	"github.com/idena-network/idena-go/common"
	"github.com/idena-network/idena-go/crypto"
	"github.com/idena-network/idena-go/verifutil"
)

// Reviewed against types.go: fields that are deliberately not part of any encoding.
var c18Transient = map[string]string{
	"types.Block.hash":        "memoised Header.Hash() (atomic.Value cache)",
	"types.Block.hash128":     "memoised Hash128 of the encoding (cache)",
	"types.Block.proposeHash": "unused cache holder",

	"types.Transaction.hash":                         "memoised hash of the encoding (cache)",
	"types.Transaction.hash128":                      "memoised Hash128 of the encoding (cache)",
	"types.Transaction.from":                         "memoised recovered sender (cache of Sender())",
	"types.Transaction.shardId":                      "mempool annotation set locally by SetShardId, derived from the sender's identity",
	"types.Transaction.validLongSessionAnswersProof": "local validation memo (MarkAsValidLongSessionAnswers)",
	"types.Transaction.highPriority":                 "mempool annotation set locally by SetHighPriority",

	"types.BlockProposal.pubKey":  "memoised recovered proposer key (cache)",
	"types.ProofProposal.pubKey":  "memoised recovered proposer key (cache)",
	"types.ProofProposal.hash128": "memoised Hash128 of the encoding (cache)",

	"types.Vote.hash":    "memoised vote hash (cache)",
	"types.Vote.hash128": "memoised Hash128 of the encoding (cache)",
	"types.Vote.addr":    "memoised recovered voter (cache)",

	"types.Flip.hash128": "memoised Hash128 of the encoding (cache)",

	"types.PublicFlipKey.from":         "memoised recovered sender (cache)",
	"types.PublicFlipKey.shardId":      "key-pool annotation set locally by SetShardId",
	"types.PublicFlipKey.highPriority": "key-pool annotation set locally by SetHighPriority",

	"types.PrivateFlipKeysPackage.from":    "memoised recovered sender (cache)",
	"types.PrivateFlipKeysPackage.hash128": "memoised Hash128 of the encoding (cache)",
}

func c18key(r *verifutil.Rng) *ecdsa.PrivateKey {
	for {
		if k, err := crypto.ToECDSA(crypto.Keccak256(r.Bytes(32))); err == nil {
			return k
		}
	}
}

func c18addr(k *ecdsa.PrivateKey) string { return crypto.PubkeyToAddress(k.PublicKey).Hex() }

func c18headerHashable(h *Header) bool {
	return h != nil && (h.ProposedHeader != nil || h.EmptyBlockHeader != nil)
}

func c18Types(s *verifutil.Schema) []*verifutil.CodecType {
	std := verifutil.StdCodec
	var ts []*verifutil.CodecType

	// ---- Transaction
	tx := std("Transaction", func() interface{} { return new(Transaction) })
	tx.Hashes = map[string]func(interface{}) []byte{
		"Hash":    func(x interface{}) []byte { h := x.(*Transaction).Hash(); return h[:] },
		"Hash128": func(x interface{}) []byte { h := x.(*Transaction).Hash128(); return h[:] },
	}
	tx.Sign = &verifutil.SignSpec{
		Variants: []string{"proto", "rlp"},
		SigField: "Signature",
		Prepare:  func(x interface{}, v string, _ *verifutil.Rng) { x.(*Transaction).UseRlp = v == "rlp" },
		Sign: func(x interface{}, v string, r *verifutil.Rng) (interface{}, string, error) {
			t, k := x.(*Transaction), c18key(r)
			if v == "proto" {
				st, err := SignTx(t, k) // the real signing path (drops UseRlp: new txs are always proto-signed)
				return st, c18addr(k), err
			}
			// legacy signing scheme still accepted by Sender() when UseRlp is set
			h := signatureHash(t)
			sig, err := crypto.Sign(h[:], k)
			st := s.Clone(t).(*Transaction)
			st.Signature = sig
			return st, c18addr(k), err
		},
		Recover: func(x interface{}) (string, error) {
			a, err := Sender(x.(*Transaction))
			return a.Hex(), err
		},
	}
	ts = append(ts, tx)

	// ---- Header (both kinds), and each kind alone through the Header wrapper
	hdr := std("Header", func() interface{} { return new(Header) })
	hdr.Hashes = map[string]func(interface{}) []byte{"Hash": func(x interface{}) []byte {
		if !c18headerHashable(x.(*Header)) {
			return nil
		}
		h := x.(*Header).Hash()
		return h[:]
	}}
	ts = append(ts, hdr)
	ts = append(ts, &verifutil.CodecType{
		Name: "ProposedHeader",
		New:  func() interface{} { return new(ProposedHeader) },
		Enc:  func(x interface{}) ([]byte, error) { return (&Header{ProposedHeader: x.(*ProposedHeader)}).ToBytes() },
		Dec: func(b []byte) (interface{}, error) {
			h := new(Header)
			if err := h.FromBytes(b); err != nil {
				return nil, err
			}
			if h.ProposedHeader == nil || h.EmptyBlockHeader != nil {
				return nil, errors.New("header kind changed by the round trip")
			}
			return h.ProposedHeader, nil
		},
		Hashes: map[string]func(interface{}) []byte{"Hash": func(x interface{}) []byte { h := x.(*ProposedHeader).Hash(); return h[:] }},
	})
	ts = append(ts, &verifutil.CodecType{
		Name: "EmptyBlockHeader",
		New:  func() interface{} { return new(EmptyBlockHeader) },
		Enc: func(x interface{}) ([]byte, error) {
			return (&Header{EmptyBlockHeader: x.(*EmptyBlockHeader)}).ToBytes()
		},
		Dec: func(b []byte) (interface{}, error) {
			h := new(Header)
			if err := h.FromBytes(b); err != nil {
				return nil, err
			}
			if h.EmptyBlockHeader == nil || h.ProposedHeader != nil {
				return nil, errors.New("header kind changed by the round trip")
			}
			return h.EmptyBlockHeader, nil
		},
		Hashes: map[string]func(interface{}) []byte{"Hash": func(x interface{}) []byte { h := x.(*EmptyBlockHeader).Hash(); return h[:] }},
	})

	// ---- Block, Body
	blk := std("Block", func() interface{} { return new(Block) })
	blk.Hashes = map[string]func(interface{}) []byte{
		"Hash": func(x interface{}) []byte {
			if !c18headerHashable(x.(*Block).Header) {
				return nil
			}
			h := x.(*Block).Hash()
			return h[:]
		},
		"Hash128": func(x interface{}) []byte { h := x.(*Block).Hash128(); return h[:] },
	}
	ts = append(ts, blk)
	ts = append(ts, &verifutil.CodecType{
		Name: "Body",
		New:  func() interface{} { return new(Body) },
		Enc:  func(x interface{}) ([]byte, error) { return x.(*Body).ToBytes(), nil },
		Dec:  func(b []byte) (interface{}, error) { y := new(Body); y.FromBytes(b); return y, nil },
		Hashes: map[string]func(interface{}) []byte{"DeriveSha": func(x interface{}) []byte {
			if len(x.(*Body).Transactions) > 6 {
				return nil // cost bound only
			}
			h := DeriveSha(Transactions(x.(*Body).Transactions))
			return h[:]
		}},
	})

	// ---- Vote
	vote := std("Vote", func() interface{} { return new(Vote) })
	vote.Hashes = map[string]func(interface{}) []byte{
		"Hash": func(x interface{}) []byte {
			if x.(*Vote).Header == nil {
				return nil
			}
			h := x.(*Vote).Hash()
			return h[:]
		},
		"Hash128": func(x interface{}) []byte { h := x.(*Vote).Hash128(); return h[:] },
	}
	vote.Sign = &verifutil.SignSpec{
		Variants: []string{"proto"},
		SigField: "Signature",
		Prepare: func(x interface{}, _ string, r *verifutil.Rng) {
			if v := x.(*Vote); v.Header == nil {
				v.Header = new(VoteHeader)
				s.Fill(v.Header, r, verifutil.FillFull)
			}
		},
		Sign: func(x interface{}, _ string, r *verifutil.Rng) (interface{}, string, error) {
			v, k := x.(*Vote), c18key(r)
			h := crypto.SignatureHash(v) // as consensus.Engine.vote does
			sig, err := crypto.Sign(h[:], k)
			v.Signature = sig
			return v, c18addr(k), err
		},
		Recover: func(x interface{}) (string, error) {
			v := x.(*Vote)
			if !v.IsValid() { // header removed: refused by every consumer before the signer is looked at
				return "", errors.New("invalid vote")
			}
			return v.VoterAddr().Hex(), nil
		},
	}
	ts = append(ts, vote)

	ts = append(ts, std("BlockCert", func() interface{} { return new(BlockCert) }))

	// ---- BlockProposal
	bp := std("BlockProposal", func() interface{} { return new(BlockProposal) })
	// Deliberate: FromBytes always allocates Block when Data is present, and ToBytes always writes
	// Data; a proposal with a nil Block and one with an empty Block are the same invalid proposal
	// (IsValid() is false for both).
	bp.Norm = func(x interface{}) {
		if p := x.(*BlockProposal); p.Block == nil {
			p.Block = &Block{}
		}
	}
	bp.Hashes = map[string]func(interface{}) []byte{"BlockHash": func(x interface{}) []byte {
		p := x.(*BlockProposal)
		if p.Block == nil || !c18headerHashable(p.Block.Header) {
			return nil
		}
		h := p.Block.Hash()
		return h[:]
	}}
	bp.Sign = &verifutil.SignSpec{
		Variants: []string{"proto"},
		SigField: "Signature",
		Prepare: func(x interface{}, _ string, r *verifutil.Rng) {
			p := x.(*BlockProposal)
			if p.Block == nil {
				p.Block = new(Block)
				s.Fill(p.Block, r, verifutil.FillFull)
			}
		},
		Sign: func(x interface{}, _ string, r *verifutil.Rng) (interface{}, string, error) {
			p, k := x.(*BlockProposal), c18key(r)
			h := crypto.SignatureHash(p) // as Blockchain.ProposeBlock does
			sig, err := crypto.Sign(h[:], k)
			p.Signature = sig
			return p, verifutil.Hex(crypto.FromECDSAPub(&k.PublicKey)), err
		},
		Recover: func(x interface{}) (string, error) {
			pub, err := BlockProposalPubKey(x.(*BlockProposal))
			return verifutil.Hex(pub), err
		},
	}
	ts = append(ts, bp)

	// ---- ProofProposal
	pp := std("ProofProposal", func() interface{} { return new(ProofProposal) })
	pp.Hashes = map[string]func(interface{}) []byte{"Hash128": func(x interface{}) []byte { h := x.(*ProofProposal).Hash128(); return h[:] }}
	pp.Sign = &verifutil.SignSpec{
		Variants: []string{"proto"},
		SigField: "Signature",
		Sign: func(x interface{}, _ string, r *verifutil.Rng) (interface{}, string, error) {
			p, k := x.(*ProofProposal), c18key(r)
			h := crypto.SignatureHash(p) // as consensus.Engine.proposeBlock does
			sig, err := crypto.Sign(h[:], k)
			p.Signature = sig
			return p, verifutil.Hex(crypto.FromECDSAPub(&k.PublicKey)), err
		},
		Recover: func(x interface{}) (string, error) {
			pub, err := ProofProposalPubKey(x.(*ProofProposal))
			return verifutil.Hex(pub), err
		},
	}
	ts = append(ts, pp)

	// ---- Flip, flip keys
	flip := std("Flip", func() interface{} { return new(Flip) })
	flip.Hashes = map[string]func(interface{}) []byte{"Hash128": func(x interface{}) []byte { h := x.(*Flip).Hash128(); return h[:] }}
	ts = append(ts, flip)

	fk := std("PublicFlipKey", func() interface{} { return new(PublicFlipKey) })
	fk.Hashes = map[string]func(interface{}) []byte{"Hash": func(x interface{}) []byte { h := x.(*PublicFlipKey).Hash(); return h[:] }}
	fk.Sign = &verifutil.SignSpec{
		Variants: []string{"proto"},
		SigField: "Signature",
		Sign: func(x interface{}, _ string, r *verifutil.Rng) (interface{}, string, error) {
			k := c18key(r)
			sk, err := SignFlipKey(x.(*PublicFlipKey), k)
			return sk, c18addr(k), err
		},
		Recover: func(x interface{}) (string, error) {
			a, err := SenderFlipKey(x.(*PublicFlipKey))
			return a.Hex(), err
		},
	}
	ts = append(ts, fk)

	pk := std("PrivateFlipKeysPackage", func() interface{} { return new(PrivateFlipKeysPackage) })
	pk.Hashes = map[string]func(interface{}) []byte{"Hash128": func(x interface{}) []byte { h := x.(*PrivateFlipKeysPackage).Hash128(); return h[:] }}
	pk.Sign = &verifutil.SignSpec{
		Variants: []string{"proto"},
		SigField: "Signature",
		Sign: func(x interface{}, _ string, r *verifutil.Rng) (interface{}, string, error) {
			k := c18key(r)
			sk, err := SignFlipKeysPackage(x.(*PrivateFlipKeysPackage), k)
			return sk, c18addr(k), err
		},
		Recover: func(x interface{}) (string, error) {
			a, err := SenderFlipKeysPackage(x.(*PrivateFlipKeysPackage))
			return a.Hex(), err
		},
	}
	ts = append(ts, pk)

	// ---- receipts and local storage objects
	ts = append(ts, &verifutil.CodecType{
		Name: "TxReceipts",
		New:  func() interface{} { return new(TxReceipts) },
		Enc:  func(x interface{}) ([]byte, error) { return (*x.(*TxReceipts)).ToBytes() },
		Dec: func(b []byte) (interface{}, error) {
			r := TxReceipts{}.FromBytes(b)
			return &r, nil
		},
	})
	ts = append(ts, std("TxReceipt", func() interface{} { return new(TxReceipt) }))
	ts = append(ts, std("SavedTransaction", func() interface{} { return new(SavedTransaction) }))
	ts = append(ts, std("BurntCoins", func() interface{} { return new(BurntCoins) }))
	ts = append(ts, std("ActivityMonitor", func() interface{} { return new(ActivityMonitor) }))
	ts = append(ts, std("TransactionIndex", func() interface{} { return new(TransactionIndex) }))
	ts = append(ts, std("TxReceiptIndex", func() interface{} { return new(TxReceiptIndex) }))
	ts = append(ts, std("SavedEvent", func() interface{} { return new(SavedEvent) }))

	uv := &verifutil.CodecType{
		Name: "UpgradeVotes",
		New:  func() interface{} { return new(UpgradeVotes) },
		Enc:  func(x interface{}) ([]byte, error) { return x.(*UpgradeVotes).ToBytes() },
		Dec: func(b []byte) (interface{}, error) {
			y := NewUpgradeVotes() // as Repo.ReadUpgradeVotes does (FromBytes needs the map)
			return y, y.FromBytes(b)
		},
		// Deliberate: the votes are written in Go map order; the object is a node-local tally
		// (Repo.WriteUpgradeVotes), never hashed and never sent, so byte order carries no meaning.
		UnorderedEnc: "map-backed local tally, encoded in map iteration order, never hashed",
	}
	ts = append(ts, uv)
	return ts
}

// FullBlockCert has no encoding of its own: it is compressed into a BlockCert. The compressed,
// encoded, decoded certificate must still let a validator recover every voter exactly the way
// Blockchain.ValidateBlockCert rebuilds the votes.
func c18CertCompress(rep *verifutil.Report, n int) {
	for i := 0; i < n; i++ {
		r := verifutil.Stream(18, 900, uint64(i))
		var round = r.U64()
		step := uint8(r.Intn(256))
		var parent, voted common.Hash
		copy(parent[:], r.Bytes(32))
		copy(voted[:], r.Bytes(32))
		full := &FullBlockCert{}
		var signers []string
		for j, nv := 0, r.Range(1, 5); j < nv; j++ {
			k := c18key(r)
			v := &Vote{Header: &VoteHeader{Round: round, Step: step, ParentHash: parent, VotedHash: voted,
				TurnOffline: r.Bool(), Upgrade: uint32(r.U64()) * uint32(r.Intn(2))}}
			h := crypto.SignatureHash(v)
			v.Signature, _ = crypto.Sign(h[:], k)
			full.Votes = append(full.Votes, v)
			signers = append(signers, c18addr(k))
		}
		enc, err := full.Compress().ToBytes()
		cert := new(BlockCert)
		if err == nil {
			err = cert.FromBytes(enc)
		}
		rep.Eval(1)
		rep.Count("cert_compress_checks", 1)
		if err != nil || len(cert.Signatures) != len(signers) {
			rep.Violation("O5:FullBlockCert:compress", fmt.Sprintf("compressed certificate lost signatures: %d of %d err=%v", len(cert.Signatures), len(signers), err),
				map[string]interface{}{"encoding": verifutil.Hex(enc)})
			continue
		}
		for j, sg := range cert.Signatures {
			v := Vote{Header: &VoteHeader{Step: cert.Step, Round: cert.Round, TurnOffline: sg.TurnOffline, Upgrade: sg.Upgrade,
				VotedHash: cert.VotedHash, ParentHash: parent}, Signature: sg.Signature}
			if got := v.VoterAddr().Hex(); got != signers[j] {
				rep.Violation("O5:FullBlockCert:compress", fmt.Sprintf("voter %d of a compressed+encoded certificate is recovered as %s, signed by %s; cert=%s",
					j, got, signers[j], verifutil.Hex(enc)), map[string]interface{}{"encoding": verifutil.Hex(enc)})
			}
		}
		if i == 0 {
			rep.Sample(map[string]interface{}{"oracle": "cert-compress", "votes": len(signers), "encoding_hex": verifutil.Trunc(verifutil.Hex(enc), 240)})
		}
	}
}

// c18HeaderBinding: the block hash is what votes and certificates sign. For every header the
// type's own gate (IsValid) lets in, whatever a node reads from it through the accessors (height,
// parent, time, roots, seed, flags, ...) must be bound by that hash: a change of any stored field
// that changes an accessor's answer must change the hash.
func c18HeaderBinding(rep *verifutil.Report, s *verifutil.Schema, n int) {
	view := func(h *Header) []string {
		return []string{"Height=" + fmt.Sprint(h.Height()), "ParentHash=" + h.ParentHash().Hex(), "Time=" + fmt.Sprint(h.Time()), "Root=" + h.Root().Hex(), "IdentityRoot=" + h.IdentityRoot().Hex(),
			"Seed=" + verifutil.Hex(h.Seed().Bytes()), "Flags=" + fmt.Sprint(h.Flags()), "Coinbase=" + h.Coinbase().Hex(), "IpfsHash=" + verifutil.Hex(h.IpfsHash())}
	}
	names := []string{"Height", "ParentHash", "Time", "Root", "IdentityRoot", "Seed", "Flags", "Coinbase", "IpfsHash"}
	for i := 0; i < n; i++ {
		r := verifutil.Stream(18, 901, uint64(i))
		h := new(Header)
		s.Fill(h, r, verifutil.FillFull)
		shape := "proposed"
		switch r.Intn(4) {
		case 0:
			h.ProposedHeader, shape = nil, "empty"
		case 1, 2:
			h.EmptyBlockHeader = nil
		default:
			shape = "both-parts"
		}
		if h.ProposedHeader != nil && len(h.ProposedHeader.ProposerPubKey) != 65 {
			k := c18key(r)
			h.ProposedHeader.ProposerPubKey = crypto.FromECDSAPub(&k.PublicKey)
		}
		rep.Count("header_binding_shape:"+shape, 1)
		if !h.IsValid() {
			rep.Count("header_binding_refused_by_IsValid:"+shape, 1)
			continue
		}
		var v0 []string
		var h0 common.Hash
		if p, _ := verifutil.Catch(func() { v0, h0 = view(s.Clone(h).(*Header)), s.Clone(h).(*Header).Hash() }); p != nil {
			continue
		}
		base := s.Leaves(s.Clone(h))
		for li := range base {
			for k := 0; k < base[li].NMut; k++ {
				c := s.Clone(h).(*Header)
				ls := s.Leaves(c)
				if li >= len(ls) || ls[li].Path != base[li].Path {
					break
				}
				ls[li].Mutate(k, r.Fork(uint64(li*8+k)))
				if !c.IsValid() {
					rep.Count("header_binding_mutants_refused_by_IsValid", 1)
					continue // the variant does not get past the gate: nothing reads it
				}
				var v1 []string
				var h1 common.Hash
				if p, _ := verifutil.Catch(func() { v1, h1 = view(s.Clone(c).(*Header)), s.Clone(c).(*Header).Hash() }); p != nil {
					continue
				}
				rep.Eval(1)
				rep.Count("header_binding_mutations", 1)
				for a := range v0 {
					if v0[a] != v1[a] && h0 == h1 {
						rep.Violation("O5:Header.hash-does-not-bind:"+names[a], fmt.Sprintf("a header (%s) that passes IsValid: changing only %s turns %s into %s while Hash() stays %s - votes and certificates over this hash do not commit to what the node reads",
							shape, base[li].Path, v0[a], v1[a], h0.Hex()), map[string]interface{}{"shape": shape, "field": base[li].Path})
						break
					}
				}
			}
		}
	}
}

func TestVerifC18Codec(t *testing.T) {
	if !verifutil.Enabled() {
		t.Skip("verif harness")
	}
	rep := verifutil.NewReport()
	defer rep.Write()
	s := &verifutil.Schema{Transient: c18Transient}
	cr := &verifutil.CodecRun{Rep: rep, S: s, Pkg: "blockchain/types", PropNo: 18, Types: c18Types(s)}
	for _, ct := range cr.Types {
		ct.Name = "types." + ct.Name
	}
	cr.Run(verifutil.Scale(600, 48000)/verifutil.NShards(), verifutil.Scale(30, 600)/verifutil.NShards())
	c18CertCompress(rep, verifutil.Scale(200, 6000)/verifutil.NShards())
	c18HeaderBinding(rep, s, verifutil.Scale(400, 8000)/verifutil.NShards())
}
