//go:build verif

package blockchain

// Forwarding shim for the C15 monitor of /verif (injected at build time, never part of the
// repository). It holds no logic of its own.

import (
	"github.com/idena-network/idena-go/blockchain/types"
)

// VerifProcessTxsOnCheck = ForCheck(head) + processTxs: executes the transactions of a block
// on a private check state and returns the receipts WITHOUT comparing anything with the
// header (validateBlock returns no receipts when it refuses a block).
func (chain *Blockchain) VerifProcessTxsOnCheck(block *types.Block) (types.TxReceipts, error) {
	checkState, err := chain.appState.ForCheck(chain.Head.Height())
	if err != nil {
		return nil, err
	}
	_, _, receipts, _, _, err := chain.processTxs(block.Body.Transactions, &txsExecutionContext{appState: checkState, header: block.Header})
	return receipts, err
}
