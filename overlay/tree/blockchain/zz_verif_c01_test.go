package blockchain

// C01 (function level): shard balancing at the end of a validation is a pure function of the
// state and the block data. The real balanceShards is executed K times on fresh private views
// of one generated state (several shards, unevenly spread newbies / verified / suspended /
// zombie identities, shard counts growing, staying and shrinking); shard assignment, shard
// sizes, shard count, discrimination threshold and the resulting state root must be equal.
// The chain-level jobs reach at most two shards (a shard needs > 2400 identities).

import (
	"fmt"
	"math/big"
	"sort"
	"testing"

	"github.com/idena-network/idena-go/common"
	"github.com/idena-network/idena-go/common/eventbus"
	"github.com/idena-network/idena-go/core/appstate"
	"github.com/idena-network/idena-go/core/state"
	"github.com/idena-network/idena-go/log"
	"github.com/idena-network/idena-go/verifutil"
	dbm "github.com/tendermint/tm-db"
)

type c01BalCase struct {
	prevShards, n       int
	skew                int // percent of identities put into shard 1
	pSusp, pNewbie, pNo int // percent suspended/zombie, newbie, non-counting statuses
}

func c01BalInputs(as *appstate.AppState) (tn, tv, ts int, nb, vb, sb map[common.ShardId]int) {
	nb, vb, sb = map[common.ShardId]int{}, map[common.ShardId]int{}, map[common.ShardId]int{}
	as.State.IterateOverIdentities(func(addr common.Address, id state.Identity) {
		switch id.State {
		case state.Verified, state.Human:
			vb[id.ShiftedShardId()]++
			tv++
		case state.Newbie:
			nb[id.ShiftedShardId()]++
			tn++
		case state.Suspended, state.Zombie:
			sb[id.ShiftedShardId()]++
			ts++
		}
	})
	return
}

func c01CopyMap(m map[common.ShardId]int) map[common.ShardId]int {
	c := map[common.ShardId]int{}
	for k, v := range m {
		c[k] = v
	}
	return c
}

func TestVerifC01Balance(t *testing.T) {
	if !verifutil.Enabled() {
		t.Skip("verif harness")
	}
	log.Root().SetHandler(log.DiscardHandler())
	rep := verifutil.NewReport()
	defer rep.Write()
	cases := verifutil.Scale(24, 160) / verifutil.NShards()
	if cases < 1 {
		cases = 1
	}
	const K = 4
	for ci := 0; ci < cases; ci++ {
		rng := verifutil.Stream(101, uint64(ci))
		var c c01BalCase
		switch rng.Intn(5) {
		case 0: // 1 -> 2 shards
			c.prevShards, c.n = 1, rng.Range(5000, 6500)
		case 1: // 2 -> 4 shards
			c.prevShards, c.n = 2, rng.Range(10000, 11500)
		case 2: // 2 stays 2
			c.prevShards, c.n = 2, rng.Range(5200, 8000)
		case 3: // 4 -> 2 shards (shards above the new count are dissolved)
			c.prevShards, c.n = 4, rng.Range(5200, 9000)
		default: // 4 stays 4
			c.prevShards, c.n = 4, rng.Range(9700, 11500)
		}
		c.skew = rng.Range(25, 85)
		c.pSusp, c.pNewbie, c.pNo = rng.Range(5, 30), rng.Range(5, 30), rng.Range(0, 10)
		rep.Progress("C01 balance case %d %+v", ci, c)
		db := dbm.NewMemDB()
		as, err := appstate.NewAppState(db, eventbus.New())
		if err != nil {
			t.Fatal(err)
		}
		if err := as.Initialize(0); err != nil {
			t.Fatal(err)
		}
		st := as.State
		st.SetShardsNum(uint32(c.prevShards))
		sizes := map[common.ShardId]uint32{}
		for i := 0; i < c.n; i++ {
			var a common.Address
			copy(a[:], rng.Bytes(20))
			var s state.IdentityState
			switch x := rng.Intn(100); {
			case x < c.pSusp:
				s = []state.IdentityState{state.Suspended, state.Zombie}[rng.Intn(2)]
			case x < c.pSusp+c.pNewbie:
				s = state.Newbie
			case x < c.pSusp+c.pNewbie+c.pNo:
				s = []state.IdentityState{state.Candidate, state.Invite, state.Killed}[rng.Intn(3)]
			default:
				s = []state.IdentityState{state.Verified, state.Human}[rng.Intn(2)]
			}
			sh := common.ShardId(1)
			if rng.Intn(100) >= c.skew {
				sh = common.ShardId(rng.Range(1, c.prevShards))
			}
			st.SetState(a, s)
			st.SetShardId(a, sh)
			if rng.Intn(3) == 0 {
				st.AddStake(a, new(big.Int).Mul(big.NewInt(int64(rng.Range(1, 100000))), big.NewInt(1e15)))
			}
			sizes[sh]++
		}
		for sh, v := range sizes {
			st.SetShardSize(sh, v)
		}
		if err := as.Commit(nil); err != nil {
			t.Fatal(err)
		}
		tn, tv, ts, nb, vb, sb := c01BalInputs(as)
		type outcome struct {
			root      common.Hash
			shards    uint32
			threshold string
			assign    string
			suspDest  map[common.ShardId]int
		}
		var first *outcome
		for k := 0; k < K; k++ {
			cs, err := as.ForCheck(1)
			if err != nil {
				t.Fatal(err)
			}
			before := map[common.Address]common.ShardId{}
			cs.State.IterateOverIdentities(func(addr common.Address, id state.Identity) { before[addr] = id.ShiftedShardId() })
			th := balanceShards(cs, tn, tv, ts, c01CopyMap(nb), c01CopyMap(vb), c01CopyMap(sb))
			cs.Precommit()
			o := &outcome{root: cs.State.Root(), shards: cs.State.ShardsNum(), threshold: fmt.Sprint(th), suspDest: map[common.ShardId]int{}}
			var moved []string
			for addr, was := range before {
				id := cs.State.GetIdentity(addr)
				if now := id.ShiftedShardId(); now != was {
					moved = append(moved, fmt.Sprintf("%x:%d", addr[:6], now))
					if id.State == state.Suspended || id.State == state.Zombie {
						o.suspDest[now]++
					}
				}
			}
			sort.Strings(moved)
			o.assign = common.Hash(hashOf(moved)).Hex()
			rep.Eval(1)
			if first == nil {
				first = o
				rep.Count(fmt.Sprintf("balance_cases_%d_to_%d_shards", c.prevShards, o.shards), 1)
				rep.Count("identities_relocated", len(moved))
				if len(o.suspDest) > 1 {
					rep.Count("cases_suspended_relocated_into_several_shards", 1)
				}
				if len(o.suspDest) > 0 {
					rep.Count("cases_suspended_relocated", 1)
				}
				rep.Distinct(o.root.Hex())
				continue
			}
			if o.root != first.root || o.shards != first.shards || o.threshold != first.threshold || o.assign != first.assign {
				rep.Violation("shard-balancing-differs-between-executions", fmt.Sprintf("case %+v (newbies %d verified %d suspended %d): execution %d of balanceShards on a fresh view of the same state gives root %x shards %d threshold %s assignment %s, execution 0 gave %x %d %s %s",
					c, tn, tv, ts, k, o.root[:6], o.shards, o.threshold, o.assign[:14], first.root[:6], first.shards, first.threshold, first.assign[:14]), nil)
				break
			}
		}
	}
}

func hashOf(l []string) [32]byte {
	var h [32]byte
	x := uint64(1469598103934665603)
	for _, s := range l {
		for i := 0; i < len(s); i++ {
			x ^= uint64(s[i])
			x *= 1099511628211
		}
		x ^= 0xff
		x *= 1099511628211
		for j := 0; j < 8; j++ {
			h[(j*4+int(x>>60))%32] ^= byte(x >> (8 * uint(j)))
		}
	}
	for j := 0; j < 8; j++ {
		h[j] ^= byte(x >> (8 * uint(j)))
	}
	return h
}
