// Package verifclock is injected by /verif at build time (Go -overlay); it does not exist in
// the repository. Selected files of idena-go are compiled from a copy in which time.Now()
// is textually redirected to verifclock.Now(), so that harnesses can drive block production
// and ceremony phases with a virtual clock. When not armed it is the real clock.
package verifclock

import (
	"sync"
	"sync/atomic"
	"time"
)

var armed int32
var nowNs int64

// Arm switches to virtual time starting at t.
func Arm(t time.Time) {
	atomic.StoreInt64(&nowNs, t.UnixNano())
	atomic.StoreInt32(&armed, 1)
}

func Disarm() { atomic.StoreInt32(&armed, 0) }

func Armed() bool { return atomic.LoadInt32(&armed) == 1 }

func Now() time.Time {
	if atomic.LoadInt32(&armed) == 1 {
		return time.Unix(0, atomic.LoadInt64(&nowNs))
	}
	return time.Now()
}

func Since(t time.Time) time.Duration { return Now().Sub(t) }

func Set(t time.Time) { atomic.StoreInt64(&nowNs, t.UnixNano()) }

func Advance(d time.Duration) { atomic.AddInt64(&nowNs, int64(d)) }

// Sleep advances virtual time when armed (never blocks), else sleeps.
func Sleep(d time.Duration) {
	if atomic.LoadInt32(&armed) == 1 {
		Advance(d)
		return
	}
	time.Sleep(d)
}

// Delay points: named no-op calls inserted mechanically between critical sections; a harness
// may arm one with a function (yield / sleep) to widen real interleavings.
var (
	pmu    sync.RWMutex
	points = map[string]func(){}
	hits   sync.Map // name -> *int64
)

func ArmPoint(name string, f func()) {
	pmu.Lock()
	if f == nil {
		delete(points, name)
	} else {
		points[name] = f
	}
	pmu.Unlock()
}

func Point(name string) {
	c, _ := hits.LoadOrStore(name, new(int64))
	atomic.AddInt64(c.(*int64), 1)
	pmu.RLock()
	f := points[name]
	pmu.RUnlock()
	if f != nil {
		f()
	}
}

func PointHits(name string) int64 {
	if c, ok := hits.Load(name); ok {
		return atomic.LoadInt64(c.(*int64))
	}
	return 0
}
