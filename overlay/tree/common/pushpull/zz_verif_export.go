//go:build verif

package pushpull

// Injected by /verif (Go -overlay); forwarders only, no logic. They let the C20 monitor of
// package protocol read the tracker's sizes through the tracker's own locks.

// VerifQueueLen is the number of queued (pending) announcers.
func (d *DefaultPushTracker) VerifQueueLen() int { return d.pendingPushes.Len() }

// VerifActivePulls is the number of entries of the active-pull registry.
func (d *DefaultPushTracker) VerifActivePulls() int {
	n := 0
	d.activePulls.Range(func(_, _ interface{}) bool { n++; return true })
	return n
}

// VerifMaxPendingPushes is the documented cap of the pending queue.
const VerifMaxPendingPushes = maxPendingPushes
