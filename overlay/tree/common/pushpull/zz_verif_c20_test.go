package pushpull

// C20 (tracker level): DefaultPushTracker + DefaultHolder driven directly by a miniature
// "manager": for every hash the first K announcers are pulled directly (RegisterPull), later
// announcers are queued (AddPendingPush); items arrive (holder.Add) reactively ("the
// requested peer serves after a latency") or spontaneously at PRNG-chosen points. Many
// peers (one goroutine per peer, like one gossip handler per connection) x many hashes.
//
// Everything is recorded at the API boundary under ONE harness mutex; the index of an event
// in the log is its sequence number. Call events are logged BEFORE the call (with a clock
// reading taken before), return events AFTER the return, requests when they have been
// RECEIVED from Requests() (clock read after the receipt). Ordering between "Add returned"
// and "request issued" is judged with FIFO markers: after Add(h) returned the harness pushes
// a marker into the very channel the tracker writes its requests to. Whatever was already
// sitting in the channel is received before the marker; after the marker at most ONE more
// request for h is legitimate (the one the single tracker loop had in its hands: its
// Has()-test precedes the store, its channel send follows the marker).
//
// Oracles (DESIGN §C20), all linear scans over the log:
//   pull-delay      a request is received no earlier than pullDelay after the CALL time of the
//                   earliest pull it can have been derived from (wall clock LOWER bound: every
//                   delay makes it safer). The only place the clock enters a verdict.
//   known-item      AddPendingPush called after Add returned never produces a request
//   after-arrival   at most one (in-hands) request behind the arrival marker
//   duplicate       no (peer, hash) requested twice
//   progress        at quiescence (announcements stopped, queue empty, channel drained) every
//                   queued announcer of a hash that never arrived has been requested, provided
//                   a RegisterPull for the hash had RETURNED before AddPendingPush was called
//   growth          queue never above maxPendingPushes + callers; registry <= pulled hashes
// Watchdog expiry => rep.Inconcl, never a violation.

import (
	"fmt"
	"math"
	"os"
	"sort"
	"strconv"
	"strings"
	"sync"
	"sync/atomic"
	"testing"
	"time"

	"github.com/idena-network/idena-go/common"
	"github.com/idena-network/idena-go/verifutil"
	"github.com/libp2p/go-libp2p-core/peer"
)

const (
	c20RegCall = iota
	c20RegRet
	c20PendCall
	c20PendRet
	c20Req
	c20AddCall
	c20AddRet
	c20ArrMark
	c20EndMark
)

var c20KindName = []string{"reg-call", "reg-ret", "pend-call", "pend-ret", "REQUEST", "add-call", "add-ret", "arrival-marker", "end-marker"}

// slack of the lower-bound timing oracle (clock granularity); the bound itself is exact
const c20Slack = int64(500 * time.Microsecond)

type c20Ev struct {
	Kind int
	Peer int
	Hash int
	Idx  int   // announcement index / add index
	T    int64 // ns since run start
}

type c20Log struct {
	mu    sync.Mutex
	ev    []c20Ev
	start time.Time
	off   bool
}

func (l *c20Log) now() int64 { return int64(time.Since(l.start)) }
func (l *c20Log) add(kind, peer, hash, idx int, t int64) {
	if l.off {
		return
	}
	l.mu.Lock()
	l.ev = append(l.ev, c20Ev{kind, peer, hash, idx, t})
	l.mu.Unlock()
}
func (l *c20Log) snapshot() []c20Ev {
	l.mu.Lock()
	defer l.mu.Unlock()
	return append([]c20Ev(nil), l.ev...)
}
func (l *c20Log) count(kind int) int {
	l.mu.Lock()
	defer l.mu.Unlock()
	n := 0
	for _, e := range l.ev {
		if e.Kind == kind {
			n++
		}
	}
	return n
}

// ---------------------------------------------------------------- workload plan

type c20Ann struct {
	idx, peer, hash int
	off             time.Duration
}
type c20Spont struct {
	hash int
	off  time.Duration
}
type c20Plan struct {
	label     string
	P, H      int
	pullDelay time.Duration
	cap       []int // per hash: number of announcers pulled directly
	anns      []c20Ann
	serve     map[[2]int]time.Duration // (peer, hash) -> latency of the served item
	spont     []c20Spont
}

func c20Ms(x float64) time.Duration { return time.Duration(x * float64(time.Millisecond)) }

func c20GenPlan(rng *verifutil.Rng, H, P int) *c20Plan {
	pl := &c20Plan{label: "generated", P: P, H: H, serve: map[[2]int]time.Duration{}}
	pl.pullDelay = time.Duration(rng.Range(2, 5)*10) * time.Millisecond
	pd := float64(pl.pullDelay) / float64(time.Millisecond)
	for h := 0; h < H; h++ {
		pl.cap = append(pl.cap, 1+rng.Pick(5, 4, 1))
		cls := rng.Pick(25, 25, 25, 8, 10, 7)
		k := rng.Range(2, P)
		if rng.Chance(1, 2) {
			k = rng.Range(P/2+1, P)
		}
		if cls == 5 {
			k = 1
		}
		perm := rng.Perm(P)
		base := 25 + rng.Float()*150
		off := base
		for j := 0; j < k; j++ {
			if j > 0 {
				switch rng.Pick(50, 30, 15, 5) {
				case 1:
					off += rng.Float() * 2
				case 2:
					off += 2 + rng.Float()*13
				case 3:
					off += pd * (1 + 2*rng.Float())
				}
			}
			pl.anns = append(pl.anns, c20Ann{len(pl.anns), perm[j], h, c20Ms(off)})
		}
		late := false
		switch cls {
		case 0: // nobody serves: the whole fallback chain runs
		case 1: // whoever is asked first serves quickly: arrival before fallback
			for j := 0; j < k; j++ {
				pl.serve[[2]int{perm[j], h}] = c20Ms(0.5 + rng.Float()*pd/3)
			}
			late = true
		case 2: // only later announcers serve: fallback, then arrival
			n := 0
			for j := 2; j < k; j++ {
				if rng.Chance(1, 2) {
					pl.serve[[2]int{perm[j], h}] = c20Ms(0.5 + rng.Float()*pd*1.5)
					n++
				}
			}
			if n == 0 {
				pl.serve[[2]int{perm[k-1], h}] = c20Ms(0.5 + rng.Float()*pd)
			}
			late = true
		case 3: // item known before anybody announces it
			pl.spont = append(pl.spont, c20Spont{h, c20Ms(base - 5 - rng.Float()*15)})
		case 4: // item arrives by itself somewhere in the middle
			pl.spont = append(pl.spont, c20Spont{h, c20Ms(base + rng.Float()*pd*2.5)})
			late = true
		case 5:
			if rng.Bool() {
				pl.serve[[2]int{perm[0], h}] = c20Ms(0.5 + rng.Float()*pd)
			}
		}
		if late { // the remaining peers announce late: most of these are known-item announcements
			for j := k; j < P; j++ {
				if rng.Chance(2, 3) {
					o := off + pd*(0.2+3*rng.Float())
					pl.anns = append(pl.anns, c20Ann{len(pl.anns), perm[j], h, c20Ms(o)})
				}
			}
		}
	}
	return pl
}

// c20DirectedPlan: two hashes whose pulls were registered at different times; a late
// announcer of the OLDER pull is queued while the loop sleeps on the head of the queue.
func c20DirectedPlan() *c20Plan {
	pl := &c20Plan{label: "directed: late announcer of an older pull queued while the loop sleeps on the head", P: 4, H: 2,
		pullDelay: 80 * time.Millisecond, cap: []int{1, 1}, serve: map[[2]int]time.Duration{}}
	add := func(p, h int, ms float64) { pl.anns = append(pl.anns, c20Ann{len(pl.anns), p, h, c20Ms(ms)}) }
	add(0, 1, 5)  // hash B pulled from p0 at 5ms
	add(1, 0, 30) // hash A pulled from p1 at 30ms
	add(2, 0, 32) // p2 announces A: queued, stamp 30ms -> loop sleeps until 110ms
	add(3, 1, 60) // p3 announces B: queued with the older stamp 5ms
	return pl
}

// ---------------------------------------------------------------- one run

type c20Out struct {
	ev        []c20Ev
	quiescent bool
	maxQueue  int
	active    int
	chanLeft  int
	hashes    []common.Hash128
	tracker   *DefaultPushTracker
}

func c20PeerID(i int) peer.ID { return peer.ID(fmt.Sprintf("p%02d", i)) }

func c20Hash(rng *verifutil.Rng, i int) common.Hash128 {
	var h common.Hash128
	copy(h[:], rng.Bytes(len(h)))
	h[0] &= 0x7f
	h[1], h[2] = byte(i>>8), byte(i)
	return h
}

func c20MarkerHash(i int) common.Hash128 {
	var h common.Hash128
	h[0] = 0xEE
	h[1], h[2], h[3] = byte(i>>16), byte(i>>8), byte(i)
	return h
}

func c20SleepUntil(start time.Time, off time.Duration) {
	if d := time.Until(start.Add(off)); d > 0 {
		time.Sleep(d)
	}
}

func c20Run(rep *verifutil.Report, rng *verifutil.Rng, pl *c20Plan, bare bool) *c20Out {
	tracker := NewDefaultPushTracker(pl.pullDelay)
	holder := NewDefaultHolder(3, tracker)
	out := &c20Out{tracker: tracker}
	for h := 0; h < pl.H; h++ {
		out.hashes = append(out.hashes, c20Hash(rng, h))
	}
	pidx := map[peer.ID]int{}
	pids := make([]peer.ID, pl.P)
	for i := range pids {
		pids[i] = c20PeerID(i)
		pidx[pids[i]] = i
	}
	hidx := map[common.Hash128]int{}
	for i, h := range out.hashes {
		hidx[h] = i
	}
	cnt := make([]uint32, pl.H)
	lg := &c20Log{start: time.Now(), off: bare}
	var outstanding, addCtr, endSeen, maxQ int64

	deliver := func(h int) {
		ai := int(atomic.AddInt64(&addCtr, 1)) - 1
		lg.add(c20AddCall, -1, h, ai, lg.now())
		holder.Add(out.hashes[h], ai, common.MultiShard, false)
		lg.add(c20AddRet, -1, h, ai, lg.now())
		if !bare {
			tracker.Requests() <- PendingPulls{Id: peer.ID("\x00a" + strconv.Itoa(ai)), Hash: c20MarkerHash(ai)}
		}
	}
	serveLater := func(p, h int) {
		if lat, ok := pl.serve[[2]int{p, h}]; ok {
			atomic.AddInt64(&outstanding, 1)
			time.AfterFunc(lat, func() {
				deliver(h)
				atomic.AddInt64(&outstanding, -1)
			})
		}
	}

	stop := make(chan struct{})
	recvDone := make(chan struct{})
	go func() { // the consumer of the tracker's requests (the manager's role)
		defer close(recvDone)
		for {
			select {
			case r := <-tracker.Requests():
				t := lg.now()
				id := string(r.Id)
				switch {
				case strings.HasPrefix(id, "\x00a"):
					ai, _ := strconv.Atoi(id[2:])
					lg.add(c20ArrMark, -1, -1, ai, t)
				case strings.HasPrefix(id, "\x00e"):
					lg.add(c20EndMark, -1, -1, 0, t)
					atomic.AddInt64(&endSeen, 1)
				default:
					p, okp := pidx[r.Id]
					h, okh := hidx[r.Hash]
					if !okp || !okh {
						p, h = -1, -1
					}
					lg.add(c20Req, p, h, -1, t)
					if okp && okh {
						serveLater(p, h)
					}
				}
			case <-stop:
				return
			}
		}
	}()

	perPeer := make([][]c20Ann, pl.P)
	for _, a := range pl.anns {
		perPeer[a.peer] = append(perPeer[a.peer], a)
	}
	var wg sync.WaitGroup
	for p := 0; p < pl.P; p++ {
		list := perPeer[p]
		sort.SliceStable(list, func(i, j int) bool { return list[i].off < list[j].off })
		wg.Add(1)
		go func(list []c20Ann) {
			defer wg.Done()
			for _, a := range list {
				c20SleepUntil(lg.start, a.off)
				n := atomic.AddUint32(&cnt[a.hash], 1)
				if int(n) <= pl.cap[a.hash] {
					lg.add(c20RegCall, a.peer, a.hash, a.idx, lg.now())
					tracker.RegisterPull(out.hashes[a.hash])
					lg.add(c20RegRet, a.peer, a.hash, a.idx, lg.now())
					serveLater(a.peer, a.hash) // the direct pull is answered like any other
				} else {
					lg.add(c20PendCall, a.peer, a.hash, a.idx, lg.now())
					tracker.AddPendingPush(pids[a.peer], out.hashes[a.hash])
					lg.add(c20PendRet, a.peer, a.hash, a.idx, lg.now())
				}
				if q := int64(tracker.pendingPushes.Len()); q > atomic.LoadInt64(&maxQ) {
					atomic.StoreInt64(&maxQ, q)
				}
			}
		}(list)
	}
	sp := append([]c20Spont(nil), pl.spont...)
	sort.SliceStable(sp, func(i, j int) bool { return sp[i].off < sp[j].off })
	for g := 0; g < 2; g++ {
		wg.Add(1)
		go func(g int) {
			defer wg.Done()
			for i := g; i < len(sp); i += 2 {
				c20SleepUntil(lg.start, sp[i].off)
				deliver(sp[i].hash)
			}
		}(g)
	}
	wg.Wait()

	// quiescence: nothing scheduled, queue empty, channel drained (in-package reads through the tracker's own locks)
	deadline := time.Now().Add(30 * time.Second)
	stable := 0
	for stable < 3 && time.Now().Before(deadline) {
		time.Sleep(5 * time.Millisecond)
		if atomic.LoadInt64(&outstanding) == 0 && tracker.pendingPushes.Len() == 0 && len(tracker.requests) == 0 {
			stable++
		} else {
			stable = 0
		}
	}
	out.quiescent = stable >= 3
	if out.quiescent && !bare {
		tracker.Requests() <- PendingPulls{Id: peer.ID("\x00e0")}
		for atomic.LoadInt64(&endSeen) == 0 && time.Now().Before(deadline) {
			time.Sleep(time.Millisecond)
		}
		if atomic.LoadInt64(&endSeen) == 0 {
			out.quiescent = false
		}
		time.Sleep(30 * time.Millisecond)
	}
	if !out.quiescent {
		rep.Inconcl("tracker run (%s) did not become quiescent within the watchdog (queue=%d outstanding=%d)", pl.label,
			tracker.pendingPushes.Len(), atomic.LoadInt64(&outstanding))
	}
	out.ev = lg.snapshot()
	if out.quiescent && !bare {
		// a missing request is only reported if it is still missing after a further long wait
		if len(c20Analyse(nil, pl, out, true)) > 0 {
			time.Sleep(10*pl.pullDelay + 300*time.Millisecond)
			out.ev = lg.snapshot()
		}
	}
	close(stop)
	<-recvDone
	out.maxQueue = int(atomic.LoadInt64(&maxQ))
	out.active = tracker.VerifActivePulls()
	out.chanLeft = len(tracker.requests)
	return out
}

// ---------------------------------------------------------------- oracles

type c20AnnRec struct {
	called, pend    bool
	callSeq, retSeq int
	tCall           int64
	reqSeq          []int
	reqT            []int64
}
type c20AddRec struct{ callSeq, retSeq, markSeq int }

func c20History(pl *c20Plan, ev []c20Ev, h int, addHash map[int]int) []string {
	var s []string
	for seq, e := range ev {
		eh := e.Hash
		if e.Kind == c20ArrMark {
			eh = addHash[e.Idx]
		}
		if eh != h {
			continue
		}
		who := ""
		if e.Peer >= 0 {
			who = fmt.Sprintf(" p%d", e.Peer)
		}
		s = append(s, fmt.Sprintf("#%d %.2fms %s%s", seq, float64(e.T)/1e6, c20KindName[e.Kind], who))
		if len(s) >= 80 {
			s = append(s, "…")
			break
		}
	}
	return s
}

// c20Analyse runs every oracle over the log. With progressOnly it only returns the progress
// candidates (used to re-check after a further wait) and records nothing.
func c20Analyse(rep *verifutil.Report, pl *c20Plan, out *c20Out, progressOnly bool) []int {
	ev := out.ev
	anns := make([]c20AnnRec, len(pl.anns))
	pair := map[[2]int]int{}
	for _, a := range pl.anns {
		pair[[2]int{a.peer, a.hash}] = a.idx
	}
	adds := map[int]*c20AddRec{}
	addHash := map[int]int{}
	addsOf := make([][]int, pl.H)
	regRet := make([][]int, pl.H) // seqs of returned RegisterPull calls
	viol := func(sig, desc string, h int) {
		if rep == nil || progressOnly {
			return
		}
		rep.Violation(sig, fmt.Sprintf("[tracker level, %s, pullDelay=%v] %s | history of the hash: %s", pl.label, pl.pullDelay, desc,
			strings.Join(c20History(pl, ev, h, addHash), "; ")), map[string]interface{}{"plan": pl.label, "hash": h})
	}
	// pass 1: index
	minReg := make([]int64, pl.H)
	minFb := make([]int64, pl.H)
	for h := range minReg {
		minReg[h], minFb[h] = math.MaxInt64, math.MaxInt64
	}
	fallbackChecked := 0
	for seq, e := range ev {
		switch e.Kind {
		case c20RegCall, c20PendCall:
			a := &anns[e.Idx]
			a.called, a.pend, a.callSeq, a.tCall, a.retSeq = true, e.Kind == c20PendCall, seq, e.T, math.MaxInt32
			if e.Kind == c20RegCall && e.T < minReg[e.Hash] {
				minReg[e.Hash] = e.T
			}
		case c20RegRet, c20PendRet:
			anns[e.Idx].retSeq = seq
			if e.Kind == c20RegRet {
				regRet[e.Hash] = append(regRet[e.Hash], seq)
			}
		case c20AddCall:
			adds[e.Idx] = &c20AddRec{callSeq: seq, retSeq: math.MaxInt32, markSeq: -1}
			addHash[e.Idx] = e.Hash
			addsOf[e.Hash] = append(addsOf[e.Hash], e.Idx)
		case c20AddRet:
			adds[e.Idx].retSeq = seq
		case c20ArrMark:
			if a := adds[e.Idx]; a != nil {
				a.markSeq = seq
			}
		case c20Req:
			if e.Hash < 0 {
				viol("request:unknown-pair", "a request for a peer/hash that was never announced was emitted", -1)
				continue
			}
			ai, ok := pair[[2]int{e.Peer, e.Hash}]
			if !ok || !anns[ai].called || !anns[ai].pend {
				viol("request:unknown-pair", fmt.Sprintf("request to p%d who never was queued for this hash", e.Peer), e.Hash)
				continue
			}
			anns[ai].reqSeq = append(anns[ai].reqSeq, seq)
			anns[ai].reqT = append(anns[ai].reqT, e.T)
			// ---- pull-delay lower bound
			h := e.Hash
			ref := minReg[h]
			if minFb[h] < ref {
				ref = minFb[h]
			}
			if ref == math.MaxInt64 {
				viol("pull-delay:no-prior-pull", fmt.Sprintf("request to p%d although no pull of the hash had been registered", e.Peer), h)
				continue
			}
			fallbackChecked++
			if e.T+c20Slack < ref+int64(pl.pullDelay) {
				viol("pull-delay:fallback-too-early", fmt.Sprintf("request to further announcer p%d received %.2fms after the call of the earliest pull it can derive from (%.2fms); pullDelay is %v",
					e.Peer, float64(e.T-ref)/1e6, float64(ref)/1e6, pl.pullDelay), h)
			}
			if ref+int64(pl.pullDelay) < minFb[h] {
				minFb[h] = ref + int64(pl.pullDelay)
			}
		}
	}
	// per hash
	annsOf := make([][]int, pl.H)
	for i := range anns {
		if anns[i].called {
			annsOf[pl.anns[i].hash] = append(annsOf[pl.anns[i].hash], i)
		}
	}
	var candidates []int
	type stat struct{ fallback, arrBefore, known, capPend, covered, uncovered, dup int }
	var st stat
	for h := 0; h < pl.H; h++ {
		sort.Slice(annsOf[h], func(i, j int) bool { return anns[annsOf[h][i]].callSeq < anns[annsOf[h][j]].callSeq })
		D, DCall, markSeq := math.MaxInt32, math.MaxInt32, -1
		for _, ai := range addsOf[h] {
			a := adds[ai]
			if a.retSeq < D {
				D, markSeq = a.retSeq, a.markSeq
			}
			if a.callSeq < DCall {
				DCall = a.callSeq
			}
		}
		if progressOnly {
			if len(addsOf[h]) == 0 && out.quiescent {
				for _, i := range annsOf[h] {
					a := &anns[i]
					if a.pend && len(a.reqSeq) == 0 && len(regRet[h]) > 0 && regRet[h][0] < a.callSeq {
						candidates = append(candidates, i)
					}
				}
			}
			continue
		}
		nReq, reqBeforeD, afterMark, pendBeforeD := 0, 0, 0, 0
		for _, i := range annsOf[h] {
			a := &anns[i]
			if !a.pend {
				continue
			}
			known := a.callSeq > D
			if known {
				st.known++
				if len(a.reqSeq) > 0 {
					viol("known-item:requested", fmt.Sprintf("p%d was queued (AddPendingPush call #%d) after Add had returned (#%d), yet a request to it was emitted (#%d)",
						pl.anns[i].peer, a.callSeq, D, a.reqSeq[0]), h)
				}
			} else {
				st.capPend++
				if a.callSeq < DCall {
					pendBeforeD++
				}
			}
			if len(a.reqSeq) > 1 {
				st.dup++
				viol("duplicate-request", fmt.Sprintf("(p%d, hash) was requested %d times (#%v)", pl.anns[i].peer, len(a.reqSeq), a.reqSeq), h)
			}
			for _, s := range a.reqSeq {
				nReq++
				if s < D {
					reqBeforeD++
				}
				if !known && markSeq >= 0 && s > markSeq {
					afterMark++
				}
			}
			// ---- progress
			if len(addsOf[h]) == 0 && out.quiescent && len(a.reqSeq) == 0 {
				if len(regRet[h]) > 0 && regRet[h][0] < a.callSeq {
					st.covered++
					viol("progress:announcer-forgotten:covered", fmt.Sprintf("the item never arrived, the queue is empty, but p%d (queued by call #%d after RegisterPull had returned at #%d) was never requested",
						pl.anns[i].peer, a.callSeq, regRet[h][0]), h)
				} else {
					st.uncovered++
				}
			}
		}
		if afterMark > 1 {
			viol("after-arrival:request-issued", fmt.Sprintf("%d requests were received behind the marker that was put into the request channel after Add had returned (#%d); one (in the loop's hands) is explicable",
				afterMark, D), h)
		}
		if nReq > 0 {
			st.fallback++
		}
		if D != math.MaxInt32 && reqBeforeD == 0 && pendBeforeD > 0 {
			st.arrBefore++
		}
		// ---- evidence: event-order signature of the hash
		if rep != nil && len(annsOf[h]) >= 2 {
			rank := map[int]int{}
			var sb strings.Builder
			nontrivial := false
			for seq, e := range ev {
				if e.Hash != h {
					continue
				}
				r, ok := rank[e.Peer]
				if !ok && e.Peer >= 0 {
					r = len(rank)
					rank[e.Peer] = r
				}
				switch e.Kind {
				case c20RegCall:
					fmt.Fprintf(&sb, "d%d ", r)
				case c20PendCall:
					if seq > D {
						fmt.Fprintf(&sb, "k%d ", r)
					} else {
						fmt.Fprintf(&sb, "q%d ", r)
					}
				case c20Req:
					fmt.Fprintf(&sb, "F%d ", r)
					nontrivial = true
				case c20AddRet:
					if seq == D {
						sb.WriteString("+ ")
						nontrivial = true
					}
				}
			}
			if nontrivial {
				rep.Distinct("tracker", pl.cap[h], sb.String())
				if sig := sb.String(); pl.label == "generated" && strings.Contains(sig, "F") && strings.Contains(sig, "+") && strings.Contains(sig, "k") {
					rep.Sample(map[string]interface{}{"level": "tracker", "pullDelay": pl.pullDelay.String(), "direct_cap": pl.cap[h],
						"order_signature": sb.String(), "history": c20History(pl, ev, h, addHash)})
				}
			}
		}
	}
	if progressOnly {
		return candidates
	}
	// ---- growth
	pulled := 0
	for h := 0; h < pl.H; h++ {
		if minReg[h] != math.MaxInt64 {
			pulled++
		}
	}
	if out.quiescent {
		if out.active > pulled {
			viol("growth:active-pulls", fmt.Sprintf("%d entries in the active-pull registry after quiescence, only %d hashes were ever pulled", out.active, pulled), -1)
		}
		if out.chanLeft != 0 {
			rep.Note("tracker run: %d requests left in the channel at the end", out.chanLeft)
		}
	}
	if out.maxQueue > maxPendingPushes+pl.P {
		viol("growth:pending-queue", fmt.Sprintf("pending queue reached %d entries, documented cap %d (+%d concurrent callers)", out.maxQueue, maxPendingPushes, pl.P), -1)
	}
	rep.Count("fallback_checked", fallbackChecked)
	rep.Count("hashes_fallback_seen", st.fallback)
	rep.Count("hashes_arrival_before_fallback", st.arrBefore)
	rep.Count("known_item_announcements", st.known)
	rep.Count("cap_path_pendings", st.capPend)
	rep.Count("pend_before_registerpull_returned_unrequested", st.uncovered)
	rep.Count("seen_forgotten_after_completed_pull", st.covered)
	rep.Count("seen_duplicate_pairs", st.dup)
	rep.Count("tracker_events", len(ev))
	rep.Max("tracker_max_queue", out.maxQueue)
	return nil
}

// ---------------------------------------------------------------- cap / expiry

// c20Flood: more queued announcers than maxPendingPushes from several callers.
func c20Flood(rep *verifutil.Report) {
	tracker := NewDefaultPushTracker(time.Hour)
	NewDefaultHolder(3, tracker)
	const callers, hashes = 8, 64
	per := (maxPendingPushes + 6000) / callers
	var hs []common.Hash128
	for i := 0; i < hashes; i++ {
		h := c20MarkerHash(i)
		h[0] = 0x11
		hs = append(hs, h)
		tracker.RegisterPull(h)
	}
	var wg sync.WaitGroup
	var maxQ int64
	for c := 0; c < callers; c++ {
		wg.Add(1)
		go func(c int) {
			defer wg.Done()
			for i := 0; i < per; i++ {
				tracker.AddPendingPush(peer.ID(fmt.Sprintf("f%d-%d", c, i)), hs[(i+c)%hashes])
				if i%64 == 0 {
					if q := int64(tracker.pendingPushes.Len()); q > atomic.LoadInt64(&maxQ) {
						atomic.StoreInt64(&maxQ, q)
					}
				}
			}
		}(c)
	}
	wg.Wait()
	q := tracker.pendingPushes.Len()
	if int64(q) > maxQ {
		maxQ = int64(q)
	}
	rep.Eval(1)
	rep.Max("flood_queue_len", int(maxQ))
	if q >= maxPendingPushes {
		rep.Count("flood_cap_reached", 1)
	}
	if maxQ > int64(maxPendingPushes+callers) {
		rep.Violation("growth:pending-queue", fmt.Sprintf("[tracker level, flood] %d announcers offered by %d callers: queue grew to %d, cap is %d",
			per*callers, callers, maxQ, maxPendingPushes), nil)
	}
}

// c20Expiry (thorough only; the gc period is one real minute): registry entries older than
// five minutes disappear at the first gc pass, fresh ones stay.
func c20Expiry(rep *verifutil.Report, done chan struct{}) {
	defer close(done)
	tracker := NewDefaultPushTracker(time.Hour)
	NewDefaultHolder(3, tracker)
	var old, fresh []common.Hash128
	for i := 0; i < 200; i++ {
		h := c20MarkerHash(i)
		if i%2 == 0 {
			h[0] = 0x21
			old = append(old, h)
			tracker.activePulls.Store(h, time.Now().Add(-6*time.Minute))
		} else {
			h[0] = 0x22
			fresh = append(fresh, h)
			tracker.RegisterPull(h)
		}
	}
	left := func(l []common.Hash128) int {
		n := 0
		for _, h := range l {
			if _, ok := tracker.activePulls.Load(h); ok {
				n++
			}
		}
		return n
	}
	deadline := time.Now().Add(150 * time.Second)
	stable, last := 0, len(old)
	for left(old) > 0 && time.Now().Before(deadline) {
		time.Sleep(time.Second)
		// a collector pass visits the whole registry in one go: once it has removed SOME of the
		// equally old entries and the count then stands still, the pass is over
		if n := left(old); n < len(old) && n > 0 {
			if n == last {
				stable++
			} else {
				stable, last = 0, n
			}
			if stable >= 5 {
				rep.Eval(1)
				rep.Violation("growth:abandoned-pulls-not-collected", fmt.Sprintf("[tracker level, expiry] a pass of the collector removed %d of %d registry entries that are all older than 5 minutes and left the other %d (count unchanged for 5 s after the first removal)",
					len(old)-n, len(old), n), nil)
				return
			}
		}
	}
	rep.Eval(1)
	if n := left(old); n > 0 {
		rep.Inconcl("expiry: %d of %d registry entries older than 5 minutes still present 150s after start (gc period 60s)", n, len(old))
		return
	}
	rep.Count("expiry_old_entries_collected", len(old))
	if n := left(fresh); n != len(fresh) {
		rep.Violation("growth:fresh-pull-expired", fmt.Sprintf("[tracker level, expiry] %d of %d fresh registry entries were collected by the gc pass", len(fresh)-n, len(fresh)), nil)
	}
}

// ---------------------------------------------------------------- test

func TestVerifC20Tracker(t *testing.T) {
	if !verifutil.Enabled() {
		t.Skip("verif harness")
	}
	rep := verifutil.NewReport()
	defer rep.Write()
	bareEvery, _ := strconv.Atoi(os.Getenv("VERIF_C20_BARE_EVERY"))
	var expiryDone chan struct{}
	if verifutil.Shard() == 0 {
		c20Flood(rep)
		if verifutil.Thorough() && os.Getenv("VERIF_C20_EXPIRY") != "" {
			expiryDone = make(chan struct{})
			go c20Expiry(rep, expiryDone)
		}
	}
	n := verifutil.Scale(40, 1600) / verifutil.NShards()
	for i := 0; i < n; i++ {
		rng := verifutil.Stream(20, 1, uint64(i))
		var pl *c20Plan
		if i == 0 {
			pl = c20DirectedPlan()
		} else {
			pl = c20GenPlan(rng, verifutil.Scale(200, 200), 8)
		}
		bare := bareEvery > 0 && i > 0 && i%bareEvery == 0
		rep.Progress("tracker run %d (%s) bare=%v", i, pl.label, bare)
		out := c20Run(rep, rng, pl, bare)
		rep.Eval(1)
		if bare {
			rep.Count("bare_runs", 1)
			continue
		}
		rep.Count("recorded_runs", 1)
		c20Analyse(rep, pl, out, false)
	}
	if expiryDone != nil {
		<-expiryDone
	}
}
