package protocol

// C18 (protocol): every gossip message defined in this package round-trips (envelope,
// handshake, push/pull hash, shard update, batch, disconnect, block range). The messages that
// carry blockchain/types objects are covered in that package; the three request messages
// (GetBlockByHash / GetBlocksRange / GetForkBlockRange) are generated protobuf structs used
// directly, there is no hand-written mapping to observe.

import (
	"testing"

	"github.com/idena-network/idena-go/log"
	"github.com/idena-network/idena-go/verifutil"
)

// No transient fields: the wire structs of this package are plain data. (The nested
// types.Header / types.BlockCert / state.IdentityStateDiff have none either.)
var c18Transient = map[string]string{}

func TestVerifC18Codec(t *testing.T) {
	if !verifutil.Enabled() {
		t.Skip("verif harness")
	}
	log.Root().SetHandler(log.DiscardHandler())
	rep := verifutil.NewReport()
	defer rep.Write()
	std := verifutil.StdCodec
	s := &verifutil.Schema{Transient: c18Transient}
	cr := &verifutil.CodecRun{Rep: rep, S: s, Pkg: "protocol", PropNo: 18, Types: []*verifutil.CodecType{
		std("protocol.Msg", func() interface{} { return new(Msg) }),
		std("protocol.handshakeData", func() interface{} { return new(handshakeData) }),
		std("protocol.pushPullHash", func() interface{} { return new(pushPullHash) }),
		std("protocol.updateShardId", func() interface{} { return new(updateShardId) }),
		std("protocol.msgBatch", func() interface{} { return new(msgBatch) }),
		std("protocol.disconnect", func() interface{} { return new(disconnect) }),
		std("protocol.blockRange", func() interface{} { return new(blockRange) }),
	}}
	cr.Run(verifutil.Scale(600, 30000)/verifutil.NShards(), 0)
}
