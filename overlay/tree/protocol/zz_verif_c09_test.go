//go:build verif && c09

package protocol_test

// C09 — "a crash at any storage write leaves a node that restarts into a consistent chain", the
// part that crashes the REAL fast sync of protocol/fast.go (the job "crash" in verifsim crashes
// block insertions, fork switches and an EMULATION of fast sync's last phase; a change of
// fast.go, of the order of operations in postConsuming or of the header phase is invisible to it).
//
// What is real here: the syncing node and the server are two IdenaGossipHandler instances built by
// the real constructor and connected by an in-memory duplex stream (see zz_verif_c11net_test.go);
// the node runs the real fastSync object: preConsuming (CreatePreliminaryCopy / LoadPreliminary /
// dropPreliminaries), processBatch -> validateHeader / applyDeferredBlocks (CommitTree of the
// preliminary identity tree, AddHeaderUnsafe, WriteIdentityStateDiff, WriteCertificate, tx index /
// receipts of the node's own transactions), an interrupted sync resumed by a new applier, and
// postConsuming (SnapshotManager.DownloadSnapshot, RecoverSnapshot2, SaveForcedVersion,
// AtomicSwitchToPreliminary including the background clean-up of the replaced databases).
// The node's database is a verifsim.CrashDB: the k-th durable write (single put/delete or atomic
// batch) and everything after it never reaches the database.
//
// Per plan (server, pre-sync height of the node - reached by full sync from genesis or by an earlier,
// complete fast sync plus full sync -, manifest height, batch size, interruption):
//   1. one never-crashed run counts the writes and records, per write, its class (kind of write :
//      kind of key) and the phase it belongs to (taken from the call stack of the write);
//   2. for every sampled write index k (all writes of the short phases, both sides of every phase
//      boundary, every distinct (phase, class before, class) transition, PRNG-chosen others) the same
//      sync runs on a fresh CrashDB armed at k; then the surviving database is started by the
//      start-up sequence the simulator mirrors from node.StartWithHeight (InitializeChain,
//      appState.Initialize(head) [fallback 0], EnsureIntegrity, txpool.Initialize).
// Oracles (only what C09 states):
//   - start-up neither fails nor panics;
//   - the head's roots equal the roots of the loaded state and identity state;
//   - the head is the snapshot height (the switch happened) or the pre-sync height / a retained
//     height below it (it did not);
//   - the restarted node can complete: it either resumes the real fast sync with a new applier
//     (the real preConsuming decides whether it goes on from the preliminary head or drops the
//     preliminaries; as Downloader.SyncBlockchain does, a failed Load is followed by another one)
//     or full-syncs the canonical blocks, then accepts the following canonical blocks, and ends
//     with the head and the full contents of both trees of a node that never crashed.
// Mirrored, not executed: node.StartWithHeight (Replica.boot), the loop of Downloader.Load that
// cuts the range into batches, the manifest gossip (the manifest is built from the server's own
// WriteSnapshot2 export), and the full-sync alternative after the restart (blocks are handed to
// Blockchain.AddBlock directly).

import (
	"bytes"
	"fmt"
	"os"
	"runtime"
	"sort"
	"strings"
	"sync/atomic"
	"testing"
	"time"

	mapset "github.com/deckarep/golang-set"
	"github.com/idena-network/idena-go/blockchain/types"
	"github.com/idena-network/idena-go/core/state"
	"github.com/idena-network/idena-go/core/state/snapshot"
	"github.com/idena-network/idena-go/log"
	"github.com/idena-network/idena-go/protocol"
	"github.com/idena-network/idena-go/verifsim"
	"github.com/idena-network/idena-go/verifutil"
	dbm "github.com/tendermint/tm-db"
)

// ------------------------------------------------------------------ phase of a write (from its call stack)

// set by the sync driver once a second applier took over (interrupted + resumed sync)
var c09Resumed atomic.Bool

// c09StackPhase names the part of the real fast sync the calling write belongs to. Order matters:
// the innermost operation wins.
func c09StackPhase() string {
	var pcs [64]uintptr
	n := runtime.Callers(3, pcs[:])
	frames := runtime.CallersFrames(pcs[:n])
	var fns []string
	for {
		f, more := frames.Next()
		if i := strings.LastIndex(f.Function, "/"); i >= 0 {
			fns = append(fns, f.Function[i+1:])
		} else {
			fns = append(fns, f.Function)
		}
		if !more {
			break
		}
	}
	has := func(sub string) bool {
		for _, f := range fns {
			if strings.Contains(f, sub) {
				return true
			}
		}
		return false
	}
	res := func(s string) string {
		if c09Resumed.Load() && strings.HasPrefix(s, "headers") {
			return s + "-resumed"
		}
		return s
	}
	switch {
	case has(".AtomicSwitchToPreliminary."): // the closure started by `go`: clean-up of the replaced dbs
		return "switch-cleanup"
	case has(".AtomicSwitchToPreliminary"):
		return "switch"
	case has(".SaveForcedVersion"):
		return "forced-identity-version"
	case has(".RecoverSnapshot2"):
		return "snapshot-import"
	case has(".DownloadSnapshot"):
		return "snapshot-download"
	case has(".dropPreliminaries"):
		return "drop-preliminaries"
	case has(".CreatePreliminaryCopy"):
		return "preliminary-copy"
	case has(".applyDeferredBlocks"):
		return res("headers")
	case has(".postConsuming"):
		return "postConsuming-other"
	case has(".preConsuming"):
		return "preConsuming-other"
	case has(".processBatch"):
		return res("headers-other")
	}
	return "other"
}

// ------------------------------------------------------------------ plans and context

type c09Plan struct {
	server    string
	base      uint64 // the node is fully synced up to here before the fast sync (0 = genesis only)
	snapH     uint64 // manifest height
	batch     uint64 // 0 = fastSync.batchSize()
	interrupt int    // > 0: after that many batches the applier is abandoned and a new one resumes
	viaFast   uint64 // > 0: the node reached base by an earlier (complete) fast sync to this height + full sync
}

func (p c09Plan) String() string {
	s := fmt.Sprintf("%s base=%d snap=%d batch=%d interrupt=%d", p.server, p.base, p.snapH, p.batch, p.interrupt)
	if p.viaFast > 0 {
		s += fmt.Sprintf(" fast-synced-before=%d", p.viaFast)
	}
	return s
}

type c09Ctx struct {
	t     *testing.T
	rep   *verifutil.Report
	env   *verifsim.C11Env
	logs  *c11Logs
	r     *verifutil.Rng
	world int
	stop  bool
	dirs  []string

	nStuck int
}

const c09Scenario = "RealFastSync"

func c09Sig(phase string) string { return c09Scenario + "(" + phase + ")" }

func (c *c09Ctx) manifestFrom(r *verifsim.Replica, h uint64) (*snapshot.Manifest, error) {
	var buf bytes.Buffer
	root, err := r.AppState.State.WriteSnapshot2(h, &buf)
	if err != nil {
		return nil, err
	}
	id, err := r.Ipfs.Add(buf.Bytes(), true)
	if err != nil {
		return nil, err
	}
	return &snapshot.Manifest{Height: h, Root: root, CidV2: id.Bytes()}, nil
}

// scratch boots a replica on db by the mirrored start-up sequence and remembers its data dir.
func (c *c09Ctx) scratch(db dbm.DB, name string) (*verifsim.Replica, error) {
	r, err := c.env.W.ScratchReplica(db, name)
	if r != nil && r.Cfg != nil {
		c.dirs = append(c.dirs, r.Cfg.DataDir)
	}
	return r, err
}

func (c *c09Ctx) cleanDirs() {
	for _, d := range c.dirs {
		os.RemoveAll(d)
	}
	c.dirs = nil
}

// ------------------------------------------------------------------ one real fast sync (crash-aware)

type c09Sync struct {
	c         *c09Ctx
	cli, srv  *c11Node
	m         *snapshot.Manifest
	batch     uint64
	interrupt int
	cdb       *verifsim.CrashDB // nil = the node's database does not crash
	tag       string

	step        string // the step the driver entered last
	resumedFrom uint64 // what the first preConsuming returned
	batches     int
	marks       []c09Mark
}

type c09Mark struct {
	step   string
	writes int // writes counted before the step
}

func (s *c09Sync) dead() bool {
	if s.cdb == nil {
		return false
	}
	_, crashed := s.cdb.Count()
	return crashed
}

func (s *c09Sync) enter(step string) {
	s.step = step
	if s.cdb != nil {
		n, _ := s.cdb.Count()
		s.marks = append(s.marks, c09Mark{step, n})
	}
}

// run drives the real fastSync of s.cli to the manifest height, fed by s.srv over the wire. It
// comes back early (nil) when the database "died"; the caller looks at the CrashDB.
func (s *c09Sync) run() error {
	rep := s.c.rep
	cli, srv, m := s.cli, s.srv, s.m
	s.enter("connect")
	link, err := c11Connect(cli, srv)
	if err != nil {
		return err
	}
	defer link.close()
	// (the applier's type is unexported: everything that touches it stays behind closures)
	newFs := func() (fsPre func(*types.Header) (uint64, error), fsBatch func(from, to uint64) error, fsPost func() error, fsSize func() uint64) {
		r := cli.r
		fs := protocol.NewFastSync(cli.h, log.New(), r.Chain, r.Ipfs, r.AppState, mapset.NewSet(), m, cli.n.Snapshots, r.Bus, r.SecStore.GetAddress(),
			cli.n.KeyStore, cli.n.SubManager, r.Upgrader)
		h, sid := cli.h, srv.id
		return fs.VerifPreConsuming,
			func(from, to uint64) error {
				b, err := h.GetBlocksRange(sid, from, to)
				if err != nil {
					return fmt.Errorf("GetBlocksRange: %w", err)
				}
				return fs.VerifProcessBatch(b, 1)
			}, fs.VerifPostConsuming, fs.VerifBatchSize
	}
	pre, batch, post, size := newFs()
	s.enter("preConsuming")
	from, err := pre(cli.r.Head())
	if err != nil || s.dead() {
		return err
	}
	s.resumedFrom = from
	srvHeight := srv.r.Head().Height()
	for from <= m.Height {
		bs := s.batch
		if bs == 0 {
			bs = size()
		}
		to := minU(from+bs, minU(m.Height, srvHeight)) // Downloader.Load
		rep.Progress("C09 real fast sync %s: batch %d..%d (manifest %d)", s.tag, from, to, m.Height)
		s.enter("processBatch")
		if err := batch(from, to); err != nil || s.dead() {
			return err
		}
		from = to + 1
		s.batches++
		if s.interrupt == s.batches && from <= m.Height {
			// Downloader.Load came back before the range was complete (consumer timeout, peer loss);
			// SyncBlockchain calls Load again: a new applier starts with preConsuming on the same chain.
			c09Resumed.Store(true)
			pre, batch, post, size = newFs()
			s.enter("preConsuming-resume")
			if from, err = pre(cli.r.Head()); err != nil || s.dead() {
				return err
			}
		}
	}
	s.enter("postConsuming")
	return post()
}

// c09Run is one sync on a CrashDB armed at k (0 = count only).
type c09Run struct {
	cdb     *verifsim.CrashDB
	x       *c11Node
	s       *c09Sync
	err     error
	crashed bool
	other   interface{}
	settled bool
	log     []string
	phases  []string
}

func (c *c09Ctx) runOnCrashDB(preDB dbm.DB, srv *c11Node, m *snapshot.Manifest, p c09Plan, k int, name string) (*c09Run, error) {
	cdb := verifsim.NewCrashDB(verifsim.CloneDB(preDB))
	cdb.Background = true
	cdb.Classify = c09StackPhase
	X, err := c.scratch(cdb, name)
	if err != nil {
		return nil, fmt.Errorf("boot: %w", err)
	}
	x := c11NewNode(c.t, X, name)
	// the databases AtomicSwitchToPreliminary replaces (their prefixes do not change before the switch)
	idp, err1 := state.IdentityStateDbKeys.LoadDbPrefix(cdb, false)
	stp, err2 := state.StateDbKeys.LoadDbPrefix(cdb)
	if err1 != nil || err2 != nil {
		return nil, fmt.Errorf("db prefixes: %v %v", err1, err2)
	}
	run := &c09Run{cdb: cdb, x: x, settled: true}
	run.s = &c09Sync{c: c, cli: x, srv: srv, m: m, batch: p.batch, interrupt: p.interrupt, cdb: cdb, tag: fmt.Sprintf("world %d %s k=%d", c.world, p, k)}
	c09Resumed.Store(false)
	c.logs.reset()
	cdb.Arm(k)
	run.crashed, run.other = cdb.RunToCrash(func() {
		run.err = run.s.run()
		if run.err == nil && !run.s.dead() {
			// the goroutine AtomicSwitchToPreliminary started empties the two replaced databases
			run.settled = cdb.WaitEmptied(idp, stp)
		}
	})
	_, run.crashed = cdb.Count()
	run.log, run.phases = cdb.Snapshot()
	cdb.Disarm()
	c09Resumed.Store(false)
	return run, nil
}

// ------------------------------------------------------------------ crash point selection

// c09CrashPoints: all writes of the short phases, the first and last few, both sides of every
// phase boundary, up to perTransition occurrences of every distinct (phase, class before, class)
// transition, and PRNG-chosen others up to the budget (all = every write).
func c09CrashPoints(wlog, phases []string, r *verifutil.Rng, budget, perTransition int, all bool) []int {
	n := len(wlog)
	var l []int
	if all || n <= budget {
		for k := 1; k <= n; k++ {
			l = append(l, k)
		}
		return l
	}
	seen := map[int]bool{}
	add := func(k int) {
		if k >= 1 && k <= n && !seen[k] {
			seen[k] = true
			l = append(l, k)
		}
	}
	for _, k := range []int{1, 2, 3, n - 2, n - 1, n} {
		add(k)
	}
	perPhase := map[string][]int{}
	for i, ph := range phases {
		perPhase[ph] = append(perPhase[ph], i+1)
	}
	var names []string
	for ph := range perPhase {
		names = append(names, ph)
	}
	sort.Strings(names)
	for _, ph := range names {
		if ks := perPhase[ph]; len(ks) <= 8 {
			for _, k := range ks {
				add(k)
			}
		}
	}
	// phase boundaries: the last write of a phase and the first one of the next (bounded: phases may alternate)
	nb := 0
	for i := 1; i < n && nb < budget/3; i++ {
		if phases[i] != phases[i-1] {
			add(i)
			add(i + 1)
			nb++
		}
	}
	// transitions
	trans := map[string][]int{}
	var tnames []string
	for i := 0; i < n; i++ {
		prev := "start"
		if i > 0 {
			prev = verifsim.WriteClass(wlog[i-1])
		}
		key := phases[i] + "|" + prev + "|" + verifsim.WriteClass(wlog[i])
		if _, ok := trans[key]; !ok {
			tnames = append(tnames, key)
		}
		trans[key] = append(trans[key], i+1)
	}
	sort.Strings(tnames)
	for _, key := range tnames {
		ks := trans[key]
		for j := 0; j < perTransition && j < len(ks); j++ {
			add(ks[r.Intn(len(ks))])
		}
	}
	// the clean-up of the replaced databases is one delete per key (most of the writes of a sync):
	// a few PRNG-chosen ones there, the rest of the budget goes to the other phases
	var cleanup, others []int
	for i, ph := range phases {
		if ph == "switch-cleanup" {
			cleanup = append(cleanup, i+1)
		} else {
			others = append(others, i+1)
		}
	}
	for j := 0; j < budget/12 && len(cleanup) > 0; j++ {
		add(cleanup[r.Intn(len(cleanup))])
	}
	for tries := 0; len(l) < budget && len(others) > 0 && tries < 20*budget; tries++ {
		add(others[r.Intn(len(others))])
	}
	sort.Ints(l)
	return l
}

// ------------------------------------------------------------------ restart, oracles, completion

type c09Ref struct {
	head   string
	digest verifsim.StateDigest
}

func (c *c09Ctx) feed(from, to uint64) []*types.Block {
	var l []*types.Block
	for h := from; h <= to; h++ {
		if b := c.env.Canon[h]; b != nil {
			l = append(l, b)
		}
	}
	return l
}

// resume lets the restarted node complete the fast sync the way Downloader.SyncBlockchain does:
// Load (new applier: preConsuming, batches, postConsuming) until one gets through. It returns
// the node, the step and reason class of the last failure ("" = completed).
func (c *c09Ctx) resume(R *verifsim.Replica, srv *c11Node, m *snapshot.Manifest, p c09Plan, tag string) (step, why string, err error, harness bool) {
	for attempt := 1; attempt <= 2; attempt++ {
		x := c11NewNode(c.t, R, "restarted")
		c.logs.reset()
		prelim := R.Chain.PreliminaryHead
		headBefore := R.Head().Height()
		s := &c09Sync{c: c, cli: x, srv: srv, m: m, batch: p.batch, tag: tag + fmt.Sprintf(" resume attempt %d", attempt)}
		var e error
		if pv, stack := verifutil.Catch(func() { e = s.run() }); pv != nil {
			return s.step, "panic:" + verifutil.TopRepoFrame(stack), fmt.Errorf("panic: %v", pv), false
		}
		if attempt == 1 && prelim != nil && s.resumedFrom > 0 {
			if s.resumedFrom == prelim.Height()+1 && prelim.Height() > headBefore {
				c.rep.Count("real_sync_resumed_from_preliminary_head_after_crash", 1)
			} else {
				c.rep.Count("real_sync_preliminaries_dropped_after_crash", 1)
			}
		}
		if e == nil {
			if attempt > 1 {
				c.rep.Count("real_sync_completed_after_failed_load", 1)
			}
			return "", "", nil, false
		}
		step, err = s.step, e
		why = c.logs.reason()
		all := strings.Join(c.logs.all(), " | ")
		if step == "connect" || why == "" && strings.Contains(all, "timeout was reached") {
			return step, why, e, true
		}
		if why == "" {
			why = verifsim.ErrClass(e)
		}
		if R.Head().Height() == m.Height {
			break
		}
	}
	return step, why, err, false
}

// recoverAndCheck restarts a node on the surviving database and applies the oracles.
func (c *c09Ctx) recoverAndCheck(surviving dbm.DB, srv *c11Node, m *snapshot.Manifest, p c09Plan, base, final uint64, k int, phase, class string, refFast, refFull c09Ref) {
	rep := c.rep
	sc := c09Sig(phase)
	where := fmt.Sprintf("real fast sync (%s) crashed at write %d (%s, %s)", p, k, phase, class)
	var R *verifsim.Replica
	var err error
	if pv, stack := verifutil.Catch(func() { R, err = c.scratch(surviving, "restarted") }); pv != nil {
		rep.Violation("restart-panics:"+sc+":"+class, fmt.Sprintf("%s: the start-up sequence panics: %v", where, pv), map[string]interface{}{"stack": verifutil.Trunc(stack, 3000)})
		return
	}
	if err != nil {
		rep.Violation("restart-fails:"+sc+":"+class, fmt.Sprintf("%s: the start-up sequence fails: %v", where, err), nil)
		return
	}
	rep.Count("real_sync_restarts_after_crash", 1)
	h := R.Head().Height()
	if R.Head().Root() != R.AppState.State.Root() || R.Head().IdentityRoot() != R.AppState.IdentityState.Root() {
		rep.Violation("head-state-mismatch-after-restart:"+sc, fmt.Sprintf("%s: after restart head %d has roots %x/%x but the loaded state has %x/%x", where, h,
			R.Head().Root().Bytes()[:6], R.Head().IdentityRoot().Bytes()[:6], R.AppState.State.Root().Bytes()[:6], R.AppState.IdentityState.Root().Bytes()[:6]), nil)
		return
	}
	switch {
	case h == m.Height:
		rep.Count("real_sync_restarted_at:snapshot-height", 1)
	case h == base:
		rep.Count("real_sync_restarted_at:pre-sync-head", 1)
	case h < base && h+uint64(state.MaxSavedStatesCount)+1 >= base:
		rep.Count("real_sync_restarted_at:below-pre-sync-head", 1)
	default:
		rep.Violation("head-out-of-range-after-restart:"+sc, fmt.Sprintf("%s: the node was at %d before the sync, the manifest is at %d, the restarted head is %d", where, base, m.Height, h), nil)
		return
	}
	if cb := c.env.Canon[h]; cb != nil && cb.Hash() != R.Head().Hash() {
		rep.Violation("head-not-canonical-after-restart:"+sc, fmt.Sprintf("%s: the restarted head %d is %x, canonical %x", where, h, R.Head().Hash().Bytes()[:6], cb.Hash().Bytes()[:6]), nil)
		return
	}
	if ph := R.Chain.PreliminaryHead; ph != nil {
		rep.Count("real_sync_restarts_with_preliminary_head", 1)
		if ph.Height() == m.Height {
			rep.Count("real_sync_restarts_with_preliminary_head_at_manifest_height", 1)
		}
	}
	// ---- the restarted node completes
	ref := refFast
	mode := "none"
	if h < m.Height {
		mode = "resume-fast-sync"
		if c.r.Intn(4) == 0 {
			mode = "full-sync"
		}
	}
	switch mode {
	case "resume-fast-sync":
		step, why, err, harness := c.resume(R, srv, m, p, fmt.Sprintf("world %d %s after crash at %d", c.world, p, k))
		if err != nil {
			if harness {
				rep.Inconcl("%s: the resumed fast sync did not get through in %s without a refusal by the node: %v; log: %s", where, step, err, strings.Join(c.logs.all(), " | "))
				c.stop = true
				return
			}
			rep.Violation("recovered-node-cannot-complete-sync:"+sc+":"+step+":"+why, fmt.Sprintf("%s: restarted at %d (preliminary head: %v); the fast sync from the same server to the same manifest "+
				"does not get through any more (two Loads), last failure in %s: %v; what the node logged: %s", where, h, prelimStr(R), step, err, strings.Join(c.logs.all(), " | ")),
				map[string]interface{}{"plan": p.String(), "k": k, "log": c.logs.all()})
			// every refused Load costs the wall-clock timeouts of the real code (20 s per reload)
			if c.nStuck++; c.nStuck >= 2 {
				c.stop = true
				rep.Note("two restarted nodes could not complete the fast sync: the remaining crash points of this child are skipped")
			}
			return
		}
		rep.Count("real_sync_resumed_after_crash", 1)
		if R.Head().Height() != m.Height || R.Head().Hash() != c.env.Canon[m.Height].Hash() ||
			R.Head().Root() != R.AppState.State.Root() || R.Head().IdentityRoot() != R.AppState.IdentityState.Root() {
			rep.Violation("recovered-node-differs:"+sc, fmt.Sprintf("%s: after restart and a completed fast sync the node is at %d %x with state roots %x/%x, canonical block %d is %x with roots %x/%x", where,
				R.Head().Height(), R.Head().Hash().Bytes()[:6], R.AppState.State.Root().Bytes()[:6], R.AppState.IdentityState.Root().Bytes()[:6],
				m.Height, c.env.Canon[m.Height].Hash().Bytes()[:6], c.env.Canon[m.Height].Root().Bytes()[:6], c.env.Canon[m.Height].IdentityRoot().Bytes()[:6]), nil)
			return
		}
	case "full-sync":
		ref = refFull
		rep.Count("real_sync_full_synced_after_crash", 1)
	}
	for _, b := range c.feed(R.Head().Height()+1, final) {
		var e error
		if pv, stack := verifutil.Catch(func() { e = R.AddBlock(b) }); pv != nil {
			rep.Violation("recovered-node-panics-on-next-block:"+sc, fmt.Sprintf("%s: restarted at %d (%s), adding canonical block %d panics: %v", where, h, mode, b.Height(), pv), map[string]interface{}{"stack": verifutil.Trunc(stack, 3000)})
			return
		}
		if e != nil {
			rep.Violation("recovered-node-refuses-next-block:"+sc+":"+verifsim.ErrClass(e), fmt.Sprintf("%s: restarted at %d (%s), canonical block %d (%s) is refused: %v", where, h, mode, b.Height(), verifsim.BlockKind(b), e), nil)
			return
		}
		rep.Count("real_sync_following_blocks_accepted_after_crash", 1)
	}
	d := verifsim.DigestState(R.AppState)
	rep.Count("real_sync_completions_compared_with_reference", 1)
	rep.Count("real_sync_completions_compared_with_reference:"+mode, 1)
	if R.Head().Hash().Hex() != ref.head || d != ref.digest {
		rep.Violation("recovered-node-differs:"+sc, fmt.Sprintf("%s: after recovery (%s) and the same blocks the node is at %s / %v, the never-crashed node at %s / %v", where, mode,
			R.Head().Hash().Hex()[:14], d, ref.head[:14], ref.digest), nil)
	}
}

func prelimStr(R *verifsim.Replica) string {
	if R.Chain.PreliminaryHead == nil {
		return "none"
	}
	return fmt.Sprint(R.Chain.PreliminaryHead.Height())
}

// ------------------------------------------------------------------ one plan

func (c *c09Ctx) planCase(srv *c11Node, p c09Plan) {
	rep, env := c.rep, c.env
	defer c.cleanDirs()
	rep.Progress("C09 real fast sync world %d: plan %s", c.world, p)
	// the node's database before the sync
	pdb := verifsim.NewCrashDB(dbm.NewMemDB()) // never armed: it only passes the writes on
	P, err := c.scratch(pdb, "presync")
	if err != nil {
		rep.Inconcl("scratch replica failed to boot: %v", err)
		return
	}
	if p.viaFast > 0 {
		// the node was brought to viaFast by an earlier fast sync (real, never crashed)
		m0, err := c.manifestFrom(srv.r, p.viaFast)
		if err != nil {
			rep.Inconcl("%s cannot export a snapshot at %d (head %d): %v", p.server, p.viaFast, srv.r.Head().Height(), err)
			return
		}
		idp, _ := state.IdentityStateDbKeys.LoadDbPrefix(pdb, false)
		stp, _ := state.StateDbKeys.LoadDbPrefix(pdb)
		c.logs.reset()
		s0 := &c09Sync{c: c, cli: c11NewNode(c.t, P, "presync"), srv: srv, m: m0, tag: fmt.Sprintf("world %d %s (earlier sync)", c.world, p)}
		if err := s0.run(); err != nil || !pdb.WaitEmptied(idp, stp) {
			rep.Inconcl("the earlier (never-crashed) real fast sync of plan %s did not get through (step %s): %v; what the node logged: %s", p, s0.step, err, strings.Join(c.logs.all(), " | "))
			return
		}
	}
	if p.base > 0 {
		if err := env.FollowTo(P, p.base); err != nil {
			rep.Inconcl("fresh node refused the canonical prefix: %v", err)
			return
		}
	}
	base := P.Head().Height()
	preDB := verifsim.CloneDB(pdb.Inner())
	m, err := c.manifestFrom(srv.r, p.snapH)
	if err != nil {
		rep.Inconcl("%s cannot export a snapshot at %d (head %d): %v", p.server, p.snapH, srv.r.Head().Height(), err)
		return
	}
	final := minU(env.Head, p.snapH+uint64(verifutil.Scale(5, 12)))
	// ---- never-crashed run: write count, write log, reference
	ref, err := c.runOnCrashDB(preDB, srv, m, p, 0, "reference")
	if err != nil {
		rep.Inconcl("reference node: %v", err)
		return
	}
	if ref.other != nil || ref.err != nil || ref.crashed || !ref.settled {
		// not a crash matter: the sync of correct artifacts fails without any crash (C11 decides about that)
		rep.Inconcl("the never-crashed real fast sync (%s) did not get through (step %s): err=%v panic=%v settled=%v; what the node logged: %s", p, ref.s.step, ref.err, ref.other, ref.settled,
			strings.Join(c.logs.all(), " | "))
		rep.Count("real_sync_reference_failed", 1)
		return
	}
	X := ref.x.r
	if X.Head().Height() != p.snapH || X.Head().Hash() != env.Canon[p.snapH].Hash() {
		rep.Inconcl("the never-crashed real fast sync (%s) ended at %d %x, canonical %x", p, X.Head().Height(), X.Head().Hash().Bytes()[:6], env.Canon[p.snapH].Hash().Bytes()[:6])
		return
	}
	for _, b := range c.feed(p.snapH+1, final) {
		if err := X.AddBlock(b); err != nil {
			rep.Inconcl("the never-crashed fast-synced node (%s) refused canonical block %d: %v", p, b.Height(), err)
			return
		}
	}
	refFast := c09Ref{head: X.Head().Hash().Hex(), digest: verifsim.DigestState(X.AppState)}
	// the never-crashed node that full-syncs instead
	F, err := c.scratch(verifsim.CloneDB(preDB), "reference-full")
	if err != nil {
		rep.Inconcl("reference node: %v", err)
		return
	}
	if err := env.FollowTo(F, final); err != nil {
		rep.Inconcl("the never-crashed fully synced node refused a canonical block: %v", err)
		return
	}
	refFull := c09Ref{head: F.Head().Hash().Hex(), digest: verifsim.DigestState(F.AppState)}
	if refFull != refFast {
		rep.Note("plan %s: the never-crashed fast-synced node and the never-crashed fully synced node differ at %d (%v vs %v); each recovery is compared with the node of its own kind", p, final, refFast, refFull)
	}
	n := len(ref.log)
	rep.Count("real_sync_plans", 1)
	rep.Count("real_sync_plans:"+p.server, 1)
	if p.base > 0 {
		rep.Count("real_sync_plans:prefix-synced-node", 1)
	} else {
		rep.Count("real_sync_plans:fresh-node", 1)
	}
	if p.interrupt > 0 && ref.s.batches > p.interrupt {
		rep.Count("real_sync_plans:interrupted-and-resumed", 1)
	}
	if p.viaFast > 0 {
		rep.Count("real_sync_plans:node-fast-synced-before", 1)
	}
	rep.Count("real_sync_reference_writes", n)
	rep.Max("max_writes_in_one_real_fast_sync", n)
	perPhase := map[string]int{}
	for _, ph := range ref.phases {
		perPhase[ph]++
	}
	if rep.Get("real_sync_samples_taken") < 2 {
		rep.Count("real_sync_samples_taken", 1)
		var seq []string
		last := ""
		for i := range ref.log {
			e := ref.phases[i] + "/" + verifsim.WriteClass(ref.log[i])
			if e != last {
				seq = append(seq, e)
				last = e
			}
		}
		if len(seq) > 400 {
			seq = append(seq[:200], seq[len(seq)-200:]...)
		}
		var steps []string
		for i, mk := range ref.s.marks {
			if i < 40 {
				steps = append(steps, fmt.Sprintf("%s@%d", mk.step, mk.writes))
			}
		}
		rep.Sample(map[string]interface{}{"scenario": c09Scenario, "plan": p.String(), "writes": n, "writes_per_phase": perPhase, "driver_steps_at_write": steps, "write_sequence_runs": seq})
	}
	// ---- crash points
	budget := verifutil.Scale(60, 110)
	points := c09CrashPoints(ref.log, ref.phases, c.r, budget, verifutil.Scale(1, 4), false)
	for _, k := range points {
		if c.stop {
			return
		}
		rep.Progress("C09 real fast sync world %d: plan %s crash at write %d/%d (%s, %s)", c.world, p, k, n, ref.phases[k-1], verifsim.WriteClass(ref.log[k-1]))
		v, err := c.runOnCrashDB(preDB, srv, m, p, k, "victim")
		if err != nil {
			rep.Note("victim node: %v", err)
			continue
		}
		if v.other != nil {
			rep.Note("unexpected panic (not the crash sentinel) during the real fast sync (%s, k=%d): %v", p, k, v.other)
			rep.Count("real_sync_unexpected_panics", 1)
			continue
		}
		if !v.crashed || len(v.log) < k {
			// the write sequence of this run was shorter than the reference's
			rep.Count("real_sync_crash_point_not_reached", 1)
			continue
		}
		phase, class := v.phases[k-1], verifsim.WriteClass(v.log[k-1])
		if phase != ref.phases[k-1] {
			rep.Count("real_sync_crash_phase_differs_from_reference_run", 1)
		}
		rep.Eval(1)
		rep.Count("real_sync_crash_points", 1)
		rep.Count("real_sync_crash_phase:"+phase, 1)
		rep.Count("real_sync_crash_class:"+class, 1)
		rep.Distinct(c09Scenario, c.world, p.String(), phase, class, k)
		c.recoverAndCheck(verifsim.CloneDB(v.cdb.Inner()), srv, m, p, base, final, k, phase, class, refFast, refFull)
		c.cleanDirs()
	}
}

// snapHeightWithCert: a height near want whose block the server still has a certificate for and
// whose state it can still export (a fast sync ends at a snapshot block, which always has one).
func (c *c09Ctx) snapHeightWithCert(srv *verifsim.Replica, want, lo uint64) (uint64, bool) {
	ok := func(h uint64) bool {
		b := c.env.Canon[h]
		return b != nil && !srv.Chain.GetCertificate(b.Hash()).Empty()
	}
	for h := want; h >= lo && h > 1; h-- {
		if ok(h) {
			return h, true
		}
	}
	for h := want + 1; h < c.env.Head; h++ {
		if ok(h) {
			return h, true
		}
	}
	return 0, false
}

func (c *c09Ctx) runWorld() {
	rep, env, r := c.rep, c.env, c.r
	head := env.Head
	servers := map[string]*verifsim.Replica{"straight-server": env.Straight, "sparse-cert-server": env.Sparse}
	nodes := map[string]*c11Node{}
	for _, name := range []string{"straight-server", "sparse-cert-server"} {
		if servers[name].Head().Hash() != env.Straight.Head().Hash() {
			rep.Note("%s is not on the canonical head: skipped", name)
			continue
		}
		nodes[name] = c11NewNode(c.t, servers[name], name)
	}
	nPlans := verifutil.Scale(3, 4)
	for pi := 0; pi < nPlans && !c.stop; pi++ {
		var p c09Plan
		lo := uint64(2)
		if head > 92 {
			lo = head - 90 // the server keeps the last state.MaxSavedStatesCount versions
		}
		// which kind of plan comes first rotates with the shard, so that every kind is run by several children
		switch (pi + verifutil.Shard()) % 3 {
		case 0: // a node that full-synced a prefix first; small batches, interrupted and resumed
			p = c09Plan{server: "straight-server", snapH: head - uint64(r.Range(3, 40)), batch: uint64(r.Range(6, 25)), interrupt: r.Range(1, 2)}
			p.base = p.snapH - uint64(r.Range(30, 70))
		case 1: // a fresh node, the batch size of the real downloader, certificates kept as a consensus follower keeps them
			p = c09Plan{server: "sparse-cert-server", snapH: head - uint64(r.Range(3, 30))}
		default: // a node that full-synced a long prefix
			p = c09Plan{server: []string{"sparse-cert-server", "straight-server"}[r.Intn(2)], snapH: head - uint64(r.Range(3, 60)), batch: uint64(r.Range(10, 60))}
			p.base = p.snapH - uint64(r.Range(12, 40))
			if r.Bool() {
				p.interrupt = 1
			}
		}
		if p.snapH < lo {
			p.snapH = lo
		}
		if nodes[p.server] == nil {
			p.server = "straight-server"
		}
		if p.server == "sparse-cert-server" {
			h, ok := c.snapHeightWithCert(servers[p.server], p.snapH, lo)
			if !ok {
				rep.Note("no block with a certificate in %d..%d on %s", lo, p.snapH, p.server)
				continue
			}
			p.snapH = h
		}
		if p.base >= p.snapH || p.base < 2 {
			p.base = 0
		}
		// some of the prefix-synced nodes got there by an earlier fast sync + full sync
		if p.base > 0 && r.Intn(5) < 2 {
			if v := p.base - uint64(r.Range(2, 6)); v >= lo && v > 3 {
				p.viaFast = v
				if p.server == "sparse-cert-server" {
					if h, ok := c.snapHeightWithCert(servers[p.server], v, lo); ok && h < p.base {
						p.viaFast = h
					} else {
						p.viaFast = 0
					}
				}
			}
		}
		c.planCase(nodes[p.server], p)
	}
}

func TestVerifC09RealFastSync(t *testing.T) {
	if !verifutil.Enabled() {
		t.Skip("verif harness")
	}
	rep := verifutil.NewReport()
	defer rep.Write()
	logs := &c11Logs{}
	log.Root().SetHandler(log.FuncHandler(logs.handle))
	nWorlds := verifutil.Scale(1, 2)
	steps := verifutil.Scale(150, 220)
	for wi := 0; wi < nWorlds; wi++ {
		variant := verifutil.Shard() + wi*verifutil.NShards()
		seed := verifutil.Seed()*1000003 + uint64(verifutil.Shard())*1009 + uint64(wi) + 900001
		rep.Progress("C09 real fast sync: building world %d (seed %d, %d steps)", wi, seed, steps)
		t0 := time.Now()
		env, err := verifsim.C11Build(verifsim.C11Options{Seed: seed, Variant: variant, Steps: steps})
		if err != nil {
			rep.Inconcl("world (seed %d) could not be built: %v", seed, err)
			continue
		}
		for _, n := range env.Notes {
			rep.Note("world seed %d: %s", seed, n)
		}
		rep.Count("real_sync_worlds", 1)
		rep.Note("world seed %d: head %d, built in %v", seed, env.Head, time.Since(t0).Round(time.Millisecond))
		if env.Head < 110 {
			rep.Inconcl("world (seed %d) is too short (%d blocks)", seed, env.Head)
			env.W.Cleanup()
			continue
		}
		c := &c09Ctx{t: t, rep: rep, env: env, logs: logs, r: verifutil.Stream(9, 77, uint64(wi)), world: wi}
		c.runWorld()
		env.W.Cleanup()
	}
}
