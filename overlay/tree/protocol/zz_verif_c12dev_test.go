//go:build verif && c12 && c12dev

package protocol_test

import (
	"fmt"
	"testing"

	"github.com/idena-network/idena-go/common"
	"github.com/idena-network/idena-go/protocol"
	"github.com/idena-network/idena-go/verifutil"
)

// development probe: allocation of handle for big batches (deleted after use)
func TestVerifC12DevAlloc(t *testing.T) {
	rep := verifutil.NewReport()
	defer rep.Write()
	c := &c12Ctx{t: t, rep: rep}
	env := c12Env(t, rep, 1)
	s := c12NewSut(t, "populated", env, env.Victim)
	r := verifutil.Stream(99)
	for _, n := range []int{1000, 10000, 100000} {
		for _, same := range []bool{true, false} {
			var h common.Hash128
			copy(h[:], r.Bytes(16))
			var items [][]byte
			for i := 0; i < n; i++ {
				if !same {
					copy(h[:], r.Bytes(16))
				}
				items = append(items, c12PushPayload(uint32(1+i%6), h))
			}
			for _, code := range []uint64{protocol.BatchPush} {
				frame := c12Frame(code, c12BatchPayload(items), 0, 1)
				s.sa.set(c12StreamBytes(frame))
				var err error
				res := verifutil.Guard(c12Soft, c12Hard, true, func() { err = s.peer().handle() })
				rep.Note("BatchPush n=%d same=%v: wire %d bytes, alloc %d (%.1f B/byte) err=%v", n, same, len(frame), res.Alloc, float64(res.Alloc)/float64(len(frame)), err)
				fmt.Printf("BatchPush n=%d same=%v: wire %d bytes, alloc %d (%.1f B/byte) err=%v\n", n, same, len(frame), res.Alloc, float64(res.Alloc)/float64(len(frame)), err)
				c12Settle(c)
			}
		}
	}
}
