//go:build verif

package protocol

// Forwarding shims for /verif (injected at build time, never part of the repository).
// They expose the unexported entry points of the gossip handler, the per-peer read path and
// the block-range consumers to the external test package protocol_test (the in-package form
// is impossible: verifsim -> core/ceremony -> protocol would be an import cycle). They hold
// no logic of their own: every body is a single call or a field read.

import (
	"sync/atomic"

	"github.com/idena-network/idena-go/blockchain/types"
	"github.com/idena-network/idena-go/common"
	"github.com/idena-network/idena-go/core/state/snapshot"
	"github.com/idena-network/idena-go/events"
	"github.com/libp2p/go-libp2p-core/network"
	"github.com/libp2p/go-libp2p-core/peer"
)

// ---- handler

func (h *IdenaGossipHandler) VerifNewPeer(s network.Stream) *protoPeer {
	return newPeer(s, h.cfg.MaxDelay, h.metrics)
}
func (h *IdenaGossipHandler) VerifRegister(p *protoPeer) error { return h.peers.Register(p) }
func (h *IdenaGossipHandler) VerifUnregister(id peer.ID)       { h.unregisterPeer(id) }
func (h *IdenaGossipHandler) VerifHandle(p *protoPeer) error   { return h.handle(p) }
func (h *IdenaGossipHandler) VerifRunListening(p *protoPeer)   { h.runListening(p) }
func (h *IdenaGossipHandler) VerifBroadcastLoop()              { h.broadcastLoop() }
func (h *IdenaGossipHandler) VerifSendFlip(f *types.Flip)      { h.sendFlip(f) }
func (h *IdenaGossipHandler) VerifTxChan() chan *events.NewTxEvent {
	return h.txChan
}
func (h *IdenaGossipHandler) VerifFlipKeyChan() chan *events.NewFlipKeyEvent {
	return h.flipKeyChan
}
func (h *IdenaGossipHandler) VerifFlipKeysPackageChan() chan *events.NewFlipKeysPackageEvent {
	return h.flipKeysPackageChan
}
func (h *IdenaGossipHandler) VerifPendingPullRequests() int { return len(h.pushPullManager.requests) }
func (h *IdenaGossipHandler) VerifHasEntry(t uint8, hash common.Hash128) bool {
	_, _, _, ok := h.pushPullManager.GetEntry(pushPullHash{Type: pushType(t), Hash: hash})
	return ok
}

// VerifBatchId is the id the most recent GetBlocksRange / GetForkBlockRange registered.
func VerifBatchId() uint32 { return atomic.LoadUint32(&batchId) }

// ---- peer

func (p *protoPeer) VerifBroadcast() { p.broadcast() }
func (p *protoPeer) VerifReadStatus(nw types.Network, genesis *types.GenesisInfo) error {
	return p.readStatus(new(handshakeData), nw, genesis)
}

func (p *protoPeer) VerifId() peer.ID                  { return p.id }
func (p *protoPeer) VerifKnownHeight() uint64          { return p.knownHeight.Read() }
func (p *protoPeer) VerifManifest() *snapshot.Manifest { return p.Manifest() }
func (p *protoPeer) VerifDisconnectReason() string     { return p.disconnectReason }
func (p *protoPeer) VerifQueued() (int, int, int, int) {
	return len(p.queuedRequests), len(p.highPriorityRequests), len(p.pushQueue), len(p.flipKeyQueue)
}

// ---- block ranges

func (b *batch) VerifHeaders() chan *block { return b.headers }
func (b *batch) VerifCap() int             { return cap(b.headers) }

func (fs *fullSync) VerifProcessBatch(b *batch, attempt int) error {
	return fs.processBatch(b, attempt)
}
func (fs *fullSync) VerifDeferred() int { return len(fs.deferredHeaders) }

func (fs *fastSync) VerifPreConsuming(head *types.Header) (uint64, error) {
	return fs.preConsuming(head)
}
func (fs *fastSync) VerifProcessBatch(b *batch, attempt int) error {
	return fs.processBatch(b, attempt)
}
func (fs *fastSync) VerifDropPreliminaries()   { fs.dropPreliminaries() }
func (fs *fastSync) VerifPostConsuming() error { return fs.postConsuming() }
func (fs *fastSync) VerifDeferred() int        { return len(fs.deferredHeaders) }
func (fs *fastSync) VerifBatchSize() uint64    { return fs.batchSize() }

func (d *Downloader) VerifBestManifest() *snapshot.Manifest { return d.getBestManifest() }
