//go:build verif && (c09 || c11)

package protocol_test

// Shared by the monitors that drive the REAL protocol.fastSync between two real gossip handlers
// (C11 job "realsync", C09 job "realsync-crash"): the libp2p-side fakes (in-memory duplex
// stream, connection, host), the log capture that recovers the reason of a refusal, and the
// node / connection helpers. Nothing here decides a property.

import (
	"fmt"
	"io"
	"strings"
	"sync"
	"testing"
	"time"

	"github.com/idena-network/idena-go/common"
	"github.com/idena-network/idena-go/log"
	"github.com/idena-network/idena-go/protocol"
	"github.com/idena-network/idena-go/verifsim"
	core "github.com/libp2p/go-libp2p-core"
	"github.com/libp2p/go-libp2p-core/connmgr"
	"github.com/libp2p/go-libp2p-core/network"
	"github.com/libp2p/go-libp2p-core/peer"
	libp2pproto "github.com/libp2p/go-libp2p-core/protocol"
	ma "github.com/multiformats/go-multiaddr"
)

// ------------------------------------------------------------------ fakes (libp2p side only)

type c11Conn struct {
	network.Conn
	id peer.ID
}

var c11Addr = ma.StringCast("/ip4/10.1.2.4/tcp/40405")

func (c *c11Conn) RemotePeer() peer.ID           { return c.id }
func (c *c11Conn) RemoteMultiaddr() ma.Multiaddr { return c11Addr }

// c11Link is an in-memory duplex byte pipe; either end may reset it.
type c11Link struct {
	mu     sync.Mutex
	cond   *sync.Cond
	buf    [2][]byte // buf[i] = bytes waiting to be read by end i
	closed bool
	moved  int64
}

func c11NewLink() *c11Link {
	l := &c11Link{}
	l.cond = sync.NewCond(&l.mu)
	return l
}

func (l *c11Link) close() {
	l.mu.Lock()
	l.closed = true
	l.mu.Unlock()
	l.cond.Broadcast()
}

type c11End struct {
	network.Stream
	l    *c11Link
	side int
	conn *c11Conn
	// onReset (optional) runs after the link was closed by Reset: a connection whose teardown is
	// complete when Reset returns (see c11ConnectSyncTeardown)
	onReset func()
}

func (e *c11End) Read(p []byte) (int, error) {
	l := e.l
	l.mu.Lock()
	defer l.mu.Unlock()
	for len(l.buf[e.side]) == 0 && !l.closed {
		l.cond.Wait()
	}
	if len(l.buf[e.side]) == 0 {
		return 0, io.EOF
	}
	n := copy(p, l.buf[e.side])
	l.buf[e.side] = l.buf[e.side][n:]
	return n, nil
}

func (e *c11End) Write(p []byte) (int, error) {
	l := e.l
	l.mu.Lock()
	if l.closed {
		l.mu.Unlock()
		return 0, io.ErrClosedPipe
	}
	l.buf[1-e.side] = append(l.buf[1-e.side], p...)
	l.moved += int64(len(p))
	l.mu.Unlock()
	l.cond.Broadcast()
	return len(p), nil
}
func (e *c11End) Close() error { e.l.close(); return nil }
func (e *c11End) Reset() error {
	e.l.close()
	if e.onReset != nil {
		e.onReset()
	}
	return nil
}
func (e *c11End) Conn() network.Conn               { return e.conn }
func (e *c11End) Protocol() libp2pproto.ID         { return protocol.IdenaProtocol }
func (e *c11End) SetDeadline(time.Time) error      { return nil }
func (e *c11End) SetReadDeadline(time.Time) error  { return nil }
func (e *c11End) SetWriteDeadline(time.Time) error { return nil }

type c11Host struct{ core.Host }

func (c11Host) ConnManager() connmgr.ConnManager { return connmgr.NullConnMgr{} }

type c11Ceremony struct{}

func (c11Ceremony) IsRunning() bool { return false }

// ------------------------------------------------------------------ log capture (diagnosis only)

// the reason fast sync gives for refusing a block only goes to the log (the error that comes
// back is the one of the last reload attempt); keep warnings, errors and ban reasons
type c11Logs struct {
	mu    sync.Mutex
	lines []string
}

func (l *c11Logs) handle(r *log.Record) error {
	if r.Lvl > log.LvlWarn && r.Msg != "peer has been banned" {
		return nil
	}
	var sb strings.Builder
	sb.WriteString(r.Msg)
	for i := 0; i+1 < len(r.Ctx); i += 2 {
		k := fmt.Sprint(r.Ctx[i])
		if k == "id" || k == "peer" || k == "addr" {
			continue
		}
		fmt.Fprintf(&sb, " %s=%v", k, r.Ctx[i+1])
	}
	l.mu.Lock()
	if len(l.lines) < 40 {
		l.lines = append(l.lines, sb.String())
	}
	l.mu.Unlock()
	return nil
}

func (l *c11Logs) reset() { l.mu.Lock(); l.lines = nil; l.mu.Unlock() }
func (l *c11Logs) all() []string {
	l.mu.Lock()
	defer l.mu.Unlock()
	return append([]string{}, l.lines...)
}

// reason returns the class of the first refusal the real code logged ("" if none).
func (l *c11Logs) reason() string {
	for _, s := range l.all() {
		for _, m := range []struct{ msg, key string }{{"peer has been banned", " reason="}, {"Block header is invalid", " err="}} {
			if !strings.HasPrefix(s, m.msg) {
				continue
			}
			if i := strings.Index(s, m.key); i >= 0 {
				return verifsim.ErrClass(fmt.Errorf("%s", strings.TrimSpace(s[i+len(m.key):])))
			}
		}
	}
	return ""
}

// ------------------------------------------------------------------ nodes and connections

type c11Node struct {
	name string
	r    *verifsim.Replica
	n    *verifsim.SyncNode
	h    *protocol.IdenaGossipHandler
	id   peer.ID
}

var c11NodeSeq int

func c11NewNode(t *testing.T, r *verifsim.Replica, name string) *c11Node {
	n, err := verifsim.NewSyncNode(r)
	if err != nil {
		t.Fatalf("c11: cannot build node %s: %v", name, err)
	}
	c11NodeSeq++
	x := &c11Node{name: name, r: r, n: n, id: peer.ID(fmt.Sprintf("c11-%s-%d", name, c11NodeSeq))}
	x.h = protocol.NewIdenaGossipHandler(c11Host{}, nil, r.Cfg.P2P, r.Chain, n.Proposals, n.Votes, r.TxPool, n.Flipper, r.Bus, n.KeysPool, "1.1.0", c11Ceremony{})
	return x
}

// c11Connect does what runPeer does on both sides of a fresh stream: new peer object, the real
// handshake, registration, the peer's writer and the listening loop.
func c11Connect(a, b *c11Node) (*c11Link, error) { return c11ConnectOpt(a, b, false) }

// c11ConnectSyncTeardown: as c11Connect, but when node a resets the stream (BanPeer), peer b is
// unregistered from a's handler before Reset returns. With the plain fake the unregistration is
// done by a's listening goroutine some microseconds later; the real fast sync asks for the rest
// of the batch immediately after the ban, may still find the banned peer registered, send the
// request into the closed stream and then sit in processBatch's 20 s wall-clock timeout. Used
// by the hostile-server cases, where a ban is the expected outcome.
func c11ConnectSyncTeardown(a, b *c11Node) (*c11Link, error) { return c11ConnectOpt(a, b, true) }

func c11ConnectOpt(a, b *c11Node, syncTeardown bool) (*c11Link, error) {
	l := c11NewLink()
	ea := &c11End{l: l, side: 0, conn: &c11Conn{id: b.id}}
	if syncTeardown {
		ah, bid := a.h, b.id
		ea.onReset = func() { ah.VerifUnregister(bid) }
	}
	pa := a.h.VerifNewPeer(ea)
	pb := b.h.VerifNewPeer(&c11End{l: l, side: 1, conn: &c11Conn{id: a.id}})
	errs := make(chan error, 2)
	go func() {
		errs <- pa.Handshake(a.r.Chain.Network(), a.r.Head().Height(), a.r.Chain.GenesisInfo(), "1.1.0", 1, common.MultiShard)
	}()
	go func() {
		errs <- pb.Handshake(b.r.Chain.Network(), b.r.Head().Height(), b.r.Chain.GenesisInfo(), "1.1.0", 1, common.MultiShard)
	}()
	for i := 0; i < 2; i++ {
		if err := <-errs; err != nil {
			l.close()
			return nil, fmt.Errorf("handshake: %w", err)
		}
	}
	if err := a.h.VerifRegister(pa); err != nil {
		l.close()
		return nil, err
	}
	if err := b.h.VerifRegister(pb); err != nil {
		l.close()
		return nil, err
	}
	go pa.VerifBroadcast()
	go pb.VerifBroadcast()
	go a.h.VerifRunListening(pa)
	go b.h.VerifRunListening(pb)
	return l, nil
}

func minU(a, b uint64) uint64 {
	if a < b {
		return a
	}
	return b
}
