//go:build verif && c12

package protocol_test

// C12 object-level workload and the forged-length / range-overflow job.

import (
	"encoding/binary"
	"fmt"
	"runtime/debug"
	"strings"
	"sync"
	"testing"
	"time"

	"github.com/golang/protobuf/proto"
	"github.com/idena-network/idena-go/blockchain/attachments"
	"github.com/idena-network/idena-go/blockchain/fee"
	"github.com/idena-network/idena-go/blockchain/types"
	"github.com/idena-network/idena-go/blockchain/validation"
	"github.com/idena-network/idena-go/common"
	"github.com/idena-network/idena-go/core/state/snapshot"
	models "github.com/idena-network/idena-go/protobuf"
	"github.com/idena-network/idena-go/protocol"
	"github.com/idena-network/idena-go/verifsim"
	"github.com/idena-network/idena-go/verifutil"
	"github.com/libp2p/go-libp2p-core/peer"
)

type c12Combo struct {
	t      types.TxType
	to, pl int
}

func TestVerifC12Objects(t *testing.T) {
	if !verifutil.Enabled() {
		t.Skip("verif harness")
	}
	rep := verifutil.NewReport()
	defer rep.Write()
	c := &c12Ctx{t: t, rep: rep}
	env := c12Env(t, rep, 2)
	s := c12NewSut(t, "populated", env, env.Victim)
	s.c12BuildCorpus(verifutil.Stream(12, 5))
	var combos []c12Combo
	for _, tt := range verifsim.C12TxTypes {
		for to := 0; to < verifsim.C12NTo; to++ {
			for pl := 0; pl < verifsim.C12NPl; pl++ {
				combos = append(combos, c12Combo{tt, to, pl})
			}
		}
	}
	for _, tt := range []types.TxType{0x17, 0x7f, 0xffff} { // unknown types
		combos = append(combos, c12Combo{tt, verifsim.C12ToRelated, verifsim.C12PlGarbage})
	}
	perm := verifutil.Stream(12, 3).Perm(len(combos))
	c12ForkShapes(c, s)
	n := c12Scale(45000, 900000)
	for i := 0; i < n && !c.stop; i++ {
		r := verifutil.Stream(12, 4, uint64(i))
		c12TxCase(c, s, r, i, combos[perm[i%len(combos)]])
		if i%4 == 3 {
			c12ObjectCase(c, s, r, i)
		}
		if i%12 == 11 {
			c12SubChainCase(c, s, r, i)
		}
		if i%300 == 299 {
			c12Maintain(c, s)
		}
	}
	c12Settle(c)
	env.W.Cleanup()
}

var c12Modes = []struct {
	name string
	mode validation.TxType
}{{"Inbound", validation.InboundTx}, {"Mempool", validation.MempoolTx}, {"InBlock", validation.InBlockTx}}

func c12ParseAll(tx *types.Transaction) int {
	n := 0
	cnt := func(ok bool) {
		if ok {
			n++
		}
	}
	cnt(attachments.ParseShortAnswerAttachment(tx) != nil)
	cnt(attachments.ParseLongAnswerAttachment(tx) != nil)
	cnt(attachments.ParseFlipSubmitAttachment(tx) != nil)
	cnt(attachments.ParseOnlineStatusAttachment(tx) != nil)
	cnt(attachments.ParseBurnAttachment(tx) != nil)
	cnt(attachments.ParseChangeProfileAttachment(tx) != nil)
	cnt(attachments.ParseDeleteFlipAttachment(tx) != nil)
	cnt(attachments.ParseCallContractAttachment(tx) != nil)
	cnt(attachments.ParseDeployContractAttachment(tx) != nil)
	cnt(attachments.ParseTerminateContractAttachment(tx) != nil)
	cnt(attachments.ParseStoreToIpfsAttachment(tx) != nil)
	return n
}

func c12DecodeTx(raw []byte) *types.Transaction {
	tx := new(types.Transaction)
	if tx.FromBytes(raw) != nil {
		return nil
	}
	return tx
}

// c12TxCase = one typed hostile transaction against every entry point that takes one.
func c12TxCase(c *c12Ctx, s *c12Sut, r *verifutil.Rng, i int, k c12Combo) {
	rep := c.rep
	w, v := s.env.W, s.node.R
	tc := w.C12HostileTx(r, v, k.t, k.to, k.pl)
	raw := c12Must(tc.Tx.ToBytes())
	tname := verifsim.TxName(k.t)
	c.desc = fmt.Sprintf("objects #%d tx %s sender=%s", i, tc.Label(), tc.Sender.Name)
	rep.Progress("%s len=%d hex=%s", c.desc, len(raw), c12Hex(raw, 400))
	rep.Count("inputs", 1)
	rep.Count("tx_cases", 1)
	rep.Count("tx_shape:to="+verifsim.C12ToNames[k.to], 1)
	rep.Count("tx_shape:payload="+verifsim.C12PlNames[k.pl], 1)
	branch := tname
	// the node only ever sees what survives the encoding
	tx := c12DecodeTx(raw)
	if tx == nil {
		rep.Count("tx_not_decodable", 1)
		return
	}
	var parsed int
	c.call("attachments.Parse*", raw, false, func() { parsed = c12ParseAll(tx) })
	rep.Count("attachment_parsers_accepting", parsed)
	head := v.Head().Height()
	reachedAny := false
	for _, m := range c12Modes {
		as, err := v.AppState.Readonly(head)
		if m.mode == validation.InBlockTx {
			as, err = v.AppState.ForCheck(head)
		}
		if err != nil {
			c.t.Fatalf("c12: no state view: %v", err)
		}
		minFee := fee.GetFeePerGasForNetwork(as.ValidatorsCache.NetworkSize())
		txm := c12DecodeTx(raw)
		var verr error
		if !c.call("validation.ValidateTx/"+m.name, raw, true, func() { verr = validation.ValidateTx(as, txm, minFee, m.mode) }) {
			return
		}
		if verr == nil {
			rep.Count("outcome:accepted", 1)
			rep.Count("validate_accepted:"+tname, 1)
		} else {
			rep.Count("outcome:rejected-validate", 1)
		}
		if !verifsim.C12GenericReject(verr) {
			reachedAny = true
			rep.Count("validator_reached:"+tname, 1)
			rep.Count("validator_reached_mode:"+m.name, 1)
		}
		branch += "/" + m.name + ":" + c12ErrClass(verr)
	}
	// pool admission (its own recover turns a validator panic into an error: acceptable)
	var perr, verr2 error
	if !c.call("TxPool.AddExternalTxs", raw, true, func() { perr = v.TxPool.AddExternalTxs(validation.InboundTx, c12DecodeTx(raw)) }) {
		return
	}
	if perr == nil {
		rep.Count("pool_admitted", 1)
	} else if strings.Contains(perr.Error(), "runtime error") || strings.Contains(perr.Error(), "nil pointer") {
		rep.Count("pool_recovered_panics", 1)
		rep.Note("the pool's own recover caught a panic (acceptable for the pool; the block path has none): %s | %v", tc.Label(), perr)
	}
	if !c.call("TxPool.Validate", raw, true, func() { verr2 = v.TxPool.Validate(c12DecodeTx(raw)) }) {
		return
	}
	_ = verr2
	// in a block: a carrier proposal of the replica's owner around the tx
	txs := []*types.Transaction{c12DecodeTx(raw)}
	if i%10 == 9 {
		for j, m := 0, r.Range(1, 2); j < m; j++ {
			o := w.C12HostileTx(r, v, verifsim.C12TxTypes[r.Intn(len(verifsim.C12TxTypes))], r.Intn(verifsim.C12NTo), r.Intn(verifsim.C12NPl))
			txs = append(txs, c12DecodeTx(c12Must(o.Tx.ToBytes())))
		}
		rep.Count("multi_tx_blocks", 1)
	}
	blk := s.carrier(txs)
	if blk == nil {
		rep.Count("carrier_unavailable", 1)
	} else {
		var berr error
		if !c.call("Blockchain.ValidateBlock", raw, true, func() { _, berr = v.Chain.ValidateBlock(blk, nil, v.Stats) }) {
			return
		}
		cls := c12ErrClass(berr)
		if !verifsim.C12GenericReject(berr) && !strings.Contains(cls, "txHash") && !strings.Contains(cls, "proposer") {
			rep.Count("inblock_validator_reached:"+tname, 1)
			if berr == nil || strings.Contains(cls, "invalid block roots") || strings.Contains(cls, "bloom") || strings.Contains(cls, "flags are invalid") || strings.Contains(cls, "cid") {
				rep.Count("inblock_applied:"+tname, 1) // the tx passed validation AND was applied on the check state
			}
		}
		branch += "/block:" + cls
		if i%4 == 1 { // insertion = the same validation + commit; a carrier block is refused before the commit
			var aerr error
			if !c.call("Blockchain.AddBlock", raw, true, func() { aerr = v.Chain.AddBlock(blk, nil, v.Stats) }) {
				return
			}
			if aerr == nil {
				rep.Count("carrier_blocks_inserted", 1)
				s.rollback(c)
			}
		}
	}
	// a block the real proposer code builds around the tx (fully valid if the tx is): twin technique
	if i%6 == 5 && !c.stop {
		var res *verifsim.TwinResult
		var terr error
		if !c.call("ProposeBlock+ValidateBlock(twin)", raw, false, func() { res, terr = w.Twin(v, c12DecodeTx(raw), true) }) {
			return
		}
		rep.Count("twin_cases", 1)
		if terr != nil {
			rep.Count("twin_errors", 1)
			rep.Note("twin: %v | %s", terr, tc.Label())
		}
		if res != nil && res.Included && res.B1 != nil && terr == nil {
			rep.Count("twin_included:"+tname, 1)
			var aerr error
			if !c.call("Blockchain.AddBlock", raw, true, func() { aerr = v.Chain.AddBlock(res.B1, nil, v.Stats) }) {
				return
			}
			branch += "/twin-inserted:" + c12ErrClass(aerr)
			if aerr == nil {
				rep.Count("twin_blocks_inserted", 1)
				s.rollback(c)
			}
		}
	}
	if reachedAny {
		rep.Distinct(c12Sha(raw), branch)
		if k.pl != verifsim.C12PlOwn {
			c.sample(map[string]interface{}{"case": c.desc, "branch": branch, "tx_hex": c12Hex(raw, 300)})
		}
	}
}

// carrier returns a proposal block of the sut's owner at the sut's head around txs (the
// header template is built once per head by the real ProposeBlock).
func (s *c12Sut) carrier(txs []*types.Transaction) *types.Block {
	v := s.node.R
	if s.carrierTpl == nil || s.carrierTpl.Height() != v.Head().Height()+1 {
		for _, old := range v.TxPool.VerifAll() {
			v.TxPool.Remove(old)
		}
		b, ok := verifsim.C12CarrierBlock(v, nil)
		if !ok {
			return nil
		}
		s.carrierTpl = b
	}
	h := *s.carrierTpl.Header.ProposedHeader
	body := &types.Body{Transactions: txs}
	h.TxHash = types.DeriveSha(types.Transactions(txs))
	h.IpfsHash = nil
	if cid, err := v.Ipfs.Cid(body.ToBytes()); err == nil && len(txs) > 0 {
		h.IpfsHash = cid.Bytes()
	}
	return &types.Block{Header: &types.Header{ProposedHeader: &h}, Body: body}
}

// c12ObjectCase = one typed hostile consensus / ceremony object, optionally field-mutated,
// decoded with the type's decoder, passed through the gates handle() applies and handed to
// the entry point directly (synchronously where the node queues it).
func c12ObjectCase(c *c12Ctx, s *c12Sut, r *verifutil.Rng, i int) {
	rep := c.rep
	node := s.node
	code, payload, label := c12Typed(s, r)
	if payload == nil {
		return
	}
	if code == protocol.NewTx { // covered by the tx matrix; use the slot for a corpus object instead
		codes := []uint64{protocol.ProposeBlock, protocol.ProposeProof, protocol.Vote, protocol.FlipBody, protocol.FlipKey, protocol.FlipKeysPackage, protocol.Block, protocol.SnapshotManifest}
		code = codes[r.Intn(len(codes))]
		idxs := s.byCode[code]
		if len(idxs) == 0 {
			return
		}
		it := s.corpus[idxs[r.Intn(len(idxs))]]
		payload, label = it.Payload, "corpus/"+it.Label
	}
	if r.Intn(2) == 0 {
		if m, l, ok := verifutil.MutateWire(r, payload, 500); ok {
			payload, label = m, label+"+"+l
		}
	}
	name := c12CodeName(code)
	c.desc = fmt.Sprintf("objects #%d %s %s", i, name, label)
	rep.Progress("%s len=%d hex=%s", c.desc, len(payload), c12Hex(payload, 400))
	rep.Count("inputs", 1)
	rep.Count("object_cases:"+name, 1)
	branch := name
	switch code {
	case protocol.ProposeBlock:
		p := new(types.BlockProposal)
		if p.FromBytes(payload) != nil {
			return
		}
		valid := false
		if !c.call("BlockProposal.IsValid", payload, true, func() { valid = p.IsValid() }) || !valid || p.Block == nil || len(p.Signature) == 0 {
			return
		}
		var added, pending bool
		if !c.call("Proposals.AddProposedBlock", payload, true, func() { added, pending = node.Proposals.AddProposedBlock(p, s.pidA, time.Now().UTC()) }) {
			return
		}
		branch += fmt.Sprintf("/added=%v/pending=%v", added, pending)
		if added {
			rep.Count("object_accepted:ProposeBlock", 1)
			var verr error
			if c.call("Proposals.GetProposedBlock", payload, true, func() {
				_, verr = node.Proposals.GetProposedBlock(p.Block.Height(), p.Block.Header.ProposedHeader.ProposerPubKey, 80*time.Millisecond)
			}) {
				branch += "/validate:" + c12ErrClass(verr)
			}
			node.Proposals.CompleteRound(p.Block.Height())
		}
	case protocol.ProposeProof:
		p := new(types.ProofProposal)
		if p.FromBytes(payload) != nil {
			return
		}
		var added, pending bool
		if !c.call("Proposals.AddProposeProof", payload, true, func() { added, pending = node.Proposals.AddProposeProof(p) }) {
			return
		}
		branch += fmt.Sprintf("/added=%v/pending=%v", added, pending)
		if added {
			rep.Count("object_accepted:ProposeProof", 1)
			node.Proposals.CompleteRound(p.Round)
		}
	case protocol.Vote:
		v := new(types.Vote)
		if v.FromBytes(payload) != nil || !v.IsValid() {
			return
		}
		var added bool
		if !c.call("Votes.AddVote", payload, true, func() { added = node.Votes.AddVote(v) }) {
			return
		}
		branch += fmt.Sprintf("/added=%v", added)
		if added {
			rep.Count("object_accepted:Vote", 1)
		}
	case protocol.Block:
		b := new(types.Block)
		if b.FromBytes(payload) != nil || !b.IsValid() {
			return
		}
		if !c.call("Proposals.AddBlock", payload, true, func() { node.Proposals.ApproveBlock(b.Hash()); node.Proposals.AddBlock(b) }) {
			return
		}
	case protocol.FlipBody:
		f := new(types.Flip)
		if f.FromBytes(payload) != nil || !f.IsValid() {
			return
		}
		before := s.events()
		var ferr error
		if !c.call("Flipper.AddNewFlip", payload, true, func() { ferr = node.Flipper.AddNewFlip(f, false) }) {
			return
		}
		c12Settle(c)
		if s.events()[3] > before[3] {
			rep.Count("object_accepted:FlipBody", 1)
			branch += "/admitted"
		}
		_ = ferr
	case protocol.FlipKey:
		k := new(types.PublicFlipKey)
		if k.FromBytes(payload) != nil {
			return
		}
		var kerr error
		if !c.call("KeysPool.AddPublicFlipKey", payload, true, func() { kerr = node.KeysPool.AddPublicFlipKey(k, false) }) {
			return
		}
		k2 := new(types.PublicFlipKey)
		k2.FromBytes(payload)
		c.call("KeysPool.AddPublicFlipKeys", payload, true, func() { node.KeysPool.AddPublicFlipKeys([]*types.PublicFlipKey{k2}) })
		branch += "/" + c12ErrClass(kerr)
		if kerr == nil {
			rep.Count("object_accepted:FlipKey", 1)
		}
	case protocol.FlipKeysPackage:
		k := new(types.PrivateFlipKeysPackage)
		if k.FromBytes(payload) != nil {
			return
		}
		var kerr error
		if !c.call("KeysPool.AddPrivateKeysPackage", payload, true, func() { kerr = node.KeysPool.AddPrivateKeysPackage(k, false) }) {
			return
		}
		k2 := new(types.PrivateFlipKeysPackage)
		k2.FromBytes(payload)
		c.call("KeysPool.AddPrivateFlipKeysPackages", payload, true, func() { node.KeysPool.AddPrivateFlipKeysPackages([]*types.PrivateFlipKeysPackage{k2}) })
		branch += "/" + c12ErrClass(kerr)
		if kerr == nil {
			rep.Count("object_accepted:FlipKeysPackage", 1)
		}
	case protocol.SnapshotManifest:
		m := new(snapshot.Manifest)
		if m.FromBytes(payload) != nil {
			return
		}
		var derr error
		if !c.call("SnapshotManager.DownloadSnapshot", payload, true, func() { _, _, derr = node.Snapshots.DownloadSnapshot(m) }) {
			return
		}
		branch += "/" + c12ErrClass(derr)
	default:
		return
	}
	c12Settle(c)
	rep.Distinct(c12Sha(payload), branch)
}

// c12SubChainCase = ValidateSubChain on the bundles a forked peer could serve (what
// ForkResolver.processBlocks passes: non-empty, sorted by height, bodies present).
func c12SubChainCase(c *c12Ctx, s *c12Sut, r *verifutil.Rng, i int) {
	rep := c.rep
	env, v := s.env, s.node.R
	if len(env.Ahead) < 3 {
		rep.Count("subchain_unavailable", 1)
		return
	}
	var bundles []types.BlockBundle
	for j, b := range env.Ahead {
		bundles = append(bundles, types.BlockBundle{Block: b, Cert: env.AheadCerts[j]})
	}
	label := "valid"
	k := r.Intn(len(bundles))
	switch r.Pick(12, 8, 8, 8, 8, 8, 8, 16, 8, 8, 8) {
	case 1:
		bundles[len(bundles)-1].Cert, label = nil, "tip-cert-nil"
	case 2:
		bundles[len(bundles)-1].Cert, label = &types.BlockCert{}, "tip-cert-empty"
	case 3:
		for j := range bundles {
			bundles[j].Cert = nil
		}
		label = "no-certs"
	case 4:
		bundles, label = append(bundles[:k:k], bundles[k+1:]...), "gap"
	case 5:
		bundles, label = append(append(append([]types.BlockBundle{}, bundles[:k+1]...), bundles[k]), bundles[k+1:]...), "duplicate"
	case 6:
		bundles, label = bundles[:1+r.Intn(len(bundles))], "prefix"
	case 7: // a hostile block in the middle of otherwise valid ones
		tc := env.W.C12HostileTx(r, v, verifsim.C12TxTypes[r.Intn(len(verifsim.C12TxTypes))], r.Intn(verifsim.C12NTo), r.Intn(verifsim.C12NPl))
		if ph := bundles[k].Block.Header.ProposedHeader; ph != nil {
			h := *ph
			body := &types.Body{Transactions: append(append([]*types.Transaction{}, bundles[k].Block.Body.Transactions...), tc.Tx)}
			h.TxHash = types.DeriveSha(types.Transactions(body.Transactions))
			bundles[k].Block = &types.Block{Header: &types.Header{ProposedHeader: &h}, Body: body}
			label = "hostile-tx-in-block/" + tc.Label()
		}
	case 8:
		if c := bundles[k].Cert; c != nil {
			cc := *c
			cc.Signatures = append([]*types.BlockCertSignature{{Signature: r.Bytes([]int{0, 64, 65, 66}[r.Intn(4)])}}, cc.Signatures...)
			bundles[k].Cert, label = &cc, "cert-garbage-signature"
		}
	case 9:
		if c := bundles[k].Cert; c != nil {
			cc := *c
			cc.Step, cc.Round = uint8(r.Intn(256)), cc.Round+uint64(r.Intn(3))
			bundles[k].Cert, label = &cc, "cert-step-round"
		}
	case 10:
		b := bundles[k].Block
		bundles[k].Block = &types.Block{Header: &types.Header{EmptyBlockHeader: &types.EmptyBlockHeader{ParentHash: b.Header.ParentHash(), Height: b.Height(), Time: b.Header.Time()}}, Body: &types.Body{}}
		label = "forged-empty-block"
	}
	if r.Intn(8) == 0 { // the first block claims another height (the common ancestor is derived from it)
		b := bundles[0].Block
		h := []uint64{0, 1, 2, b.Height() - 1, b.Height() + 1, s.headH, ^uint64(0)}[r.Intn(7)]
		bundles[0].Block = &types.Block{Header: &types.Header{EmptyBlockHeader: &types.EmptyBlockHeader{ParentHash: b.Header.ParentHash(), Height: h, Time: b.Header.Time()}}, Body: &types.Body{}}
		label += "/first-height-forged"
	}
	// the bundles as the BlocksRange answer a forked peer would send (headers + certificates; the
	// bodies are fetched by content id): this is the replayable input of the case
	var items []c12RangeItem
	for _, b := range bundles {
		items = append(items, c12RangeItem{Header: b.Block.Header, Cert: b.Cert})
	}
	wire := c12RangePayload(0, items)
	c.desc = fmt.Sprintf("objects #%d subchain %s (%d bundles, heights %d..%d, head %d)", i, label, len(bundles), bundles[0].Block.Height(), bundles[len(bundles)-1].Block.Height(), s.headH)
	rep.Progress("%s hex=%s", c.desc, c12Hex(wire, 300))
	rep.Count("inputs", 1)
	rep.Count("subchain_cases", 1)
	// (a) the whole consumer: what loadAndVerifyFork runs on the bundles the seeker delivered
	ch := make(chan types.BlockBundle, len(bundles))
	for _, b := range bundles {
		ch <- b
	}
	close(ch)
	var perr error
	if !c.call("ForkResolver.processBlocks", wire, true, func() { perr = s.fr.VerifC12ProcessBlocks(ch, s.pidA) }) {
		return
	}
	if s.fr.HasLoadedFork() {
		rep.Count("subchain_fork_applicable", 1)
		s.fr.VerifC12DropFork()
	}
	// (b) ValidateSubChain as processBlocks calls it (common height = first height - 1)
	start := bundles[0].Block.Height() - 1
	var err error
	if !c.call("Blockchain.ValidateSubChain", wire, true, func() { err = v.Chain.ValidateSubChain(start, bundles) }) {
		return
	}
	if err == nil {
		rep.Count("subchain_accepted", 1)
		if label == "valid" {
			rep.Count("subchain_accepted_valid", 1)
		}
	} else if label == "valid" {
		rep.Note("the unmodified ahead chain was refused by ValidateSubChain: %v", err)
	}
	rep.Distinct("subchain", label, c12ErrClass(perr), c12ErrClass(err))
}

// c12ForkShapes: a fixed list of fork answers (every child runs it once) through the fork
// resolver's consumer: ranges made of the node's OWN old blocks (the size comparison with the
// own chain runs only for forks that do not pass the head) and of forged heights.
func c12ForkShapes(c *c12Ctx, s *c12Sut) {
	rep := c.rep
	w, v := s.env.W, s.node.R
	var own []types.BlockBundle
	for _, b := range w.Blocks {
		if b.Height() <= s.headH && b.Height()+8 > s.headH {
			own = append(own, types.BlockBundle{Block: b, Cert: v.Chain.GetCertificate(b.Hash())})
		}
	}
	if len(own) < 6 {
		rep.Inconcl("fork shapes: the victim's chain is too short")
		return
	}
	forged := func(b *types.Block, h uint64) types.BlockBundle {
		return types.BlockBundle{Block: &types.Block{Header: &types.Header{EmptyBlockHeader: &types.EmptyBlockHeader{ParentHash: b.Header.ParentHash(), Height: h, Time: b.Header.Time()}}, Body: &types.Body{}}}
	}
	cp := func(l []types.BlockBundle) []types.BlockBundle { return append([]types.BlockBundle{}, l...) }
	var ahead []types.BlockBundle
	for j, b := range s.env.Ahead {
		ahead = append(ahead, types.BlockBundle{Block: b, Cert: s.env.AheadCerts[j]})
	}
	shapes := []struct {
		name string
		l    []types.BlockBundle
	}{
		{"own-consecutive", cp(own)},
		{"own-with-gap", append(cp(own[:2]), own[4:]...)},
		{"own-single", cp(own[3:4])},
		{"own-duplicate-height", append(cp(own[:3]), own[2])},
		{"forged-height-0", []types.BlockBundle{forged(own[0].Block, 0)}},
		{"forged-height-1", []types.BlockBundle{forged(own[0].Block, 1)}},
		{"forged-height-1-then-ahead", append([]types.BlockBundle{forged(own[0].Block, 1)}, ahead...)},
		{"forged-height-2-then-ahead", append([]types.BlockBundle{forged(own[0].Block, 2)}, ahead...)},
		{"forged-height-max", []types.BlockBundle{forged(own[0].Block, ^uint64(0))}},
		{"forged-height-0-and-max", []types.BlockBundle{forged(own[0].Block, 0), forged(own[0].Block, ^uint64(0))}},
		{"own-then-ahead", append(cp(own[len(own)-2:]), ahead...)},
		{"ahead-with-gap", append(cp(ahead[:1]), ahead[2:]...)},
		{"ahead", cp(ahead)},
	}
	for _, sh := range shapes {
		if len(sh.l) == 0 {
			continue
		}
		var items []c12RangeItem
		for _, b := range sh.l {
			items = append(items, c12RangeItem{Header: b.Block.Header, Cert: b.Cert})
		}
		wire := c12RangePayload(0, items)
		c.desc = fmt.Sprintf("objects fork-shape %s (%d bundles, heights %d..%d, head %d)", sh.name, len(sh.l), sh.l[0].Block.Height(), sh.l[len(sh.l)-1].Block.Height(), s.headH)
		rep.Progress("%s hex=%s", c.desc, c12Hex(wire, 300))
		rep.Count("inputs", 1)
		rep.Count("fork_shape_cases", 1)
		ch := make(chan types.BlockBundle, len(sh.l))
		for _, b := range sh.l {
			ch <- b
		}
		close(ch)
		var perr error
		if !c.call("ForkResolver.processBlocks", wire, true, func() { perr = s.fr.VerifC12ProcessBlocks(ch, s.pidA) }) {
			continue
		}
		if s.fr.HasLoadedFork() {
			rep.Count("fork_shape_applicable", 1)
			s.fr.VerifC12DropFork()
		}
		rep.Distinct("fork-shape", sh.name, c12ErrClass(perr))
	}
}

// ------------------------------------------------------------------ forged lengths and range overflow

func TestVerifC12Forged(t *testing.T) {
	if !verifutil.Enabled() {
		t.Skip("verif harness")
	}
	rep := verifutil.NewReport()
	defer rep.Write()
	c := &c12Ctx{t: t, rep: rep}
	env := c12Env(t, rep, 3)
	s := c12NewSut(t, "populated", env, env.Victim)
	s.c12BuildCorpus(verifutil.Stream(12, 6))
	r := verifutil.Stream(12, 7)
	// (1) S2 frames whose header claims a decoded length the body cannot deliver
	claims := []uint64{1 << 20, 16 << 20, 60 << 20, 65 << 20, 128 << 20, 512 << 20, 1 << 30, 2 << 30, 1<<32 - 1}
	for _, claimed := range claims {
		for _, tail := range [][]byte{nil, {0x04, 0x41}, r.Bytes(6)} {
			var hdr [10]byte
			frame := append(append([]byte{1}, hdr[:binary.PutUvarint(hdr[:], claimed)]...), tail...)
			c.desc = fmt.Sprintf("forged S2 header: %d-byte frame claims %d bytes", len(frame), claimed)
			rep.Progress("%s hex=%s", c.desc, c12Hex(frame, 64))
			rep.Count("inputs", 1)
			rep.Count("forged_length_frames", 1)
			var err error
			ok := c.call("protocol.Decode", frame, true, func() { _, err = protocol.Decode(frame) })
			debug.FreeOSMemory() // the address-space cap counts what the collector has not returned yet
			if !ok {
				continue // reported; do not repeat the allocation through the stream path
			}
			rep.Count("forged_length_rejected_cheaply", 1)
			_ = err
			if _, ok := s.feed(c, "handle/forged-length", c12StreamBytes(frame)); !ok {
				continue
			}
		}
	}
	// (2) linear amplification on messages as large as the transport admits (8 MiB frames)
	c12BigMessages(c, s, r)
	// (3) the answer to a block-range request carries more blocks than were asked for
	c12Overflow(c, s)
	env.W.Cleanup()
}

// c12BigMessages: well-formed batch-like messages of about 7.5 MiB (the msgio reader admits
// 8 MiB), uncompressed, through the stream path, metered like every other case.
func c12BigMessages(c *c12Ctx, s *c12Sut, r *verifutil.Rng) {
	rep := c.rep
	const target = 7500 << 10
	var pushes, hashes, keys [][]byte
	for n := 0; n < target; n += 26 {
		var h common.Hash128
		copy(h[:], r.Bytes(16))
		pushes = append(pushes, c12PushPayload(uint32(1+r.Intn(6)), h))
	}
	for n := 0; n < target; n += 34 {
		hashes = append(hashes, r.Bytes(32))
	}
	for n := 0; n < target; n += 112 {
		k := &types.PublicFlipKey{Key: r.Bytes(32), Signature: r.Bytes(65), Epoch: s.node.R.AppState.State.Epoch()}
		keys = append(keys, c12Must(k.ToBytes()))
	}
	big := []struct {
		code    uint64
		payload []byte
		what    string
	}{
		{protocol.BatchPush, c12BatchPayload(pushes), fmt.Sprintf("%d announcements of distinct unknown hashes", len(pushes))},
		{protocol.GetForkBlockRange, c12Must(proto.Marshal(&models.ProtoGetForkBlockRangeRequest{BatchId: 1, Blocks: hashes})), fmt.Sprintf("%d unknown block hashes", len(hashes))},
		{protocol.BatchFlipKey, c12BatchPayload(keys), fmt.Sprintf("%d flip keys with unrecoverable signatures", len(keys))},
		{protocol.NewTx, c12Must((&types.Transaction{Type: types.SendTx, Payload: make([]byte, target), Signature: r.Bytes(65)}).ToBytes()), "one transaction with a 7.5 MiB payload"},
		{protocol.FlipBody, c12Must((&types.Flip{Tx: &types.Transaction{Type: types.SubmitFlipTx, Signature: r.Bytes(65)}, PublicPart: make([]byte, target)}).ToBytes()), "one flip with a 7.5 MiB public part"},
	}
	for _, b := range big {
		stream := c12StreamBytes(c12Frame(b.code, b.payload, 0, 1))
		c.given = 0
		c.desc = fmt.Sprintf("big message: %s with %s (%d bytes on the wire)", c12CodeName(b.code), b.what, len(stream))
		rep.Progress("%s", c.desc)
		rep.Count("inputs", 1)
		rep.Count("big_message_cases", 1)
		// panic / hang oracles as everywhere; the allocation is MEASURED and reported, not judged:
		// on an 8 MiB message the bound is dominated by its slope, and a handler whose cost is
		// linear with a constant near 64 B/byte is proportional in the sense of the property
		s.sa.set(stream)
		var herr error
		res := verifutil.Guard(c12Soft, c12Hard, true, func() { herr = s.peer().handle() })
		rep.Eval(1)
		switch {
		case res.Hung:
			rep.Violation("hang:handle/"+c12CodeName(b.code), fmt.Sprintf("handle did not return (%s) for %s", res.Why, c.desc), map[string]interface{}{"goroutines": verifutil.Trunc(res.Dump, 60000)})
			c.stop = true
			return
		case res.Starved:
			rep.Inconcl("big message %s: watchdog expired without a verdict (%s)", c12CodeName(b.code), res.Why)
			c.stop = true
			return
		case res.Panic != nil:
			rep.Violation("panic:"+verifutil.RepoFrame(res.Stack), fmt.Sprintf("handle panicked on %s: %v | %s", c.desc, res.Panic, strings.ReplaceAll(verifutil.FirstFrames(res.Stack, 7), "\n", " ")),
				map[string]interface{}{"stack": verifutil.Trunc(res.Stack, 12000), "case": c.desc})
		default:
			per := float64(res.Alloc) / float64(len(stream))
			rep.SetInfo("big_message_alloc_bytes_per_wire_byte:"+c12CodeName(b.code), fmt.Sprintf("%.1f", per))
			rep.Note("big message %s: %d bytes on the wire, %d bytes allocated by handle = %.1f B/byte (err=%v)%s", c12CodeName(b.code), len(stream), res.Alloc, per, herr,
				map[bool]string{true: " — above the 64 B/byte slope of the bound (linear amplification, reported as an observation)", false: ""}[res.Alloc > verifutil.AllocBound(len(stream))])
			if res.Alloc > verifutil.AllocBound(len(stream)) {
				rep.Count("big_message_over_slope:"+c12CodeName(b.code), 1)
			}
		}
		if herr != nil {
			s.reconnect()
		}
		c12Settle(c)
		debug.FreeOSMemory()
	}
}

// c12Overflow: the next-block detector asks one forward peer for exactly one block
// (SeekBlocks(round, round)); the peer answers with two.
func c12Overflow(c *c12Ctx, s *c12Sut) {
	rep := c.rep
	env := s.env
	if len(env.Ahead) < 3 {
		rep.Inconcl("range overflow case needs three blocks ahead of the victim")
		return
	}
	H := s.headH
	ch := s.dl.SeekBlocks(H+1, H+1, []peer.ID{s.pidA})
	id := protocol.VerifBatchId()
	// capacity 1: one block is taken by the consumer, one more fits into the buffer, the third send blocks
	items := []c12RangeItem{{env.Ahead[0].Header, env.AheadCerts[0], nil}, {env.Ahead[1].Header, env.AheadCerts[1], nil}, {env.Ahead[2].Header, env.AheadCerts[2], nil}}
	stream := c12StreamBytes(c12Frame(protocol.BlocksRange, c12RangePayload(id, items), 0, 0))
	c.desc = "range overflow: 3 blocks answered to a request for 1"
	rep.Progress("%s hex=%s", c.desc, c12Hex(stream, 200))
	rep.Count("inputs", 1)
	rep.Count("range_overflow_cases", 1)
	rep.Eval(1)
	s.sa.set(stream)
	done := make(chan struct{})
	var herr error
	var pv interface{}
	var stack string
	go func() {
		defer close(done)
		pv, stack = verifutil.Catch(func() { herr = s.peer().handle() })
	}()
	// the real consumer (fullSync.SeekBlocks) takes the one block it asked for and finishes
	got := 0
	deadline := time.After(40 * time.Second)
consume:
	for {
		select {
		case _, ok := <-ch:
			if !ok {
				break consume
			}
			got++
		case <-deadline:
			rep.Inconcl("range overflow case: the SeekBlocks consumer did not finish within 40 s")
			return
		}
	}
	select {
	case <-done:
		if pv != nil {
			rep.Violation("panic:"+verifutil.RepoFrame(stack), fmt.Sprintf("handle panicked on an oversized block range: %v", pv), map[string]interface{}{"input_hex": c12Hex(stream, 1<<16), "stack": stack})
			return
		}
		rep.Count("range_overflow_returned", 1)
		rep.Note("oversized block range: handle returned (%v), consumer got %d bundle(s)", herr, got)
	case <-time.After(5 * time.Second):
		dump := verifutil.AllStacks()
		g := verifutil.Goroutine(dump, "protocol.(*IdenaGossipHandler).handle", "chan send")
		if g == "" {
			rep.Inconcl("range overflow case: handle has not returned after 5 s but is not parked in a channel send")
			return
		}
		rep.Violation("hang:handle/BlocksRange", fmt.Sprintf("IdenaGossipHandler.handle never returns for a BlocksRange answer that carries more blocks than the open request asked for: "+
			"the node asked peer for heights %d..%d (batch %d, channel capacity 1), the peer answered with 3 well-formed blocks; the consumer took %d and finished, the peer's listening "+
			"goroutine is parked for ever in `batch.headers <- b` (no receiver left), so the peer is never unregistered. input (%d bytes) %s", H+1, H+1, id, got, len(stream), c12Hex(stream, 1200)),
			map[string]interface{}{"input_hex": c12Hex(stream, 1<<16), "goroutine": g, "entry": "handle/BlocksRange", "case": c.desc})
		c.stop = true
	}
}

// ------------------------------------------------------------------ concurrent peers

// TestVerifC12Concurrent: the same node, but several hostile peers whose listening goroutines
// run handle() at the same time (one goroutine per connection, as runListening does), mostly
// with well-formed objects so that the node's shared structures are reached concurrently.
// Oracles: panic in a listening goroutine (captured), process-fatal events on the node's own
// goroutines (concurrent map writes, panics; classified by the driver), watchdog per round.
// No allocation meter here (it needs a single-threaded process).
func TestVerifC12Concurrent(t *testing.T) {
	if !verifutil.Enabled() {
		t.Skip("verif harness")
	}
	rep := verifutil.NewReport()
	defer rep.Write()
	c := &c12Ctx{t: t, rep: rep}
	env := c12Env(t, rep, 4)
	s := c12NewSut(t, "populated", env, env.Victim)
	s.c12BuildCorpus(verifutil.Stream(12, 8))
	const P = 4
	type hp struct {
		st *c12Stream
		p  *c12Peer
	}
	var peers []hp
	for k := 0; k < P; k++ {
		st := &c12Stream{conn: &c12Conn{id: peer.ID(fmt.Sprintf("c12-concurrent-%d", k))}}
		peers = append(peers, hp{st, s.connect(st)})
	}
	codes := []uint64{protocol.NewTx, protocol.NewTx, protocol.NewTx, protocol.FlipKey, protocol.FlipKeysPackage, protocol.FlipBody, protocol.Vote, protocol.ProposeBlock,
		protocol.ProposeProof, protocol.Push, protocol.BatchPush, protocol.Pull, protocol.BatchFlipKey, protocol.GetBlocksRange, protocol.GetBlockByHash,
		protocol.UpdateShardId, protocol.Block, protocol.SnapshotManifest, protocol.GetForkBlockRange}
	rounds := c12Scale(160, 6000)
	const perPeer = 24
	for rd := 0; rd < rounds && !c.stop; rd++ {
		r := verifutil.Stream(12, 9, uint64(rd))
		// inputs are generated while the node is idle (the generator reads the canonical state)
		plan := make([][][]byte, P)
		for k := 0; k < P; k++ {
			for j := 0; j < perPeer; j++ {
				code := codes[r.Intn(len(codes))]
				var payload []byte
				label := ""
				switch r.Pick(45, 30, 25) {
				case 0: // well-formed typed object aimed at the head
					if code == protocol.NewTx {
						tc := env.W.C12HostileTx(r, s.node.R, verifsim.C12TxTypes[r.Intn(len(verifsim.C12TxTypes))], verifsim.C12ToRelated, verifsim.C12PlOwn)
						payload, label = c12Must(tc.Tx.ToBytes()), "tx"
					}
				case 1:
					code, payload, label = c12Typed(s, r)
				}
				if payload == nil {
					idxs := s.byCode[code]
					if len(idxs) == 0 {
						continue
					}
					it := s.corpus[idxs[r.Intn(len(idxs))]]
					payload, label = it.Payload, it.Label
					if it.Range != nil {
						continue
					}
					if r.Intn(100) < 35 {
						if m, l, ok := verifutil.MutateWire(r, payload, 300); ok {
							payload, label = m, label+"+"+l
						}
					}
				}
				_ = label
				plan[k] = append(plan[k], c12StreamBytes(c12Frame(code, payload, 0, 0)))
			}
		}
		c.desc = fmt.Sprintf("concurrent round %d (%d peers x %d frames)", rd, P, perPeer)
		rep.Progress("%s", c.desc)
		done := make(chan struct{})
		var wg sync.WaitGroup
		for k := 0; k < P; k++ {
			wg.Add(1)
			go func(k int) { // the listening goroutine of peer k
				defer wg.Done()
				for j, stream := range plan[k] {
					peers[k].st.set(stream)
					var err error
					pv, stack := verifutil.Catch(func() { err = peers[k].p.handle() })
					rep.Eval(1)
					rep.Count("inputs", 1)
					rep.Count("concurrent_frames", 1)
					if err == nil {
						rep.Count("concurrent_handled", 1)
					}
					if pv != nil {
						if c12HarnessPanic(stack) {
							rep.Inconcl("panic in harness code in a concurrent round: %v: %s", pv, verifutil.Trunc(verifutil.FirstFrames(stack, 4), 800))
							continue
						}
						rep.Violation("panic:"+verifutil.RepoFrame(stack), fmt.Sprintf("handle panicked while %d peers were being served concurrently: %v | round %d peer %d frame %d | input (%d bytes) %s | %s", P, pv, rd, k, j,
							len(stream), c12Hex(stream, 1200), strings.ReplaceAll(verifutil.FirstFrames(stack, 7), "\n", " ")), map[string]interface{}{"input_hex": c12Hex(stream, 1<<16), "stack": verifutil.Trunc(stack, 12000), "round": rd, "peer": k})
					}
				}
			}(k)
		}
		go func() { wg.Wait(); close(done) }()
		select {
		case <-done:
		case <-time.After(c12Soft + c12Hard):
			dump := verifutil.AllStacks()
			parked := false
			for _, st := range verifutil.GoroutineStates(dump, "protocol.(*IdenaGossipHandler).handle") {
				if st != "runnable" && st != "running" {
					parked = true
				}
			}
			if parked {
				rep.Violation("hang:handle/concurrent", fmt.Sprintf("a round of %d concurrently served peers did not finish within %v: a listening goroutine is parked inside handle", P, c12Soft+c12Hard),
					map[string]interface{}{"round": rd, "goroutines": verifutil.Trunc(dump, 60000)})
			} else {
				rep.Inconcl("concurrent round %d did not finish within %v, no listening goroutine is parked (overloaded machine?)", rd, c12Soft+c12Hard)
			}
			c.stop = true
			continue
		}
		c12Settle(c)
		if rd%10 == 9 {
			c12Maintain(c, s)
		}
	}
	rep.Count("concurrent_rounds", 1)
	env.W.Cleanup()
}
