//go:build verif && c11

package protocol_test

// C11, job "realsync", second part: HOSTILE servers and the state API after the switch.
//
// (A) "corrupted artifacts must be refused" for the real consumer (protocol/fast.go), with
// artifacts that are WELL-FORMED but are not the canonical ones:
//   (A1) altered snapshot: the header range is served honestly; the manifest carries the
//        canonical snapshot height, the root of ANOTHER state and the cid of the real
//        WriteSnapshot2 export of that other state (the canonical state with one account balance
//        / one identity changed or one account added, or the state of an earlier height). The node
//        must refuse in postConsuming and must stay where it was (head, roots, state API); if it
//        completes, its state must be the canonical one.
//   (A2) omitted identity diff: the server lost the stored identity diff of ONE block whose
//        canonical header changes the identity root (provideBlocks then serves the block without
//        diff; everything else is served honestly). processBatch must refuse that block: the
//        preliminary head must stay below it. A sync that goes on past it is a violation, whether
//        it completes (then oracle (1) of the job is applied to what the node stores, too) or is
//        refused at a later block.
//   After a correct refusal the node is offered the correct artifacts by an honest peer: it must
//   complete from where it stands and pass oracles (1)-(3) (a refusal leaves nothing behind that
//   hinders or alters the import).
// (B) state API after the switch: the node reads a sample of accounts / identities / global
//   values / switch lists / identity-state flags / validator view through the getters of its
//   main app state before the sync and right before the switch (a running node does that all
//   the time: API, ceremony, mempool), and again right after postConsuming returned, before any
//   block is applied. Every answer must equal the answer of the fully synced node's read-only
//   view at the snapshot height.

import (
	"bytes"
	"fmt"
	"math/big"
	"os"
	"sort"
	"strings"

	"github.com/idena-network/idena-go/blockchain/types"
	"github.com/idena-network/idena-go/common"
	"github.com/idena-network/idena-go/core/appstate"
	"github.com/idena-network/idena-go/core/state"
	"github.com/idena-network/idena-go/core/state/snapshot"
	"github.com/idena-network/idena-go/database"
	"github.com/idena-network/idena-go/verifsim"
	"github.com/idena-network/idena-go/verifutil"
	"github.com/libp2p/go-libp2p-core/peer"
)

// ------------------------------------------------------------------ (B) state API probe

// c11ProbeIdentityState: the probe also reads the flags of the main IdentityStateDB
// (IsOnline / IsValidated / Delegatee) before the switch.
const c11ProbeIdentityState = true

type c11Probe struct {
	c     *c11Ctx
	addrs []common.Address
	baseH uint64
	pre   map[string]string // what the node answered at its own height before the sync
}

func c11Short(b []byte) string {
	if len(b) <= 12 {
		return fmt.Sprintf("%x", b)
	}
	return c11Hash(b)
}

func c11AddrP(a *common.Address) string {
	if a == nil {
		return "nil"
	}
	return fmt.Sprintf("%x", a[:])
}

func c11AddrList(l []common.Address) string {
	var sb strings.Builder
	fmt.Fprintf(&sb, "%d:", len(l))
	for _, a := range l {
		fmt.Fprintf(&sb, "%x,", a[:4])
	}
	return sb.String()
}

// c11ApiRead asks the state API of as. Keys are "<getter class>|<getter>|<address>". Only
// getters that do not create objects are used on addresses that may be absent.
func c11ApiRead(as *appstate.AppState, addrs []common.Address, idState bool) map[string]string {
	out := map[string]string{}
	st := as.State
	put := func(class, getter string, a *common.Address, v interface{}) {
		k := class + "|" + getter + "|"
		if a != nil {
			k += fmt.Sprintf("%x", a[:])
		}
		out[k] = fmt.Sprint(v)
	}
	// global values
	put("global", "Epoch", nil, st.Epoch())
	put("global", "EpochBlock", nil, st.EpochBlock())
	put("global", "FeePerGas", nil, st.FeePerGas())
	put("global", "ValidationPeriod", nil, st.ValidationPeriod())
	put("global", "NextValidationTime", nil, st.NextValidationTime().Unix())
	put("global", "LastSnapshot", nil, st.LastSnapshot())
	put("global", "VrfProposerThreshold", nil, st.VrfProposerThreshold())
	put("global", "EmptyBlocksCount", nil, st.EmptyBlocksCount())
	put("global", "GodAddress", nil, st.GodAddress().Hex())
	put("global", "FlipWordsSeed", nil, fmt.Sprintf("%x", st.FlipWordsSeed()))
	put("global", "ShardsNum", nil, st.ShardsNum())
	put("global", "BlocksCntWithoutCeremonialTxs", nil, st.BlocksCntWithoutCeremonialTxs())
	put("global", "PrevEpochBlocks", nil, st.PrevEpochBlocks())
	put("global", "RawGlobal", nil, c11Short(st.RawGlobal()))
	// switch lists
	put("switch-lists", "StatusSwitchAddresses", nil, c11AddrList(st.StatusSwitchAddresses()))
	put("switch-lists", "DelayedOfflinePenalties", nil, c11AddrList(st.DelayedOfflinePenalties()))
	put("switch-lists", "DiscriminationStatusSwitchAddresses", nil, c11AddrList(st.DiscriminationStatusSwitchAddresses()))
	{
		var sb strings.Builder
		for _, d := range st.Delegations() {
			fmt.Fprintf(&sb, "%x>%x,", d.Delegator[:4], d.Delegatee[:4])
		}
		put("switch-lists", "Delegations", nil, sb.String())
	}
	vc := as.ValidatorsCache
	put("validators-view", "NetworkSize", nil, vc.NetworkSize())
	put("validators-view", "OnlineSize", nil, vc.OnlineSize())
	put("validators-view", "ValidatorsSize", nil, vc.ValidatorsSize())
	put("validators-view", "ForkCommitteeSize", nil, vc.ForkCommitteeSize())
	for i := range addrs {
		a := addrs[i]
		put("account", "AccountExists", &a, st.AccountExists(a))
		put("account", "GetBalance", &a, st.GetBalance(a))
		put("account", "GetNonce", &a, st.GetNonce(a))
		put("account", "GetEpoch", &a, st.GetEpoch(a))
		put("account", "GetContractStake", &a, st.GetContractStake(a))
		if h := st.GetCodeHash(a); h != nil {
			put("account", "GetCodeHash", &a, h.Hex())
		} else {
			put("account", "GetCodeHash", &a, "nil")
		}
		raw := st.RawIdentity(a)
		put("identity", "RawIdentity", &a, c11Short(raw))
		id := st.GetIdentity(a)
		put("identity", "GetIdentity", &a, fmt.Sprintf("state=%d stake=%v birthday=%d gen=%d flips=%d invites=%d invitees=%d penalty=%d shard=%d delegatee=%s", id.State, id.Stake, id.Birthday,
			id.Generation, len(id.Flips), id.Invites, len(id.Invitees), id.PenaltySeconds(), id.ShiftedShardId(), c11AddrP(id.Delegatee())))
		put("identity", "GetIdentityState", &a, st.GetIdentityState(a))
		put("identity", "GetStakeBalance", &a, st.GetStakeBalance(a))
		put("identity", "GetPenaltySeconds", &a, st.GetPenaltySeconds(a))
		put("identity", "GetInvites", &a, st.GetInvites(a))
		put("identity", "GetQualifiedFlipsCount", &a, st.GetQualifiedFlipsCount(a))
		if raw != nil {
			// these getters create the object when it is missing: only where this instance has one
			put("identity", "Delegatee", &a, c11AddrP(st.Delegatee(a)))
			put("identity", "GetRequiredFlips", &a, st.GetRequiredFlips(a))
			put("identity", "ShardId", &a, st.ShardId(a))
		} else {
			put("identity", "Delegatee", &a, "no-identity")
			put("identity", "GetRequiredFlips", &a, "no-identity")
			put("identity", "ShardId", &a, "no-identity")
		}
		if idState {
			put("identity-state", "IsOnline", &a, as.IdentityState.IsOnline(a))
			put("identity-state", "IsValidated", &a, as.IdentityState.IsValidated(a))
			put("identity-state", "Delegatee", &a, c11AddrP(as.IdentityState.Delegatee(a)))
		}
		put("validators-view", "IsValidated", &a, vc.IsValidated(a))
		put("validators-view", "IsOnlineIdentity", &a, vc.IsOnlineIdentity(a))
		put("validators-view", "IsDiscriminated", &a, vc.IsDiscriminated(a))
		put("validators-view", "IsPool", &a, vc.IsPool(a))
	}
	return out
}

func c11StateAddrs(st *state.StateDB, into map[common.Address]bool) {
	st.IterateOverAccounts(func(a common.Address, _ state.Account) { into[a] = true })
	st.IterateOverIdentities(func(a common.Address, _ state.Identity) { into[a] = true })
}

// newProbe picks the addresses (every account / identity of the node's own state and of the
// canonical state at the snapshot height, every actor of the world, two addresses that never
// existed) and makes the node answer for them at its own height.
func (c *c11Ctx) newProbe(x *c11Node, snapH uint64) *c11Probe {
	p := &c11Probe{c: c, baseH: x.r.Head().Height()}
	set := map[common.Address]bool{{0xee, 0x11, 0xc1}: true, {0xee, 0x11, 0xc2}: true}
	for _, a := range c.env.W.SortedActors() {
		set[a.Addr] = true
	}
	c11StateAddrs(x.r.AppState.State, set)
	if ref, err := c.env.Straight.AppState.Readonly(snapH); err == nil {
		c11StateAddrs(ref.State, set)
	}
	for a := range set {
		p.addrs = append(p.addrs, a)
	}
	sort.Slice(p.addrs, func(i, j int) bool { return bytes.Compare(p.addrs[i][:], p.addrs[j][:]) < 0 })
	if len(p.addrs) > 400 {
		p.addrs = p.addrs[:400]
	}
	p.pre = c11ApiRead(x.r.AppState, p.addrs, c11ProbeIdentityState)
	return p
}

// readBeforeSwitch: the node object that is going to switch answers once more (after a restart
// during the sync it is a new object with empty caches).
func (p *c11Probe) readBeforeSwitch(cli *c11Node) {
	c11ApiRead(cli.r.AppState, p.addrs, c11ProbeIdentityState)
}

func c11SplitKey(k string) (class, getter, addr string) {
	s := strings.SplitN(k, "|", 3)
	return s[0], s[1], s[2]
}

func c11SortedKeys(m map[string]string) []string {
	l := make([]string, 0, len(m))
	for k := range m {
		l = append(l, k)
	}
	sort.Strings(l)
	return l
}

// compareAfterSwitch: postConsuming has just returned nil. Every answer of the node must be the
// answer of the fully synced node's read-only view of the snapshot height.
func (p *c11Probe) compareAfterSwitch(c *c11Ctx, x *c11Node, snapH uint64, gen, label string) {
	rep := c.rep
	ref, err := c.env.Straight.AppState.Readonly(snapH)
	if err != nil {
		rep.Note("state API probe: fully synced node has no readonly state at %d: %v", snapH, err)
		return
	}
	got := c11ApiRead(x.r.AppState, p.addrs, c11ProbeIdentityState)
	want := c11ApiRead(ref, p.addrs, c11ProbeIdentityState)
	rep.Eval(1)
	rep.Count("state_api_syncs_probed", 1)
	if p.baseH > 1 {
		rep.Count("state_api_syncs_probed:node-with-own-prefix", 1)
	} else {
		rep.Count("state_api_syncs_probed:node-at-genesis", 1)
	}
	reported := map[string]bool{}
	changedAddrs := map[string]bool{}
	staleIdState := false
	for _, k := range c11SortedKeys(want) {
		class, getter, addr := c11SplitKey(k)
		rep.Count("state_api_reads_compared", 1)
		rep.Count("state_api_reads_compared:"+class, 1)
		if p.pre[k] != want[k] {
			// the value moved between the height the node started from and the snapshot height
			rep.Count("state_api_values_changed_between_start_and_snapshot", 1)
			rep.Count("state_api_values_changed:"+class, 1)
			if addr != "" {
				changedAddrs[addr] = true
			}
			switch {
			case getter == "AccountExists" && want[k] == "false":
				rep.Count("state_api_changed:account-deleted", 1)
			case getter == "AccountExists":
				rep.Count("state_api_changed:account-created", 1)
			case getter == "GetBalance":
				rep.Count("state_api_changed:balance-moved", 1)
			case getter == "GetNonce":
				rep.Count("state_api_changed:nonce-moved", 1)
			case getter == "GetIdentityState" && (want[k] == fmt.Sprint(state.Killed) || want[k] == fmt.Sprint(state.Undefined)):
				rep.Count("state_api_changed:identity-killed-or-removed", 1)
			case getter == "GetIdentityState" && p.pre[k] == fmt.Sprint(state.Undefined):
				rep.Count("state_api_changed:identity-created", 1)
			case getter == "GetIdentityState":
				rep.Count("state_api_changed:identity-status-moved", 1)
			case class == "global" && getter == "Epoch":
				rep.Count("state_api_changed:epoch-moved", 1)
			case class == "identity-state" && getter == "IsOnline":
				rep.Count("state_api_changed:online-flag-moved", 1)
			case class == "identity-state" && getter == "IsValidated":
				rep.Count("state_api_changed:validated-flag-moved", 1)
			}
		}
		if got[k] == want[k] {
			continue
		}
		if class == "identity-state" {
			staleIdState = true
		}
		if reported[class] {
			continue
		}
		reported[class] = true
		what := "the value it reported before the sync"
		if got[k] != p.pre[k] {
			what = fmt.Sprintf("neither that nor what it reported before the sync (%s)", p.pre[k])
		}
		a := addr
		if len(a) > 8 {
			a = a[:8]
		}
		rep.Violation("state-api-stale-after-snapshot-import:"+class, fmt.Sprintf("%s node fast-synced by the real fast.go from %s, height %d -> %d: right after postConsuming returned nil (no block applied yet; head, roots and tree "+
			"contents are those of height %d) %s(%s) answers %s; the fully synced node's read-only view of height %d answers %s; the node's answer is %s", gen, label, p.baseH, snapH, snapH,
			getter, a, got[k], snapH, want[k], what), map[string]interface{}{"getter": getter, "class": class, "node": got[k], "canonical": want[k], "before_sync": p.pre[k]})
	}
	rep.Count("state_api_addresses_changed_between_start_and_snapshot", len(changedAddrs))
	if p.baseH > 1 {
		rep.Count("state_api_addresses_changed_between_start_and_snapshot:node-with-own-prefix", len(changedAddrs))
	}
	if staleIdState && os.Getenv("VERIF_C11_KEEP_STALE_IDENTITY_STATE") == "" {
		// The stale objects sit in the cache of the main IdentityStateDB because THIS probe read them
		// before the switch. They are dropped here, after the violation was recorded, so that the
		// following oracles judge the sync itself (a later block that touches such an identity would
		// be applied on the stale object and refused with "invalid block roots").
		x.r.AppState.IdentityState.Clear()
		rep.Count("state_api_stale_identity_state_cache_dropped_by_harness", 1)
	}
}

// compareUnchanged: a sync was refused; the node must answer what it answered before.
func (p *c11Probe) compareUnchanged(c *c11Ctx, x *c11Node, hostile, class string) bool {
	got := c11ApiRead(x.r.AppState, p.addrs, c11ProbeIdentityState)
	for _, k := range c11SortedKeys(p.pre) {
		if got[k] != p.pre[k] {
			cl, getter, addr := c11SplitKey(k)
			if len(addr) > 8 {
				addr = addr[:8]
			}
			c.rep.Violation("refused-sync-left-node-changed:"+hostile+":state-api:"+cl, fmt.Sprintf("the node (height %d) refused a sync with a hostile artifact (%s, %s), but afterwards %s(%s) answers %s instead of %s",
				p.baseH, hostile, class, getter, addr, got[k], p.pre[k]), nil)
			return false
		}
	}
	return true
}

// ------------------------------------------------------------------ (A) hostile servers

func (c *c11Ctx) outcome(hostile, class, how string) {
	c.rep.Count("hostile_outcome:"+hostile+":"+how, 1)
	c.rep.Count("hostile_outcome:"+hostile+":"+class+":"+how, 1)
}

// nodeWhereItWas: after a refused sync head and loaded state are those of the start height.
func (c *c11Ctx) nodeWhereItWas(x *c11Node, base uint64, baseHash common.Hash, hostile, class string) bool {
	X := x.r
	if X.Head().Height() != base || X.Head().Hash() != baseHash || X.AppState.State.Root() != X.Head().Root() || X.AppState.IdentityState.Root() != X.Head().IdentityRoot() {
		c.rep.Violation("refused-sync-left-node-changed:"+hostile+":head-or-roots", fmt.Sprintf("the node (height %d) refused a sync with a hostile artifact (%s, %s), but afterwards its head is %d %x "+
			"(roots %x/%x) and its loaded state has roots %x/%x", base, hostile, class, X.Head().Height(), X.Head().Hash().Bytes()[:6], X.Head().Root().Bytes()[:6], X.Head().IdentityRoot().Bytes()[:6],
			X.AppState.State.Root().Bytes()[:6], X.AppState.IdentityState.Root().Bytes()[:6]), nil)
		return false
	}
	return true
}

// recoverHonest: after a correct refusal an honest peer serves the correct artifacts; the node
// must complete from where it stands (the oracles of an ordinary case follow in afterSwitch).
func (c *c11Ctx) recoverHonest(x *c11Node, srv *c11Node, m *snapshot.Manifest, p c11Plan, hostile, tag string, probe *c11Probe) (*c11Node, bool) {
	rep := c.rep
	c.logs.reset()
	rep.Count("real_fast_syncs", 1)
	rep.Count("real_fast_syncs:after-refusal", 1)
	tag += " (honest peer after the refusal)"
	// the previous connection of this node to this server handler was closed a moment ago; its two
	// listening goroutines unregister the peers on their own, but possibly later than the new
	// connection is registered under the same ids
	srv.h.VerifUnregister(x.id)
	x.h.VerifUnregister(srv.id)
	x, phase, err := c.realSync(x, srv, m, c11Plan{base: p.base, snapH: p.snapH, batch: p.batch}, tag, c11SyncOpt{beforePost: probe.readBeforeSwitch})
	if err != nil {
		c.syncFailure(tag, "after-refused-"+hostile, phase, err)
		return x, false
	}
	return x, true
}

// forgedManifest builds a well-formed snapshot of a state that is NOT the canonical state of
// snapH with the real exporter, adds it to the content store and announces it with its own root
// and the canonical height.
func (c *c11Ctx) forgedManifest(srv *verifsim.Replica, snapH, lo uint64, class string) (*snapshot.Manifest, string, error) {
	canonRoot := c.env.Canon[snapH].Root()
	var buf bytes.Buffer
	var root common.Hash
	var desc string
	var err error
	r := c.r
	switch class {
	case "state-of-earlier-height":
		h2 := uint64(0)
		for k := uint64(1); k <= 8 && snapH-k >= lo && snapH-k >= 2; k++ {
			if c.env.Canon[snapH-k].Root() != canonRoot && r.Intn(3) > 0 {
				h2 = snapH - k
				break
			}
		}
		if h2 == 0 {
			h2 = snapH - 1
		}
		if h2 < lo || c.env.Canon[h2].Root() == canonRoot {
			return nil, "", fmt.Errorf("no earlier height with another state root")
		}
		if root, err = srv.AppState.State.WriteSnapshot2(h2, &buf); err != nil {
			return nil, "", err
		}
		desc = fmt.Sprintf("export of the state of height %d", h2)
	default:
		if snapH-1 < lo {
			return nil, "", fmt.Errorf("state of height %d is not kept", snapH-1)
		}
		// a private copy (writes go to a memory layer) of the state one block earlier, brought to
		// exactly the canonical contents of snapH key by key, then altered through the state API
		f, err := srv.AppState.State.ForCheckWithOverwrite(snapH - 1)
		if err != nil {
			return nil, "", err
		}
		ref, err := srv.AppState.State.Readonly(int64(snapH))
		if err != nil {
			return nil, "", err
		}
		cur := map[string][]byte{}
		f.VerifIterateAll(func(k, v []byte) bool { cur[string(k)] = append([]byte{}, v...); return false })
		var diffs []*state.StateTreeDiff
		ref.VerifIterateAll(func(k, v []byte) bool {
			if old, ok := cur[string(k)]; !ok || !bytes.Equal(old, v) {
				diffs = append(diffs, &state.StateTreeDiff{Key: append([]byte{}, k...), Value: append([]byte{}, v...)})
			}
			delete(cur, string(k))
			return false
		})
		var gone []string
		for k := range cur {
			gone = append(gone, k)
		}
		sort.Strings(gone)
		for _, k := range gone {
			diffs = append(diffs, &state.StateTreeDiff{Key: []byte(k), Deleted: true})
		}
		// (same contents; the shape of an AVL tree, and with it the root, depends on the order of the
		// insertions, so even without the alteration below this need not be the canonical root)
		f.AddDiff(diffs)
		var accs, ids []common.Address
		ref.IterateOverAccounts(func(a common.Address, _ state.Account) { accs = append(accs, a) })
		ref.IterateOverIdentities(func(a common.Address, id state.Identity) {
			if id.State != state.Undefined && id.State != state.Killed {
				ids = append(ids, a)
			}
		})
		sortAddrs := func(l []common.Address) {
			sort.Slice(l, func(i, j int) bool { return bytes.Compare(l[i][:], l[j][:]) < 0 })
		}
		sortAddrs(accs)
		sortAddrs(ids)
		dna := new(big.Int).Mul(big.NewInt(1e18), big.NewInt(int64(r.Range(1, 1000))))
		switch {
		case class == "one-identity-changed" && len(ids) > 0:
			a := ids[r.Intn(len(ids))]
			if r.Bool() {
				f.AddStake(a, dna)
				desc = fmt.Sprintf("canonical contents of %d with the stake of identity %x raised by %v", snapH, a[:4], dna)
			} else {
				ns := state.Human
				if f.GetIdentityState(a) == state.Human {
					ns = state.Suspended
				}
				f.SetState(a, ns)
				desc = fmt.Sprintf("canonical contents of %d with the status of identity %x set to %d", snapH, a[:4], ns)
			}
		case class == "one-account-added" || len(accs) == 0:
			var a common.Address
			copy(a[:], r.Bytes(20))
			a[0] = 0xc1
			f.AddBalance(a, dna)
			desc = fmt.Sprintf("canonical contents of %d with a new account %x holding %v", snapH, a[:4], dna)
		default:
			a := accs[r.Intn(len(accs))]
			f.AddBalance(a, dna)
			desc = fmt.Sprintf("canonical contents of %d with the balance of %x raised by %v", snapH, a[:4], dna)
		}
		f.Precommit(true)
		if _, _, err = f.CommitTree(int64(snapH)); err != nil {
			return nil, "", err
		}
		if root, err = f.WriteSnapshot2(snapH, &buf); err != nil {
			return nil, "", err
		}
		// how far the exported contents are from the canonical ones
		canonKV := map[string][]byte{}
		ref.VerifIterateAll(func(k, v []byte) bool { canonKV[string(k)] = append([]byte{}, v...); return false })
		nd := 0
		f.VerifIterateAll(func(k, v []byte) bool {
			if old, ok := canonKV[string(k)]; !ok || !bytes.Equal(old, v) {
				nd++
			}
			delete(canonKV, string(k))
			return false
		})
		nd += len(canonKV)
		if nd == 0 {
			return nil, "", fmt.Errorf("the alteration changed no key")
		}
		c.rep.Max("hostile_altered_snapshot_max_keys_differing_from_canonical", nd)
		desc += fmt.Sprintf(" (%d keys differ from the canonical contents)", nd)
	}
	if root == canonRoot {
		return nil, "", fmt.Errorf("the altered state has the canonical root")
	}
	id, err := srv.Ipfs.Add(buf.Bytes(), true)
	if err != nil {
		return nil, "", err
	}
	return &snapshot.Manifest{Height: snapH, Root: root, CidV2: id.Bytes()}, desc, nil
}

var c11SnapshotClasses = []string{"one-balance-changed", "state-of-earlier-height", "one-identity-changed", "one-account-added"}

// hostileSnapshotCase = (A1).
func (c *c11Ctx) hostileSnapshotCase(srv *c11Node, label string, p c11Plan, lo uint64, class string) {
	rep, env := c.rep, c.env
	const hostile = "altered-snapshot"
	tag := fmt.Sprintf("world %d hostile %s (%s) from %s base=%d snap=%d batch=%d", c.world, hostile, class, label, p.base, p.snapH, p.batch)
	rep.Progress("C11 %s", tag)
	fm, desc, err := c.forgedManifest(srv.r, p.snapH, lo, class)
	if err != nil {
		rep.Note("%s: no altered snapshot: %v", tag, err)
		rep.Count("hostile_cases_skipped:"+hostile, 1)
		return
	}
	m, err := c.manifestFrom(srv.r, p.snapH)
	if err != nil {
		rep.Inconcl("%s cannot export a snapshot at %d: %v", label, p.snapH, err)
		return
	}
	X, base, preDB, ok := c.newSyncingNode(p, "hostile-snapshot")
	if !ok {
		return
	}
	baseHash := X.Head().Hash()
	x := c11NewNode(c.t, X, "hostile-snapshot")
	c.logs.reset()
	rep.Eval(1)
	rep.Count("hostile_syncs", 1)
	rep.Count("hostile_syncs:"+hostile, 1)
	rep.Count("hostile_syncs:"+hostile+":"+class, 1)
	rep.Count("hostile_syncs:"+hostile+":via-"+label, 1)
	rep.Distinct("hostile-sync", hostile, class, label, c.world, p.base, p.snapH, p.batch, c11Hash(fm.Root.Bytes()))
	probe := c.newProbe(x, p.snapH)
	x, phase, err := c.realSync(x, srv, fm, p, tag, c11SyncOpt{beforePost: probe.readBeforeSwitch})
	canon := env.Canon[p.snapH]
	switch {
	case err == nil:
		// the node imported something and switched: it must be the canonical state
		X := x.r
		bad := ""
		if X.AppState.State.Root() != canon.Root() {
			bad = fmt.Sprintf("its state root is %x, the canonical header of height %d commits to %x (the manifest announced %x)", X.AppState.State.Root().Bytes()[:8], p.snapH, canon.Root().Bytes()[:8], fm.Root.Bytes()[:8])
		} else if ref, err := env.Straight.AppState.Readonly(p.snapH); err == nil {
			if d := verifsim.StateContentsDiff(ref.State, X.AppState.State); d != "" {
				bad = "its state contents differ from the fully synced node's: " + d
			}
		}
		if bad != "" {
			rep.Violation("altered-snapshot-accepted:"+class, fmt.Sprintf("a node (height %d) was fast-synced by the real fast.go to height %d: headers, certificates and identity diffs honest (%s); the manifest announced "+
				"height %d, root %x and the cid of a well-formed snapshot that is NOT the state of that height (%s). postConsuming returned nil, the node switched (head %d): %s", base, p.snapH, label, fm.Height,
				fm.Root.Bytes()[:8], desc, X.Head().Height(), bad), map[string]interface{}{"case": tag, "altered": desc})
			c.outcome(hostile, class, "violation")
			return
		}
		c.outcome(hostile, class, "completed-equal")
		return
	case phase != "postConsuming":
		// the honest part of the artifacts did not get through
		c.syncFailure(tag, "hostile-"+hostile, phase, err)
		return
	}
	// refused
	rep.Count("hostile_refusal_reason:"+hostile+":"+verifsim.ErrClass(err), 1)
	if !c.nodeWhereItWas(x, base, baseHash, hostile, class) || !probe.compareUnchanged(c, x, hostile, class) {
		c.outcome(hostile, class, "violation")
		return
	}
	c.outcome(hostile, class, "refused")
	// the genuine snapshot from an honest peer
	if x, ok = c.recoverHonest(x, srv, m, p, hostile, tag, probe); !ok {
		return
	}
	if c.afterSwitch(x, base, p.snapH, preDB, "after-refusal", label, probe) {
		rep.Count("hostile_sync_recovered_with_honest_artifacts", 1)
		rep.Count("hostile_sync_recovered_with_honest_artifacts:"+hostile, 1)
	}
}

// ---- (A2)

var c11DiffKinds = []string{"validation-finishing-block", "empty-block", "block-with-kill-tx", "proposed-block-without-txs", "proposed-block-with-other-txs"}

func c11DiffKind(b *types.Block) string {
	switch {
	case b.Header.Flags().HasFlag(types.ValidationFinished):
		return c11DiffKinds[0]
	case b.IsEmpty():
		return c11DiffKinds[1]
	case len(b.Body.Transactions) == 0:
		return c11DiffKinds[3]
	}
	for _, tx := range b.Body.Transactions {
		if tx.Type == types.KillTx || tx.Type == types.KillInviteeTx || tx.Type == types.KillDelegatorTx {
			return c11DiffKinds[2]
		}
	}
	return c11DiffKinds[4]
}

// diffTargets: the canonical blocks whose header changes the identity root (a node that gets
// such a block without its identity diff cannot reproduce the root, whatever else it has).
func (c *c11Ctx) diffTargets() map[string][]uint64 {
	out := map[string][]uint64{}
	for h := uint64(3); h < c.env.Head; h++ {
		b, prev := c.env.Canon[h], c.env.Canon[h-1]
		if b == nil || prev == nil || b.Header.IdentityRoot() == prev.Header.IdentityRoot() {
			continue
		}
		k := c11DiffKind(b)
		out[k] = append(out[k], h)
	}
	return out
}

func (c *c11Ctx) identityRootChangesIn(from, to uint64) int {
	n := 0
	for h := from; h <= to; h++ {
		if c.env.Canon[h].Header.IdentityRoot() != c.env.Canon[h-1].Header.IdentityRoot() {
			n++
		}
	}
	return n
}

// hostileDiffCase = (A2): the server has lost the identity diff of height h.
func (c *c11Ctx) hostileDiffCase(srv *c11Node, label string, p c11Plan, h uint64) {
	rep, env := c.rep, c.env
	const hostile = "omitted-identity-diff"
	kind := c11DiffKind(env.Canon[h])
	later := c.identityRootChangesIn(h+1, p.snapH)
	tag := fmt.Sprintf("world %d hostile %s of block %d (%s, %s; %d later identity changes) from %s base=%d snap=%d batch=%d", c.world, hostile, h, kind, verifsim.BlockKind(env.Canon[h]), later, label,
		p.base, p.snapH, p.batch)
	rep.Progress("C11 %s", tag)
	repo := database.NewRepo(srv.r.DB)
	stored := repo.ReadIdentityStateDiff(h)
	if len(stored) == 0 {
		rep.Note("%s: %s stores no identity diff for height %d although the identity root changes there", tag, label, h)
		rep.Count("hostile_cases_skipped:"+hostile, 1)
		return
	}
	m, err := c.manifestFrom(srv.r, p.snapH)
	if err != nil {
		rep.Inconcl("%s cannot export a snapshot at %d: %v", label, p.snapH, err)
		return
	}
	X, base, preDB, ok := c.newSyncingNode(p, "hostile-diff")
	if !ok {
		return
	}
	baseHash := X.Head().Hash()
	x := c11NewNode(c.t, X, "hostile-diff")
	c.logs.reset()
	rep.Eval(1)
	rep.Count("hostile_syncs", 1)
	rep.Count("hostile_syncs:"+hostile, 1)
	rep.Count("hostile_syncs:"+hostile+":"+kind, 1)
	rep.Count("hostile_syncs:"+hostile+":via-"+label, 1)
	if later == 0 {
		rep.Count("hostile_syncs:"+hostile+":no-later-identity-change-up-to-the-snapshot", 1)
	} else {
		rep.Count("hostile_syncs:"+hostile+":later-identity-changes-up-to-the-snapshot", 1)
	}
	rep.Distinct("hostile-sync", hostile, kind, label, c.world, p.base, p.snapH, p.batch, h)
	probe := c.newProbe(x, p.snapH)
	// the hostile personality of the server: same handler, same chain, one stored diff gone
	evil := *srv
	evil.id = peer.ID(string(srv.id) + "-lost-diff")
	repo.RemoveIdentityStateDiff(h)
	x, phase, err := c.realSync(x, &evil, m, p, tag, c11SyncOpt{syncTeardown: true, beforePost: probe.readBeforeSwitch})
	repo.WriteIdentityStateDiff(h, stored)
	desc := func(end string) string {
		return fmt.Sprintf("a node (height %d) was fast-synced by the real fast.go towards height %d from %s, which served everything honestly except that block %d (%s, %s; canonical identity root %x -> %x, "+
			"its real identity diff has %d bytes) came WITHOUT identity diff. %s", base, p.snapH, label, h, kind, verifsim.BlockKind(env.Canon[h]), env.Canon[h-1].Header.IdentityRoot().Bytes()[:6],
			env.Canon[h].Header.IdentityRoot().Bytes()[:6], len(stored), end)
	}
	if err == nil {
		X := x.r
		rep.Violation("omitted-identity-diff-accepted:"+kind, desc(fmt.Sprintf("The sync completed: head %d, identity root of the loaded state %x, of the canonical header %x; stored identity diff of height %d: %v",
			X.Head().Height(), X.AppState.IdentityState.Root().Bytes()[:6], env.Canon[p.snapH].Header.IdentityRoot().Bytes()[:6], h, X.Chain.GetIdentityDiff(h) != nil)),
			map[string]interface{}{"case": tag, "block": verifsim.DescribeBlock(env.Canon[h])})
		c.outcome(hostile, kind, "violation")
		// oracle (1) and (2) of the job on what this node now stores and serves
		c.checkState(x, p.snapH, "after-omitted-diff", label)
		c.checkStored(x, base, p.snapH, preDB, "after-omitted-diff", label)
		return
	}
	if phase != "processBatch" {
		c.syncFailure(tag, "hostile-"+hostile, phase, err)
		return
	}
	why := c.logs.reason()
	if why == "" {
		if strings.Contains(strings.Join(c.logs.all(), " | "), "timeout was reached") {
			rep.Inconcl("hostile sync (%s) ran into a wall-clock timeout of the real code without a refusal: %v", tag, err)
			c.stop = true
			return
		}
		why = verifsim.ErrClass(err)
	}
	rep.Count("hostile_refusal_reason:"+hostile+":"+why, 1)
	if ph := x.r.Chain.PreliminaryHead; ph != nil && ph.Height() >= h {
		rep.Violation("omitted-identity-diff-accepted:"+kind, desc(fmt.Sprintf("The node accepted that block (validateIdentityState passed, header added) and went on: it only refused block %d (%s); its preliminary head is %d.",
			ph.Height()+1, why, ph.Height())), map[string]interface{}{"case": tag, "block": verifsim.DescribeBlock(env.Canon[h]), "log": c.logs.all()})
		c.outcome(hostile, kind, "violation")
		return
	}
	if !c.nodeWhereItWas(x, base, baseHash, hostile, kind) || !probe.compareUnchanged(c, x, hostile, kind) {
		c.outcome(hostile, kind, "violation")
		return
	}
	c.outcome(hostile, kind, "refused")
	if ph := x.r.Chain.PreliminaryHead; ph != nil {
		rep.Count("hostile_sync_heights_accepted_before_the_refused_block", int(ph.Height()-base))
	}
	// the same range from an honest peer (the server with its diff back, under its own id)
	if x, ok = c.recoverHonest(x, srv, m, p, hostile, tag, probe); !ok {
		return
	}
	if c.afterSwitch(x, base, p.snapH, preDB, "after-refusal", label, probe) {
		rep.Count("hostile_sync_recovered_with_honest_artifacts", 1)
		rep.Count("hostile_sync_recovered_with_honest_artifacts:"+hostile, 1)
	}
}

// hostileCases runs the (A1) and (A2) cases of one server.
func (c *c11Ctx) hostileCases(srv *c11Node, label string, si int, lo uint64) {
	r, head := c.r, c.env.Head
	sparse := label == "sparse-cert-server"
	pickSnap := func(want uint64) (uint64, bool) {
		if want < lo+1 {
			want = lo + 1
		}
		if want >= head {
			want = head - 1
		}
		if sparse {
			return c.snapHeightWithCert(srv.r, want, lo+1)
		}
		return want, true
	}
	// (A1)
	for j := 0; j < 2 && !c.stop; j++ {
		class := c11SnapshotClasses[(si*2+j+verifutil.Shard()+c.world)%len(c11SnapshotClasses)]
		snapH, ok := pickSnap(head - uint64(r.Range(1, 85)))
		if !ok || snapH <= lo {
			c.rep.Count("hostile_cases_skipped:altered-snapshot", 1)
			continue
		}
		p := c11Plan{snapH: snapH, batch: uint64(r.Range(20, 200))}
		if r.Intn(3) > 0 && snapH > 12 { // mostly nodes with a state of their own, a short way to go
			b := int(snapH) - r.Range(4, 70)
			if b < 2 {
				b = 2
			}
			p.base = uint64(b)
		}
		c.hostileSnapshotCase(srv, label, p, lo, class)
	}
	// (A2)
	targets := c.diffTargets()
	nextChange := func(h uint64) uint64 { // the next height after h whose header changes the identity root (head if none)
		next := h + 1
		for next < head && c.env.Canon[next].Header.IdentityRoot() == c.env.Canon[next-1].Header.IdentityRoot() {
			next++
		}
		return next
	}
	for j := 0; j < 2 && !c.stop; j++ {
		want := indexOf(c11DiffKinds, c11DiffKinds[(si*2+j+verifutil.Shard()+c.world)%len(c11DiffKinds)])
		// variant "quiet": the snapshot height lies before the next identity change, so nothing after
		// the omitted diff can stop the sync (a node that accepts the block completes the sync);
		// variant "busy": any snapshot height at or after the block
		quiet := r.Bool()
		var cand []uint64
		for k := 0; k < len(c11DiffKinds) && len(cand) == 0; k++ { // the wanted kind, else the next kind the chain has
			for _, h := range targets[c11DiffKinds[(want+k)%len(c11DiffKinds)]] {
				if !quiet || nextChange(h)-1 >= lo+1 {
					cand = append(cand, h)
				}
			}
		}
		if len(cand) == 0 {
			c.rep.Count("hostile_cases_skipped:omitted-identity-diff", 1)
			continue
		}
		h := cand[r.Intn(len(cand))]
		from := h
		if from < lo+1 {
			from = lo + 1
		}
		wantSnap := from + uint64(r.Intn(int(head-from)))
		if quiet {
			wantSnap = from + uint64(r.Intn(int(nextChange(h)-from)))
		}
		snapH, ok := pickSnap(wantSnap)
		if !ok || snapH < h || snapH <= lo {
			// (sparse server: the nearest certified snapshot block may lie before h) take the block itself if it can end a sync
			if snapH, ok = pickSnap(h); !ok || snapH < h || snapH <= lo {
				c.rep.Count("hostile_cases_skipped:omitted-identity-diff", 1)
				continue
			}
		}
		p := c11Plan{snapH: snapH, batch: uint64(r.Range(5, 200))}
		if r.Intn(3) > 0 && h > 4 {
			b := int(h) - r.Range(1, 60)
			if b < 2 {
				b = 2
			}
			p.base = uint64(b)
		}
		c.hostileDiffCase(srv, label, p, h)
	}
}

func indexOf(l []string, s string) int {
	for i, x := range l {
		if x == s {
			return i
		}
	}
	return 0
}
