package protocol

// C20 (manager level): the real PushPullManager with two registered holders — a DefaultHolder
// as gossip.go registers it for votes/blocks/proofs/flips (MaxParallelPulls()=3) and the same
// holder reporting MaxParallelPulls()=1 like the tx pool / flip-key pool — each with its own
// real DefaultPushTracker. addPush is driven from one goroutine per peer (like one gossip
// handler per connection), AddEntry from reactive deliveries ("the requested peer serves the
// item after a latency") and spontaneous arrivals at PRNG-chosen points. The delay point the
// driver inserts between makeRequest and RegisterPull is armed with yields / short sleeps.
//
// Everything is recorded at the API boundary under ONE harness mutex; the index of an event
// in the log is its sequence number. Call events are logged BEFORE the call (clock read
// before), return events AFTER the return, requests when RECEIVED from Requests() (clock
// read after the receipt). "Was the request issued before X returned?" is decided with FIFO
// markers, never with clocks: after addPush(p,h) returned the announcer pushes an own-marker
// into m.requests (a request received behind it was not issued synchronously by that call);
// after AddEntry(h) returned an arrival-marker is pushed into the holder's TRACKER channel, so
// that it travels the whole pipeline tracker -> manager loop -> m.requests behind everything
// that was already issued.
//
// Oracles (DESIGN §C20), linear scans over the log:
//   first-announcer  a solo first announcer of an unknown hash has its request in the channel
//                    before its call returns, and it is the first request for the hash; with
//                    overlapping first announcers at least one of them has
//   parallel-cap     <= MaxParallelPulls announcers requested synchronously within pullDelay of
//                    the first announcement
//   pull-delay       a request received behind its own-marker (a fallback) is received no earlier
//                    than pullDelay after the CALL time of the earliest announcement whose pull
//                    preceded it (wall clock LOWER bound; delays only make it safer)
//   after-arrival    behind the arrival marker at most one fallback request (the one the single
//                    tracker loop had in its hands) apart from announcements overlapping AddEntry
//   known-item       an announcement whose call began after AddEntry returned is never requested
//   duplicate        no (peer, hash) requested twice
//   progress         at quiescence every announcer of a never-arrived hash has been requested
//   growth           sizes after quiescence within what the workload can explain
// Watchdog expiry => rep.Inconcl, never a violation.

import (
	"fmt"
	"math"
	"os"
	"runtime"
	"sort"
	"strconv"
	"strings"
	"sync"
	"sync/atomic"
	"testing"
	"time"

	"github.com/idena-network/idena-go/common"
	"github.com/idena-network/idena-go/common/pushpull"
	"github.com/idena-network/idena-go/log"
	"github.com/idena-network/idena-go/verifclock"
	"github.com/idena-network/idena-go/verifutil"
	"github.com/libp2p/go-libp2p-core/peer"
)

const (
	c20AnnCall = iota
	c20AnnRet
	c20OwnMark
	c20Req
	c20AddCall
	c20AddRet
	c20ArrMark
	c20EndMark
)

var c20KindName = []string{"addPush-call", "addPush-ret", "own-marker", "REQUEST", "AddEntry-call", "AddEntry-ret", "arrival-marker", "end-marker"}

const c20Slack = int64(500 * time.Microsecond)
const c20Point = "pushpull.afterMakeRequest"

type c20Ev struct {
	Kind int
	Peer int
	Hash int
	Idx  int
	T    int64
}

type c20Log struct {
	mu    sync.Mutex
	ev    []c20Ev
	start time.Time
	off   bool
}

func (l *c20Log) now() int64 { return int64(time.Since(l.start)) }
func (l *c20Log) add(kind, peer, hash, idx int, t int64) {
	if l.off {
		return
	}
	l.mu.Lock()
	l.ev = append(l.ev, c20Ev{kind, peer, hash, idx, t})
	l.mu.Unlock()
}
func (l *c20Log) snapshot() []c20Ev {
	l.mu.Lock()
	defer l.mu.Unlock()
	return append([]c20Ev(nil), l.ev...)
}

// the tx-pool-like holder: everything of DefaultHolder, one pull at a time
type c20OnePullHolder struct{ pushpull.Holder }

func (c20OnePullHolder) MaxParallelPulls() uint32 { return 1 }

// ---------------------------------------------------------------- workload plan

type c20Ann struct {
	idx, peer, hash int
	off             time.Duration
}
type c20Spont struct {
	hash int
	off  time.Duration
}
type c20Plan struct {
	label     string
	P, H      int
	pullDelay time.Duration
	kind      []int // per hash: 0 = default holder (3), 1 = one-pull holder
	anns      []c20Ann
	serve     map[[2]int]time.Duration
	spont     []c20Spont
	twin      map[int]int // h -> g: item h carries the same 128-bit hash value as item g, under the OTHER push type
}

func c20Ms(x float64) time.Duration { return time.Duration(x * float64(time.Millisecond)) }

func c20GenPlan(rng *verifutil.Rng, H, P int) *c20Plan {
	pl := &c20Plan{label: "generated", P: P, H: H, serve: map[[2]int]time.Duration{}}
	pl.pullDelay = time.Duration(rng.Range(2, 5)*10) * time.Millisecond
	pd := float64(pl.pullDelay) / float64(time.Millisecond)
	pl.twin = map[int]int{}
	twinned := map[int]bool{}
	for h := 0; h < H; h++ {
		pl.kind = append(pl.kind, rng.Intn(2))
		// every sixth item or so reuses the hash VALUE of an earlier item under the other type
		// (types have separate holders and trackers: the two items are unrelated)
		if h > 0 && rng.Chance(1, 6) {
			if g := rng.Intn(h); !twinned[g] { // a value is used once per type
				twinned[g], twinned[h] = true, true
				pl.twin[h] = g
				pl.kind[h] = 1 - pl.kind[g]
			}
		}
		cls := rng.Pick(25, 25, 25, 8, 10, 7)
		k := rng.Range(2, P)
		if rng.Chance(1, 2) {
			k = rng.Range(P/2+1, P)
		}
		if cls == 5 {
			k = 1
		}
		perm := rng.Perm(P)
		base := 25 + rng.Float()*150
		off := base
		for j := 0; j < k; j++ {
			if j > 0 {
				switch rng.Pick(50, 30, 15, 5) {
				case 1:
					off += rng.Float() * 2
				case 2:
					off += 2 + rng.Float()*13
				case 3:
					off += pd * (1 + 2*rng.Float())
				}
			}
			pl.anns = append(pl.anns, c20Ann{len(pl.anns), perm[j], h, c20Ms(off)})
		}
		late := false
		switch cls {
		case 0: // nobody serves: the whole fallback chain runs
		case 1: // whoever is asked first serves quickly: arrival before fallback
			for j := 0; j < k; j++ {
				pl.serve[[2]int{perm[j], h}] = c20Ms(0.5 + rng.Float()*pd/3)
			}
			late = true
		case 2: // only later announcers serve: fallback, then arrival
			n := 0
			for j := 2; j < k; j++ {
				if rng.Chance(1, 2) {
					pl.serve[[2]int{perm[j], h}] = c20Ms(0.5 + rng.Float()*pd*1.5)
					n++
				}
			}
			if n == 0 {
				pl.serve[[2]int{perm[k-1], h}] = c20Ms(0.5 + rng.Float()*pd)
			}
			late = true
		case 3: // item known before anybody announces it
			pl.spont = append(pl.spont, c20Spont{h, c20Ms(base - 5 - rng.Float()*15)})
		case 4: // item arrives by itself somewhere in the middle
			pl.spont = append(pl.spont, c20Spont{h, c20Ms(base + rng.Float()*pd*2.5)})
			late = true
		case 5:
			if rng.Bool() {
				pl.serve[[2]int{perm[0], h}] = c20Ms(0.5 + rng.Float()*pd)
			}
		}
		if late {
			for j := k; j < P; j++ {
				if rng.Chance(2, 3) {
					o := off + pd*(0.2+3*rng.Float())
					pl.anns = append(pl.anns, c20Ann{len(pl.anns), perm[j], h, c20Ms(o)})
				}
			}
		}
	}
	return pl
}

// c20DirectedPlan: one-pull holder, two hashes pulled at different times; a late announcer of
// the OLDER pull is queued while the tracker loop sleeps on the head of its queue.
func c20DirectedPlan() *c20Plan {
	pl := &c20Plan{label: "directed: late announcer of an older pull queued while the loop sleeps on the head", P: 4, H: 2,
		pullDelay: 80 * time.Millisecond, kind: []int{1, 1}, serve: map[[2]int]time.Duration{}}
	add := func(p, h int, ms float64) { pl.anns = append(pl.anns, c20Ann{len(pl.anns), p, h, c20Ms(ms)}) }
	add(0, 1, 5)
	add(1, 0, 30)
	add(2, 0, 32)
	add(3, 1, 60)
	return pl
}

// ---------------------------------------------------------------- one run

type c20Out struct {
	ev          []c20Ev
	quiescent   bool
	chanMax     int
	chanCap     int
	pendingKeys int
	active      [2]int
	maxPar      [2]uint32
}

func c20Hash(rng *verifutil.Rng, i int) common.Hash128 {
	var h common.Hash128
	copy(h[:], rng.Bytes(len(h)))
	h[0] &= 0x7f
	h[1], h[2] = byte(i>>8), byte(i)
	return h
}

func c20MarkerHash(i int) common.Hash128 {
	var h common.Hash128
	h[0] = 0xEE
	h[1], h[2], h[3] = byte(i>>16), byte(i>>8), byte(i)
	return h
}

func c20SleepUntil(start time.Time, off time.Duration) {
	if d := time.Until(start.Add(off)); d > 0 {
		time.Sleep(d)
	}
}

func c20Run(rep *verifutil.Report, rng *verifutil.Rng, pl *c20Plan, bare bool) *c20Out {
	m := NewPushPullManager()
	trk := [2]*pushpull.DefaultPushTracker{pushpull.NewDefaultPushTracker(pl.pullDelay), pushpull.NewDefaultPushTracker(pl.pullDelay)}
	holders := [2]pushpull.Holder{pushpull.NewDefaultHolder(1, trk[0]), c20OnePullHolder{pushpull.NewDefaultHolder(1, trk[1])}}
	types := [2]pushType{pushVote, pushTx}
	m.AddEntryHolder(types[0], holders[0])
	m.AddEntryHolder(types[1], holders[1])
	m.Run()
	out := &c20Out{maxPar: [2]uint32{holders[0].MaxParallelPulls(), holders[1].MaxParallelPulls()}, chanCap: cap(m.requests)}

	pph := make([]pushPullHash, pl.H)
	hidx := map[pushPullHash]int{}
	for h := 0; h < pl.H; h++ {
		pph[h] = pushPullHash{Type: types[pl.kind[h]], Hash: c20Hash(rng, h)}
		if g, ok := pl.twin[h]; ok {
			pph[h].Hash = pph[g].Hash
			rep.Count("items_sharing_hash_value_across_types", 1)
		}
		hidx[pph[h]] = h
	}
	pids := make([]peer.ID, pl.P)
	pidx := map[peer.ID]int{}
	for i := range pids {
		pids[i] = peer.ID(fmt.Sprintf("p%02d", i))
		pidx[pids[i]] = i
	}
	lg := &c20Log{start: time.Now(), off: bare}
	var outstanding, addCtr, endSeen, chanMax int64

	deliver := func(h int) {
		ai := int(atomic.AddInt64(&addCtr, 1)) - 1
		lg.add(c20AddCall, -1, h, ai, lg.now())
		m.AddEntry(pph[h], ai, common.MultiShard, false)
		lg.add(c20AddRet, -1, h, ai, lg.now())
		if !bare {
			trk[pl.kind[h]].Requests() <- pushpull.PendingPulls{Id: peer.ID("\x00a" + strconv.Itoa(ai)), Hash: c20MarkerHash(ai)}
		}
	}
	serveLater := func(p, h int) {
		if lat, ok := pl.serve[[2]int{p, h}]; ok {
			atomic.AddInt64(&outstanding, 1)
			time.AfterFunc(lat, func() {
				deliver(h)
				atomic.AddInt64(&outstanding, -1)
			})
		}
	}

	stop := make(chan struct{})
	recvDone := make(chan struct{})
	go func() { // the consumer of the manager's requests (gossip handler's role)
		defer close(recvDone)
		for {
			select {
			case r := <-m.Requests():
				t := lg.now()
				if l := int64(len(m.requests)); l > atomic.LoadInt64(&chanMax) {
					atomic.StoreInt64(&chanMax, l)
				}
				id := string(r.peer)
				switch {
				case strings.HasPrefix(id, "\x00o"):
					ai, _ := strconv.Atoi(id[2:])
					lg.add(c20OwnMark, -1, -1, ai, t)
				case strings.HasPrefix(id, "\x00a"):
					ai, _ := strconv.Atoi(id[2:])
					lg.add(c20ArrMark, -1, -1, ai, t)
				case strings.HasPrefix(id, "\x00e"):
					lg.add(c20EndMark, -1, -1, 0, t)
					atomic.AddInt64(&endSeen, 1)
				default:
					p, okp := pidx[r.peer]
					h, okh := hidx[r.hash]
					if !okp || !okh {
						lg.add(c20Req, -1, -1, -1, t)
						continue
					}
					lg.add(c20Req, p, h, -1, t)
					serveLater(p, h)
				}
			case <-stop:
				return
			}
		}
	}()

	perPeer := make([][]c20Ann, pl.P)
	for _, a := range pl.anns {
		perPeer[a.peer] = append(perPeer[a.peer], a)
	}
	var wg sync.WaitGroup
	for p := 0; p < pl.P; p++ {
		list := perPeer[p]
		sort.SliceStable(list, func(i, j int) bool { return list[i].off < list[j].off })
		wg.Add(1)
		go func(list []c20Ann) {
			defer wg.Done()
			for _, a := range list {
				c20SleepUntil(lg.start, a.off)
				lg.add(c20AnnCall, a.peer, a.hash, a.idx, lg.now())
				m.addPush(pids[a.peer], pph[a.hash])
				lg.add(c20AnnRet, a.peer, a.hash, a.idx, lg.now())
				if !bare {
					m.requests <- pullRequest{peer: peer.ID("\x00o" + strconv.Itoa(a.idx)), hash: pph[a.hash]}
				}
			}
		}(list)
	}
	sp := append([]c20Spont(nil), pl.spont...)
	sort.SliceStable(sp, func(i, j int) bool { return sp[i].off < sp[j].off })
	for g := 0; g < 2; g++ {
		wg.Add(1)
		go func(g int) {
			defer wg.Done()
			for i := g; i < len(sp); i += 2 {
				c20SleepUntil(lg.start, sp[i].off)
				deliver(sp[i].hash)
			}
		}(g)
	}
	wg.Wait()

	quiet := func() bool {
		return atomic.LoadInt64(&outstanding) == 0 && trk[0].VerifQueueLen() == 0 && trk[1].VerifQueueLen() == 0 &&
			len(trk[0].Requests()) == 0 && len(trk[1].Requests()) == 0 && len(m.requests) == 0
	}
	deadline := time.Now().Add(30 * time.Second)
	stable := 0
	for stable < 3 && time.Now().Before(deadline) {
		time.Sleep(5 * time.Millisecond)
		if quiet() {
			stable++
		} else {
			stable = 0
		}
	}
	out.quiescent = stable >= 3
	if out.quiescent && !bare {
		trk[0].Requests() <- pushpull.PendingPulls{Id: peer.ID("\x00e0"), Hash: c20MarkerHash(1 << 20)}
		trk[1].Requests() <- pushpull.PendingPulls{Id: peer.ID("\x00e1"), Hash: c20MarkerHash(1 << 20)}
		m.requests <- pullRequest{peer: peer.ID("\x00e2")}
		for atomic.LoadInt64(&endSeen) < 3 && time.Now().Before(deadline) {
			time.Sleep(time.Millisecond)
		}
		if atomic.LoadInt64(&endSeen) < 3 {
			out.quiescent = false
		}
		time.Sleep(30 * time.Millisecond)
	}
	if !out.quiescent {
		rep.Inconcl("manager run (%s) did not become quiescent within the watchdog (queues=%d/%d outstanding=%d)", pl.label,
			trk[0].VerifQueueLen(), trk[1].VerifQueueLen(), atomic.LoadInt64(&outstanding))
	}
	out.ev = lg.snapshot()
	out.chanMax = int(atomic.LoadInt64(&chanMax))
	if out.quiescent && !bare {
		// a missing request is only reported if it is still missing after a further long wait
		if len(c20Analyse(nil, pl, out, true)) > 0 {
			time.Sleep(10*pl.pullDelay + 300*time.Millisecond)
			out.ev = lg.snapshot()
		}
	}
	close(stop)
	<-recvDone
	out.chanMax = int(atomic.LoadInt64(&chanMax))
	out.pendingKeys = m.pendingPushes.ItemCount()
	out.active = [2]int{trk[0].VerifActivePulls(), trk[1].VerifActivePulls()}
	return out
}

// ---------------------------------------------------------------- oracles

type c20AnnRec struct {
	called                   bool
	callSeq, retSeq, markSeq int
	tCall                    int64
	reqSeq                   []int
	reqT                     []int64
}

func (a *c20AnnRec) direct() bool { // request was in the channel before the call returned
	return len(a.reqSeq) > 0 && a.markSeq >= 0 && a.reqSeq[0] < a.markSeq
}

type c20AddRec struct{ callSeq, retSeq, markSeq int }

func c20History(pl *c20Plan, ev []c20Ev, h int, addHash map[int]int) []string {
	var s []string
	for seq, e := range ev {
		eh := e.Hash
		switch e.Kind {
		case c20ArrMark:
			eh = addHash[e.Idx]
		case c20OwnMark:
			eh = pl.anns[e.Idx].hash
		}
		if eh != h {
			continue
		}
		who := ""
		if e.Peer >= 0 {
			who = fmt.Sprintf(" p%d", e.Peer)
		} else if e.Kind == c20OwnMark {
			who = fmt.Sprintf(" of p%d", pl.anns[e.Idx].peer)
		}
		s = append(s, fmt.Sprintf("#%d %.2fms %s%s", seq, float64(e.T)/1e6, c20KindName[e.Kind], who))
		if len(s) >= 100 {
			s = append(s, "…")
			break
		}
	}
	return s
}

func c20Analyse(rep *verifutil.Report, pl *c20Plan, out *c20Out, progressOnly bool) []int {
	ev := out.ev
	anns := make([]c20AnnRec, len(pl.anns))
	for i := range anns {
		anns[i].markSeq = -1
	}
	pair := map[[2]int]int{}
	for _, a := range pl.anns {
		pair[[2]int{a.peer, a.hash}] = a.idx
	}
	adds := map[int]*c20AddRec{}
	addHash := map[int]int{}
	addsOf := make([][]int, pl.H)
	viol := func(sig, desc string, h int) {
		if rep == nil || progressOnly {
			return
		}
		holder := ""
		if h >= 0 {
			holder = fmt.Sprintf(", holder MaxParallelPulls=%d", out.maxPar[pl.kind[h]])
		}
		rep.Violation(sig, fmt.Sprintf("[manager level, %s, pullDelay=%v%s] %s | history of the hash: %s", pl.label, pl.pullDelay, holder, desc,
			strings.Join(c20History(pl, ev, h, addHash), "; ")), map[string]interface{}{"plan": pl.label, "hash": h})
	}
	chanOK := out.chanMax < out.chanCap-200 // makeRequest drops silently on a full channel
	minReqd := make([]int64, pl.H)          // min call time over announcements already requested
	for h := range minReqd {
		minReqd[h] = math.MaxInt64
	}
	fallbackChecked := 0
	for seq, e := range ev {
		switch e.Kind {
		case c20AnnCall:
			a := &anns[e.Idx]
			a.called, a.callSeq, a.tCall, a.retSeq = true, seq, e.T, math.MaxInt32
		case c20AnnRet:
			anns[e.Idx].retSeq = seq
		case c20OwnMark:
			anns[e.Idx].markSeq = seq
		case c20AddCall:
			adds[e.Idx] = &c20AddRec{callSeq: seq, retSeq: math.MaxInt32, markSeq: -1}
			addHash[e.Idx] = e.Hash
			addsOf[e.Hash] = append(addsOf[e.Hash], e.Idx)
		case c20AddRet:
			adds[e.Idx].retSeq = seq
		case c20ArrMark:
			if a := adds[e.Idx]; a != nil {
				a.markSeq = seq
			}
		case c20Req:
			if e.Hash < 0 {
				viol("request:unknown-pair", "a request for a peer/hash that was never announced was emitted", -1)
				continue
			}
			ai, ok := pair[[2]int{e.Peer, e.Hash}]
			if !ok || !anns[ai].called {
				viol("request:unknown-pair", fmt.Sprintf("request to p%d who had not announced this hash", e.Peer), e.Hash)
				continue
			}
			a := &anns[ai]
			a.reqSeq = append(a.reqSeq, seq)
			a.reqT = append(a.reqT, e.T)
			h := e.Hash
			// ---- pull-delay lower bound for requests that certainly are fallbacks
			if chanOK && a.markSeq >= 0 && a.markSeq < seq && minReqd[h] != math.MaxInt64 {
				fallbackChecked++
				if e.T+c20Slack < minReqd[h]+int64(pl.pullDelay) {
					viol("pull-delay:fallback-too-early", fmt.Sprintf("request to further announcer p%d (not issued by its own addPush call) received %.2fms after the CALL of the earliest announcement pulled before it (%.2fms); pullDelay is %v",
						e.Peer, float64(e.T-minReqd[h])/1e6, float64(minReqd[h])/1e6, pl.pullDelay), h)
				}
			}
			if a.tCall < minReqd[h] {
				minReqd[h] = a.tCall
			}
		}
	}
	annsOf := make([][]int, pl.H)
	for i := range anns {
		if anns[i].called {
			annsOf[pl.anns[i].hash] = append(annsOf[pl.anns[i].hash], i)
		}
	}
	var candidates []int
	type stat struct{ fallback, arrBefore, known, capPend, soloFirst, anyFirst, uncovered, covered, dup int }
	var st stat
	announcedUnknown := 0
	for h := 0; h < pl.H; h++ {
		l := annsOf[h]
		sort.Slice(l, func(i, j int) bool { return anns[l[i]].callSeq < anns[l[j]].callSeq })
		D, DCall, arrMark := math.MaxInt32, math.MaxInt32, -1
		for _, ai := range addsOf[h] {
			a := adds[ai]
			if a.retSeq < D {
				D, arrMark = a.retSeq, a.markSeq
			}
			if a.callSeq < DCall {
				DCall = a.callSeq
			}
		}
		forgotten := func(i int) (bool, bool) { // (forgotten, covered)
			a := &anns[i]
			if len(a.reqSeq) > 0 {
				return false, false
			}
			for _, j := range l {
				if b := &anns[j]; j != i && b.direct() && b.retSeq < a.callSeq {
					return true, true
				}
			}
			return true, false
		}
		if progressOnly {
			if len(addsOf[h]) == 0 && out.quiescent && chanOK {
				for _, i := range l {
					if f, _ := forgotten(i); f {
						candidates = append(candidates, i)
					}
				}
			}
			continue
		}
		if len(l) == 0 {
			continue
		}
		// ---- first announcer
		firstReq := math.MaxInt32
		tFirst := int64(math.MaxInt64)
		anyStrict, anyDirect := false, false
		for _, i := range l {
			a := &anns[i]
			if len(a.reqSeq) > 0 && a.reqSeq[0] < firstReq {
				firstReq = a.reqSeq[0]
			}
			if a.tCall < tFirst {
				tFirst = a.tCall
			}
			if a.retSeq < DCall {
				anyStrict = true
			}
			if a.direct() {
				anyDirect = true
			}
		}
		if anyStrict {
			announcedUnknown++
		}
		if chanOK {
			a1 := &anns[l[0]]
			solo := a1.retSeq < DCall
			for _, i := range l[1:] {
				if anns[i].callSeq < a1.retSeq {
					solo = false
				}
			}
			if solo {
				st.soloFirst++
				if !a1.direct() {
					viol("first-announcer:not-requested-by-return", fmt.Sprintf("p%d announced the unknown hash before anybody else (call #%d..#%d) but no request to it was in the channel when the call returned",
						pl.anns[l[0]].peer, a1.callSeq, a1.retSeq), h)
				} else if a1.reqSeq[0] != firstReq {
					viol("first-announcer:not-first-request", fmt.Sprintf("p%d announced the unknown hash before anybody else, yet the first request (#%d) went to another peer", pl.anns[l[0]].peer, firstReq), h)
				}
			} else if anyStrict {
				st.anyFirst++
				if !anyDirect {
					viol("first-announcer:none-requested", "an announcement of the unknown hash returned before any AddEntry began, yet no announcer had a request in the channel when its call returned", h)
				}
			}
		}
		// ---- cap, known items, duplicates, after-arrival, progress
		early, afterArr, fb, fbBeforeD, queuedBeforeD := 0, 0, 0, 0, 0
		for _, i := range l {
			a := &anns[i]
			known := a.callSeq > D
			if known {
				st.known++
				if len(a.reqSeq) > 0 {
					viol("known-item:requested", fmt.Sprintf("p%d announced the hash (call #%d) after AddEntry had returned (#%d), yet a request to it was emitted (#%d)",
						pl.anns[i].peer, a.callSeq, D, a.reqSeq[0]), h)
				}
			}
			if len(a.reqSeq) > 1 {
				st.dup++
				viol("duplicate-request", fmt.Sprintf("(p%d, hash) was requested %d times (#%v)", pl.anns[i].peer, len(a.reqSeq), a.reqSeq), h)
			}
			if a.direct() && a.reqT[0] < tFirst+int64(pl.pullDelay) {
				early++
			}
			if !a.direct() && a.retSeq < DCall {
				st.capPend++
				queuedBeforeD++
			}
			for _, s := range a.reqSeq {
				certainFallback := a.markSeq >= 0 && s > a.markSeq
				if certainFallback {
					fb++
					if s < D {
						fbBeforeD++
					}
				}
				if !known && arrMark >= 0 && s > arrMark && !(s < a.markSeq && a.retSeq > D) {
					afterArr++
				}
			}
			if len(addsOf[h]) == 0 && out.quiescent && chanOK {
				if f, cov := forgotten(i); f && cov {
					st.covered++
					viol("progress:announcer-forgotten:covered", fmt.Sprintf("the item never arrived, all queues are empty, but p%d (announced by call #%d, after a synchronous pull of the hash had been completed) was never requested",
						pl.anns[i].peer, a.callSeq), h)
				} else if f {
					st.uncovered++
					viol("progress:announcer-forgotten:uncovered", fmt.Sprintf("the item never arrived, all queues are empty, but p%d (announced by call #%d while the first announcer's addPush had not returned yet) was never requested",
						pl.anns[i].peer, a.callSeq), h)
				}
			}
		}
		if uint32(early) > out.maxPar[pl.kind[h]] {
			viol("parallel-cap:exceeded", fmt.Sprintf("%d announcers were requested synchronously within pullDelay of the first announcement; MaxParallelPulls is %d", early, out.maxPar[pl.kind[h]]), h)
		}
		if afterArr > 1 {
			viol("after-arrival:request-issued", fmt.Sprintf("%d fallback requests were received behind the marker that entered the tracker's request channel after AddEntry had returned (#%d); one (in the loop's hands) is explicable",
				afterArr, D), h)
		}
		if fb > 0 {
			st.fallback++
		}
		if D != math.MaxInt32 && fbBeforeD == 0 && queuedBeforeD > 0 {
			st.arrBefore++
		}
		// ---- evidence: event-order signature of the hash
		if len(l) >= 2 {
			rank := map[int]int{}
			var sb strings.Builder
			nontrivial := false
			for seq, e := range ev {
				if e.Hash != h {
					continue
				}
				r, ok := rank[e.Peer]
				if !ok && e.Peer >= 0 {
					r = len(rank)
					rank[e.Peer] = r
				}
				switch e.Kind {
				case c20AnnCall:
					if seq > D {
						fmt.Fprintf(&sb, "k%d ", r)
					} else {
						fmt.Fprintf(&sb, "a%d ", r)
					}
				case c20Req:
					a := &anns[pair[[2]int{e.Peer, h}]]
					if a.markSeq >= 0 && seq > a.markSeq {
						fmt.Fprintf(&sb, "F%d ", r)
					} else {
						fmt.Fprintf(&sb, "R%d ", r)
					}
					nontrivial = true
				case c20AddRet:
					if seq == D {
						sb.WriteString("+ ")
						nontrivial = true
					}
				}
			}
			if nontrivial {
				rep.Distinct("manager", pl.kind[h], sb.String())
				if sig := sb.String(); pl.label == "generated" && strings.Contains(sig, "F") && strings.Contains(sig, "+") && strings.Contains(sig, "k") {
					rep.Sample(map[string]interface{}{"level": "manager", "pullDelay": pl.pullDelay.String(), "max_parallel_pulls": out.maxPar[pl.kind[h]],
						"order_signature": sb.String(), "history": c20History(pl, ev, h, addHash)})
				}
			}
		}
	}
	if progressOnly {
		return candidates
	}
	// ---- growth
	if out.quiescent {
		if out.pendingKeys > announcedUnknown+len(adds) {
			viol("growth:manager-pending", fmt.Sprintf("%d keys in the manager's pending cache after quiescence; only %d hashes were announced before they were known", out.pendingKeys, announcedUnknown), -1)
		}
		for k := 0; k < 2; k++ {
			nh, na := 0, 0
			for h := 0; h < pl.H; h++ {
				if pl.kind[h] == k && len(annsOf[h]) > 0 {
					nh++
				}
			}
			for ai := range adds {
				if pl.kind[addHash[ai]] == k {
					na++
				}
			}
			if out.active[k] > nh+na+1 {
				viol("growth:active-pulls", fmt.Sprintf("%d entries in the active-pull registry of holder %d after quiescence; %d announced hashes + %d markers explain at most %d", out.active[k], k, nh, na+1, nh+na+1), -1)
			}
		}
	}
	if !chanOK {
		rep.Inconcl("manager run: request channel nearly full (%d), missing-request oracles skipped", out.chanMax)
	}
	rep.Count("fallback_checked", fallbackChecked)
	rep.Count("hashes_fallback_seen", st.fallback)
	rep.Count("hashes_arrival_before_fallback", st.arrBefore)
	rep.Count("known_item_announcements", st.known)
	rep.Count("cap_path_pendings", st.capPend)
	rep.Count("seen_forgotten_after_completed_pull", st.covered)
	rep.Count("seen_forgotten_in_first_announcer_window", st.uncovered)
	rep.Count("seen_duplicate_pairs", st.dup)
	rep.Count("first_announcer_solo_checked", st.soloFirst)
	rep.Count("first_announcer_overlapping_checked", st.anyFirst)
	rep.Count("manager_events", len(ev))
	rep.Max("manager_max_channel_len", out.chanMax)
	return nil
}

// ---------------------------------------------------------------- test

func TestVerifC20Manager(t *testing.T) {
	if !verifutil.Enabled() {
		t.Skip("verif harness")
	}
	log.Root().SetHandler(log.DiscardHandler())
	rep := verifutil.NewReport()
	defer rep.Write()
	bareEvery, _ := strconv.Atoi(os.Getenv("VERIF_C20_BARE_EVERY"))
	var hits uint64
	pointFn := func() {
		switch atomic.AddUint64(&hits, 1) % 8 {
		case 0:
			time.Sleep(200 * time.Microsecond)
		case 1, 2, 3:
			runtime.Gosched()
		case 4:
			time.Sleep(20 * time.Microsecond)
		}
	}
	if os.Getenv("VERIF_C20_NOPOINT") == "" { // experiment switch: leave the delay point a no-op
		verifclock.ArmPoint(c20Point, pointFn)
		defer verifclock.ArmPoint(c20Point, nil)
	} else {
		rep.Note("delay point left unarmed (VERIF_C20_NOPOINT)")
	}
	n := verifutil.Scale(40, 1600) / verifutil.NShards()
	for i := 0; i < n; i++ {
		rng := verifutil.Stream(20, 2, uint64(i))
		var pl *c20Plan
		if i == 0 {
			pl = c20DirectedPlan()
		} else {
			pl = c20GenPlan(rng, 200, 8)
		}
		bare := bareEvery > 0 && i > 0 && i%bareEvery == 0
		rep.Progress("manager run %d (%s) bare=%v", i, pl.label, bare)
		out := c20Run(rep, rng, pl, bare)
		rep.Eval(1)
		if bare {
			rep.Count("bare_runs", 1)
			continue
		}
		rep.Count("recorded_runs", 1)
		c20Analyse(rep, pl, out, false)
	}
	rep.Count("delay_point_hits", int(verifclock.PointHits(c20Point)))
}
