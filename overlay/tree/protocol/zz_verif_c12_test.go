//go:build verif && c12

package protocol_test

// C12 — "no message from the network can crash the node" (DESIGN §C12, engine E3).
//
// FRAME LEVEL (TestVerifC12Frames): the real IdenaGossipHandler built by the real
// constructor on a simulator replica (real Proposals, Votes, TxPool, KeysPool, Flipper,
// PushPullManager, chain), two registered peers whose streams are fakes; every input goes
// through the byte path of a peer stream: msgio length prefix -> protoPeer.ReadMsg ->
// Decode (S2) -> Msg.FromBytes -> handle. After an accepted message the harness runs what
// the node runs next on it (GetProposedBlock -> ValidateBlock for proposals, the sync / fork
// / next-block consumers for block ranges, best-manifest selection for manifests ...).
// OBJECT LEVEL (TestVerifC12Objects): the typed hostile transaction matrix against
// validation.ValidateTx (three modes), TxPool.AddExternalTxs / Validate, block validation of
// carrier blocks and of proposer-built twin blocks, ValidateSubChain, Votes / Proposals /
// KeysPool / Flipper entry points behind the handler's own gates, attachments.Parse*.
// FORGED (TestVerifC12Forged): S2 frames whose header claims a huge decoded length, and the
// block range that carries more blocks than were requested.
//
// Oracles: panic capture at the harness boundary (signature panic:<innermost repo frame>),
// two-stage watchdog (hang:<entry>), allocation meter per call (alloc:<entry>, bound
// 64 MiB + 64 B per input byte). A panic on one of the node's own goroutines (async pools,
// flipper, peer writer) kills the child; the driver classifies it from the log and the
// progress file names the case.

import (
	"encoding/binary"
	"encoding/hex"
	"fmt"
	"io"
	"os"
	"regexp"
	"strings"
	"sync"
	"sync/atomic"
	"testing"
	"time"

	"github.com/golang/protobuf/proto"
	"github.com/idena-network/idena-go/blockchain/types"
	"github.com/idena-network/idena-go/common"
	"github.com/idena-network/idena-go/common/eventbus"
	"github.com/idena-network/idena-go/consensus"
	"github.com/idena-network/idena-go/core/state"
	"github.com/idena-network/idena-go/core/state/snapshot"
	"github.com/idena-network/idena-go/crypto"
	"github.com/idena-network/idena-go/events"
	models "github.com/idena-network/idena-go/protobuf"
	"github.com/idena-network/idena-go/protocol"
	"github.com/idena-network/idena-go/verifsim"
	"github.com/idena-network/idena-go/verifutil"
	"github.com/klauspost/compress/s2"
	core "github.com/libp2p/go-libp2p-core"
	"github.com/libp2p/go-libp2p-core/connmgr"
	"github.com/libp2p/go-libp2p-core/network"
	"github.com/libp2p/go-libp2p-core/peer"
	libp2pproto "github.com/libp2p/go-libp2p-core/protocol"
	ma "github.com/multiformats/go-multiaddr"
)

const (
	c12Soft = 30 * time.Second
	c12Hard = 120 * time.Second
	// frames whose S2 header claims more than this are the forged-length class: they are
	// executed by TestVerifC12Forged only (the general loops skip and count them)
	c12ForgedClass = 48 << 20
)

var c12CodeNames = map[uint64]string{protocol.Handshake: "Handshake", protocol.ProposeBlock: "ProposeBlock", protocol.ProposeProof: "ProposeProof",
	protocol.Vote: "Vote", protocol.NewTx: "NewTx", protocol.GetBlockByHash: "GetBlockByHash", protocol.GetBlocksRange: "GetBlocksRange",
	protocol.BlocksRange: "BlocksRange", protocol.FlipBody: "FlipBody", protocol.FlipKey: "FlipKey", protocol.SnapshotManifest: "SnapshotManifest",
	protocol.GetForkBlockRange: "GetForkBlockRange", protocol.FlipKeysPackage: "FlipKeysPackage", protocol.Push: "Push", protocol.Pull: "Pull",
	protocol.Block: "Block", protocol.UpdateShardId: "UpdateShardId", protocol.BatchPush: "BatchPush", protocol.BatchFlipKey: "BatchFlipKey",
	protocol.Disconnect: "Disconnect"}

func c12CodeName(c uint64) string {
	if n, ok := c12CodeNames[c]; ok {
		return n
	}
	return "Unknown"
}

// ------------------------------------------------------------------ fakes (libp2p side only)

type c12Conn struct {
	network.Conn
	id peer.ID
}

var c12Addr = ma.StringCast("/ip4/10.1.2.3/tcp/40405")

func (c *c12Conn) RemotePeer() peer.ID           { return c.id }
func (c *c12Conn) RemoteMultiaddr() ma.Multiaddr { return c12Addr }

// c12Stream: what the remote side sent is whatever the harness put into in; what the node
// writes is counted and dropped.
type c12Stream struct {
	network.Stream
	conn    *c12Conn
	mu      sync.Mutex
	in      []byte
	written int64
	frames  int64
	resets  int
}

func (s *c12Stream) set(b []byte)   { s.mu.Lock(); s.in = b; s.mu.Unlock() }
func (s *c12Stream) nframes() int64 { s.mu.Lock(); defer s.mu.Unlock(); return s.frames }
func (s *c12Stream) left() int      { s.mu.Lock(); defer s.mu.Unlock(); return len(s.in) }
func (s *c12Stream) Read(p []byte) (int, error) {
	s.mu.Lock()
	defer s.mu.Unlock()
	if len(s.in) == 0 {
		return 0, io.EOF
	}
	n := copy(p, s.in)
	s.in = s.in[n:]
	return n, nil
}
func (s *c12Stream) Write(p []byte) (int, error) {
	s.mu.Lock()
	s.written += int64(len(p))
	s.frames++
	s.mu.Unlock()
	return len(p), nil
}
func (s *c12Stream) Close() error                    { return nil }
func (s *c12Stream) Reset() error                    { s.mu.Lock(); s.resets++; s.mu.Unlock(); return nil }
func (s *c12Stream) Conn() network.Conn              { return s.conn }
func (s *c12Stream) Protocol() libp2pproto.ID        { return protocol.IdenaProtocol }
func (s *c12Stream) SetDeadline(time.Time) error     { return nil }
func (s *c12Stream) SetReadDeadline(time.Time) error { return nil }

type c12Host struct{ core.Host }

func (c12Host) ConnManager() connmgr.ConnManager { return connmgr.NullConnMgr{} }

type c12Ceremony struct{}

func (c12Ceremony) IsRunning() bool { return false }

// ------------------------------------------------------------------ system under test

type c12Sut struct {
	name       string
	env        *verifsim.C12Env
	node       *verifsim.C12Node
	h          *protocol.IdenaGossipHandler
	dl         *protocol.Downloader
	fr         *consensus.ForkResolver
	sa, sb     *c12Stream
	pidA       peer.ID
	headH      uint64   // the head the sut is kept at
	ev         [4]int64 // bus events seen: new tx, flip key, key package, flip
	props      []*types.BlockProposal
	emptyHash  common.Hash
	carrierTpl *types.Block
	t          *testing.T
	corpus     []c12Item
	byCode     map[uint64][]int
}

// peers are values of an unexported type of package protocol; keep them behind closures
type c12Peer struct {
	handle     func() error
	readStatus func() error
	known      func() uint64
	manifest   func() *snapshot.Manifest
	queued     func() int
}

var c12Peers = map[*c12Sut]*c12Peer{}

func c12NewSut(t *testing.T, name string, env *verifsim.C12Env, node *verifsim.C12Node) *c12Sut {
	r := node.R
	s := &c12Sut{name: name, env: env, node: node, headH: r.Head().Height(), byCode: map[uint64][]int{}}
	s.h = protocol.NewIdenaGossipHandler(c12Host{}, nil, r.Cfg.P2P, r.Chain, node.Proposals, node.Votes, r.TxPool, node.Flipper, r.Bus, node.KeysPool, "1.1.0", c12Ceremony{})
	// the bus subscriptions and the broadcast loop of IdenaGossipHandler.Start (the rest of
	// Start needs a libp2p host)
	r.Bus.Subscribe(events.NewTxEventID, func(e eventbus.Event) {
		atomic.AddInt64(&s.ev[0], 1)
		s.h.VerifTxChan() <- e.(*events.NewTxEvent)
	})
	r.Bus.Subscribe(events.NewFlipKeyID, func(e eventbus.Event) {
		atomic.AddInt64(&s.ev[1], 1)
		s.h.VerifFlipKeyChan() <- e.(*events.NewFlipKeyEvent)
	})
	r.Bus.Subscribe(events.NewFlipKeysPackageID, func(e eventbus.Event) {
		atomic.AddInt64(&s.ev[2], 1)
		s.h.VerifFlipKeysPackageChan() <- e.(*events.NewFlipKeysPackageEvent)
	})
	r.Bus.Subscribe(events.NewFlipEventID, func(e eventbus.Event) {
		atomic.AddInt64(&s.ev[3], 1)
		s.h.VerifSendFlip(e.(*events.NewFlipEvent).Flip)
	})
	s.emptyHash = r.Chain.GenerateEmptyBlock().Hash()
	go s.h.VerifBroadcastLoop()
	s.dl = protocol.NewDownloader(s.h, r.Cfg, r.Chain, r.Ipfs, r.AppState, node.Snapshots, r.Bus, r.SecStore, r.Stats, nil, nil, r.Upgrader)
	s.fr = consensus.NewForkResolver(nil, s.dl, r.Chain, r.Stats)
	// two peers: A is the hostile one under the harness' control, B a bystander that receives
	// whatever the node relays
	s.sa = &c12Stream{conn: &c12Conn{id: peer.ID("c12-hostile-" + name)}}
	s.sb = &c12Stream{conn: &c12Conn{id: peer.ID("c12-bystander-" + name)}}
	s.pidA = s.sa.conn.id
	s.t = t
	c12Peers[s] = s.connect(s.sa)
	s.connect(s.sb)
	return s
}

// connect does what runPeer does with a fresh stream: new peer object, the real handshake
// (the remote side's handshake message is waiting in the fake stream), registration, writer.
func (s *c12Sut) connect(st *c12Stream) *c12Peer {
	r := s.node.R
	p := s.h.VerifNewPeer(st)
	st.set(c12StreamBytes(c12Frame(protocol.Handshake, c12HandshakePayload(r, time.Now().UTC().Unix(), 1000000), 0, 0)))
	if err := p.Handshake(r.Chain.Network(), r.Head().Height(), r.Chain.GenesisInfo(), "1.1.0", 1, common.MultiShard); err != nil {
		s.t.Fatalf("c12: handshake on the fake stream failed: %v", err)
	}
	if err := s.h.VerifRegister(p); err != nil {
		s.t.Fatal(err)
	}
	go p.VerifBroadcast()
	return &c12Peer{
		handle:     func() error { return s.h.VerifHandle(p) },
		readStatus: func() error { return p.VerifReadStatus(r.Chain.Network(), r.Chain.GenesisInfo()) },
		known:      p.VerifKnownHeight,
		manifest:   p.VerifManifest,
		queued:     func() int { a, b, c, d := p.VerifQueued(); return a + b + c + d },
	}
}

// reconnect: the node drops a peer whose stream failed (unregisterPeer, real) and the
// hostile side dials again.
func (s *c12Sut) reconnect() {
	s.h.VerifUnregister(s.pidA)
	s.sa.set(nil)
	c12Peers[s] = s.connect(s.sa)
}

func (s *c12Sut) peer() *c12Peer { return c12Peers[s] }

var c12AsyncFns = []string{"mempool.(*AsyncTxPool).loop", "mempool.(*AsyncKeysPool).readPrivateQueue", "mempool.(*AsyncKeysPool).readPublicQueue",
	"flip.(*Flipper).writeLoop", "protocol.(*protoPeer).broadcast", "protocol.(*IdenaGossipHandler).broadcastLoop"}

// c12Settle waits until the node's own intake / relay goroutines have drained their queues.
func c12Settle(c *c12Ctx) {
	if c12Timing {
		defer func(t0 time.Time) { c.rep.Count("us:settle", int(time.Since(t0)/time.Microsecond)) }(time.Now())
	}
	if !verifutil.WaitParked(60*time.Second, c12AsyncFns...) {
		c.rep.Count("settle_timeouts", 1)
		if c.rep.Get("settle_timeouts") <= 3 {
			c.rep.Inconcl("the node's intake goroutines did not become idle within 60 s after case %q", c.desc)
		}
	}
}

// ------------------------------------------------------------------ frames

func c12StreamBytes(frame []byte) []byte {
	b := make([]byte, 4+len(frame))
	binary.BigEndian.PutUint32(b, uint32(len(frame)))
	copy(b[4:], frame)
	return b
}

// c12Frame wraps a payload: comp 0 = what the node itself would do (Encode), 1 = plain, 2 = S2.
func c12Frame(code uint64, payload []byte, shard uint32, comp int) []byte {
	msg, _ := (&protocol.Msg{Code: code, Payload: payload, ShardId: common.ShardId(shard)}).ToBytes()
	return c12Wrap(code, msg, comp)
}

func c12Wrap(code uint64, msg []byte, comp int) []byte {
	switch comp {
	case 1:
		return append([]byte{0}, msg...)
	case 2:
		return append([]byte{1}, s2.Encode(nil, msg)...)
	}
	return protocol.Encode(code, msg)
}

func c12HandshakePayload(r *verifsim.Replica, ts int64, height uint64) []byte {
	b, _ := proto.Marshal(&models.ProtoHandshake{NetworkId: uint32(r.Chain.Network()), Height: height, Genesis: r.Chain.GenesisInfo().Genesis.Hash().Bytes(),
		Timestamp: ts, AppVersion: "1.1.0", Peers: 3, ShardId: 0})
	return b
}

type c12RangeItem struct {
	Header *types.Header
	Cert   *types.BlockCert
	Diff   *state.IdentityStateDiff
}

func c12RangePayload(batchId uint32, items []c12RangeItem) []byte {
	o := &models.ProtoGossipBlockRange{BatchId: batchId}
	for _, it := range items {
		b := new(models.ProtoGossipBlockRange_Block)
		if it.Header != nil {
			b.Header = it.Header.ToProto()
		}
		if it.Cert != nil {
			b.Cert = it.Cert.ToProto()
		}
		if it.Diff != nil {
			b.Diff = it.Diff.ToProto()
		}
		o.Blocks = append(o.Blocks, b)
	}
	out, _ := proto.Marshal(o)
	return out
}

func c12PushPayload(t uint32, h common.Hash128) []byte {
	b, _ := proto.Marshal(&models.ProtoPullPushHash{Type: t, Hash: h[:]})
	return b
}

func c12BatchPayload(items [][]byte) []byte {
	o := &models.ProtoMsgBatch{}
	for i, it := range items {
		o.Data = append(o.Data, &models.ProtoMsgBatch_BatchItem{Payload: it, ShardId: uint32(i % 3)})
	}
	b, _ := proto.Marshal(o)
	return b
}

// c12Item is one well-formed message of the corpus.
type c12Item struct {
	Code    uint64
	Payload []byte
	Label   string
	Range   []c12RangeItem // BlocksRange items are serialised at use time (batch id)
	From    uint64         // first height of a range
}

func (s *c12Sut) add(code uint64, payload []byte, label string) {
	s.byCode[code] = append(s.byCode[code], len(s.corpus))
	s.corpus = append(s.corpus, c12Item{Code: code, Payload: payload, Label: label})
}

func c12Must(b []byte, err error) []byte {
	if err != nil {
		panic(err)
	}
	return b
}

// c12BuildCorpus fills the corpus with real objects of every message code, valid relative to
// the sut's head wherever the simulator can produce such an object.
func (s *c12Sut) c12BuildCorpus(r *verifutil.Rng) {
	env, w, v := s.env, s.env.W, s.node.R
	st := v.AppState.State
	head := v.Head()
	H := head.Height()
	populated := s.node == env.Victim
	// --- transactions
	var txs []*types.Transaction
	if populated {
		txs = append(txs, env.Txs...)
		for _, b := range env.Ahead {
			txs = append(txs, b.Body.Transactions...)
		}
	}
	for _, b := range w.Blocks {
		if len(txs) > 160 {
			break
		}
		txs = append(txs, b.Body.Transactions...)
	}
	for i, tx := range txs {
		s.add(protocol.NewTx, c12Must(tx.ToBytes()), fmt.Sprintf("tx#%d/%s", i, verifsim.TxName(tx.Type)))
	}
	// one well-formed tx per type aimed at this head
	for _, t := range verifsim.C12TxTypes {
		c := w.C12HostileTx(r, v, t, verifsim.C12ToRelated, verifsim.C12PlOwn)
		s.add(protocol.NewTx, c12Must(c.Tx.ToBytes()), "typed/"+c.Label())
	}
	// --- blocks
	var blocks []*types.Block
	if populated {
		blocks = append(blocks, env.Ahead...)
		if n := len(w.Blocks); n > 12 {
			blocks = append(blocks, w.Blocks[n-12-len(env.Ahead):n-len(env.Ahead)]...)
		}
	} else {
		blocks = append(blocks, w.Blocks[:minI(len(w.Blocks), 14)]...)
	}
	for i, b := range blocks {
		s.add(protocol.Block, c12Must(b.ToBytes()), fmt.Sprintf("block#%d/%s", i, verifsim.BlockKind(b)))
		if i%2 == 0 {
			s.node.Proposals.ApproveBlock(b.Hash()) // the engine asked for it (getBlockByHash)
		}
	}
	// --- proposals, proofs, votes
	props := env.Proposals
	if !populated {
		props = nil
		// the first block of the world re-proposed by god with a proof (god is the proposer of an empty network)
		if ok, proof := v.Chain.GetProposerSortition(); ok {
			props = append(props, v.Chain.ProposeBlock(proof))
		}
		props = append(props, env.Proposals...) // foreign heads
	}
	s.props = props
	for i, p := range props {
		s.add(protocol.ProposeBlock, c12Must(p.ToBytes()), fmt.Sprintf("proposal#%d", i))
		key := c12KeyOf(w, p.Block.Header.ProposedHeader.ProposerPubKey)
		if key == nil {
			continue
		}
		s.add(protocol.ProposeProof, c12Must(verifsim.C12SignProof(key.Key, p.Proof, p.Block.Height()).ToBytes()), fmt.Sprintf("proof#%d", i))
		s.add(protocol.ProposeProof, c12Must(verifsim.C12SignProof(key.Key, p.Proof, p.Block.Height()+uint64(r.Range(1, 40))).ToBytes()), fmt.Sprintf("proof-future#%d", i))
		// future-round and re-signed variants (pending path)
		hb := *p.Block.Header.ProposedHeader
		hb.Height += uint64(r.Range(1, 20))
		fut := verifsim.C12SignProposal(key.Key, &types.Block{Header: &types.Header{ProposedHeader: &hb}, Body: p.Block.Body}, p.Proof)
		s.add(protocol.ProposeBlock, c12Must(fut.ToBytes()), fmt.Sprintf("proposal-future#%d", i))
	}
	voters := w.OnlineActors(v)
	if len(voters) == 0 {
		voters = []*verifsim.Actor{w.God}
	}
	voters = append(voters, w.Accounts[0]) // a non-validator
	for i, a := range voters {
		voted := common.Hash{}
		if len(props) > 0 {
			voted = props[i%len(props)].Block.Hash()
		}
		for _, step := range []uint8{1, 2, types.Final} {
			vt := verifsim.C12Vote(a.Key, H+1, step, head.Hash(), voted, i%5 == 4, uint32(i%3))
			s.add(protocol.Vote, c12Must(vt.ToBytes()), fmt.Sprintf("vote/%s/step%d", a.Name, step))
		}
		s.add(protocol.Vote, c12Must(verifsim.C12Vote(a.Key, H+uint64(r.Range(2, 40)), 1, head.Hash(), voted, false, 0).ToBytes()), "vote-future/"+a.Name)
		if H > 3 {
			s.add(protocol.Vote, c12Must(verifsim.C12Vote(a.Key, H-uint64(r.Range(0, 3)), 1, head.ParentHash(), head.Hash(), false, 0).ToBytes()), "vote-past/"+a.Name)
		}
	}
	// --- flips, flip keys, key packages
	withFlips := w.ActorsWithFlips(v)
	flipAuthors := append([]*verifsim.Actor{}, withFlips...)
	for _, a := range w.SortedActors() {
		id := st.GetIdentity(a.Addr)
		if id.State >= state.Candidate && id.State != state.Killed && int(id.GetMaximumAvailableFlips()) > len(id.Flips) && len(flipAuthors) < 10 {
			flipAuthors = append(flipAuthors, a)
		}
	}
	if len(flipAuthors) == 0 {
		flipAuthors = []*verifsim.Actor{w.God, w.Nodes[0]}
	}
	var keyPayloads [][]byte
	for i, a := range flipAuthors {
		id := st.GetIdentity(a.Addr)
		pair := uint8(0)
		used := map[uint8]bool{}
		for _, f := range id.Flips {
			used[f.Pair] = true
		}
		for used[pair] {
			pair++
		}
		f := w.C12Flip(r, v, a, pair, []int{200, 3000, 40000}[i%3])
		s.add(protocol.FlipBody, c12Must(f.ToBytes()), "flip/"+a.Name)
		k, _ := types.SignFlipKey(&types.PublicFlipKey{Key: r.Bytes(32), Epoch: st.Epoch()}, a.Key)
		kb := c12Must(k.ToBytes())
		keyPayloads = append(keyPayloads, kb)
		s.add(protocol.FlipKey, kb, "flipkey/"+a.Name)
		pk, _ := types.SignFlipKeysPackage(&types.PrivateFlipKeysPackage{Data: r.Bytes([]int{100, 1500, 20000}[i%3]), Epoch: st.Epoch()}, a.Key)
		s.add(protocol.FlipKeysPackage, c12Must(pk.ToBytes()), "keypackage/"+a.Name)
		s.add(protocol.Push, c12PushPayload(5, pk.Hash128()), "push/keypackage")
		s.add(protocol.Pull, c12PushPayload(5, pk.Hash128()), "pull/keypackage")
		s.add(protocol.Push, c12PushPayload(4, f.Hash128()), "push/flip")
		s.add(protocol.Pull, c12PushPayload(4, f.Hash128()), "pull/flip")
	}
	s.add(protocol.BatchFlipKey, c12BatchPayload(keyPayloads), "batch-flipkeys")
	if len(keyPayloads) > 2 {
		s.add(protocol.BatchFlipKey, c12BatchPayload(keyPayloads[:2]), "batch-flipkeys-2")
	}
	// --- push / pull of everything else
	var pushes [][]byte
	for i, tx := range txs {
		if i%3 == 0 {
			pushes = append(pushes, c12PushPayload(6, tx.Hash128()))
		}
	}
	for _, p := range props {
		pushes = append(pushes, c12PushPayload(2, p.Hash128()))
		s.add(protocol.Pull, c12PushPayload(2, p.Hash128()), "pull/proposal")
	}
	for t := uint32(0); t <= 7; t++ {
		var h common.Hash128
		copy(h[:], r.Bytes(16))
		pushes = append(pushes, c12PushPayload(t, h))
		s.add(protocol.Pull, c12PushPayload(t, h), fmt.Sprintf("pull/unknown-type%d", t))
	}
	for i, p := range pushes {
		if i < 40 {
			s.add(protocol.Push, p, "push")
		}
	}
	for _, n := range []int{1, 7, 100, len(pushes)} {
		if n <= len(pushes) {
			s.add(protocol.BatchPush, c12BatchPayload(pushes[:n]), fmt.Sprintf("batch-push-%d", n))
		}
	}
	// --- requests
	for i, b := range w.Blocks {
		if i%9 == 0 {
			s.add(protocol.GetBlockByHash, c12Must(proto.Marshal(&models.ProtoGetBlockByHashRequest{Hash: b.Hash().Bytes()})), "get-block/known")
		}
	}
	s.add(protocol.GetBlockByHash, c12Must(proto.Marshal(&models.ProtoGetBlockByHashRequest{Hash: r.Bytes(32)})), "get-block/unknown")
	s.add(protocol.GetBlockByHash, c12Must(proto.Marshal(&models.ProtoGetBlockByHashRequest{Hash: r.Bytes(5)})), "get-block/short")
	for _, ft := range [][2]uint64{{1, 3}, {2, H}, {H, H + 5}, {0, ^uint64(0)}, {H + 1, H}, {^uint64(0), ^uint64(0)}, {1, ^uint64(0)}} {
		s.add(protocol.GetBlocksRange, c12Must(proto.Marshal(&models.ProtoGetBlocksRangeRequest{BatchId: uint32(r.U64()), From: ft[0], To: ft[1]})), fmt.Sprintf("get-range/%d-%d", ft[0], ft[1]))
	}
	var top [][]byte
	for _, h := range v.Chain.GetTopBlockHashes(100) {
		top = append(top, append([]byte{}, h[:]...))
	}
	s.add(protocol.GetForkBlockRange, c12Must(proto.Marshal(&models.ProtoGetForkBlockRangeRequest{BatchId: 7, Blocks: top})), "get-fork/own-top")
	if len(top) > 3 {
		s.add(protocol.GetForkBlockRange, c12Must(proto.Marshal(&models.ProtoGetForkBlockRangeRequest{BatchId: 8, Blocks: append([][]byte{r.Bytes(32), r.Bytes(32)}, top[3:]...)})), "get-fork/forked")
	}
	s.add(protocol.GetForkBlockRange, c12Must(proto.Marshal(&models.ProtoGetForkBlockRangeRequest{BatchId: 9, Blocks: [][]byte{r.Bytes(32), nil, r.Bytes(3)}})), "get-fork/unknown")
	// --- block ranges (serialised at use time)
	addRange := func(label string, items []c12RangeItem) {
		if len(items) == 0 {
			return
		}
		s.byCode[protocol.BlocksRange] = append(s.byCode[protocol.BlocksRange], len(s.corpus))
		s.corpus = append(s.corpus, c12Item{Code: protocol.BlocksRange, Label: label, Range: items, From: items[0].Header.Height()})
	}
	var next []c12RangeItem // what continues the sut's chain
	if populated {
		for i, b := range env.Ahead {
			next = append(next, c12RangeItem{b.Header, env.AheadCerts[i], env.AheadDiffs[i]})
		}
	} else {
		for i, b := range w.Blocks {
			if i >= 12 {
				break
			}
			next = append(next, c12RangeItem{b.Header, w.View().Chain.GetCertificate(b.Hash()), w.View().Chain.GetIdentityDiff(b.Height())})
		}
	}
	addRange("range/next-all", next)
	for n := 1; n <= len(next) && n <= 4; n++ {
		addRange(fmt.Sprintf("range/next-%d", n), next[:n])
	}
	if len(next) > 2 {
		nocert := append([]c12RangeItem{}, next...)
		for i := range nocert {
			if i != len(nocert)-1 {
				nocert[i].Cert = nil
			}
		}
		addRange("range/next-cert-at-tip-only", nocert)
		addRange("range/next-gap", []c12RangeItem{next[0], next[2]})
		addRange("range/next-reversed", []c12RangeItem{next[1], next[0]})
		addRange("range/next-nodiff", []c12RangeItem{{next[0].Header, next[0].Cert, nil}, {next[1].Header, next[1].Cert, nil}})
	}
	var old []c12RangeItem
	for i := len(w.Blocks) - 1; i >= 0 && len(old) < 6; i-- {
		b := w.Blocks[i]
		if b.Height() <= H {
			old = append([]c12RangeItem{{b.Header, v.Chain.GetCertificate(b.Hash()), v.Chain.GetIdentityDiff(b.Height())}}, old...)
		}
	}
	addRange("range/own-old", old)
	// --- manifest, shard, disconnect, handshake, unknown codes
	mf := &snapshot.Manifest{Height: H, Root: head.Root(), CidV2: verifsim.FakeCid(r)}
	if m := w.View().Chain.ReadSnapshotManifest(); m != nil {
		mf = m
	}
	s.add(protocol.SnapshotManifest, c12Must(mf.ToBytes()), "manifest")
	s.add(protocol.SnapshotManifest, c12Must((&snapshot.Manifest{Height: H + 50, Root: head.Root(), CidV2: verifsim.FakeCid(r)}).ToBytes()), "manifest-ahead")
	for _, sh := range []uint32{0, 1, 2, 65535, 1 << 31} {
		s.add(protocol.UpdateShardId, c12Must(proto.Marshal(&models.ProtoUpdateShardId{ShardId: sh})), fmt.Sprintf("shard-%d", sh))
	}
	s.add(protocol.Disconnect, c12Must(proto.Marshal(&models.ProtoDisconnect{Reason: "bye"})), "disconnect")
	s.add(protocol.Handshake, c12HandshakePayload(v, time.Now().UTC().Unix(), H+10), "handshake")
	s.add(0, r.Bytes(20), "code-0")
	s.add(0x15, r.Bytes(20), "code-0x15")
	s.add(^uint64(0), r.Bytes(20), "code-max")
}

func c12KeyOf(w *verifsim.World, pub []byte) *verifsim.Actor {
	addr, err := crypto.PubKeyBytesToAddress(pub)
	if err != nil {
		return nil
	}
	return w.ByAddr[addr]
}

func minI(a, b int) int {
	if a < b {
		return a
	}
	return b
}

// ------------------------------------------------------------------ guarded calls / oracles

type c12Ctx struct {
	t    *testing.T
	rep  *verifutil.Report
	desc string // descriptor of the running case
	stop bool   // a hang was declared: the goroutine is lost, end this child's workload
	nSam int
	// bytes the running stage was handed when that is more than the input itself (the
	// handler works on the decompressed message; the expansion is Decode's to answer for)
	given int
}

var c12Timing = os.Getenv("VERIF_C12_TIMING") != ""

func c12Hex(b []byte, max int) string {
	if len(b) > max {
		return hex.EncodeToString(b[:max]) + fmt.Sprintf("…(+%d bytes)", len(b)-max)
	}
	return hex.EncodeToString(b)
}

func c12HarnessPanic(stack string) bool {
	f := verifutil.FirstFrames(stack, 1)
	return strings.Contains(f, "protocol_test.") || strings.Contains(f, "/verifsim.") || strings.Contains(f, "idena-go/verifsim.") ||
		strings.Contains(f, "ipfs.(*memoryIpfs)")
}

// call runs one entry point under the three oracles. input is what the remote side
// controls (for the allocation bound and the replay).
func (c *c12Ctx) call(entry string, input []byte, meter bool, f func()) bool {
	t0 := time.Now()
	res := verifutil.Guard(c12Soft, c12Hard, meter, f)
	c.rep.Eval(1)
	c.rep.Count("calls:"+entry, 1)
	if c12Timing {
		c.rep.Count("us:"+entry, int(time.Since(t0)/time.Microsecond))
	}
	replay := func(extra map[string]interface{}) map[string]interface{} {
		m := map[string]interface{}{"entry": entry, "case": c.desc, "input_len": len(input), "input_hex": c12Hex(input, 1<<16),
			"seed": verifutil.Seed(), "shard": verifutil.Shard(), "nshards": verifutil.NShards(), "tier_thorough": verifutil.Thorough()}
		for k, v := range extra {
			m[k] = v
		}
		return m
	}
	if res.Hung {
		c.rep.Violation("hang:"+entry, fmt.Sprintf("%s did not return (%s): case %s, input (%d bytes) %s", entry, res.Why, c.desc, len(input), c12Hex(input, 600)),
			replay(map[string]interface{}{"goroutines": verifutil.Trunc(res.Dump, 60000), "why": res.Why}))
		c.stop = true
		return false
	}
	if res.Starved {
		// no verdict: the watchdog expired on an overloaded machine; the goroutine is lost, end this child's workload
		c.rep.Inconcl("%s: watchdog expired without a verdict (%s): case %s", entry, res.Why, c.desc)
		c.stop = true
		return false
	}
	if res.TimedOut {
		// slow (an overloaded machine, a -race build), but it did return: not a hang, not a missing verdict
		c.rep.Count("calls_slower_than_the_soft_limit", 1)
		c.rep.Note("%s needed more than %v (returned within the solitary %v): case %s", entry, c12Soft, c12Hard, c.desc)
	}
	if res.Panic != nil {
		if c12HarnessPanic(res.Stack) {
			c.rep.Count("harness_panics", 1)
			c.rep.Inconcl("panic in harness code during %s (%v): %s", entry, res.Panic, verifutil.Trunc(verifutil.FirstFrames(res.Stack, 4), 900))
			return false
		}
		top := verifutil.RepoFrame(res.Stack)
		c.rep.Violation("panic:"+top, fmt.Sprintf("%s panicked: %v | case %s | input (%d bytes) %s | %s", entry, res.Panic, c.desc, len(input), c12Hex(input, 1200),
			strings.ReplaceAll(verifutil.FirstFrames(res.Stack, 7), "\n", " ")), replay(map[string]interface{}{"panic": fmt.Sprint(res.Panic), "stack": verifutil.Trunc(res.Stack, 12000)}))
		return false
	}
	if meter {
		c.rep.Max("max_alloc_bytes_one_call", int(res.Alloc))
		n := len(input)
		if c.given > n {
			n = c.given
		}
		if res.Alloc > verifutil.AllocBound(n) {
			c.rep.Violation("alloc:"+entry, fmt.Sprintf("%s allocated %d bytes (%.1f MiB) for an input of %d bytes on the wire (%d bytes handed to this stage; bound 64 MiB + 64 B/byte = %d): case %s, input %s", entry, res.Alloc,
				float64(res.Alloc)/(1<<20), len(input), n, verifutil.AllocBound(n), c.desc, c12Hex(input, 600)), replay(map[string]interface{}{"allocated": res.Alloc, "stage_input_len": n}))
			return false
		}
	}
	return true
}

func (c *c12Ctx) sample(v interface{}) {
	if c.nSam < 8 {
		c.nSam++
		c.rep.Sample(v)
	}
}

var c12Variable = regexp.MustCompile(`0x[0-9a-fA-F]+|[0-9a-fA-F]{6,}|[0-9]+(\.[0-9]+)?(e[+-]?[0-9]+)?`)

// c12ErrClass strips everything variable from an error text.
func c12ErrClass(err error) string {
	if err == nil {
		return "nil"
	}
	m := err.Error()
	if i := strings.Index(m, "&{"); i >= 0 { // errResp prints the whole Msg
		j := strings.LastIndex(m, "}")
		if j > i {
			m = m[:i] + "<msg>" + m[j+1:]
		}
	}
	if i := strings.Index(m, "bad genesis block"); i >= 0 {
		m = m[:i] + "bad genesis block"
	}
	m = c12Variable.ReplaceAllString(m, "#")
	return verifutil.Trunc(m, 80)
}

// ------------------------------------------------------------------ one frame through the node

type c12Decoded struct {
	ok   bool
	code uint64
	msg  *protocol.Msg
	size int // decompressed size
}

// preDecode runs the first two stages of protoPeer.ReadMsg on their own (metered), so that
// an allocation or a panic is attributed to the stage that caused it and the message code is
// known for the coverage counters.
func (c *c12Ctx) preDecode(frame []byte) (d c12Decoded, proceed bool) {
	var data []byte
	var err error
	if !c.call("protocol.Decode", frame, true, func() { data, err = protocol.Decode(frame) }) {
		return d, false
	}
	if err != nil {
		c.rep.Count("outcome:rejected-frame", 1)
		return d, true
	}
	m := new(protocol.Msg)
	c.given = len(data)
	if !c.call("protocol.Msg.FromBytes", frame, true, func() { err = m.FromBytes(data) }) {
		return d, false
	}
	if err != nil {
		c.rep.Count("outcome:rejected-frame", 1)
		return c12Decoded{size: len(data)}, true
	}
	return c12Decoded{ok: true, code: m.Code, msg: m, size: len(data)}, true
}

// forged tells whether frame belongs to the forged-length class.
func c12Forged(frame []byte) bool {
	if len(frame) < 2 || frame[0] != 1 {
		return false
	}
	n, err := s2.DecodedLen(frame[1:])
	return err == nil && n > c12ForgedClass
}

// feed pushes stream bytes through the hostile peer's real read path and handler.
func (s *c12Sut) feed(c *c12Ctx, entry string, stream []byte) (error, bool) {
	s.sa.set(stream)
	var err error
	f := s.peer().handle
	if entry == "protoPeer.readStatus" {
		f = s.peer().readStatus
	}
	ok := c.call(entry, stream, true, func() { err = f() })
	// a stream that did not carry exactly one complete length-prefixed message leaves the
	// reader half-way: the real node drops such a peer, the next case is a new connection
	if complete := len(stream) >= 4 && uint64(binary.BigEndian.Uint32(stream)) == uint64(len(stream)-4) && len(stream)-4 <= 8<<20; !complete || s.sa.left() > 0 {
		s.reconnect()
	}
	return err, ok
}
