//go:build verif && c11

package protocol_test

// C11 — "sync artifacts reproduce the canonical state", the part that runs the REAL fast sync
// of protocol/fast.go (the job "sync" in verifsim emulates fast.go's call sequence by hand, so a
// change of fast.go is invisible to it).
//
// What is real here: two IdenaGossipHandler instances built by the real constructor (server
// and syncing node), connected by an in-memory duplex stream; the real handshake; the request
// path GetBlocksRange -> peer queue -> protoPeer.broadcast -> msgio/S2 wire bytes ->
// runListening/handle of the SERVER -> provideBlocks (GetBlockHeaderByHeight / GetCertificate /
// GetIdentityDiff of the server's chain) -> wire bytes -> runListening/handle of the syncing
// node -> batch.headers; fastSync.preConsuming, processBatch (validateHeader,
// applyDeferredBlocks, reload/ban on failure) and postConsuming (SnapshotManager.
// DownloadSnapshot from the in-memory ipfs, RecoverSnapshot2, SaveForcedVersion,
// AtomicSwitchToPreliminary). What is mirrored: the ~10 lines of Downloader.Load that cut the
// range into batches (`to = min(from+batchSize, manifest height, peer height)`), issued one
// batch at a time; the manifest is built by the harness from the server's own WriteSnapshot2
// export added to the ipfs stub (manifest gossip / selection is not executed).
//
// Oracles (all on nodes that were brought up by the real code):
//   (1) every height of the synced range: the header the node stores is the canonical one and
//       the identity diff it stores (chain.GetIdentityDiff, what provideBlocks serves), replayed
//       in order on the identity state of the height the sync started from, reproduces the
//       identity root of the canonical header;
//   (2) head, state root, identity root and the full contents of both trees equal those of the
//       fully synced node at the snapshot height;
//   (3) the node then accepts the following canonical blocks and ends in the same state;
//   (4) second generation: a further node fast-syncs (same real path) FROM the fast-synced node,
//       i.e. from the headers / certificates / diffs that node stores and serves, and must pass
//       (1)-(3) too.
// A sync of correct artifacts that is refused is a violation as well (the served artifacts
// did not reproduce the state for the real consumer).
//
// zz_verif_c11hostile_test.go adds, on the same machinery: (A) hostile servers (a well-formed
// snapshot of another state announced with its own root; a served range with the identity diff
// of one identity-changing block missing) that the real consumer must refuse without moving,
// followed by the correct artifacts from an honest peer, and (B) the state-API probe: what the
// node answers through the getters of its main app state right after the switch must be what
// the fully synced node's read-only view of the snapshot height answers (every case of this
// file runs it between postConsuming and oracle (1)).

import (
	"bytes"
	"fmt"
	"strings"
	"testing"
	"time"

	mapset "github.com/deckarep/golang-set"
	"github.com/idena-network/idena-go/blockchain/types"
	"github.com/idena-network/idena-go/core/state/snapshot"
	"github.com/idena-network/idena-go/log"
	"github.com/idena-network/idena-go/protocol"
	"github.com/idena-network/idena-go/verifsim"
	"github.com/idena-network/idena-go/verifutil"
	dbm "github.com/tendermint/tm-db"
)

// (the libp2p-side fakes, the log capture and the node / connection helpers are in
// zz_verif_c11net_test.go, shared with the crash-injecting job of C09)

// ------------------------------------------------------------------ one real fast sync

type c11Plan struct {
	base      uint64 // the node is fully synced up to here before the fast sync (0 = genesis only)
	snapH     uint64 // manifest height
	batch     uint64 // 0 = fastSync.batchSize()
	interrupt int    // > 0: after that many batches the applier is abandoned and a new one resumes
	restart   bool   // the node process restarts at the interruption (objects rebuilt on the surviving db)
}

type c11Ctx struct {
	t     *testing.T
	rep   *verifutil.Report
	env   *verifsim.C11Env
	logs  *c11Logs
	r     *verifutil.Rng
	world int
	stop  bool
	nRef  int
}

func (c *c11Ctx) manifestFrom(r *verifsim.Replica, h uint64) (*snapshot.Manifest, error) {
	var buf bytes.Buffer
	root, err := r.AppState.State.WriteSnapshot2(h, &buf)
	if err != nil {
		return nil, err
	}
	id, err := r.Ipfs.Add(buf.Bytes(), true)
	if err != nil {
		return nil, err
	}
	c.rep.Count("real_sync_snapshot_bytes", buf.Len())
	return &snapshot.Manifest{Height: h, Root: root, CidV2: id.Bytes()}, nil
}

// c11SyncOpt: what the hostile-server cases and the state-API probe need from realSync.
type c11SyncOpt struct {
	// the connection is torn down synchronously when the node bans the server (c11ConnectSyncTeardown)
	syncTeardown bool
	// runs right before postConsuming on the node object that is going to switch
	beforePost func(cli *c11Node)
}

// realSync brings cli to the manifest height with the real fastSync, fed by srv over the wire.
// It may replace cli (restart variant), so it returns the node to go on with.
func (c *c11Ctx) realSync(cli, srv *c11Node, m *snapshot.Manifest, p c11Plan, tag string, o c11SyncOpt) (*c11Node, string, error) {
	rep := c.rep
	link, err := c11ConnectOpt(cli, srv, o.syncTeardown)
	if err != nil {
		return cli, "connect", err
	}
	defer func() { link.close() }()
	// (the applier's type is unexported: everything that touches it stays behind closures)
	newFs := func() (fsPre func(*types.Header) (uint64, error), fsBatch func(from, to uint64) error, fsPost func() error, fsDeferred func() int, fsSize func() uint64) {
		r := cli.r
		fs := protocol.NewFastSync(cli.h, log.New(), r.Chain, r.Ipfs, r.AppState, mapset.NewSet(), m, cli.n.Snapshots, r.Bus, r.SecStore.GetAddress(),
			cli.n.KeyStore, cli.n.SubManager, r.Upgrader)
		h, sid := cli.h, srv.id
		return fs.VerifPreConsuming,
			func(from, to uint64) error {
				b, err := h.GetBlocksRange(sid, from, to)
				if err != nil {
					return fmt.Errorf("GetBlocksRange: %w", err)
				}
				return fs.VerifProcessBatch(b, 1)
			}, fs.VerifPostConsuming, fs.VerifDeferred, fs.VerifBatchSize
	}
	pre, batch, post, deferred, size := newFs()
	from, err := pre(cli.r.Head())
	if err != nil {
		return cli, "preConsuming", err
	}
	srvHeight := srv.r.Head().Height()
	nb := 0
	for from <= m.Height {
		bs := p.batch
		if bs == 0 {
			bs = size()
		}
		to := minU(from+bs, minU(m.Height, srvHeight)) // Downloader.Load
		rep.Progress("C11 real fast sync %s: batch %d..%d (manifest %d)", tag, from, to, m.Height)
		if err := batch(from, to); err != nil {
			return cli, "processBatch", err
		}
		rep.Count("real_sync_batches", 1)
		if deferred() > 0 {
			rep.Count("real_sync_batches_ending_with_deferred_headers", 1)
		}
		from = to + 1
		nb++
		if p.interrupt == nb && from <= m.Height {
			// Downloader.Load came back before the range was complete (consumer timeout, peer loss);
			// SyncBlockchain calls Load again: a new applier starts with preConsuming on the same chain.
			// Restart variant: the process was restarted in between.
			if p.restart {
				link.close()
				if err := cli.r.Restart(); err != nil {
					return cli, "restart", err
				}
				cli = c11NewNode(c.t, cli.r, cli.name)
				if link, err = c11ConnectOpt(cli, srv, o.syncTeardown); err != nil {
					return cli, "connect", err
				}
				rep.Count("real_sync_resumed_after_restart", 1)
			}
			pre, batch, post, deferred, size = newFs()
			if from, err = pre(cli.r.Head()); err != nil {
				return cli, "preConsuming-resume", err
			}
			rep.Count("real_sync_resumed", 1)
		}
	}
	if o.beforePost != nil {
		o.beforePost(cli)
	}
	if err := post(); err != nil {
		return cli, "postConsuming", err
	}
	return cli, "", nil
}

func c11Kind(b *types.Block) string {
	switch {
	case b.IsEmpty():
		return "empty-block"
	case len(b.Body.Transactions) == 0:
		return "proposed-block-without-txs"
	}
	return "proposed-block-with-txs"
}

// checkSynced applies oracles (1) and (2) to a node that was fast-synced from height base to snapH.
// preDB is a copy of the node's database taken before the sync started.
func (c *c11Ctx) checkSynced(x *c11Node, base, snapH uint64, preDB dbm.DB, gen, label string) bool {
	return c.checkState(x, snapH, gen, label) && c.checkStored(x, base, snapH, preDB, gen, label)
}

// checkState applies oracle (2).
func (c *c11Ctx) checkState(x *c11Node, snapH uint64, gen, label string) bool {
	rep, env := c.rep, c.env
	X := x.r
	canon := env.Canon[snapH]
	if X.Head().Height() != snapH || X.Head().Hash() != canon.Hash() {
		rep.Violation("real-fast-synced-head-not-canonical:"+gen, fmt.Sprintf("%s node fast-synced (real fast.go) from %s to %d has head %d %x, canonical %x", gen, label, snapH, X.Head().Height(),
			X.Head().Hash().Bytes()[:6], canon.Hash().Bytes()[:6]), nil)
		return false
	}
	// (2) state
	if X.Head().Root() != X.AppState.State.Root() || X.Head().IdentityRoot() != X.AppState.IdentityState.Root() {
		rep.Violation("real-fast-synced-state-not-canonical:"+gen+":roots", fmt.Sprintf("%s node fast-synced from %s to %d: header roots %x/%x, loaded state roots %x/%x", gen, label, snapH,
			X.Head().Root().Bytes()[:6], X.Head().IdentityRoot().Bytes()[:6], X.AppState.State.Root().Bytes()[:6], X.AppState.IdentityState.Root().Bytes()[:6]), nil)
		return false
	}
	if ref, err := env.Straight.AppState.Readonly(snapH); err == nil {
		if d := verifsim.StateContentsDiff(ref.State, X.AppState.State); d != "" {
			rep.Violation("real-fast-synced-state-not-canonical:"+gen+":state-contents", fmt.Sprintf("%s node fast-synced from %s to %d: state contents differ from the fully synced node: %s", gen, label, snapH, d), nil)
			return false
		}
		if d := verifsim.IdentityContentsDiff(ref.IdentityState, X.AppState.IdentityState); d != "" {
			rep.Violation("real-fast-synced-state-not-canonical:"+gen+":identity-contents", fmt.Sprintf("%s node fast-synced from %s to %d: identity state contents differ from the fully synced node: %s", gen, label, snapH, d), nil)
			return false
		}
		rep.Count("real_sync_state_compared_with_full_node", 1)
	} else {
		rep.Note("fully synced node has no readonly state at %d: %v", snapH, err)
	}
	return true
}

// checkStored applies oracle (1): what the node stores per height.
func (c *c11Ctx) checkStored(x *c11Node, base, snapH uint64, preDB dbm.DB, gen, label string) bool {
	rep, env := c.rep, c.env
	X := x.r
	F, err := env.W.ScratchReplica(preDB, "replay-follower")
	if err != nil {
		rep.Inconcl("replay follower could not boot on the pre-sync copy: %v", err)
		return false
	}
	if F.Head().Height() != base {
		rep.Inconcl("replay follower is at %d, expected %d", F.Head().Height(), base)
		return false
	}
	idb, err := F.AppState.IdentityState.CreatePreliminaryCopy(base)
	if err != nil {
		rep.Inconcl("replay follower: CreatePreliminaryCopy: %v", err)
		return false
	}
	for h := base + 1; h <= snapH; h++ {
		cb := env.Canon[h]
		kind := c11Kind(cb)
		hd := X.Chain.GetBlockHeaderByHeight(h)
		rep.Eval(1)
		if hd == nil {
			rep.Violation("fast-synced-node-has-no-header:"+gen, fmt.Sprintf("%s node fast-synced from %s (%d..%d) has no header at height %d", gen, label, base+1, snapH, h), nil)
			return false
		}
		if hd.Hash() != cb.Hash() {
			rep.Violation("fast-synced-node-stores-other-header:"+gen, fmt.Sprintf("%s node fast-synced from %s (%d..%d) stores header %x at height %d, canonical %x", gen, label, base+1, snapH, hd.Hash().Bytes()[:6], h, cb.Hash().Bytes()[:6]), nil)
			return false
		}
		diff := X.Chain.GetIdentityDiff(h)
		idb.AddDiff(h, diff)
		rep.Count("real_sync_heights", 1)
		if idb.Root() != cb.Header.IdentityRoot() {
			n := 0
			if diff != nil {
				n = len(diff.Values)
			}
			served := 0
			if d := env.Straight.Chain.GetIdentityDiff(h); d != nil {
				served = len(d.Values)
			}
			rep.Violation("stored-identity-diff-does-not-reproduce-root:"+gen+":"+kind, fmt.Sprintf("%s node fast-synced by the real fast.go from %s (heights %d..%d): the identity diff it stores (and serves) for height %d (%s, %s) has %d entries "+
				"(the fully synced node stores %d); replayed after the diffs of the heights before, it gives identity root %x, the canonical header says %x", gen, label, base+1, snapH, h, kind, verifsim.BlockKind(cb), n, served,
				idb.Root().Bytes()[:8], cb.Header.IdentityRoot().Bytes()[:8]), verifsim.DescribeBlock(cb))
			return false
		}
		if !diff.Empty() {
			idb.CommitTree(int64(h))
			rep.Count("real_sync_diffs_nonempty", 1)
			rep.Count("real_sync_diffs_nonempty:"+kind, 1)
			if b, err := diff.ToBytes(); err == nil {
				rep.Distinct("real-sync-diff", gen, c11Hash(b))
			}
		}
		fl := cb.Header.Flags()
		if fl.HasFlag(types.ValidationFinished) {
			rep.Count("real_sync_validation_finished_blocks", 1)
		}
		if fl.HasFlag(types.Snapshot) {
			rep.Count("real_sync_snapshot_flag_blocks", 1)
		}
		if X.Chain.GetCertificate(hd.Hash()).Empty() {
			rep.Count("real_sync_heights_stored_without_cert", 1)
		}
		// coverage of the tx-bloom branch of applyDeferredBlocks (bodies fetched for the node's own address)
		if len(cb.Body.Transactions) > 0 && X.Chain.GetTxIndex(cb.Body.Transactions[0].Hash()) != nil {
			rep.Count("real_sync_blocks_with_body_fetched_by_bloom", 1)
		}
	}
	return true
}

func c11Hash(b []byte) string {
	h := uint64(1469598103934665603)
	for _, x := range b {
		h = (h ^ uint64(x)) * 1099511628211
	}
	return fmt.Sprintf("%016x/%d", h, len(b))
}

// continueCanonical applies oracle (3).
func (c *c11Ctx) continueCanonical(x *c11Node, snapH uint64, gen, label string) bool {
	rep, env := c.rep, c.env
	X := x.r
	n := 0
	for _, b := range env.W.Blocks {
		if b.Height() <= snapH {
			continue
		}
		if err := X.AddBlock(b); err != nil {
			rep.Violation("real-fast-synced-node-refuses-canonical-block:"+gen+":"+verifsim.ErrClass(err), fmt.Sprintf("%s node fast-synced (real fast.go) from %s to %d refuses canonical block %d (%s): %v", gen, label, snapH,
				b.Height(), verifsim.BlockKind(b), err), verifsim.DescribeBlock(b))
			return false
		}
		n++
		rep.Eval(1)
		verifsim.CheckValidators(env.W, X, rep, b)
	}
	rep.Count("real_sync_following_blocks_accepted", n)
	if X.Head().Hash() == env.Straight.Head().Hash() {
		if a, s := verifsim.DigestState(X.AppState), verifsim.DigestState(env.Straight.AppState); a != s {
			rep.Violation("real-fast-synced-node-diverges:"+gen, fmt.Sprintf("after the same blocks the %s fast-synced node has %s, the fully synced node %s", gen, a, s), nil)
			return false
		}
	}
	return true
}

// newSyncingNode boots the node of a case: fresh, or fully synced up to p.base. It returns the
// replica, its height and a copy of its database (for the replay follower of oracle (1)).
func (c *c11Ctx) newSyncingNode(p c11Plan, name string) (*verifsim.Replica, uint64, dbm.DB, bool) {
	rep, env := c.rep, c.env
	X, err := env.W.ScratchReplica(dbm.NewMemDB(), name)
	if err != nil {
		rep.Inconcl("scratch replica failed to boot: %v", err)
		return nil, 0, nil, false
	}
	if p.base > 0 {
		if err := env.FollowTo(X, p.base); err != nil {
			rep.Inconcl("fresh node refused the canonical prefix: %v", err)
			return nil, 0, nil, false
		}
	}
	return X, X.Head().Height(), verifsim.CloneDB(X.DB), true
}

// syncFailure gives the verdict on a real sync of CORRECT artifacts that did not get through.
func (c *c11Ctx) syncFailure(tag, scope, phase string, err error) {
	rep := c.rep
	why := c.logs.reason()
	all := strings.Join(c.logs.all(), " | ")
	// no verdict from harness set-up failures and from an expired wall-clock timeout of the real
	// code that no refusal preceded (overloaded machine)
	if phase == "connect" || phase == "restart" || why == "" && strings.Contains(all, "timeout was reached") {
		rep.Inconcl("real fast sync (%s) did not get through in %s without a refusal by the node: %v; log: %s", tag, phase, err, all)
		c.stop = true
		return
	}
	if why == "" {
		why = verifsim.ErrClass(err)
	}
	rep.Violation("real-fast-sync-refuses-served-artifacts:"+scope+":"+phase+":"+why, fmt.Sprintf("the real fast sync (%s) failed in %s: %v; what the node logged: %s", tag, phase, err, strings.Join(c.logs.all(), " | ")),
		map[string]interface{}{"case": tag, "log": c.logs.all()})
	c.nRef++
	if c.nRef >= 3 {
		c.stop = true
		rep.Note("three real fast syncs were refused: the remaining cases of this child are skipped")
	}
}

// afterSwitch: the node has just completed postConsuming. First the state-API probe (before
// anything else touches the node), then oracles (1)-(3).
func (c *c11Ctx) afterSwitch(x *c11Node, base, snapH uint64, preDB dbm.DB, gen, label string, probe *c11Probe) bool {
	probe.compareAfterSwitch(c, x, snapH, gen, label)
	if !c.checkSynced(x, base, snapH, preDB, gen, label) {
		return false
	}
	return c.continueCanonical(x, snapH, gen, label)
}

// syncCase = a node fast-synced from srv by the real code + oracles; returns the node (nil if it
// did not get through).
func (c *c11Ctx) syncCase(srv *c11Node, p c11Plan, gen, label string) *c11Node {
	rep := c.rep
	tag := fmt.Sprintf("world %d %s from %s base=%d snap=%d batch=%d interrupt=%d restart=%v", c.world, gen, label, p.base, p.snapH, p.batch, p.interrupt, p.restart)
	rep.Progress("C11 real fast sync %s", tag)
	X, base, preDB, ok := c.newSyncingNode(p, "fastsynced-"+gen)
	if !ok {
		return nil
	}
	m, err := c.manifestFrom(srv.r, p.snapH)
	if err != nil {
		rep.Inconcl("%s cannot export a snapshot at %d (head %d): %v", label, p.snapH, srv.r.Head().Height(), err)
		return nil
	}
	x := c11NewNode(c.t, X, "fastsynced-"+gen)
	c.logs.reset()
	rep.Eval(1)
	rep.Count("real_fast_syncs", 1)
	rep.Count("real_fast_syncs:"+gen, 1)
	// what the server has to serve (coverage only)
	for h := base + 1; h <= p.snapH; h++ {
		if hd := srv.r.Chain.GetBlockHeaderByHeight(h); hd != nil && srv.r.Chain.GetCertificate(hd.Hash()).Empty() {
			rep.Count("real_sync_heights_served_without_cert", 1)
		}
	}
	// the node reads its state through the state API before the sync (and again right before the
	// switch: a restart in between gives it new objects)
	probe := c.newProbe(x, p.snapH)
	x, phase, err := c.realSync(x, srv, m, p, tag, c11SyncOpt{beforePost: probe.readBeforeSwitch})
	if err != nil {
		c.syncFailure(tag, gen, phase, err)
		return nil
	}
	if !c.afterSwitch(x, base, p.snapH, preDB, gen, label, probe) {
		return nil
	}
	rep.Count("real_fast_syncs_completed:"+gen+":"+label, 1)
	rep.Distinct("real-sync", gen, label, c.world, p.base, p.snapH, p.batch, p.interrupt, p.restart)
	return x
}

// snapHeightWithCert: the highest height <= want (not lower than lo) whose block the server
// still has a certificate for (a fast sync ends at a snapshot block, which always has one).
func (c *c11Ctx) snapHeightWithCert(srv *verifsim.Replica, want, lo uint64) (uint64, bool) {
	ok := func(h uint64, flag types.BlockFlag) bool {
		b := c.env.Canon[h]
		return b != nil && b.Header.Flags().HasFlag(flag) && !srv.Chain.GetCertificate(b.Hash()).Empty()
	}
	for _, flag := range []types.BlockFlag{types.Snapshot, types.IdentityUpdate} {
		for h := want; h >= lo && h > 1; h-- {
			if ok(h, flag) {
				return h, true
			}
		}
		for h := want + 1; h < c.env.Head; h++ {
			if ok(h, flag) {
				return h, true
			}
		}
	}
	return 0, false
}

func (c *c11Ctx) runWorld() {
	rep, env, r := c.rep, c.env, c.r
	head := env.Head
	type srvT struct {
		label string
		r     *verifsim.Replica
	}
	servers := []srvT{{"straight-server", env.Straight}, {"reorged-server", env.Reorged}, {"sparse-cert-server", env.Sparse}}
	for si, s := range servers {
		if s.r.Head().Hash() != env.Straight.Head().Hash() {
			rep.Note("%s is not on the canonical head (%d vs %d): skipped", s.label, s.r.Head().Height(), head)
			continue
		}
		srv := c11NewNode(c.t, s.r, s.label)
		for k := 0; k < 3 && !c.stop; k++ {
			var p c11Plan
			lo := lo90(head)
			switch k {
			case 0: // a fresh node, the batch size of the real downloader
				p = c11Plan{snapH: head - uint64(r.Range(1, 20))}
			case 1: // a fresh node, small batches, interrupted once
				p = c11Plan{snapH: head - uint64(r.Range(15, 60)), batch: uint64(r.Range(3, 40)), interrupt: r.Range(1, 3), restart: r.Bool()}
			default: // a node that full-synced a prefix first
				p = c11Plan{snapH: head - uint64(r.Range(1, 88)), batch: uint64(r.Range(5, 60))}
				if r.Bool() {
					p.interrupt, p.restart = r.Range(1, 2), r.Bool()
				}
			}
			if p.snapH < lo {
				p.snapH = lo
			}
			if s.label == "sparse-cert-server" {
				h, ok := c.snapHeightWithCert(s.r, p.snapH, lo)
				if !ok {
					rep.Note("no snapshot / identity-update block with a certificate in %d..%d on %s", lo, p.snapH, s.label)
					continue
				}
				p.snapH = h
			}
			if k == 2 && p.snapH > 12 {
				p.base = uint64(r.Range(2, int(p.snapH)-8))
			}
			x := c.syncCase(srv, p, "gen1", s.label)
			if x == nil || c.stop {
				continue
			}
			// second generation: from what the fast-synced node stores and serves. It is at the
			// canonical head now; it can export the states of the heights it applied itself.
			p2 := c11Plan{snapH: p.snapH, batch: []uint64{0, uint64(r.Range(3, 50))}[r.Intn(2)]}
			if r.Intn(3) == 0 && head > p.snapH {
				p2.snapH = p.snapH + uint64(r.Intn(int(head-p.snapH)))
			}
			if r.Intn(3) == 0 {
				p2.interrupt, p2.restart = r.Range(1, 2), r.Bool()
			}
			if r.Intn(4) == 0 && p2.snapH > 12 {
				p2.base = uint64(r.Range(2, int(p2.snapH)-8))
			}
			c.syncCase(x, p2, "gen2", s.label)
		}
		if !c.stop {
			c.hostileCases(srv, s.label, si, lo90(head))
		}
	}
}

// lo90: the lowest height whose state version a server at head still has (it keeps the last
// state.MaxSavedStatesCount versions).
func lo90(head uint64) uint64 {
	if head > 92 {
		return head - 90
	}
	return 2
}

func TestVerifC11FastSync(t *testing.T) {
	if !verifutil.Enabled() {
		t.Skip("verif harness")
	}
	rep := verifutil.NewReport()
	defer rep.Write()
	logs := &c11Logs{}
	log.Root().SetHandler(log.FuncHandler(logs.handle))
	nWorlds := verifutil.Scale(1, 3)
	steps := verifutil.Scale(200, 300)
	for wi := 0; wi < nWorlds; wi++ {
		variant := verifutil.Shard() + wi*verifutil.NShards()
		seed := verifutil.Seed()*1000003 + uint64(verifutil.Shard())*1009 + uint64(wi) + 700001
		rep.Progress("C11 real fast sync: building world %d (seed %d, %d steps)", wi, seed, steps)
		t0 := time.Now()
		env, err := verifsim.C11Build(verifsim.C11Options{Seed: seed, Variant: variant, Steps: steps})
		if err != nil {
			rep.Inconcl("world (seed %d) could not be built: %v", seed, err)
			continue
		}
		for _, n := range env.Notes {
			rep.Note("world seed %d: %s", seed, n)
		}
		rep.Count("real_sync_worlds", 1)
		rep.Count("real_sync_world_blocks", len(env.W.Blocks))
		rep.Count("real_sync_world_server_reorgs", env.Reorgs)
		rep.Count("real_sync_world_steered_empty_blocks", env.SteeredEmpty)
		rep.Note("world seed %d: head %d, %d reorgs of the reorged server, %d steered empty blocks, built in %v", seed, env.Head, env.Reorgs, env.SteeredEmpty, time.Since(t0).Round(time.Millisecond))
		if env.Head < 120 {
			rep.Inconcl("world (seed %d) is too short (%d blocks)", seed, env.Head)
			env.W.Cleanup()
			continue
		}
		c := &c11Ctx{t: t, rep: rep, env: env, logs: logs, r: verifutil.Stream(11, 77, uint64(wi)), world: wi}
		c.runWorld()
		env.W.Cleanup()
	}
}
