//go:build verif && c12

package protocol_test

// C12 frame-level workload (see zz_verif_c12_test.go for the oracles and the fakes).

import (
	"crypto/sha256"
	"encoding/binary"
	"fmt"
	"math/big"
	"os"
	"strconv"
	"strings"
	"sync/atomic"
	"testing"
	"time"

	mapset "github.com/deckarep/golang-set"
	"github.com/golang/protobuf/proto"
	"github.com/idena-network/idena-go/blockchain/attachments"
	"github.com/idena-network/idena-go/blockchain/types"
	"github.com/idena-network/idena-go/common"
	"github.com/idena-network/idena-go/consensus"
	"github.com/idena-network/idena-go/core/flip"
	"github.com/idena-network/idena-go/core/state"
	"github.com/idena-network/idena-go/crypto"
	"github.com/idena-network/idena-go/log"
	models "github.com/idena-network/idena-go/protobuf"
	"github.com/idena-network/idena-go/protocol"
	"github.com/idena-network/idena-go/verifsim"
	"github.com/idena-network/idena-go/verifutil"
	"github.com/klauspost/compress/s2"
	"github.com/libp2p/go-libp2p-core/peer"
)

func c12Scale(quick, thorough int) int {
	n := verifutil.Scale(quick, thorough)
	if f, err := strconv.ParseFloat(os.Getenv("VERIF_C12_SCALE"), 64); err == nil && f > 0 {
		n = int(float64(n) * f)
	}
	n /= verifutil.NShards()
	if n < 1 {
		n = 1
	}
	return n
}

// c12Env builds this child's universe: seed and ceremony period are functions of
// (VERIF_SEED, shard).
func c12Env(t *testing.T, rep *verifutil.Report, tag uint64) *verifsim.C12Env {
	sh := verifutil.Shard()
	periods := []state.ValidationPeriod{state.NonePeriod, state.NonePeriod, state.LongSessionPeriod, state.NonePeriod, state.ShortSessionPeriod, state.FlipLotteryPeriod, state.NonePeriod, state.AfterLongSessionPeriod}
	o := verifsim.C12Options{Seed: verifutil.Seed()*100003 + uint64(sh)*101 + tag, Steps: verifutil.Scale(110, 170), Period: periods[sh%len(periods)], Ahead: 7, Epochs: sh % 2}
	t0 := time.Now()
	env, err := verifsim.C12Build(o)
	if err != nil {
		t.Fatalf("c12: cannot build the world: %v", err)
	}
	for _, n := range env.Notes {
		rep.Note("world: %s", n)
	}
	st := env.Victim.R.AppState.State
	rep.Note("world seed %d: victim head %d epoch %d period %d, %d blocks ahead, %d winning proposals, %d actors with flips, built in %v", o.Seed, env.H, st.Epoch(),
		st.ValidationPeriod(), len(env.Ahead), len(env.Proposals), len(env.W.ActorsWithFlips(env.Victim.R)), time.Since(t0).Round(time.Millisecond))
	rep.Count("worlds_built", 1)
	rep.Count(fmt.Sprintf("world_period:%d", st.ValidationPeriod()), 1)
	if st.Epoch() > 0 {
		rep.Count("world_epoch_ge1", 1)
	}
	return env
}

var c12AllCodes = []uint64{protocol.Handshake, protocol.ProposeBlock, protocol.ProposeProof, protocol.Vote, protocol.NewTx, protocol.GetBlockByHash,
	protocol.GetBlocksRange, protocol.BlocksRange, protocol.FlipBody, protocol.FlipKey, protocol.SnapshotManifest, protocol.GetForkBlockRange,
	protocol.FlipKeysPackage, protocol.Push, protocol.Pull, protocol.Block, protocol.UpdateShardId, protocol.BatchPush, protocol.BatchFlipKey, protocol.Disconnect}

func TestVerifC12Frames(t *testing.T) {
	if !verifutil.Enabled() {
		t.Skip("verif harness")
	}
	rep := verifutil.NewReport()
	defer rep.Write()
	c := &c12Ctx{t: t, rep: rep}
	env := c12Env(t, rep, 1)
	pop := c12NewSut(t, "populated", env, env.Victim)
	emp := c12NewSut(t, "empty", env, env.Empty)
	cr := verifutil.Stream(12, 1)
	pop.c12BuildCorpus(cr)
	emp.c12BuildCorpus(cr)
	rep.Note("corpus: %d items on the populated chain, %d on the empty chain", len(pop.corpus), len(emp.corpus))
	n := c12Scale(130000, 2600000)
	from := 0
	if v, err := strconv.Atoi(os.Getenv("VERIF_C12_FROM")); err == nil { // development aid: run cases [FROM, TO) only
		from = v
	}
	if v, err := strconv.Atoi(os.Getenv("VERIF_C12_TO")); err == nil && v < n {
		n = v
	}
	for i := from; i < n && !c.stop; i++ {
		r := verifutil.Stream(12, 2, uint64(i))
		s := pop
		if r.Intn(100) < 30 {
			s = emp
		}
		c12FrameCase(c, s, r, i)
		if i%250 == 249 {
			c12Maintain(c, s)
		}
	}
	c12Settle(c)
	for _, s := range []*c12Sut{pop, emp} {
		rep.Count("node_wrote_frames:"+s.name, int(s.sa.nframes()+s.sb.nframes()))
		rep.Count("relayed_to_bystander:"+s.name, int(s.sb.nframes()))
	}
	env.W.Cleanup()
}

// c12Maintain does what the engine does between rounds (real calls), and keeps the pool of
// the victim from filling up.
func c12Maintain(c *c12Ctx, s *c12Sut) {
	c.desc = "maintenance/" + s.name
	c.rep.Progress("%s", c.desc)
	c.call("Proposals.ProcessPendingBlocks", nil, false, func() { s.node.Proposals.ProcessPendingBlocks() })
	c.call("Proposals.ProcessPendingProofs", nil, false, func() { s.node.Proposals.ProcessPendingProofs() })
	s.node.Proposals.CompleteRound(s.node.R.Head().Height() + 1)
	for _, tx := range s.node.R.TxPool.VerifAll() {
		s.node.R.TxPool.Remove(tx)
	}
}

func c12Sha(b []byte) string { h := sha256.Sum256(b); return fmt.Sprintf("%x", h[:10]) }

// c12FrameCase = one input through the hostile peer's stream.
func c12FrameCase(c *c12Ctx, s *c12Sut, r *verifutil.Rng, i int) {
	rep := c.rep
	codes := c12AllCodes
	code := codes[r.Intn(len(codes))]
	if r.Intn(40) == 0 {
		code = []uint64{0, 0x15, ^uint64(0)}[r.Intn(3)]
	}
	idxs := s.byCode[code]
	if len(idxs) == 0 {
		rep.Count("corpus_missing:"+c12CodeName(code)+":"+s.name, 1)
		return
	}
	item := s.corpus[idxs[r.Intn(len(idxs))]]
	other := s.corpus[r.Intn(len(s.corpus))]
	label := item.Label
	payload := item.Payload
	// block ranges: register the request the response answers
	var rng *c12RangeCtx
	cls := r.Pick(8, 27, 12, 6, 8, 10, 8, 4, 4, 13)
	if code == protocol.BlocksRange && cls != 7 && cls != 8 {
		rng = s.openRange(c, r, item)
		payload = c12RangePayload(rng.id, item.Range)
		if cls == 9 {
			payload, label = c12TypedRange(r, rng.id, item.Range)
			cls = 0
		}
	}
	shard := uint32(0)
	if r.Intn(6) == 0 {
		shard = uint32(r.U64() >> uint(32+r.Intn(32)))
	}
	comp := r.Pick(60, 20, 20)
	var frame, stream []byte
	mut := ""
	switch cls {
	case 0:
		mut = "valid"
		if code == protocol.Handshake {
			payload = c12HandshakePayload(s.node.R, time.Now().UTC().Unix(), s.headH+uint64(r.Intn(50))) // the timestamp must be fresh
		}
		frame = c12Frame(code, payload, shard, comp)
	case 1:
		m, l, ok := verifutil.MutateWire(r, payload, 3000)
		if !ok {
			m, l = verifutil.MutateBytes(r, payload, other.Payload)
		}
		mut = "payload-wire/" + l
		frame = c12Frame(code, m, shard, comp)
	case 2:
		m, l := verifutil.MutateBytes(r, payload, other.Payload)
		mut = "payload-bytes/" + l
		frame = c12Frame(code, m, shard, comp)
	case 3:
		oc := codes[r.Intn(len(codes))]
		mut = "code-confusion/as-" + c12CodeName(oc)
		frame = c12Frame(oc, payload, shard, comp)
	case 4:
		msg, _ := (&protocol.Msg{Code: code, Payload: payload, ShardId: common.ShardId(shard)}).ToBytes()
		m, l, ok := verifutil.MutateWire(r, msg, 200)
		if !ok {
			m, l = verifutil.MutateBytes(r, msg, nil)
		}
		mut = "msg-wire/" + l
		frame = c12Wrap(code, m, comp)
	case 5:
		f := c12Frame(code, payload, shard, 1+r.Intn(2))
		m, l := verifutil.MutateBytes(r, f, other.Payload)
		mut = "frame-bytes/" + l
		frame = m
	case 6:
		msg, _ := (&protocol.Msg{Code: code, Payload: payload, ShardId: common.ShardId(shard)}).ToBytes()
		frame, mut = c12MutateS2(r, msg)
	case 7:
		frame = r.Bytes(r.Range(0, 300))
		if len(frame) > 0 && r.Intn(4) != 0 {
			frame[0] = byte(r.Intn(2))
		}
		mut, label = "random", "-"
	case 8:
		stream, mut = c12StreamLie(r, c12Frame(code, payload, shard, comp))
	default:
		var tc uint64
		tc, payload, label = c12Typed(s, r)
		if payload == nil {
			rep.Count("typed_unavailable", 1)
			return
		}
		code = tc
		mut = "typed"
		frame = c12Frame(code, payload, shard, comp)
	}
	rep.Count("inputs", 1)
	rep.Count("class:"+strings.SplitN(mut, "/", 2)[0], 1)
	c.given = 0
	c.desc = fmt.Sprintf("frames/%s #%d %s[%s] %s", s.name, i, c12CodeName(code), label, mut)
	var d c12Decoded
	if stream == nil {
		stream = c12StreamBytes(frame)
		rep.Progress("%s len=%d hex=%s", c.desc, len(stream), c12Hex(stream, 200))
		if c12Forged(frame) {
			rep.Count("skipped_forged_length_class", 1)
			s.closeRange(c, rng, false)
			return
		}
		var proceed bool
		if d, proceed = c.preDecode(frame); !proceed {
			s.closeRange(c, rng, false)
			return
		}
	} else {
		rep.Progress("%s len=%d hex=%s", c.desc, len(stream), c12Hex(stream, 200))
	}
	name := "undecodable"
	if d.ok {
		name = c12CodeName(d.code)
		rep.Count("post_decode:"+name, 1)
	}
	// a range carrying more blocks than the request can take belongs to the overflow class
	// (TestVerifC12Forged); everything else about it is still checked by the pre-decode
	var gotRange *models.ProtoGossipBlockRange
	if d.ok && d.code == protocol.BlocksRange {
		gotRange = new(models.ProtoGossipBlockRange)
		if proto.Unmarshal(d.msg.Payload, gotRange) != nil {
			gotRange = nil
		} else if rng != nil && gotRange.BatchId == rng.id && len(gotRange.Blocks) > rng.capacity {
			rep.Count("skipped_range_overflow_class", 1)
			s.closeRange(c, rng, false)
			return
		}
	}
	if rng != nil {
		rng.start(c, s, stream)
	}
	c.given = d.size
	if code == protocol.Handshake && d.ok && d.code == protocol.Handshake && r.Bool() {
		// the first message of a connection is read by readStatus, not by handle
		herr, ok := s.feed(c, "protoPeer.readStatus", stream)
		if ok {
			rep.Count("reached:Handshake", 1)
			rep.Count("handshake:"+c12ErrClass(herr), 1)
			if herr == nil {
				rep.Count("accepted:Handshake", 1)
			}
			rep.Distinct(c12Sha(stream), "readStatus/"+c12ErrClass(herr))
		}
		return
	}
	evBefore := s.events()
	err, ok := s.feed(c, "handle/"+name, stream)
	if !ok {
		s.closeRange(c, rng, false)
		return
	}
	outcome := "handled"
	switch {
	case err == nil:
	case strings.HasPrefix(err.Error(), "1 - "):
		outcome = "rejected-decode"
	case strings.HasPrefix(err.Error(), "2 - "):
		outcome = "rejected-validate"
	default:
		outcome = "rejected-frame"
	}
	rep.Count("outcome:"+outcome, 1)
	branch := name + "/" + outcome
	reached := d.ok && (outcome == "handled" || outcome == "rejected-validate")
	if reached {
		rep.Count("reached:"+name, 1)
		rep.Count("reached:"+name+":"+s.name, 1)
	}
	if err != nil || !d.ok {
		if reached {
			rep.Distinct(c12Sha(stream), branch)
		}
		s.closeRange(c, rng, false)
		if err == nil {
			c12Settle(c) // something was handled (stream-level case): let the node's own goroutines finish
		}
		return
	}
	// ---- what the node does next with an accepted message
	node := s.node
	switch d.code {
	case protocol.ProposeBlock:
		p := new(types.BlockProposal)
		if p.FromBytes(d.msg.Payload) == nil && p.Block != nil && p.IsValid() {
			round := p.Block.Height()
			if _, e := node.Proposals.GetBlockByHash(round, p.Block.Hash()); e == nil {
				branch += "/admitted"
				rep.Count("accepted:ProposeBlock", 1)
				var verr error
				if c.call("Proposals.GetProposedBlock", stream, true, func() {
					_, verr = node.Proposals.GetProposedBlock(round, p.Block.Header.ProposedHeader.ProposerPubKey, 80*time.Millisecond)
				}) {
					branch += "/validate:" + c12ErrClass(verr)
					if verr == nil {
						rep.Count("accepted:ProposeBlock+ValidateBlock", 1)
					}
				}
				node.Proposals.CompleteRound(round)
			} else if round > node.R.Chain.Round() {
				branch += "/deferred"
			}
		}
	case protocol.ProposeProof:
		p := new(types.ProofProposal)
		if p.FromBytes(d.msg.Payload) == nil {
			if _, _, has := node.Proposals.ProposerByRound(p.Round); has {
				branch += "/admitted"
				rep.Count("accepted:ProposeProof", 1)
				node.Proposals.CompleteRound(p.Round)
			}
		}
	case protocol.Vote:
		v := new(types.Vote)
		if v.FromBytes(d.msg.Payload) == nil && v.IsValid() {
			if m := node.Votes.GetVotesOfRound(v.Header.Round); m != nil {
				if _, has := m.Load(v.Hash()); has {
					branch += "/admitted"
					rep.Count("accepted:Vote", 1)
				}
			}
		}
	case protocol.NewTx, protocol.FlipBody, protocol.FlipKey, protocol.BatchFlipKey, protocol.FlipKeysPackage:
		c12Settle(c)
		ev := s.events()
		for k, what := range []string{"NewTx", "FlipKey", "FlipKeysPackage", "FlipBody"} {
			if ev[k] > evBefore[k] {
				branch += "/admitted"
				rep.Count("accepted:"+what, 1)
			}
		}
	case protocol.Block:
		b := new(types.Block)
		if b.FromBytes(d.msg.Payload) == nil && b.IsValid() && node.Proposals.GetBlock(b.Hash()) != nil {
			branch += "/kept"
			rep.Count("accepted:Block", 1)
		}
	case protocol.BlocksRange:
		if rng != nil && gotRange != nil && gotRange.BatchId == rng.id {
			branch += "/" + rng.mode + ":" + rng.finish(c, s, stream)
			rng = nil
		}
	case protocol.SnapshotManifest:
		if m := s.peer().manifest(); m != nil {
			var best interface{}
			c.call("Downloader.getBestManifest", stream, true, func() { best = s.dl.VerifBestManifest() })
			_ = best
			if r.Intn(6) == 0 {
				var derr error
				c.call("SnapshotManager.DownloadSnapshot", stream, true, func() { _, _, derr = node.Snapshots.DownloadSnapshot(m) })
				branch += "/download:" + c12ErrClass(derr)
			}
			rep.Count("accepted:SnapshotManifest", 1)
		}
	case protocol.GetBlockByHash, protocol.GetBlocksRange, protocol.GetForkBlockRange, protocol.Pull:
		w0 := s.sa.nframes()
		c12Settle(c)
		if s.sa.nframes() > w0 {
			branch += "/answered"
			rep.Count("answered:"+name, 1)
		}
	}
	s.closeRange(c, rng, false)
	rep.Distinct(c12Sha(stream), branch)
	if mut != "valid" {
		c.sample(map[string]interface{}{"case": c.desc, "branch": branch, "input_hex": c12Hex(stream, 300)})
	}
}

func (s *c12Sut) events() [4]int64 {
	return [4]int64{atomic.LoadInt64(&s.ev[0]), atomic.LoadInt64(&s.ev[1]), atomic.LoadInt64(&s.ev[2]), atomic.LoadInt64(&s.ev[3])}
}

// ------------------------------------------------------------------ S2 and stream mutations

func c12MutateS2(r *verifutil.Rng, msg []byte) ([]byte, string) {
	comp := s2.Encode(nil, msg)
	n, k := binary.Uvarint(comp)
	body := append([]byte(nil), comp[k:]...)
	hdr := func(v uint64) []byte { var t [10]byte; return append([]byte(nil), t[:binary.PutUvarint(t[:], v)]...) }
	var out []byte
	label := ""
	switch r.Pick(25, 25, 12, 10, 14, 14) {
	case 0: // the compressed body is damaged, the header is honest
		b, l := verifutil.MutateBytes(r, body, nil)
		out, label = append(hdr(n), b...), "s2-body/"+l
	case 1: // the header lies a little (stays below the forged class)
		v := []uint64{n - 1, n + 1, 2 * n, n / 2, 0, 1, 1 << 16, 1 << 20, 40 << 20, n + 100}[r.Intn(10)]
		out, label = append(hdr(v), body...), "s2-header-lie"
	case 2:
		out, label = append(hdr(n), body[:r.Intn(len(body)+1)]...), "s2-truncated"
	case 3:
		out, label = append(append(hdr(n), body...), r.Bytes(r.Range(1, 40))...), "s2-trailing"
	case 4: // honest header, random op stream
		out, label = append(hdr(uint64(r.Range(1, 70000))), r.Bytes(r.Range(0, 120))...), "s2-random-ops"
	default: // copy ops that reach before the start / beyond the end
		ops := []byte{}
		for j, m := 0, r.Range(1, 6); j < m; j++ {
			switch r.Intn(3) {
			case 0:
				ops = append(ops, byte(r.Intn(64))<<2|1, byte(r.U64())) // copy1
			case 1:
				ops = append(ops, byte(r.Intn(64))<<2|2, byte(r.U64()), byte(r.U64())) // copy2
			default:
				l := r.Intn(20)
				ops = append(ops, byte(l)<<2)
				ops = append(ops, r.Bytes(r.Intn(l+2))...)
			}
		}
		out, label = append(hdr(uint64(r.Range(1, 5000))), ops...), "s2-hostile-copies"
	}
	return append([]byte{1}, out...), label
}

func c12StreamLie(r *verifutil.Rng, frame []byte) ([]byte, string) {
	pre := func(n uint32) []byte { var b [4]byte; binary.BigEndian.PutUint32(b[:], n); return b[:] }
	switch r.Pick(30, 10, 15, 15, 15, 15) {
	case 0:
		return append(pre(uint32(len(frame)+r.Range(1, 5000))), frame...), "stream/length-beyond-data"
	case 1:
		return pre(0), "stream/zero-length"
	case 2:
		return append(pre(uint32(8<<20+r.Range(1, 1<<20))), frame...), "stream/over-max"
	case 3:
		return append(pre(^uint32(0)-uint32(r.Intn(3))), frame...), "stream/length-max"
	case 4:
		return append(c12StreamBytes(frame), c12StreamBytes(frame)...), "stream/two-messages"
	default:
		return append(pre(uint32(r.Intn(len(frame)+1))), frame...), "stream/length-short"
	}
}

// ------------------------------------------------------------------ block-range requests and their consumers

type c12RangeCtx struct {
	mode     string // none | sync | fork | seek
	id       uint32
	capacity int
	closed   bool
	started  bool
	begin    func(c *c12Ctx, s *c12Sut, stream []byte) // starts a concurrent consumer (fork mode)
	finish   func(c *c12Ctx, s *c12Sut, stream []byte) string
	wait     func(c *c12Ctx) // waits for a started concurrent consumer
}

func (rc *c12RangeCtx) start(c *c12Ctx, s *c12Sut, stream []byte) {
	if rc.begin != nil && !rc.started {
		rc.started = true
		rc.begin(c, s, stream)
	}
}

// openRange makes the node ask the hostile peer for blocks the way the downloader, the fork
// resolver or the next-block detector do, and prepares the matching real consumer.
func (s *c12Sut) openRange(c *c12Ctx, r *verifutil.Rng, item c12Item) *c12RangeCtx {
	node := s.node
	chain := node.R.Chain
	H := s.headH
	rc := &c12RangeCtx{}
	switch r.Pick(10, 45, 27, 18) {
	case 0:
		rc.mode, rc.capacity, rc.closed = "none", 1<<30, true
		rc.id = uint32(r.U64())
		rc.finish = func(*c12Ctx, *c12Sut, []byte) string { return "-" }
	case 1: // the downloader asked for [from, from+FullSyncBatchSize]
		from := item.From
		if r.Intn(3) == 0 {
			from = H + 1
		}
		to := from + protocol.FullSyncBatchSize
		b, err := s.h.GetBlocksRange(s.pidA, from, to)
		if err != nil {
			c.t.Fatalf("c12: GetBlocksRange: %v", err)
		}
		rc.mode, rc.id, rc.capacity = "sync", protocol.VerifBatchId(), b.VerifCap()
		rc.finish = func(c *c12Ctx, s *c12Sut, stream []byte) string {
			rc.closed = true
			fs := protocol.NewFullSync(s.h, log.New(), chain, node.R.Ipfs, node.R.AppState, mapset.NewSet(), to, node.R.Stats)
			var perr error
			if !c.call("fullSync.processBatch", stream, true, func() { perr = fs.VerifProcessBatch(b, protocol.MaxAttemptsCountPerBatch) }) {
				return "!"
			}
			// requests the consumer issued while re-loading are answered with an empty range
			for id := rc.id + 1; id <= protocol.VerifBatchId(); id++ {
				s.terminate(c, id)
			}
			res := c12ErrClass(perr)
			if h := chain.Head.Height(); h != s.headH {
				c.rep.Count("sync_applied_blocks", int(h-s.headH))
				res += "/applied"
				s.rollback(c)
			}
			return res
		}
	case 2: // the fork resolver asked for the blocks after the common ancestor
		own := chain.GetTopBlockHashes(100)
		ch := s.dl.SeekForkedBlocks(own, s.pidA)
		rc.mode, rc.id, rc.capacity = "fork", protocol.VerifBatchId(), 1<<30
		done := make(chan struct{})
		var perr error
		good, lost := false, false
		rc.begin = func(c *c12Ctx, s *c12Sut, stream []byte) {
			c2 := &c12Ctx{t: c.t, rep: c.rep, desc: c.desc}
			go func() { // loadAndVerifyFork consumes while the peer's handler produces
				defer close(done)
				good = c2.call("ForkResolver.processBlocks", stream, false, func() { perr = s.fr.VerifC12ProcessBlocks(ch, s.pidA) })
				lost = c2.stop
			}()
		}
		rc.wait = func(c *c12Ctx) {
			<-done
			if lost {
				c.stop = true
			}
		}
		rc.finish = func(c *c12Ctx, s *c12Sut, stream []byte) string {
			rc.closed = true
			rc.wait(c)
			if !good {
				return "!"
			}
			if s.fr.HasLoadedFork() {
				c.rep.Count("fork_found_applicable", 1)
				s.fr.VerifC12DropFork()
				return "applicable"
			}
			return c12ErrClass(perr)
		}
	default: // the next-block detector asked one forward peer for round H+1
		ch := s.dl.SeekBlocks(H+1, H+1, []peer.ID{s.pidA})
		rc.mode, rc.id, rc.capacity = "seek", protocol.VerifBatchId(), 1
		rc.finish = func(c *c12Ctx, s *c12Sut, stream []byte) string {
			rc.closed = true
			var ex bool
			if !c.call("nextBlockDetector.nextBlockExist", stream, true, func() { ex = consensus.VerifC12NextBlockExist(chain, ch, H+1, s.emptyHash) }) {
				return "!"
			}
			if ex {
				c.rep.Count("next_block_confirmed", 1)
			}
			return fmt.Sprint(ex)
		}
	}
	c.rep.Count("range_mode:"+rc.mode, 1)
	return rc
}

// closeRange ends a request the hostile answer did not consume: the peer finally answers
// with an empty range (a legal answer), which closes the batch and releases the consumer.
func (s *c12Sut) closeRange(c *c12Ctx, rc *c12RangeCtx, _ bool) {
	if rc == nil || rc.closed {
		return
	}
	rc.closed = true
	s.terminate(c, rc.id)
	if rc.started && rc.wait != nil {
		rc.wait(c)
	}
}

func (s *c12Sut) terminate(c *c12Ctx, id uint32) {
	desc := c.desc
	c.desc = desc + " (answering an open request with an empty range)"
	s.feed(c, "handle/BlocksRange", c12StreamBytes(c12Frame(protocol.BlocksRange, c12RangePayload(id, nil), 0, 0)))
	c.desc = desc
}

// rollback returns the sut's chain to the head the corpus was built for.
func (s *c12Sut) rollback(c *c12Ctx) {
	chain := s.node.R.Chain
	var err error
	c.call("Blockchain.ResetTo", nil, false, func() { _, err = chain.ResetTo(s.headH) })
	if err != nil || chain.Head.Height() != s.headH {
		c.rep.Inconcl("could not roll the %s chain back to %d after a sync case: %v (head %d)", s.name, s.headH, err, chain.Head.Height())
		c.stop = true
	}
}

// ------------------------------------------------------------------ typed hostile objects

func c12TypedRange(r *verifutil.Rng, id uint32, items []c12RangeItem) ([]byte, string) {
	its := append([]c12RangeItem{}, items...)
	k := r.Intn(len(its))
	it := its[k]
	label := ""
	switch r.Intn(9) {
	case 0:
		it.Cert, label = &types.BlockCert{}, "cert-empty"
	case 1:
		if it.Cert != nil {
			cc := *it.Cert
			cc.Signatures = append([]*types.BlockCertSignature{}, cc.Signatures...)
			cc.Signatures = append(cc.Signatures, &types.BlockCertSignature{Signature: r.Bytes([]int{0, 1, 64, 65, 66}[r.Intn(5)])})
			it.Cert, label = &cc, "cert-extra-garbage-signature"
		}
	case 2:
		if it.Cert != nil {
			cc := *it.Cert
			cc.Step = uint8(r.Intn(256))
			cc.Round = []uint64{0, cc.Round - 1, cc.Round + 1, ^uint64(0)}[r.Intn(4)]
			it.Cert, label = &cc, "cert-other-round-step"
		}
	case 3:
		if it.Cert != nil && len(it.Cert.Signatures) > 0 {
			cc := *it.Cert
			var sigs []*types.BlockCertSignature
			for j := 0; j < r.Range(2, 300); j++ {
				sigs = append(sigs, cc.Signatures[j%len(cc.Signatures)])
			}
			cc.Signatures = sigs
			it.Cert, label = &cc, "cert-repeated-signatures"
		}
	case 4:
		d := &state.IdentityStateDiff{}
		for j := 0; j < r.Range(1, 30); j++ {
			var a common.Address
			copy(a[:], r.Bytes(20))
			d.Values = append(d.Values, &state.IdentityStateDiffValue{Address: a, Deleted: r.Bool(), Value: r.Bytes(r.Intn(40))})
		}
		it.Diff, label = d, "diff-garbage"
	case 5:
		it.Diff, label = &state.IdentityStateDiff{Values: []*state.IdentityStateDiffValue{{}}}, "diff-zero-entry"
	case 6:
		if it.Header.ProposedHeader != nil {
			h := *it.Header.ProposedHeader
			switch r.Intn(6) {
			case 0:
				h.ProposerPubKey = r.Bytes([]int{0, 33, 64, 65}[r.Intn(4)])
			case 1:
				h.SeedProof = r.Bytes(r.Intn(140))
			case 2:
				h.Flags = types.BlockFlag(r.U64())
			case 3:
				h.Upgrade = uint32(r.Intn(20))
			case 4:
				h.TxBloom = r.Bytes(r.Intn(300))
			default:
				h.IpfsHash = r.Bytes(r.Intn(50))
			}
			it.Header, label = &types.Header{ProposedHeader: &h}, "header-field"
		}
	case 7:
		h := &types.EmptyBlockHeader{ParentHash: it.Header.ParentHash(), Height: it.Header.Height(), Time: it.Header.Time(), Flags: types.BlockFlag(r.U64())}
		it.Header, label = &types.Header{EmptyBlockHeader: h}, "header-forged-empty"
	default:
		its = append(its, its[r.Intn(len(its))])
		label = "repeat-one"
	}
	if label == "" {
		label = "unchanged"
	}
	its[k] = it
	return c12RangePayload(id, its), "typed-range/" + label
}

// c12Typed draws one typed hostile object and encodes it with the type's own encoder.
func c12Typed(s *c12Sut, r *verifutil.Rng) (uint64, []byte, string) {
	w, v := s.env.W, s.node.R
	st := v.AppState.State
	head := v.Head()
	hostileTx := func() *verifsim.C12TxCase {
		return w.C12HostileTx(r, v, verifsim.C12TxTypes[r.Intn(len(verifsim.C12TxTypes))], r.Intn(verifsim.C12NTo), r.Intn(verifsim.C12NPl))
	}
	switch r.Pick(40, 24, 10, 12, 8, 6) {
	case 0:
		tc := hostileTx()
		return protocol.NewTx, c12Must(tc.Tx.ToBytes()), "tx/" + tc.Label()
	case 1: // a proposal of a legitimate proposer whose block is hostile
		if len(s.props) == 0 {
			return 0, nil, ""
		}
		base := s.props[r.Intn(len(s.props))]
		key := c12KeyOf(w, base.Block.Header.ProposedHeader.ProposerPubKey)
		if key == nil {
			return 0, nil, ""
		}
		h := *base.Block.Header.ProposedHeader
		body := &types.Body{Transactions: append([]*types.Transaction{}, base.Block.Body.Transactions...)}
		hdr := &types.Header{ProposedHeader: &h}
		label := ""
		switch r.Pick(40, 8, 6, 6, 6, 6, 6, 6, 6, 5, 5) {
		case 0:
			n := r.Range(1, 3)
			body.Transactions = nil
			for j := 0; j < n; j++ {
				tc := hostileTx()
				body.Transactions = append(body.Transactions, tc.Tx)
				label += "[" + tc.Label() + "]"
			}
			h.TxHash = types.DeriveSha(types.Transactions(body.Transactions))
			label = "hostile-body" + label
		case 1:
			body.Transactions = append(body.Transactions, hostileTx().Tx)
			label = "body-not-matching-txhash"
		case 2:
			h.FeePerGas = []*big.Int{nil, big.NewInt(0), new(big.Int).Lsh(big.NewInt(1), 200)}[r.Intn(3)]
			label = "feePerGas"
		case 3:
			h.Flags = types.BlockFlag(r.U64())
			label = "flags"
		case 4:
			var a common.Address
			copy(a[:], r.Bytes(20))
			h.OfflineAddr, h.Flags = &a, h.Flags|types.OfflinePropose
			label = "offline-addr"
		case 5:
			h.Upgrade = uint32(r.Intn(16))
			label = "upgrade"
		case 6:
			h.Time += int64(r.Range(-100000, 100000))
			label = "time"
		case 7:
			h.TxBloom = r.Bytes(r.Intn(400))
			label = "bloom"
		case 8:
			h.Root, h.IdentityRoot = common.Hash{}, common.Hash{1}
			label = "roots"
		case 9:
			hdr = &types.Header{EmptyBlockHeader: &types.EmptyBlockHeader{ParentHash: h.ParentHash, Height: h.Height, Time: h.Time}}
			label = "empty-header-in-proposal"
		default:
			hdr = &types.Header{ProposedHeader: &h, EmptyBlockHeader: &types.EmptyBlockHeader{ParentHash: h.ParentHash, Height: h.Height, Time: h.Time}}
			label = "both-headers"
		}
		p := verifsim.C12SignProposal(key.Key, &types.Block{Header: hdr, Body: body}, base.Proof)
		return protocol.ProposeBlock, c12Must(p.ToBytes()), "proposal/" + label
	case 2: // a flip around a hostile transaction
		a := w.SortedActors()[r.Intn(len(w.ByAddr))]
		pub, priv := r.Bytes(r.Range(0, 2000)), r.Bytes(r.Range(0, 500))
		data, _ := (&flip.IpfsFlip{PublicPart: pub, PrivatePart: priv, PubKey: a.Pub}).ToBytes()
		cid, _ := v.Ipfs.Cid(data)
		att := attachments.CreateFlipSubmitAttachment(cid.Bytes(), uint8(r.Intn(6)))
		tc := hostileTx()
		tx := verifsim.SignedTx(a, tc.Tx.Type, tc.Tx.To, tc.Tx.Amount, tc.Tx.MaxFee, tc.Tx.Tips, tc.Tx.AccountNonce, tc.Tx.Epoch, att)
		f := &types.Flip{Tx: tx, PublicPart: pub, PrivatePart: priv}
		return protocol.FlipBody, c12Must(f.ToBytes()), "flip/matching-cid-around-" + verifsim.TxName(tx.Type)
	case 3:
		a := w.SortedActors()[r.Intn(len(w.ByAddr))]
		vt := verifsim.C12Vote(a.Key, []uint64{0, head.Height(), head.Height() + 1, head.Height() + 29, ^uint64(0)}[r.Intn(5)], uint8(r.U64()), head.Hash(), common.Hash{}, r.Bool(), uint32(r.U64()>>uint(r.Intn(32)+32)))
		switch r.Intn(4) {
		case 0:
			vt.Signature = r.Bytes([]int{0, 1, 64, 65, 66, 200}[r.Intn(6)])
		case 1:
			vt.Signature[64] = byte(r.Intn(256))
		}
		return protocol.Vote, c12Must(vt.ToBytes()), "vote/typed"
	case 4:
		a := w.SortedActors()[r.Intn(len(w.ByAddr))]
		if l := w.ActorsWithFlips(v); len(l) > 0 && r.Bool() {
			a = l[r.Intn(len(l))]
		}
		ep := []uint16{st.Epoch(), st.Epoch() + 1, 0, ^uint16(0)}[r.Pick(70, 10, 10, 10)]
		if r.Bool() {
			k, _ := types.SignFlipKey(&types.PublicFlipKey{Key: r.Bytes([]int{32, 32, 0, 31, 33, 64}[r.Intn(6)]), Epoch: ep}, a.Key)
			return protocol.FlipKey, c12Must(k.ToBytes()), "flipkey/typed"
		}
		pk, _ := types.SignFlipKeysPackage(&types.PrivateFlipKeysPackage{Data: r.Bytes([]int{0, 50, 1024*100 - 1, 1024 * 100, 1024*100 + 1}[r.Intn(5)]), Epoch: ep}, a.Key)
		return protocol.FlipKeysPackage, c12Must(pk.ToBytes()), "keypackage/typed"
	default:
		a := w.SortedActors()[r.Intn(len(w.ByAddr))]
		proof := r.Bytes([]int{0, 32, 64, 129, 200}[r.Intn(5)])
		if len(s.props) > 0 && r.Bool() {
			proof = s.props[r.Intn(len(s.props))].Proof
		}
		p := verifsim.C12SignProof(a.Key, proof, head.Height()+uint64(r.Range(0, 31)))
		if r.Intn(4) == 0 {
			p.Signature = r.Bytes([]int{0, 64, 65, 66}[r.Intn(4)])
		}
		return protocol.ProposeProof, c12Must(p.ToBytes()), "proof/typed"
	}
}

var _ = crypto.Keccak256
