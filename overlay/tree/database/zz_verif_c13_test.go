package database

// C13(a): the copy-on-write store behaves like an ordinary store pre-loaded with the
// underlying data, and never writes through to it. Reference-model monitor: every
// operation of generated sequences is executed on BackedMemDb(base) and on a plain MemDB
// pre-loaded with base; every result is compared.

import (
	"bytes"
	"fmt"
	"strings"
	"testing"

	"github.com/idena-network/idena-go/verifutil"
	db "github.com/tendermint/tm-db"
)

type c13kv struct{ k, v []byte }

func c13dump(d db.DB) []c13kv {
	it, err := d.Iterator(nil, nil)
	if err != nil {
		panic(err)
	}
	defer it.Close()
	var out []c13kv
	for ; it.Valid(); it.Next() {
		out = append(out, c13kv{append([]byte{}, it.Key()...), append([]byte{}, it.Value()...)})
	}
	return out
}

func c13eq(a, b []c13kv) bool {
	if len(a) != len(b) {
		return false
	}
	for i := range a {
		if !bytes.Equal(a[i].k, b[i].k) || !bytes.Equal(a[i].v, b[i].v) {
			return false
		}
	}
	return true
}

func c13fmt(l []c13kv) string {
	var sb strings.Builder
	for _, e := range l {
		fmt.Fprintf(&sb, "%q=%q ", e.k, e.v)
	}
	return sb.String()
}

func errStr(e error) string {
	if e == nil {
		return ""
	}
	return e.Error()
}

func TestVerifC13Store(t *testing.T) {
	if !verifutil.Enabled() {
		t.Skip("verif harness")
	}
	rep := verifutil.NewReport()
	defer rep.Write()
	nSeq := verifutil.Scale(20000, 600000) / verifutil.NShards()
	alphabet := [][]byte{{'a'}, {'b'}, {'c'}, {0}, {0xff}, {'a', 0}, {'m'}}
	for s := 0; s < nSeq; s++ {
		rng := verifutil.Stream(13, uint64(s))
		// key universe of this sequence: small, so shadowing/deletion at range borders is frequent
		nk := rng.Range(2, 9)
		keys := make([][]byte, 0, nk)
		seen := map[string]bool{}
		for len(keys) < nk {
			l := rng.Range(1, 3)
			var k []byte
			for i := 0; i < l; i++ {
				k = append(k, alphabet[rng.Intn(len(alphabet))]...)
			}
			if !seen[string(k)] {
				seen[string(k)] = true
				keys = append(keys, k)
			}
		}
		val := func() []byte {
			switch rng.Intn(12) {
			case 0:
				return []byte{}
			case 1:
				if rng.Chance(1, 4) {
					return nil // refused by the store (error); must have no effect
				}
				return rng.Bytes(1)
			default:
				return rng.Bytes(rng.Range(1, 4))
			}
		}
		base := db.NewMemDB()
		ref := db.NewMemDB()
		for _, k := range keys {
			if rng.Chance(3, 5) {
				v := val()
				base.Set(k, v)
				ref.Set(k, v)
			}
		}
		baseBefore := c13dump(base)
		baseKeys := map[string]bool{}
		for _, e := range baseBefore {
			baseKeys[string(e.k)] = true
		}
		touched := map[string]bool{}
		ov := NewBackedMemDb(base)
		var trace []string
		nontrivial := false
		fail := func(kind, msg string) {
			rep.Violation("store-model:"+kind, msg+" | trace: "+strings.Join(trace, "; ")+" | base: "+c13fmt(baseBefore),
				map[string]interface{}{"seq": s, "shard": verifutil.Shard()})
		}
		bound := func() []byte {
			switch rng.Intn(6) {
			case 0:
				return nil
			case 1:
				// a key not in the universe
				return append(append([]byte{}, keys[rng.Intn(len(keys))]...), 'z')
			default:
				return keys[rng.Intn(len(keys))]
			}
		}
		nOps := rng.Range(10, 50)
		bad := false
		for o := 0; o < nOps && !bad; o++ {
			k := keys[rng.Intn(len(keys))]
			switch op := rng.Pick(4, 3, 5, 3, 3, 6); op {
			case 0: // Get
				trace = append(trace, fmt.Sprintf("Get(%q)", k))
				a, ea := ov.Get(k)
				b, eb := ref.Get(k)
				rep.Count("op_get", 1)
				if errStr(ea) != errStr(eb) || !bytes.Equal(a, b) || (a == nil) != (b == nil) {
					fail("get", fmt.Sprintf("Get(%q): overlay=%q,%v reference=%q,%v", k, a, ea, b, eb))
					bad = true
				}
			case 1: // Has
				trace = append(trace, fmt.Sprintf("Has(%q)", k))
				a, ea := ov.Has(k)
				b, eb := ref.Has(k)
				rep.Count("op_has", 1)
				if errStr(ea) != errStr(eb) || a != b {
					fail("has", fmt.Sprintf("Has(%q): overlay=%v,%v reference=%v,%v", k, a, ea, b, eb))
					bad = true
				}
			case 2: // Set / SetSync
				v := val()
				var ea, eb error
				if rng.Bool() {
					trace = append(trace, fmt.Sprintf("Set(%q,%q)", k, v))
					ea, eb = ov.Set(k, v), ref.Set(k, v)
				} else {
					trace = append(trace, fmt.Sprintf("SetSync(%q,%q)", k, v))
					ea, eb = ov.SetSync(k, v), ref.SetSync(k, v)
				}
				touched[string(k)] = true
				rep.Count("op_set", 1)
				if errStr(ea) != errStr(eb) {
					fail("set", fmt.Sprintf("Set(%q): overlay err=%v reference err=%v", k, ea, eb))
					bad = true
				}
			case 3: // Delete / DeleteSync
				var ea, eb error
				if rng.Bool() {
					trace = append(trace, fmt.Sprintf("Delete(%q)", k))
					ea, eb = ov.Delete(k), ref.Delete(k)
				} else {
					trace = append(trace, fmt.Sprintf("DeleteSync(%q)", k))
					ea, eb = ov.DeleteSync(k), ref.DeleteSync(k)
				}
				touched[string(k)] = true
				rep.Count("op_delete", 1)
				if errStr(ea) != errStr(eb) {
					fail("delete", fmt.Sprintf("Delete(%q): overlay err=%v reference err=%v", k, ea, eb))
					bad = true
				}
			case 4: // batch
				ba, bb := ov.NewBatch(), ref.NewBatch()
				n := rng.Range(0, 5)
				desc := "Batch{"
				var bk [][]byte
				for i := 0; i < n; i++ {
					k2 := keys[rng.Intn(len(keys))]
					bk = append(bk, k2)
					if rng.Chance(2, 3) {
						v := val()
						desc += fmt.Sprintf("Set(%q,%q nil=%v) ", k2, v, v == nil)
						ea, eb := ba.Set(k2, v), bb.Set(k2, v)
						if errStr(ea) != errStr(eb) {
							fail("batch", fmt.Sprintf("batch.Set(%q) errors differ: %v / %v", k2, ea, eb))
							bad = true
						}
					} else {
						desc += fmt.Sprintf("Delete(%q) ", k2)
						ea, eb := ba.Delete(k2), bb.Delete(k2)
						if errStr(ea) != errStr(eb) {
							fail("batch", fmt.Sprintf("batch.Delete(%q) errors differ: %v / %v", k2, ea, eb))
							bad = true
						}
					}
				}
				var ea, eb error
				switch rng.Intn(4) {
				case 0:
					desc += "}.Close(abandoned)"
					ea, eb = ba.Close(), bb.Close()
					rep.Count("op_batch_abandoned", 1)
				case 1:
					desc += "}.WriteSync"
					ea, eb = ba.WriteSync(), bb.WriteSync()
					ba.Close()
					bb.Close()
					for _, x := range bk {
						touched[string(x)] = true
					}
					rep.Count("op_batch_written", 1)
				default:
					desc += "}.Write"
					ea, eb = ba.Write(), bb.Write()
					ba.Close()
					bb.Close()
					for _, x := range bk {
						touched[string(x)] = true
					}
					rep.Count("op_batch_written", 1)
				}
				trace = append(trace, desc)
				if errStr(ea) != errStr(eb) {
					fail("batch", fmt.Sprintf("batch finish errors differ: %v / %v", ea, eb))
					bad = true
				}
			case 5: // iterators
				st, en := bound(), bound()
				rev := rng.Bool()
				limit := -1
				if rng.Chance(1, 5) {
					limit = rng.Intn(3)
				}
				name := "Iterator"
				if rev {
					name = "ReverseIterator"
				}
				trace = append(trace, fmt.Sprintf("%s(%q,%q,limit=%d)", name, st, en, limit))
				var ia, ib db.Iterator
				var ea, eb error
				if rev {
					ia, ea = ov.ReverseIterator(st, en)
					ib, eb = ref.ReverseIterator(st, en)
				} else {
					ia, ea = ov.Iterator(st, en)
					ib, eb = ref.Iterator(st, en)
				}
				rep.Count("op_iter", 1)
				if rev {
					rep.Count("op_iter_reverse", 1)
				}
				if (ea == nil) != (eb == nil) {
					fail("iter-open", fmt.Sprintf("%s(%q,%q): overlay err=%v reference err=%v", name, st, en, ea, eb))
					bad = true
				}
				if ea != nil || eb != nil {
					if ia != nil {
						ia.Close()
					}
					if ib != nil {
						ib.Close()
					}
					break
				}
				var la, lb []c13kv
				for n := 0; ia.Valid() && (limit < 0 || n < limit) && n < 100; n++ {
					la = append(la, c13kv{append([]byte{}, ia.Key()...), append([]byte{}, ia.Value()...)})
					ia.Next()
				}
				for n := 0; ib.Valid() && (limit < 0 || n < limit); n++ {
					lb = append(lb, c13kv{append([]byte{}, ib.Key()...), append([]byte{}, ib.Value()...)})
					ib.Next()
				}
				va, vb := ia.Valid(), ib.Valid()
				ia.Close()
				ib.Close()
				if !c13eq(la, lb) || va != vb {
					fail("iter", fmt.Sprintf("%s(%q,%q) limit=%d: overlay=[%s]valid=%v reference=[%s]valid=%v", name, st, en, limit, c13fmt(la), va, c13fmt(lb), vb))
					bad = true
				}
				// non-trivial: some base key inside the iterated range is shadowed or deleted
				for bk := range baseKeys {
					if touched[bk] && (st == nil || bytes.Compare([]byte(bk), st) >= 0) && (en == nil || bytes.Compare([]byte(bk), en) < 0) {
						nontrivial = true
						rep.Count("iter_over_touched_base_key", 1)
						break
					}
				}
			}
			rep.Eval(1)
		}
		// final: full contents equal; base untouched (isolation)
		if !bad {
			la, lb := c13dump(ov), c13dump(ref)
			if !c13eq(la, lb) {
				fail("final", fmt.Sprintf("final contents differ: overlay=[%s] reference=[%s]", c13fmt(la), c13fmt(lb)))
			}
			if after := c13dump(base); !c13eq(after, baseBefore) {
				fail("isolation", fmt.Sprintf("base changed under the overlay: before=[%s] after=[%s]", c13fmt(baseBefore), c13fmt(after)))
			}
		}
		rep.Count("sequences", 1)
		if nontrivial {
			rep.Distinct(strings.Join(trace, ";"), c13fmt(baseBefore))
		}
		if s < 2 {
			rep.Sample(map[string]interface{}{"base": c13fmt(baseBefore), "ops": trace})
		}
		ov.Close()
		ref.Close()
		base.Close()
	}
}
