package deferredtx

// C18 (deferredtx): the persisted list of deferred transactions round-trips.

import (
	"testing"

	"github.com/idena-network/idena-go/log"
	"github.com/idena-network/idena-go/verifutil"
)

// Reviewed against job.go (broadcast / persist).
var c18Transient = map[string]string{
	"deferredtx.DeferredTx.sendTry": "node-local retry counter of the running job, deliberately restarted from zero after a restart",
	"deferredtx.DeferredTx.removed": "in-memory tombstone: removed entries are filtered out before the list is persisted",
}

func TestVerifC18Codec(t *testing.T) {
	if !verifutil.Enabled() {
		t.Skip("verif harness")
	}
	log.Root().SetHandler(log.DiscardHandler())
	rep := verifutil.NewReport()
	defer rep.Write()
	s := &verifutil.Schema{Transient: c18Transient}
	cr := &verifutil.CodecRun{Rep: rep, S: s, Pkg: "deferredtx", PropNo: 18, Types: []*verifutil.CodecType{{
		Name: "deferredtx.DeferredTxs",
		New:  func() interface{} { return new(DeferredTxs) },
		Enc:  func(x interface{}) ([]byte, error) { return x.(*DeferredTxs).ToBytes(), nil },
		Dec: func(b []byte) (interface{}, error) {
			y := new(DeferredTxs)
			return y, y.FromBytes(b)
		},
	}}}
	cr.Run(verifutil.Scale(600, 20000)/verifutil.NShards(), 0)
}
