package verifutil

// Input mutators of the hostile-input monitor (engine E3): byte-level mutations and
// schema-less protobuf wire-format mutations (drop / duplicate / retag fields, absent
// optionals, huge repeated counts, mismatched lengths, boundary varints). Pure functions of
// the PRNG; nothing here knows idena types.

import (
	"encoding/binary"
)

// ---------------------------------------------------------------- byte level

var interesting = []byte{0x00, 0x01, 0x7f, 0x80, 0xff, 0x0a, 0x12, 0x1a, 0x08, 0x10}

// MutateBytes applies 1..3 byte-level operators. other is a second corpus entry for splices.
// The returned label names the first operator.
func MutateBytes(r *Rng, in []byte, other []byte) ([]byte, string) {
	b := append([]byte(nil), in...)
	label := ""
	n := 1 + r.Pick(70, 20, 10)
	for k := 0; k < n; k++ {
		var l string
		b, l = mutateBytesOnce(r, b, other)
		if label == "" {
			label = l
		}
	}
	return b, label
}

func mutateBytesOnce(r *Rng, b []byte, other []byte) ([]byte, string) {
	if len(b) == 0 {
		return r.Bytes(r.Range(1, 16)), "grow-empty"
	}
	switch r.Pick(20, 14, 10, 10, 10, 8, 8, 6, 6, 4, 4) {
	case 0:
		i := r.Intn(len(b))
		b[i] ^= 1 << uint(r.Intn(8))
		return b, "bitflip"
	case 1:
		b[r.Intn(len(b))] = interesting[r.Intn(len(interesting))]
		return b, "set-interesting"
	case 2:
		b[r.Intn(len(b))] = byte(r.U64())
		return b, "set-random"
	case 3: // truncate
		return b[:r.Intn(len(b))], "truncate"
	case 4: // delete a range
		i := r.Intn(len(b))
		j := i + 1 + r.Intn(minI(len(b)-i, 32))
		return append(b[:i:i], b[j:]...), "delete-range"
	case 5: // insert random bytes
		i := r.Intn(len(b) + 1)
		ins := r.Bytes(r.Range(1, 24))
		return append(append(append([]byte(nil), b[:i]...), ins...), b[i:]...), "insert-random"
	case 6: // duplicate a chunk
		i := r.Intn(len(b))
		j := i + 1 + r.Intn(minI(len(b)-i, 64))
		return append(append(append([]byte(nil), b[:j]...), b[i:j]...), b[j:]...), "dup-chunk"
	case 7: // splice with another entry
		if len(other) == 0 {
			return b, "noop"
		}
		i := r.Intn(len(b))
		j := r.Intn(len(other))
		return append(append([]byte(nil), b[:i]...), other[j:]...), "splice"
	case 8: // overwrite a run with one value
		i := r.Intn(len(b))
		j := i + 1 + r.Intn(minI(len(b)-i, 16))
		v := interesting[r.Intn(len(interesting))]
		for k := i; k < j; k++ {
			b[k] = v
		}
		return b, "fill-run"
	case 9: // append garbage
		return append(b, r.Bytes(r.Range(1, 64))...), "append"
	default: // swap two bytes
		i, j := r.Intn(len(b)), r.Intn(len(b))
		b[i], b[j] = b[j], b[i]
		return b, "swap"
	}
}

func minI(a, b int) int {
	if a < b {
		return a
	}
	return b
}

// ---------------------------------------------------------------- protobuf wire level

// WireField is one field of a protobuf message parsed without a schema.
type WireField struct {
	Num      uint64
	Type     int // 0 varint, 1 fixed64, 2 bytes, 5 fixed32
	Val      uint64
	Bytes    []byte
	Children []*WireField // non-nil when Bytes parsed cleanly as a message itself
	IsMsg    bool
	// serialisation lies
	LenDelta int64 // added to the encoded length prefix (mismatched length)
	RawTag   []byte
}

// ParseWire parses b as a protobuf message. ok=false when b is not a clean sequence of
// fields. Length-delimited fields that themselves parse as messages (and are at least two
// bytes long) get Children, recursively up to depth.
func ParseWire(b []byte, depth int) ([]*WireField, bool) {
	var out []*WireField
	for len(b) > 0 {
		tag, n := binary.Uvarint(b)
		if n <= 0 {
			return nil, false
		}
		b = b[n:]
		f := &WireField{Num: tag >> 3, Type: int(tag & 7)}
		if f.Num == 0 {
			return nil, false
		}
		switch f.Type {
		case 0:
			v, n := binary.Uvarint(b)
			if n <= 0 {
				return nil, false
			}
			f.Val = v
			b = b[n:]
		case 1:
			if len(b) < 8 {
				return nil, false
			}
			f.Val = binary.LittleEndian.Uint64(b)
			b = b[8:]
		case 5:
			if len(b) < 4 {
				return nil, false
			}
			f.Val = uint64(binary.LittleEndian.Uint32(b))
			b = b[4:]
		case 2:
			l, n := binary.Uvarint(b)
			if n <= 0 || l > uint64(len(b)-n) {
				return nil, false
			}
			f.Bytes = append([]byte(nil), b[n:n+int(l)]...)
			b = b[n+int(l):]
			if depth > 0 && len(f.Bytes) >= 2 {
				if ch, ok := ParseWire(f.Bytes, depth-1); ok {
					f.Children, f.IsMsg = ch, true
				}
			}
		default:
			return nil, false
		}
		out = append(out, f)
	}
	return out, true
}

func appendUvarint(b []byte, v uint64) []byte {
	var t [10]byte
	n := binary.PutUvarint(t[:], v)
	return append(b, t[:n]...)
}

// EncodeWire serialises fields (applying the recorded lies).
func EncodeWire(fs []*WireField) []byte {
	var b []byte
	for _, f := range fs {
		if f.RawTag != nil {
			b = append(b, f.RawTag...)
		} else {
			b = appendUvarint(b, f.Num<<3|uint64(f.Type&7))
		}
		switch f.Type {
		case 0:
			b = appendUvarint(b, f.Val)
		case 1:
			var t [8]byte
			binary.LittleEndian.PutUint64(t[:], f.Val)
			b = append(b, t[:]...)
		case 5:
			var t [4]byte
			binary.LittleEndian.PutUint32(t[:], uint32(f.Val))
			b = append(b, t[:]...)
		case 2:
			body := f.Bytes
			if f.IsMsg {
				body = EncodeWire(f.Children)
			}
			l := int64(len(body)) + f.LenDelta
			if l < 0 {
				l = 0
			}
			b = appendUvarint(b, uint64(l))
			b = append(b, body...)
		}
	}
	return b
}

type wireSlot struct {
	parent *[]*WireField
	idx    int
}

func collectSlots(fs *[]*WireField, out *[]wireSlot) {
	for i, f := range *fs {
		*out = append(*out, wireSlot{fs, i})
		if f.IsMsg {
			collectSlots(&f.Children, out)
		}
	}
}

func cloneWire(fs []*WireField) []*WireField {
	out := make([]*WireField, len(fs))
	for i, f := range fs {
		c := *f
		c.Bytes = append([]byte(nil), f.Bytes...)
		if f.IsMsg {
			c.Children = cloneWire(f.Children)
		}
		out[i] = &c
	}
	return out
}

var boundaryVarints = []uint64{0, 1, 2, 0x7f, 0x80, 0xff, 0x100, 0xffff, 0x10000, 1<<31 - 1, 1 << 31, 1<<32 - 1, 1 << 32, 1<<63 - 1, 1 << 63, 1<<64 - 1}

// MutateWire parses msg as protobuf and applies 1..3 field-level operators anywhere in the
// field tree. maxDup bounds the "huge repeated count" operator. ok=false when msg does not
// parse (callers fall back to byte-level mutation).
func MutateWire(r *Rng, msg []byte, maxDup int) (out []byte, label string, ok bool) {
	fs, ok := ParseWire(msg, 6)
	if !ok {
		return nil, "", false
	}
	fs = cloneWire(fs)
	n := 1 + r.Pick(70, 20, 10)
	for k := 0; k < n; k++ {
		l := mutateWireOnce(r, &fs, maxDup)
		if label == "" {
			label = l
		}
	}
	return EncodeWire(fs), label, true
}

// WireMax bounds the encoded size a mutation may produce (operators compound: a repeated
// field inside a repeated field ...). It is deliberately far below the 64 MiB slack of the
// allocation bound: with inputs this small the meter can only fire on gross disproportion,
// never on a handler whose (linear) cost per byte happens to lie near the bound's slope;
// linear amplification on transport-sized messages is probed by directed cases instead.
const WireMax = 512 << 10

func wireSize(fs []*WireField) int {
	n := 0
	for _, f := range fs {
		n += 2
		switch f.Type {
		case 0:
			n += 5
		case 1:
			n += 8
		case 5:
			n += 4
		case 2:
			if f.IsMsg {
				n += 3 + wireSize(f.Children)
			} else {
				n += 3 + len(f.Bytes)
			}
		}
		if n > 16*WireMax {
			return n
		}
	}
	return n
}

func mutateWireOnce(r *Rng, root *[]*WireField, maxDup int) string {
	var slots []wireSlot
	cur := wireSize(*root)
	if cur > WireMax/2 {
		// already big: only shrink
		if len(*root) > 1 {
			*root = (*root)[:1+r.Intn(len(*root)-1)]
		}
		return "shrink"
	}
	collectSlots(root, &slots)
	if len(slots) > 200000 {
		return "noop"
	}
	if len(slots) == 0 {
		*root = append(*root, &WireField{Num: uint64(r.Range(1, 8)), Type: 0, Val: r.U64()})
		return "add-to-empty"
	}
	s := slots[r.Intn(len(slots))]
	f := (*s.parent)[s.idx]
	switch r.Pick(14, 10, 6, 10, 6, 10, 8, 8, 6, 6, 6, 4, 6) {
	case 0: // drop (absent optional / absent nested message)
		*s.parent = append((*s.parent)[:s.idx:s.idx], (*s.parent)[s.idx+1:]...)
		return "drop"
	case 1: // duplicate once (last-one-wins scalars, merged messages, +1 repeated)
		if wireSize([]*WireField{f}) > WireMax/4 {
			return "noop"
		}
		c := cloneWire([]*WireField{f})[0]
		*s.parent = append(append(append([]*WireField(nil), (*s.parent)[:s.idx+1]...), c), (*s.parent)[s.idx+1:]...)
		return "dup"
	case 2: // huge repeated count
		k := r.Range(2, maxDup)
		if sz := wireSize([]*WireField{f}); sz*k > WireMax-cur {
			k = (WireMax-cur)/sz + 1
		}
		ins := make([]*WireField, k)
		for i := range ins {
			ins[i] = f // shared: read-only from here on
		}
		*s.parent = append(append(append([]*WireField(nil), (*s.parent)[:s.idx+1]...), ins...), (*s.parent)[s.idx+1:]...)
		return "dup-many"
	case 3: // retag: another field number, same wire type
		f.Num = uint64(r.Range(1, 24))
		return "retag-num"
	case 4: // retag: another wire type with a fitting body
		switch r.Intn(4) {
		case 0:
			f.Type, f.Val, f.IsMsg, f.Children = 0, boundaryVarints[r.Intn(len(boundaryVarints))], false, nil
		case 1:
			f.Type, f.Bytes, f.IsMsg, f.Children = 2, r.Bytes(r.Intn(40)), false, nil
		case 2:
			f.Type, f.Val, f.IsMsg, f.Children = 1, r.U64(), false, nil
		default:
			f.Type, f.Val, f.IsMsg, f.Children = 5, r.U64(), false, nil
		}
		return "retag-type"
	case 5: // boundary / random scalar
		if f.Type == 2 {
			f.IsMsg, f.Children = false, nil
			switch r.Intn(5) {
			case 0:
				f.Bytes = nil
			case 1:
				if len(f.Bytes) > 0 {
					f.Bytes = f.Bytes[:r.Intn(len(f.Bytes))]
				}
			case 2:
				f.Bytes = append(f.Bytes, r.Bytes(r.Range(1, 40))...)
			case 3:
				f.Bytes = r.Bytes(len(f.Bytes))
			default:
				f.Bytes = r.Bytes(r.Intn(80))
			}
			return "bytes-shape"
		}
		if r.Bool() {
			f.Val = boundaryVarints[r.Intn(len(boundaryVarints))]
		} else {
			f.Val = r.U64() >> uint(r.Intn(64))
		}
		return "scalar-boundary"
	case 6: // mismatched length prefix
		if f.Type != 2 {
			f.Val++
			return "scalar-inc"
		}
		d := []int64{-1, 1, -2, 2, 16, 255, 1 << 20, 1 << 31, -int64(len(f.Bytes))}
		f.LenDelta = d[r.Intn(len(d))]
		return "len-mismatch"
	case 7: // flip bits inside a bytes body without re-parsing it
		if f.Type == 2 && len(f.Bytes) > 0 {
			if f.IsMsg {
				f.Bytes = EncodeWire(f.Children)
				f.IsMsg, f.Children = false, nil
			}
			if len(f.Bytes) > 0 {
				f.Bytes[r.Intn(len(f.Bytes))] ^= 1 << uint(r.Intn(8))
			}
			return "bytes-bitflip"
		}
		f.Val ^= 1 << uint(r.Intn(64))
		return "scalar-bitflip"
	case 8: // swap with a sibling
		if len(*s.parent) > 1 {
			j := r.Intn(len(*s.parent))
			(*s.parent)[s.idx], (*s.parent)[j] = (*s.parent)[j], (*s.parent)[s.idx]
		}
		return "swap-siblings"
	case 9: // insert an unknown / unexpected field
		nf := &WireField{Num: uint64(r.Range(1, 40)), Type: []int{0, 2, 1, 5}[r.Intn(4)], Val: r.U64(), Bytes: r.Bytes(r.Intn(24))}
		*s.parent = append(append(append([]*WireField(nil), (*s.parent)[:s.idx]...), nf), (*s.parent)[s.idx:]...)
		return "insert-unknown"
	case 10: // empty nested message in place of a populated one / zero-length bytes
		if f.Type == 2 {
			f.Bytes, f.IsMsg, f.Children = nil, false, nil
			return "empty-nested"
		}
		f.Val = 0
		return "zero-scalar"
	case 11: // over-long (non-canonical) tag encoding
		if t := f.Num<<3 | uint64(f.Type&7); t < 0x80 {
			f.RawTag = []byte{byte(t) | 0x80, 0x80, 0x80, 0x00}
		}
		return "overlong-tag"
	default: // nest the message into one of its own bytes fields (type confusion / depth)
		if f.Type == 2 && cur < WireMax/4 {
			f.Bytes = EncodeWire(*root)
			f.IsMsg, f.Children = false, nil
			return "self-nest"
		}
		f.Val = boundaryVarints[r.Intn(len(boundaryVarints))]
		return "scalar-boundary"
	}
}
