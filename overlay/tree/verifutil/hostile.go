package verifutil

// Helpers of the hostile-input monitor (engine E3, property C12): a guarded call (panic
// capture + watchdog + allocation meter), goroutine-state inspection (exact quiescence of
// the node's asynchronous intake goroutines, proof of a goroutine parked for ever on a
// channel) and a repo-frame extractor that also understands VERIF_REPO_DIR.

import (
	"fmt"
	"os"
	"regexp"
	"runtime"
	"runtime/metrics"
	"strings"
	"sync"
	"syscall"
	"time"
)

// RepoFrame is TopRepoFrame made robust against a repository that does not live in /repo
// (VERIF_REPO=/tmp/worktree): paths below $VERIF_REPO_DIR count as repository frames too.
// Frames of harness files (zz_verif*, verifsim, verifutil) and of the in-memory ipfs stub
// are skipped.
func RepoFrame(stack string) string {
	pref := os.Getenv("VERIF_REPO_DIR")
	if pref != "" && !strings.HasSuffix(pref, "/") {
		pref += "/"
	}
	lines := strings.Split(stack, "\n")
	skipping := true
	for i := 0; i+1 < len(lines); i++ {
		fn := lines[i]
		if !strings.HasPrefix(lines[i+1], "\t") {
			continue
		}
		loc := strings.TrimSpace(lines[i+1])
		if skipping {
			if strings.HasPrefix(fn, "panic(") || strings.HasPrefix(fn, "runtime.") || strings.HasPrefix(fn, "runtime/debug.") ||
				strings.Contains(fn, "verifutil.") {
				continue
			}
			skipping = false
		}
		if strings.Contains(loc, "/verifutil/") || strings.Contains(loc, "/verifsim/") || strings.Contains(loc, "zz_verif") ||
			strings.Contains(loc, "/overlay/ipfs/") || strings.Contains(loc, "ipfs_stub") {
			continue
		}
		if strings.HasPrefix(fn, "runtime.") || strings.HasPrefix(fn, "panic(") || strings.HasPrefix(fn, "created by ") {
			continue
		}
		if k := strings.LastIndex(fn, "("); k > 0 {
			fn = fn[:k]
		}
		inRepo := strings.HasPrefix(loc, "/repo/") || pref != "" && strings.HasPrefix(loc, pref)
		if !inRepo && strings.HasPrefix(fn, "github.com/idena-network/idena-go/") && !strings.Contains(loc, "/pkg/mod/") {
			inRepo = true
		}
		if inRepo {
			return fn
		}
	}
	return "?"
}

// FirstFrames returns the first n "function\n\tfile:line" pairs of a stack after the panic
// machinery (for human-readable violation descriptions).
func FirstFrames(stack string, n int) string {
	lines := strings.Split(stack, "\n")
	var out []string
	skipping := true
	for i := 0; i+1 < len(lines) && len(out) < 2*n; i++ {
		fn := lines[i]
		if !strings.HasPrefix(lines[i+1], "\t") {
			continue
		}
		if skipping {
			if strings.HasPrefix(fn, "panic(") || strings.HasPrefix(fn, "runtime.") || strings.HasPrefix(fn, "runtime/debug.") ||
				strings.Contains(fn, "verifutil.") {
				continue
			}
			skipping = false
		}
		out = append(out, fn, lines[i+1])
	}
	return strings.Join(out, "\n")
}

// ---------------------------------------------------------------- goroutine states

var stackBuf = make([]byte, 4<<20)

// AllStacks dumps every goroutine.
func AllStacks() string {
	for {
		n := runtime.Stack(stackBuf, true)
		if n < len(stackBuf) {
			return string(stackBuf[:n])
		}
		stackBuf = make([]byte, 2*len(stackBuf))
	}
}

var goroutineHdr = regexp.MustCompile(`^goroutine \d+ \[([^\],]+)`)

// GoroutineStates returns the wait states of all goroutines whose stack mentions fn
// (e.g. "mempool.(*AsyncTxPool).loop" -> ["chan receive"]).
func GoroutineStates(dump string, fn string) []string {
	var out []string
	for _, g := range strings.Split(dump, "\n\n") {
		if !strings.Contains(g, fn) {
			continue
		}
		if m := goroutineHdr.FindStringSubmatch(g); m != nil {
			out = append(out, m[1])
		}
	}
	return out
}

// Goroutine returns the dump of the first goroutine whose stack mentions all of the needles.
func Goroutine(dump string, needles ...string) string {
next:
	for _, g := range strings.Split(dump, "\n\n") {
		for _, n := range needles {
			if !strings.Contains(g, n) {
				continue next
			}
		}
		return g
	}
	return ""
}

// WaitParked waits until every goroutine running one of the functions fns is parked on a
// channel receive / select (a consumer loop blocked on its blocking receive has processed
// everything it took out of its queue). Returns false on timeout.
func WaitParked(timeout time.Duration, fns ...string) bool {
	deadline := time.Now().Add(timeout)
	for spin := 0; ; spin++ {
		d := AllStacks()
		ok := true
		for _, fn := range fns {
			for _, st := range GoroutineStates(d, fn) {
				if st != "chan receive" && st != "select" {
					ok = false
				}
			}
		}
		if ok {
			return true
		}
		if time.Now().After(deadline) {
			return false
		}
		if spin < 20 {
			runtime.Gosched()
		} else {
			time.Sleep(200 * time.Microsecond)
		}
	}
}

// ---------------------------------------------------------------- guarded call

type CallResult struct {
	Panic    interface{}
	Stack    string
	Alloc    uint64 // bytes allocated by the process during the call (TotalAlloc delta)
	TimedOut bool   // first watchdog (soft) expired
	Hung     bool   // the call is blocked for good or spins (see Guard)
	Starved  bool   // the call did not return, but neither blocked nor got CPU: no verdict
	Dump     string // goroutine dump taken when the call was given up
	Why      string // how the hang was decided
}

func cpuSeconds() float64 {
	var ru syscall.Rusage
	if syscall.Getrusage(syscall.RUSAGE_SELF, &ru) != nil {
		return 0
	}
	return float64(ru.Utime.Sec+ru.Stime.Sec) + float64(ru.Utime.Usec+ru.Stime.Usec)/1e6
}

func ownGoroutineHeader() string {
	var b [64]byte
	n := runtime.Stack(b[:], false)
	h := string(b[:n])
	if i := strings.Index(h, " ["); i > 0 {
		return h[:i+1] // "goroutine 123 "
	}
	return ""
}

// goroutineOf returns state and dump of the goroutine whose header starts with hdr.
func goroutineOf(dump, hdr string) (state, g string) {
	for _, x := range strings.Split(dump, "\n\n") {
		if strings.HasPrefix(x, hdr) {
			if m := goroutineHdr.FindStringSubmatch(x); m != nil {
				return m[1], x
			}
		}
	}
	return "", ""
}

func frames(g string) string {
	var out []string
	for _, l := range strings.Split(g, "\n") {
		if !strings.HasPrefix(l, "\t") && !strings.HasPrefix(l, "goroutine ") {
			if k := strings.LastIndex(l, "("); k > 0 {
				l = l[:k]
			}
			out = append(out, l)
		}
	}
	return strings.Join(out, "|")
}

// Guard runs f in its own goroutine with panic capture, an allocation meter and a watchdog.
// Soft expiry only marks the call as slow and keeps waiting (nothing else is started in this
// process meanwhile, so the continued wait IS the solitary re-run). After soft+hard the
// call's goroutine is examined: parked (channel, select, lock, sleep ...) with an unchanged
// stack over a further interval => Hung; runnable/running while the process burnt CPU for
// most of the hard window => Hung (it spins); runnable but the process got no CPU (an
// overloaded machine) => Starved: no verdict, the caller reports inconclusive. In the last
// two cases the goroutine is abandoned.
func Guard(soft, hard time.Duration, meter bool, f func()) CallResult {
	var res CallResult
	var a0 uint64
	if meter {
		a0 = TotalAlloc()
	}
	done := make(chan struct{})
	var hdr string
	started := make(chan struct{})
	go func() {
		defer close(done)
		hdr = ownGoroutineHeader()
		close(started)
		res.Panic, res.Stack = Catch(f)
	}()
	t := time.NewTimer(soft)
	select {
	case <-done:
		t.Stop()
	case <-t.C:
		res.TimedOut = true
		for window := 0; ; window++ {
			cpu0 := cpuSeconds()
			t2 := time.NewTimer(hard)
			select {
			case <-done:
				t2.Stop()
				if meter {
					res.Alloc = TotalAlloc() - a0
				}
				return res
			case <-t2.C:
			}
			burnt := cpuSeconds() - cpu0
			<-started
			d1 := AllStacks()
			st1, g1 := goroutineOf(d1, hdr)
			out := CallResult{TimedOut: true, Dump: d1}
			if st1 == "runnable" || st1 == "running" || st1 == "" {
				if burnt > 0.5*hard.Seconds() {
					out.Hung, out.Why = true, fmt.Sprintf("still executing after %v+%v; the process used %.0f s of CPU in the last %v (it spins)", soft, hard, burnt, hard)
					return out
				}
				if window < 2 {
					continue // starved so far: give it more wall time
				}
				out.Starved, out.Why = true, fmt.Sprintf("not returned after %v+3x%v, but the process got only %.0f s of CPU in the last window (overloaded machine)", soft, hard, burnt)
				return out
			}
			// parked: is it still parked at the same place a little later?
			select {
			case <-done:
				if meter {
					res.Alloc = TotalAlloc() - a0
				}
				return res
			case <-time.After(10 * time.Second):
			}
			d2 := AllStacks()
			st2, g2 := goroutineOf(d2, hdr)
			if st2 == st1 && frames(g1) == frames(g2) {
				out.Hung, out.Dump = true, d2
				out.Why = fmt.Sprintf("parked in state [%s] with an unchanged stack %v after the call began", st1, soft+hard)
				return out
			}
			if window >= 2 {
				out.Starved, out.Why = true, "not returned, goroutine state keeps changing"
				return out
			}
		}
	}
	if meter {
		res.Alloc = TotalAlloc() - a0
	}
	return res
}

var allocSample = []metrics.Sample{{Name: "/gc/heap/allocs:bytes"}}
var allocMu sync.Mutex

// TotalAlloc is runtime.MemStats.TotalAlloc (cumulative bytes allocated for heap objects) read
// through runtime/metrics, i.e. without stopping the world (ReadMemStats costs ~0.5 ms in a
// process with a populated heap, and the meter runs twice per call). Small-object counts
// lag by at most one span per size class and P, which is irrelevant at a 64 MiB bound.
func TotalAlloc() uint64 {
	allocMu.Lock()
	defer allocMu.Unlock()
	metrics.Read(allocSample)
	if allocSample[0].Value.Kind() == metrics.KindUint64 {
		return allocSample[0].Value.Uint64()
	}
	var m runtime.MemStats
	runtime.ReadMemStats(&m)
	return m.TotalAlloc
}

// AllocBound is the property's proportionality bound: 64 MiB + 64 bytes per input byte.
func AllocBound(inputLen int) uint64 { return 64<<20 + 64*uint64(inputLen) }
