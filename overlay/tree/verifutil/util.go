// Package verifutil is injected by /verif at build time (Go -overlay). Shared plumbing of
// the runtime monitors: deterministic PRNG streams, the result/evidence recorder and
// panic capture. It imports nothing from idena-go, so every package can use it.
package verifutil

import (
	"encoding/hex"
	"encoding/json"
	"fmt"
	"hash/fnv"
	"os"
	"path/filepath"
	"runtime/debug"
	"sort"
	"strconv"
	"strings"
	"sync"
)

func envInt(name string, def int) int {
	if v, err := strconv.Atoi(os.Getenv(name)); err == nil {
		return v
	}
	return def
}

func Seed() uint64   { return uint64(envInt("VERIF_SEED", 1)) }
func Shard() int     { return envInt("VERIF_SHARD", 0) }
func NShards() int   { n := envInt("VERIF_NSHARDS", 1); if n < 1 { n = 1 }; return n }
func Thorough() bool { return os.Getenv("VERIF_TIER") == "thorough" }
func Enabled() bool  { return os.Getenv("VERIF_OUT") != "" }

// Scale picks the case count for the tier.
func Scale(quick, thorough int) int {
	if Thorough() {
		return thorough
	}
	return quick
}

// ---------------------------------------------------------------- PRNG (splitmix64)

type Rng struct{ s uint64 }

func NewRng(parts ...uint64) *Rng {
	r := &Rng{s: 0x9e3779b97f4a7c15}
	for _, p := range parts {
		r.s ^= p + 0x9e3779b97f4a7c15 + (r.s << 6) + (r.s >> 2)
		r.U64()
	}
	return r
}

// Stream returns the PRNG for (seed, shard, extra...) of this child process.
func Stream(parts ...uint64) *Rng {
	return NewRng(append([]uint64{Seed(), uint64(Shard())}, parts...)...)
}

func (r *Rng) U64() uint64 {
	r.s += 0x9e3779b97f4a7c15
	z := r.s
	z = (z ^ (z >> 30)) * 0xbf58476d1ce4e5b9
	z = (z ^ (z >> 27)) * 0x94d049bb133111eb
	return z ^ (z >> 31)
}
func (r *Rng) Intn(n int) int {
	if n <= 0 {
		return 0
	}
	return int(r.U64() % uint64(n))
}
func (r *Rng) Range(lo, hi int) int { return lo + r.Intn(hi-lo+1) } // inclusive
func (r *Rng) Bool() bool           { return r.U64()&1 == 1 }
func (r *Rng) Chance(num, den int) bool { return r.Intn(den) < num }
func (r *Rng) Float() float64       { return float64(r.U64()>>11) / float64(1<<53) }
func (r *Rng) Bytes(n int) []byte {
	b := make([]byte, n)
	for i := 0; i < n; i += 8 {
		v := r.U64()
		for j := 0; j < 8 && i+j < n; j++ {
			b[i+j] = byte(v >> (8 * uint(j)))
		}
	}
	return b
}
func (r *Rng) Read(p []byte) (int, error) { copy(p, r.Bytes(len(p))); return len(p), nil }
func (r *Rng) Perm(n int) []int {
	p := make([]int, n)
	for i := range p {
		p[i] = i
	}
	for i := n - 1; i > 0; i-- {
		j := r.Intn(i + 1)
		p[i], p[j] = p[j], p[i]
	}
	return p
}
func (r *Rng) Fork(tag uint64) *Rng { return NewRng(r.U64(), tag) }

// Pick returns an index according to integer weights.
func (r *Rng) Pick(weights ...int) int {
	t := 0
	for _, w := range weights {
		t += w
	}
	x := r.Intn(t)
	for i, w := range weights {
		if x < w {
			return i
		}
		x -= w
	}
	return len(weights) - 1
}

// ---------------------------------------------------------------- recorder

type Violation struct {
	Sig    string      `json:"sig"`
	Desc   string      `json:"desc"`
	Replay interface{} `json:"replay,omitempty"`
}

type Report struct {
	mu           sync.Mutex
	Evaluations  int64                  `json:"evaluations"`
	Counters     map[string]int64       `json:"counters"`
	Info         map[string]interface{} `json:"info"`
	Samples      []interface{}          `json:"samples"`
	Violations   []Violation            `json:"violations"`
	Notes        []string               `json:"notes"`
	Inconclusive []string               `json:"inconclusive"`
	Complete     bool                   `json:"complete"`
	distinct     map[uint64]struct{}
	sigCount     map[string]int
	maxSamples   int
	progress     *os.File
}

func NewReport() *Report {
	r := &Report{Counters: map[string]int64{}, Info: map[string]interface{}{}, distinct: map[uint64]struct{}{},
		sigCount: map[string]int{}, maxSamples: 6}
	if out := os.Getenv("VERIF_OUT"); out != "" {
		f, err := os.OpenFile(filepath.Join(out, "progress-"+os.Getenv("VERIF_JOB")+".log"), os.O_CREATE|os.O_WRONLY|os.O_TRUNC, 0644)
		if err == nil {
			r.progress = f
		}
	}
	return r
}

func (r *Report) Eval(n int) { r.mu.Lock(); r.Evaluations += int64(n); r.mu.Unlock() }
func (r *Report) Count(name string, n int) {
	r.mu.Lock()
	r.Counters[name] += int64(n)
	r.mu.Unlock()
}
func (r *Report) Max(name string, v int) {
	r.mu.Lock()
	if int64(v) > r.Counters[name] {
		r.Counters[name] = int64(v)
	}
	r.mu.Unlock()
}
func (r *Report) Get(name string) int64 { r.mu.Lock(); defer r.mu.Unlock(); return r.Counters[name] }
func (r *Report) SetInfo(k string, v interface{}) { r.mu.Lock(); r.Info[k] = v; r.mu.Unlock() }

// Distinct records one distinct non-trivial case (identified by its observable content).
func (r *Report) Distinct(parts ...interface{}) {
	h := fnv.New64a()
	fmt.Fprint(h, parts...)
	r.mu.Lock()
	r.distinct[h.Sum64()] = struct{}{}
	r.mu.Unlock()
}
func (r *Report) DistinctCount() int { r.mu.Lock(); defer r.mu.Unlock(); return len(r.distinct) }

func (r *Report) Sample(v interface{}) {
	r.mu.Lock()
	if len(r.Samples) < r.maxSamples {
		r.Samples = append(r.Samples, v)
	}
	r.mu.Unlock()
}
func (r *Report) Note(format string, a ...interface{}) {
	r.mu.Lock()
	if len(r.Notes) < 40 {
		r.Notes = append(r.Notes, fmt.Sprintf(format, a...))
	}
	r.mu.Unlock()
}
func (r *Report) Inconcl(format string, a ...interface{}) {
	r.mu.Lock()
	if len(r.Inconclusive) < 40 {
		r.Inconclusive = append(r.Inconclusive, fmt.Sprintf(format, a...))
	}
	r.mu.Unlock()
}

// Violation records a property violation. Only the first few per signature keep details.
func (r *Report) Violation(sig, desc string, replay interface{}) {
	r.mu.Lock()
	defer r.mu.Unlock()
	r.sigCount[sig]++
	if r.sigCount[sig] > 3 || len(r.Violations) > 200 {
		return
	}
	r.Violations = append(r.Violations, Violation{Sig: sig, Desc: desc, Replay: replay})
	fmt.Fprintf(os.Stderr, "VERIF-VIOLATION sig=%s %s\n", sig, desc)
}
func (r *Report) NViolations() int { r.mu.Lock(); defer r.mu.Unlock(); return len(r.Violations) }

// Progress logs the case descriptor before it is executed so that a process-fatal event
// (runtime fatal error, sanitizer report) is attributable.
func (r *Report) Progress(format string, a ...interface{}) {
	if r.progress != nil {
		fmt.Fprintf(r.progress, format+"\n", a...)
	}
}

// Write stores the result file the driver aggregates. Must be the last call.
func (r *Report) Write() {
	// when deferred and the test is panicking: store what was gathered as an INCOMPLETE
	// result (the driver then classifies the crash from the log) and keep panicking
	if p := recover(); p != nil {
		r.write(false)
		panic(p)
	}
	r.write(true)
}

func (r *Report) write(complete bool) {
	r.mu.Lock()
	defer r.mu.Unlock()
	out := os.Getenv("VERIF_OUT")
	if out == "" {
		b, _ := json.MarshalIndent(r, "", " ")
		fmt.Println(string(b))
		return
	}
	job := os.Getenv("VERIF_JOB")
	r.Complete = complete
	b, err := json.Marshal(r)
	if err != nil {
		// samples or replays that cannot be marshalled must not lose the verdict
		r.Samples = []interface{}{fmt.Sprintf("unmarshalable samples: %v", err)}
		for i := range r.Violations {
			r.Violations[i].Replay = fmt.Sprintf("%+v", r.Violations[i].Replay)
		}
		b, _ = json.Marshal(r)
	}
	keys := make([]string, 0, len(r.distinct))
	for k := range r.distinct {
		keys = append(keys, strconv.FormatUint(k, 16))
	}
	sort.Strings(keys)
	os.WriteFile(filepath.Join(out, "distinct-"+job+".txt"), []byte(strings.Join(keys, "\n")+"\n"), 0644)
	tmp := filepath.Join(out, "result-"+job+".json.tmp")
	os.WriteFile(tmp, b, 0644)
	os.Rename(tmp, filepath.Join(out, "result-"+job+".json"))
	if r.progress != nil {
		r.progress.Close()
	}
}

// ---------------------------------------------------------------- helpers

// Catch runs f and returns the panic value and the stack, if any.
func Catch(f func()) (p interface{}, stack string) {
	defer func() {
		if e := recover(); e != nil {
			p = e
			stack = string(debug.Stack())
		}
	}()
	f()
	return nil, ""
}

// TopRepoFrame extracts the first stack frame that lies in idena-go itself (not in a verif
// harness file and not in the Go runtime) from a debug.Stack() dump.
func TopRepoFrame(stack string) string {
	repoDir := os.Getenv("VERIF_REPO_DIR")
	lines := strings.Split(stack, "\n")
	skipping := true
	for i := 0; i+1 < len(lines); i++ {
		fn := lines[i]
		loc := strings.TrimSpace(lines[i+1])
		if !strings.HasPrefix(lines[i+1], "\t") {
			continue
		}
		if skipping {
			// skip frames up to and including the runtime panic machinery
			if strings.HasPrefix(fn, "panic(") || strings.HasPrefix(fn, "runtime.") || strings.HasPrefix(fn, "runtime/debug.") ||
				strings.Contains(fn, "verifutil.Catch") {
				continue
			}
			skipping = false
		}
		if strings.Contains(loc, "/verifutil/") || strings.Contains(loc, "/verifsim/") || strings.Contains(loc, "zz_verif") {
			continue
		}
		if strings.HasPrefix(fn, "runtime.") || strings.HasPrefix(fn, "panic(") {
			continue
		}
		if j := strings.Index(fn, "("); j > 0 {
			// strip arguments, keep receiver+name
			k := strings.LastIndex(fn, "(")
			fn = fn[:k]
		}
		if strings.Contains(loc, "idena-go") || strings.HasPrefix(loc, "/repo/") || repoDir != "" && strings.HasPrefix(loc, repoDir+"/") {
			return fn
		}
	}
	return "?"
}

func Hex(b []byte) string { return hex.EncodeToString(b) }

func Trunc(s string, n int) string {
	if len(s) > n {
		return s[:n] + "…"
	}
	return s
}
