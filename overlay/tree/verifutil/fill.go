package verifutil

// Reflection helpers shared by the codec monitors (C18): a value filler, a deep cloner, a
// flattener that renders a value as a list of normalised leaves, and a single-leaf mutator.
// Nothing here knows about idena-go: every package passes its own Schema (transient-field
// table, bounded integer fields, fixed-key maps).
//
// Normalisations built into the flattener (each is a deliberate property of the encodings
// under test, see DESIGN.md §C18):
//   - nil slice ≡ empty slice, nil map ≡ empty map          (protobuf has no "present but empty")
//   - nil *big.Int ≡ zero big.Int                            (BigIntBytesOrNil / SetBytes)
//   - time.Time compared as Unix seconds                     (wire width of every timestamp)
//   - error compared by message, nil ≡ ""                    (errors travel as strings)
// Pointer presence (nil vs non-nil) IS significant for every other pointer type.

import (
	"encoding/hex"
	"errors"
	"fmt"
	"math/big"
	"reflect"
	"sort"
	"strconv"
	"strings"
	"time"
	"unsafe"
)

type FillMode int

const (
	FillZero   FillMode = iota // the zero value
	FillFull                   // every field populated with a distinguishing non-zero value
	FillMax                    // maximal integers, long strings
	FillRand                   // mixture incl. nil/empty/edge values
	FillSparse                 // root struct: each field populated (Full) with probability 1/2
)

func (m FillMode) String() string {
	return [...]string{"zero", "full", "max", "rand", "sparse"}[m]
}

// Schema describes what the reflection helpers may touch.
type Schema struct {
	// Transient: "pkg.Type.Field" -> one-line justification. Never filled, cloned, compared or mutated.
	Transient map[string]string
	// IntMax: "pkg.Type.Field" -> inclusive upper bound of generated / mutated values (domain constraint).
	IntMax map[string]uint64
	// FixedKeys: "pkg.Type.Field" of map fields whose key set is not mutated (no add/remove/re-key).
	FixedKeys map[string]string

	problems map[string]struct{}
}

func (s *Schema) problem(format string, a ...interface{}) {
	if s.problems == nil {
		s.problems = map[string]struct{}{}
	}
	s.problems[fmt.Sprintf(format, a...)] = struct{}{}
}

// Problems lists fields the helpers could not classify (neither a supported kind nor transient).
func (s *Schema) Problems() []string {
	var out []string
	for k := range s.problems {
		out = append(out, k)
	}
	sort.Strings(out)
	return out
}

var (
	bigIntT = reflect.TypeOf(big.Int{})
	timeT   = reflect.TypeOf(time.Time{})
	errorT  = reflect.TypeOf((*error)(nil)).Elem()
)

// access makes an (addressable) unexported struct field settable.
func access(f reflect.Value) reflect.Value {
	if f.CanSet() {
		return f
	}
	if !f.CanAddr() {
		return f
	}
	return reflect.NewAt(f.Type(), unsafe.Pointer(f.UnsafeAddr())).Elem()
}

func isByteArray(t reflect.Type) bool {
	return t.Kind() == reflect.Array && t.Elem().Kind() == reflect.Uint8
}
func isByteSlice(t reflect.Type) bool {
	return t.Kind() == reflect.Slice && t.Elem().Kind() == reflect.Uint8
}

func arrayBytes(v reflect.Value) []byte {
	b := make([]byte, v.Len())
	reflect.Copy(reflect.ValueOf(b), v)
	return b
}

func allZeroBytes(b []byte) bool {
	for _, x := range b {
		if x != 0 {
			return false
		}
	}
	return true
}

func fieldKey(t reflect.Type, f reflect.StructField) string { return t.String() + "." + f.Name }

// ---------------------------------------------------------------- flatten / mutate

type Leaf struct {
	Path  string // e.g. Header.ProposedHeader.FeePerGas, Signatures[1].Upgrade, Dict{0a…}
	Class string // Path with indices and keys stripped: Signatures[].Upgrade
	Val   string // normalised rendering
	Zero  bool   // rendering of the zero value
	NMut  int    // number of mutation variants (0 = not mutable)
	mut   func(variant int, r *Rng)
}

// Mutate applies mutation variant k (0 ≤ k < NMut) to the value the leaf was taken from.
func (l *Leaf) Mutate(k int, r *Rng) { l.mut(k, r) }

type walker struct {
	s       *Schema
	withMut bool
	out     []Leaf
	elem    bool // the next walk() visits a direct element of a slice / array / map
}

// Flatten renders *root (root must be a non-nil pointer) as an ordered list of leaves.
func (s *Schema) Flatten(root interface{}) []Leaf {
	w := &walker{s: s}
	w.walk(reflect.ValueOf(root).Elem(), "", "", "", nil)
	return w.out
}

// Leaves is Flatten plus mutation closures operating in place on *root.
func (s *Schema) Leaves(root interface{}) []Leaf {
	w := &walker{s: s, withMut: true}
	w.walk(reflect.ValueOf(root).Elem(), "", "", "", nil)
	return w.out
}

func join(path, name string) string {
	if path == "" {
		return name
	}
	return path + "." + name
}

func (w *walker) walk(v reflect.Value, path, class, fkey string, commit func()) {
	elem := w.elem
	w.elem = false
	t := v.Type()
	emit := func(suffix, val string, zero bool, nmut int, mut func(int, *Rng)) {
		l := Leaf{Path: path + suffix, Class: class + suffix, Val: val, Zero: zero}
		if w.withMut && mut != nil && nmut > 0 {
			l.NMut = nmut
			l.mut = func(k int, r *Rng) {
				mut(k, r)
				if commit != nil {
					commit()
				}
			}
		}
		w.out = append(w.out, l)
	}
	bound, bounded := w.s.IntMax[fkey]

	if t == timeT {
		tm := v.Interface().(time.Time)
		emit("", strconv.FormatInt(tm.Unix(), 10), tm.Unix() == time.Time{}.Unix(), 1, func(int, *Rng) {
			v.Set(reflect.ValueOf(tm.Add(time.Second)))
		})
		return
	}
	if t == bigIntT {
		b := v.Addr().Interface().(*big.Int)
		emit("", b.String(), b.Sign() == 0, 2, func(k int, _ *Rng) { mutBig(b, k) })
		return
	}

	switch t.Kind() {
	case reflect.Bool:
		emit("", strconv.FormatBool(v.Bool()), !v.Bool(), 1, func(int, *Rng) { v.SetBool(!v.Bool()) })
	case reflect.Int, reflect.Int8, reflect.Int16, reflect.Int32, reflect.Int64:
		n := 2
		if bounded {
			n = 1
		}
		emit("", strconv.FormatInt(v.Int(), 10), v.Int() == 0, n, func(k int, _ *Rng) {
			x := v.Int()
			switch {
			case bounded && uint64(x) < bound:
				x++
			case bounded:
				x--
			case k == 0:
				x ^= 1
			default:
				x ^= int64(1) << uint(t.Bits()-1)
				if t.Bits() < 64 { // keep within the field's own width (sign-extend)
					sh := uint(64 - t.Bits())
					x = x << sh >> sh
				}
			}
			v.SetInt(x)
		})
	case reflect.Uint, reflect.Uint8, reflect.Uint16, reflect.Uint32, reflect.Uint64:
		n := 2
		if bounded {
			n = 1
		}
		emit("", strconv.FormatUint(v.Uint(), 10), v.Uint() == 0, n, func(k int, _ *Rng) {
			x := v.Uint()
			switch {
			case bounded && x < bound:
				x++
			case bounded:
				x--
			case k == 0:
				x ^= 1
			default:
				x ^= uint64(1) << uint(t.Bits()-1)
			}
			v.SetUint(x)
		})
	case reflect.String:
		emit("", strconv.Quote(v.String()), v.Len() == 0, 1, func(int, *Rng) { v.SetString(v.String() + "~") })
	case reflect.Array:
		if isByteArray(t) {
			b := arrayBytes(v)
			emit("", hex.EncodeToString(b), allZeroBytes(b), 2, func(k int, _ *Rng) {
				if len(b) == 0 {
					return
				}
				if k == 0 {
					b[len(b)-1] ^= 1
				} else {
					b[0] ^= 0x80
				}
				reflect.Copy(v, reflect.ValueOf(b))
			})
			return
		}
		for i := 0; i < v.Len(); i++ {
			w.elem = true
			w.walk(v.Index(i), path+"["+strconv.Itoa(i)+"]", class+"[]", fkey, commit)
		}
	case reflect.Slice:
		if isByteSlice(t) {
			b := append([]byte{}, v.Bytes()...)
			emit("", hex.EncodeToString(b), len(b) == 0, 3, func(k int, _ *Rng) {
				var nb []byte
				switch {
				case len(b) == 0:
					nb = []byte{byte(k + 1)}
				case k == 0:
					nb = append([]byte{}, b...)
					nb[len(nb)-1] ^= 1
				case k == 1:
					nb = append(append([]byte{}, b...), 0)
				default:
					nb = append([]byte{0}, b...)
				}
				v.Set(reflect.ValueOf(nb).Convert(t))
			})
			return
		}
		n := v.Len()
		emit("#len", strconv.Itoa(n), n == 0, 2, func(k int, r *Rng) {
			if k == 0 || n == 0 { // append a populated element
				e := reflect.New(t.Elem()).Elem()
				w.s.fill(e, r, FillFull, fkey, 3)
				nv := reflect.MakeSlice(t, 0, n+1)
				nv = reflect.AppendSlice(nv, v)
				v.Set(reflect.Append(nv, e))
			} else { // drop the last element
				nv := reflect.MakeSlice(t, n-1, n-1)
				reflect.Copy(nv, v)
				v.Set(nv)
			}
		})
		for i := 0; i < n; i++ {
			w.elem = true
			w.walk(v.Index(i), path+"["+strconv.Itoa(i)+"]", class+"[]", fkey, commit)
		}
	case reflect.Ptr:
		et := t.Elem()
		switch {
		case et == bigIntT:
			var b *big.Int
			if !v.IsNil() {
				b = v.Interface().(*big.Int)
			}
			val, zero := "0", true
			if b != nil {
				val, zero = b.String(), b.Sign() == 0
			}
			emit("", val, zero, 2, func(k int, _ *Rng) {
				nb := new(big.Int)
				if b != nil {
					nb.Set(b)
				}
				mutBig(nb, k)
				v.Set(reflect.ValueOf(nb))
			})
		case isByteArray(et):
			if v.IsNil() {
				emit("", "nil", true, 1, func(_ int, r *Rng) {
					nv := reflect.New(et)
					w.s.fill(nv.Elem(), r, FillFull, fkey, 3)
					v.Set(nv)
				})
				return
			}
			b := arrayBytes(v.Elem())
			emit("", hex.EncodeToString(b), false, 3, func(k int, _ *Rng) {
				switch k {
				case 0:
					b[len(b)-1] ^= 1
				case 1:
					b[0] ^= 0x80
				default:
					v.Set(reflect.Zero(t))
					return
				}
				nv := reflect.New(et)
				reflect.Copy(nv.Elem(), reflect.ValueOf(b))
				v.Set(nv)
			})
		default:
			if v.IsNil() {
				emit("#set", "nil", true, 1, func(_ int, r *Rng) {
					nv := reflect.New(et)
					w.s.fill(nv.Elem(), r, FillFull, fkey, 2)
					v.Set(nv)
				})
				return
			}
			// elements of collections are never nil in memory (every encoder dereferences them):
			// presence is only toggled for pointer *fields*
			nm := 1
			if elem {
				nm = 0
			}
			emit("#set", "set", false, nm, func(int, *Rng) { v.Set(reflect.Zero(t)) })
			w.walk(v.Elem(), path, class, fkey, commit)
		}
	case reflect.Map:
		type kr struct {
			k reflect.Value
			s string
		}
		var ks []kr
		for _, k := range v.MapKeys() {
			ks = append(ks, kr{k, renderKey(k)})
		}
		sort.Slice(ks, func(i, j int) bool { return ks[i].s < ks[j].s })
		_, fixed := w.s.FixedKeys[fkey]
		nm := 2
		if fixed {
			nm = 0
		}
		emit("#len", strconv.Itoa(len(ks)), len(ks) == 0, nm, func(k int, r *Rng) {
			if v.IsNil() {
				v.Set(reflect.MakeMap(t))
			}
			if k == 0 || len(ks) == 0 { // add an entry under a fresh key
				for try := 0; try < 100; try++ {
					nk := reflect.New(t.Key()).Elem()
					w.s.fill(nk, r, FillFull, fkey, 3)
					if v.MapIndex(nk).IsValid() {
						continue
					}
					nv := reflect.New(t.Elem()).Elem()
					w.s.fill(nv, r, FillFull, fkey, 3)
					v.SetMapIndex(nk, nv)
					break
				}
			} else {
				v.SetMapIndex(ks[0].k, reflect.Value{})
			}
		})
		for _, e := range ks {
			e := e
			kp, kc := path+"{"+e.s+"}", class+"{}"
			if !fixed {
				w.out = append(w.out, Leaf{Path: kp + "#key", Class: kc + "#key", Val: e.s})
				if w.withMut {
					l := &w.out[len(w.out)-1]
					l.NMut = 1
					l.mut = func(_ int, r *Rng) {
						val := v.MapIndex(e.k)
						for try := 0; try < 100; try++ {
							nk := reflect.New(t.Key()).Elem()
							w.s.fill(nk, r, FillFull, fkey, 3)
							if v.MapIndex(nk).IsValid() {
								continue
							}
							v.SetMapIndex(e.k, reflect.Value{})
							v.SetMapIndex(nk, val)
							break
						}
						if commit != nil {
							commit()
						}
					}
				}
			}
			tmp := reflect.New(t.Elem()).Elem()
			tmp.Set(v.MapIndex(e.k))
			w.elem = true
			w.walk(tmp, kp, kc, fkey, func() {
				v.SetMapIndex(e.k, tmp)
				if commit != nil {
					commit()
				}
			})
		}
	case reflect.Struct:
		for i := 0; i < t.NumField(); i++ {
			f := t.Field(i)
			fk := fieldKey(t, f)
			if _, tr := w.s.Transient[fk]; tr {
				continue
			}
			w.walk(access(v.Field(i)), join(path, f.Name), join(class, f.Name), fk, commit)
		}
	case reflect.Interface:
		if t == errorT {
			msg := ""
			if !v.IsNil() {
				msg = v.Interface().(error).Error()
			}
			emit("", strconv.Quote(msg), msg == "", 1, func(int, *Rng) {
				v.Set(reflect.ValueOf(errors.New(msg + "~")))
			})
			return
		}
		w.s.problem("unclassified interface field %s (%s) at %s", fkey, t, class)
	default:
		w.s.problem("unclassified field kind %s of %s at %s", t.Kind(), fkey, class)
	}
}

func mutBig(b *big.Int, k int) {
	if k == 0 {
		b.Add(b, big.NewInt(1))
	} else {
		b.Xor(b, new(big.Int).Lsh(big.NewInt(1), 200))
	}
}

func renderKey(k reflect.Value) string {
	switch k.Kind() {
	case reflect.Int, reflect.Int8, reflect.Int16, reflect.Int32, reflect.Int64:
		return fmt.Sprintf("%020d", k.Int())
	case reflect.Uint, reflect.Uint8, reflect.Uint16, reflect.Uint32, reflect.Uint64:
		return fmt.Sprintf("%020d", k.Uint())
	case reflect.String:
		return strconv.Quote(k.String())
	case reflect.Array:
		if isByteArray(k.Type()) {
			return hex.EncodeToString(arrayBytes(k))
		}
	}
	return fmt.Sprintf("%v", k.Interface())
}

// Diff returns the class, the path and both renderings of the first leaf on which a and b
// differ ("" if they are equal).
func Diff(a, b []Leaf) (class, path, va, vb string) {
	mb := make(map[string]string, len(b))
	for _, l := range b {
		mb[l.Path] = l.Val
	}
	for _, l := range a {
		x, ok := mb[l.Path]
		if !ok {
			return l.Class, l.Path, l.Val, "<absent>"
		}
		if x != l.Val {
			return l.Class, l.Path, l.Val, x
		}
	}
	if len(a) != len(b) {
		ma := make(map[string]struct{}, len(a))
		for _, l := range a {
			ma[l.Path] = struct{}{}
		}
		for _, l := range b {
			if _, ok := ma[l.Path]; !ok {
				return l.Class, l.Path, "<absent>", l.Val
			}
		}
	}
	return "", "", "", ""
}

// SameLeaves reports whether two flattenings are equal.
func SameLeaves(a, b []Leaf) bool {
	if len(a) != len(b) {
		return false
	}
	for i := range a {
		if a[i].Path != b[i].Path || a[i].Val != b[i].Val {
			return false
		}
	}
	return true
}

// PopulatedSet is the sorted list of classes that carry a non-zero leaf.
func PopulatedSet(ls []Leaf) string {
	seen := map[string]struct{}{}
	for _, l := range ls {
		if !l.Zero {
			seen[l.Class] = struct{}{}
		}
	}
	out := make([]string, 0, len(seen))
	for k := range seen {
		out = append(out, k)
	}
	sort.Strings(out)
	return strings.Join(out, ",")
}

// ---------------------------------------------------------------- clone

// Clone deep-copies *root (a non-nil pointer) and returns a pointer of the same type.
// Transient fields are left zero (so caches never travel with a copy); nil-ness of slices,
// maps and pointers is preserved.
func (s *Schema) Clone(root interface{}) interface{} {
	rv := reflect.ValueOf(root)
	nv := reflect.New(rv.Type().Elem())
	s.clone(nv.Elem(), rv.Elem())
	return nv.Interface()
}

func (s *Schema) clone(dst, src reflect.Value) {
	t := src.Type()
	if t == timeT {
		dst.Set(src)
		return
	}
	if t == bigIntT {
		dst.Addr().Interface().(*big.Int).Set(src.Addr().Interface().(*big.Int))
		return
	}
	switch t.Kind() {
	case reflect.Ptr:
		if src.IsNil() {
			return
		}
		if t.Elem() == bigIntT {
			dst.Set(reflect.ValueOf(new(big.Int).Set(src.Interface().(*big.Int))))
			return
		}
		nv := reflect.New(t.Elem())
		s.clone(nv.Elem(), src.Elem())
		dst.Set(nv)
	case reflect.Slice:
		if src.IsNil() {
			return
		}
		nv := reflect.MakeSlice(t, src.Len(), src.Len())
		if isByteSlice(t) {
			reflect.Copy(nv, src)
		} else {
			for i := 0; i < src.Len(); i++ {
				s.clone(nv.Index(i), src.Index(i))
			}
		}
		dst.Set(nv)
	case reflect.Array:
		if isByteArray(t) {
			reflect.Copy(dst, src)
			return
		}
		for i := 0; i < src.Len(); i++ {
			s.clone(dst.Index(i), src.Index(i))
		}
	case reflect.Map:
		if src.IsNil() {
			return
		}
		nm := reflect.MakeMapWithSize(t, src.Len())
		it := src.MapRange()
		for it.Next() {
			k := reflect.New(t.Key()).Elem()
			tk := reflect.New(t.Key()).Elem()
			tk.Set(it.Key())
			s.clone(k, tk)
			e := reflect.New(t.Elem()).Elem()
			te := reflect.New(t.Elem()).Elem()
			te.Set(it.Value())
			s.clone(e, te)
			nm.SetMapIndex(k, e)
		}
		dst.Set(nm)
	case reflect.Struct:
		for i := 0; i < t.NumField(); i++ {
			f := t.Field(i)
			if _, tr := s.Transient[fieldKey(t, f)]; tr {
				continue
			}
			s.clone(access(dst.Field(i)), access(src.Field(i)))
		}
	case reflect.Interface:
		if !src.IsNil() {
			dst.Set(src) // only `error` gets here (immutable); anything else is reported by Flatten
		}
	default:
		dst.Set(src)
	}
}

// ---------------------------------------------------------------- fill

// Fill populates *root according to the mode.
func (s *Schema) Fill(root interface{}, r *Rng, m FillMode) {
	v := reflect.ValueOf(root).Elem()
	if m == FillZero {
		return
	}
	if m == FillSparse {
		if v.Kind() != reflect.Struct || v.Type() == timeT || v.Type() == bigIntT {
			s.fill(v, r, FillRand, "", 0)
			return
		}
		t := v.Type()
		for i := 0; i < t.NumField(); i++ {
			fk := fieldKey(t, t.Field(i))
			if _, tr := s.Transient[fk]; tr {
				continue
			}
			if r.Bool() {
				s.fill(access(v.Field(i)), r, FillFull, fk, 1)
			}
		}
		return
	}
	s.fill(v, r, m, "", 0)
}

func randNonZero(r *Rng, n int) []byte {
	b := r.Bytes(n)
	if n > 0 && allZeroBytes(b) {
		b[n-1] = 1
	}
	return b
}

var fillStrings = []string{"\xff\xfe bad", "a", "idena", "héllo wörld ✓ 你好", "tab\tnew\nline \"quoted\" \x00nul", "Ünïcödé"}

func (s *Schema) genUint(r *Rng, m FillMode, bits int, fkey string) uint64 {
	max := ^uint64(0) >> uint(64-bits)
	if b, ok := s.IntMax[fkey]; ok {
		if m == FillFull || m == FillMax {
			if b == 0 {
				return 0
			}
			if m == FillMax {
				return b
			}
			return 1 + uint64(r.Intn(int(b)))
		}
		return uint64(r.Intn(int(b) + 1))
	}
	switch m {
	case FillFull:
		x := r.U64() & max
		if x == 0 {
			x = 1
		}
		return x
	case FillMax:
		return max
	}
	switch r.Pick(2, 2, 2, 1, 4, 3) {
	case 0:
		return 0
	case 1:
		return 1
	case 2:
		return max
	case 3:
		return max - 1
	case 4:
		return r.U64() & max
	}
	return uint64(r.Intn(256)) & max
}

func (s *Schema) genBytes(r *Rng, m FillMode) []byte {
	switch m {
	case FillFull:
		b := randNonZero(r, r.Range(1, 40))
		if r.Chance(1, 4) {
			b[0] = 0 // leading zero byte: exposes integer-style stripping
			if len(b) == 1 {
				b = append(b, 7)
			}
		}
		return b
	case FillMax:
		return r.Bytes(r.Range(2000, 6000))
	}
	switch r.Pick(2, 1, 1, 2, 2, 1, 1, 3, 1, 1) {
	case 0:
		return nil
	case 1:
		return []byte{}
	case 2:
		return []byte{0}
	case 3:
		return r.Bytes(20)
	case 4:
		return r.Bytes(32)
	case 5:
		return r.Bytes(33)
	case 6:
		return r.Bytes(65)
	case 7:
		return r.Bytes(r.Range(1, 300))
	case 8:
		return r.Bytes(r.Range(1000, 5000))
	}
	return make([]byte, 8)
}

func (s *Schema) fill(v reflect.Value, r *Rng, m FillMode, fkey string, depth int) {
	t := v.Type()
	if depth > 12 {
		return
	}
	if t == timeT {
		var tm time.Time
		switch m {
		case FillFull:
			tm = time.Unix(1500000000+int64(r.Intn(400000000)), 0)
		case FillMax:
			tm = time.Unix(1<<40, 0)
		default:
			switch r.Pick(1, 1, 3, 1) {
			case 0: // zero time
			case 1:
				tm = time.Unix(0, 0)
			case 2:
				tm = time.Unix(int64(r.Intn(5000000000))-1000000000, 0)
			default:
				tm = time.Unix(int64(r.Intn(2000000000)), int64(r.Intn(1000000000))).UTC()
			}
		}
		v.Set(reflect.ValueOf(tm))
		return
	}
	if t == bigIntT {
		if b := s.genBig(r, m); b != nil {
			v.Addr().Interface().(*big.Int).Set(b)
		}
		return
	}
	switch t.Kind() {
	case reflect.Bool:
		v.SetBool(m == FillFull || m == FillMax || r.Bool())
	case reflect.Int, reflect.Int8, reflect.Int16, reflect.Int32, reflect.Int64:
		bits := t.Bits()
		if _, ok := s.IntMax[fkey]; ok {
			v.SetInt(int64(s.genUint(r, m, bits-1, fkey)))
			return
		}
		var x int64
		switch m {
		case FillFull:
			x = int64(s.genUint(r, m, bits-1, fkey))
			if r.Chance(1, 4) {
				x = -x
			}
		case FillMax:
			x = int64(^uint64(0) >> uint(65-bits))
			if r.Chance(1, 4) {
				x = -x - 1
			}
		default:
			switch r.Pick(2, 1, 1, 1, 1, 3, 2) {
			case 0:
				x = 0
			case 1:
				x = 1
			case 2:
				x = -1
			case 3:
				x = int64(^uint64(0) >> uint(65-bits))
			case 4:
				x = -int64(^uint64(0)>>uint(65-bits)) - 1
			case 5:
				x = int64(r.U64()) >> uint(64-bits)
			default:
				x = int64(r.Intn(100000))
				if bits < 32 {
					x &= 0x7f
				}
			}
		}
		v.SetInt(x)
	case reflect.Uint, reflect.Uint8, reflect.Uint16, reflect.Uint32, reflect.Uint64:
		v.SetUint(s.genUint(r, m, t.Bits(), fkey))
	case reflect.String:
		switch m {
		case FillFull:
			v.SetString("s" + hex.EncodeToString(r.Bytes(4)))
		case FillMax:
			v.SetString(strings.Repeat("long-ü-", 300) + hex.EncodeToString(r.Bytes(4)))
		default:
			switch r.Pick(2, 5, 1) {
			case 0:
				v.SetString("")
			case 1:
				v.SetString(fillStrings[r.Intn(len(fillStrings))] + hex.EncodeToString(r.Bytes(r.Intn(4))))
			default:
				v.SetString(strings.Repeat("x✓", r.Range(100, 2000)))
			}
		}
	case reflect.Array:
		if isByteArray(t) {
			n := t.Len()
			var b []byte
			switch m {
			case FillFull:
				b = randNonZero(r, n)
			case FillMax:
				b = make([]byte, n)
				for i := range b {
					b[i] = 0xff
				}
			default:
				switch r.Pick(1, 4, 1, 2, 1) {
				case 0:
					b = make([]byte, n)
				case 1:
					b = r.Bytes(n)
				case 2:
					b = make([]byte, n)
					for i := range b {
						b[i] = 0xff
					}
				case 3: // leading zeros
					b = make([]byte, n)
					k := r.Intn(n + 1)
					copy(b[k:], r.Bytes(n-k))
				default:
					b = make([]byte, n)
					if n > 0 {
						b[n-1] = byte(1 + r.Intn(255))
					}
				}
			}
			reflect.Copy(v, reflect.ValueOf(b))
			return
		}
		for i := 0; i < v.Len(); i++ {
			s.fill(v.Index(i), r, m, fkey, depth+1)
		}
	case reflect.Slice:
		if isByteSlice(t) {
			b := s.genBytes(r, m)
			if b == nil {
				v.Set(reflect.Zero(t))
			} else {
				v.Set(reflect.ValueOf(b).Convert(t))
			}
			return
		}
		n := 0
		em := m
		switch m {
		case FillFull:
			n = 2
			if depth >= 3 {
				n = 1
			}
		case FillMax:
			n = r.Range(3, 4)
			if depth >= 2 {
				n, em = 2, FillRand
			}
		default:
			switch r.Pick(2, 1, 3, 3, 1) {
			case 0:
				v.Set(reflect.Zero(t))
				return
			case 1:
				n = 0
			case 2:
				n = 1
			case 3:
				n = r.Range(2, 3)
			default:
				n = 1
				if depth <= 1 {
					n = r.Range(10, 40)
				}
			}
		}
		nv := reflect.MakeSlice(t, n, n)
		for i := 0; i < n; i++ {
			s.fillElem(nv.Index(i), r, em, fkey, depth+1)
		}
		v.Set(nv)
	case reflect.Ptr:
		et := t.Elem()
		if et == bigIntT {
			b := s.genBig(r, m)
			if b == nil {
				v.Set(reflect.Zero(t))
			} else {
				v.Set(reflect.ValueOf(b))
			}
			return
		}
		if m == FillRand && r.Chance(1, 3) {
			v.Set(reflect.Zero(t))
			return
		}
		nv := reflect.New(et)
		s.fill(nv.Elem(), r, m, fkey, depth+1)
		v.Set(nv)
	case reflect.Map:
		n := 0
		switch m {
		case FillFull:
			n = 2
		case FillMax:
			n = 3
		default:
			switch r.Pick(1, 1, 4) {
			case 0:
				v.Set(reflect.Zero(t))
				return
			case 1:
				n = 0
			default:
				n = r.Range(1, 3)
			}
		}
		nm := reflect.MakeMap(t)
		for i := 0; i < n; i++ {
			k := reflect.New(t.Key()).Elem()
			s.fill(k, r, FillFull, fkey, depth+1)
			e := reflect.New(t.Elem()).Elem()
			s.fillElem(e, r, m, fkey, depth+1)
			nm.SetMapIndex(k, e)
		}
		v.Set(nm)
	case reflect.Struct:
		for i := 0; i < t.NumField(); i++ {
			fk := fieldKey(t, t.Field(i))
			if _, tr := s.Transient[fk]; tr {
				continue
			}
			s.fill(access(v.Field(i)), r, m, fk, depth+1)
		}
	case reflect.Interface:
		if t == errorT {
			switch {
			case m == FillFull:
				v.Set(reflect.ValueOf(errors.New("err " + hex.EncodeToString(r.Bytes(3)))))
			case m == FillMax:
				v.Set(reflect.ValueOf(errors.New(strings.Repeat("E", 3000))))
			case r.Chance(2, 3):
				v.Set(reflect.ValueOf(errors.New(fillStrings[r.Intn(len(fillStrings))])))
			}
			return
		}
		s.problem("unclassified interface field %s (%s)", fkey, t)
	default:
		s.problem("unclassified field kind %s of %s", t.Kind(), fkey)
	}
}

// fillElem fills an element of a slice or map: pointers to structs are never left nil (the
// encoders under test dereference every element; in-memory lists never hold nil entries).
func (s *Schema) fillElem(v reflect.Value, r *Rng, m FillMode, fkey string, depth int) {
	t := v.Type()
	if t.Kind() == reflect.Ptr && t.Elem() != bigIntT {
		nv := reflect.New(t.Elem())
		s.fill(nv.Elem(), r, m, fkey, depth+1)
		v.Set(nv)
		return
	}
	s.fill(v, r, m, fkey, depth)
}

func (s *Schema) genBig(r *Rng, m FillMode) *big.Int {
	switch m {
	case FillFull:
		return new(big.Int).SetBytes(randNonZero(r, r.Range(1, 32)))
	case FillMax:
		x := new(big.Int).Lsh(big.NewInt(1), uint(256+r.Intn(2)*144))
		return x.Sub(x, big.NewInt(1))
	}
	switch r.Pick(2, 2, 1, 1, 1, 1, 4) {
	case 0:
		return nil
	case 1:
		return new(big.Int)
	case 2:
		return big.NewInt(1)
	case 3:
		return new(big.Int).SetUint64(^uint64(0))
	case 4:
		return new(big.Int).Lsh(big.NewInt(1), 64)
	case 5:
		x := new(big.Int).Lsh(big.NewInt(1), 256)
		return x.Sub(x, big.NewInt(1))
	}
	return new(big.Int).SetBytes(r.Bytes(r.Range(1, 40)))
}
