package verifutil

// Codec monitor engine (C18). A package registers its encodable types (real encode / decode /
// hash / sign / recover functions of the code under test) and a Schema; the engine generates
// values and applies the oracles
//   O1 decode(encode(x)) ≅ x          (under the normalisations of fill.go and the type's Norm)
//   O2 encode(decode(encode(x))) == encode(x) byte for byte
//   O3 every registered hash is the same before and after the round trip
//   O4 changing one non-transient leaf alone changes the encoding (and O1 holds for the mutant)
//   O5 changing one leaf of a signed object changes the recovered signer or makes recovery fail
// Nothing is decided by a re-implementation of an encoder: all oracles are differential
// between executions of the real functions.

import (
	"bytes"
	"fmt"
	"reflect"
	"sort"
	"strings"
)

type SignSpec struct {
	Variants []string
	// Prepare turns a generated value into one that can be signed (e.g. forces a non-nil header).
	Prepare func(x interface{}, variant string, r *Rng)
	// Sign signs with the real signing path and returns the signed object and the signer's identity.
	Sign func(x interface{}, variant string, r *Rng) (signed interface{}, signer string, err error)
	// Recover runs the real recovery path on an object whose caches are empty.
	Recover func(x interface{}) (string, error)
	// SigField is the top-level leaf path of the signature itself (excluded from mutation).
	SigField string
}

type CodecType struct {
	Name string
	New  func() interface{} // pointer to a fresh zero value
	Enc  func(x interface{}) ([]byte, error)
	Dec  func(b []byte) (interface{}, error) // decodes into a fresh object
	// Norm canonicalises deliberate equivalences of this type in place (applied to clones only).
	Norm func(x interface{})
	// Fix imposes domain constraints on a freshly generated value.
	Fix func(x interface{}, r *Rng)
	// Hashes: name -> hash function; returning nil means "not defined for this value".
	Hashes map[string]func(x interface{}) []byte
	// UnorderedEnc: why the byte order of the encoding is not a function of the value (O2 is then
	// evaluated on the decoded value and the length instead of the bytes).
	UnorderedEnc string
	Sign         *SignSpec
}

// StdCodec builds a CodecType for the common method pair
// `ToBytes() ([]byte, error)` / `FromBytes([]byte) error` (pointer receiver), called by reflection.
func StdCodec(name string, newFn func() interface{}) *CodecType {
	return &CodecType{
		Name: name,
		New:  newFn,
		Enc: func(x interface{}) ([]byte, error) {
			out := reflect.ValueOf(x).MethodByName("ToBytes").Call(nil)
			var err error
			if len(out) > 1 && !out[1].IsNil() {
				err = out[1].Interface().(error)
			}
			b, _ := out[0].Interface().([]byte)
			return b, err
		},
		Dec: func(b []byte) (interface{}, error) {
			y := newFn()
			out := reflect.ValueOf(y).MethodByName("FromBytes").Call([]reflect.Value{reflect.ValueOf(b)})
			if len(out) > 0 && !out[0].IsNil() {
				return y, out[0].Interface().(error)
			}
			return y, nil
		},
	}
}

type CodecRun struct {
	Rep    *Report
	S      *Schema
	Pkg    string // label of the registering package (evidence keys)
	PropNo uint64
	Types  []*CodecType

	classes map[string]map[string]struct{} // type -> mutable leaf classes seen
	mutated map[string]map[string]struct{} // type -> classes with an effective mutation
	signed  map[string]map[string]struct{} // type -> classes whose change was seen to break the signature
	nSample map[string]int
}

func (cr *CodecRun) flat(ct *CodecType, x interface{}) []Leaf {
	c := cr.S.Clone(x)
	if ct.Norm != nil {
		ct.Norm(c)
	}
	return cr.S.Flatten(c)
}

func (cr *CodecRun) enc(ct *CodecType, x interface{}) (b []byte, err error, pan string) {
	p, st := Catch(func() { b, err = ct.Enc(x) })
	if p != nil {
		return nil, nil, fmt.Sprintf("%v @ %s", p, repoFrame(st))
	}
	return b, err, ""
}

func (cr *CodecRun) dec(ct *CodecType, b []byte) (y interface{}, err error, pan string) {
	p, st := Catch(func() { y, err = ct.Dec(b) })
	if p != nil {
		return nil, nil, fmt.Sprintf("%v @ %s", p, repoFrame(st))
	}
	return y, err, ""
}

// repoFrame names the innermost function of the code under test on a panic stack (by function
// name, so it does not depend on where the tree is checked out).
func repoFrame(stack string) string {
	for _, l := range strings.Split(stack, "\n") {
		if strings.HasPrefix(l, "\t") || !strings.Contains(l, "idena-network/idena-go/") {
			continue
		}
		if strings.Contains(l, "/verifutil.") || strings.Contains(l, "c18") || strings.Contains(l, "TestVerif") {
			continue
		}
		if k := strings.LastIndex(l, "("); k > 0 {
			l = l[:k]
		}
		return l[strings.Index(l, "idena-go/")+len("idena-go/"):]
	}
	return "?"
}

// roundTrip applies O1, O2, O3 to x. It returns the encoding (nil if x could not be encoded).
func (cr *CodecRun) roundTrip(ct *CodecType, x interface{}, what string) []byte {
	rep := cr.Rep
	rep.Eval(1)
	rep.Count("values_"+ct.Name, 1)
	fx := cr.flat(ct, x)
	e1, err, pan := cr.enc(ct, cr.S.Clone(x))
	if pan != "" {
		rep.Violation("panic:encode:"+ct.Name, fmt.Sprintf("%s: encoder panicked on %s value: %s", ct.Name, what, pan),
			map[string]interface{}{"type": ct.Name, "value": renderLeaves(fx)})
		return nil
	}
	if err != nil {
		rep.Count("encode_refused", 1)
		return nil
	}
	y, err, pan := cr.dec(ct, e1)
	if pan != "" {
		rep.Violation("panic:decode:"+ct.Name, fmt.Sprintf("%s: decoder panicked on the type's own encoding of a %s value: %s; encoding=%s",
			ct.Name, what, pan, Trunc(Hex(e1), 400)), map[string]interface{}{"type": ct.Name, "encoding": Hex(e1), "value": renderLeaves(fx)})
		return e1
	}
	if err != nil {
		rep.Violation("O1:"+ct.Name+":decode-error", fmt.Sprintf("%s: own encoding rejected by the decoder: %v; encoding=%s", ct.Name, err, Trunc(Hex(e1), 400)),
			map[string]interface{}{"type": ct.Name, "encoding": Hex(e1), "value": renderLeaves(fx)})
		return e1
	}
	fy := cr.flat(ct, y)
	if class, path, a, b := Diff(fx, fy); class != "" || path != "" {
		rep.Violation("O1:"+ct.Name+"."+class, fmt.Sprintf("%s: decode(encode(x)) differs from x at %s: original=%s decoded=%s (%s value); encoding=%s",
			ct.Name, path, Trunc(a, 200), Trunc(b, 200), what, Trunc(Hex(e1), 400)),
			map[string]interface{}{"type": ct.Name, "field": path, "original": a, "decoded": b, "encoding": Hex(e1), "value": renderLeaves(fx)})
	}
	// O2
	e2, err, pan := cr.enc(ct, y)
	switch {
	case pan != "":
		rep.Violation("panic:encode:"+ct.Name, fmt.Sprintf("%s: encoder panicked on a decoded value: %s", ct.Name, pan),
			map[string]interface{}{"type": ct.Name, "encoding": Hex(e1)})
	case err != nil:
		rep.Violation("O2:"+ct.Name+":reencode-error", fmt.Sprintf("%s: decoded value cannot be encoded again: %v", ct.Name, err),
			map[string]interface{}{"type": ct.Name, "encoding": Hex(e1)})
	case ct.UnorderedEnc != "":
		z, err, pan := cr.dec(ct, e2)
		if pan != "" || err != nil || len(e2) != len(e1) || !SameLeaves(cr.flat(ct, z), fy) {
			rep.Violation("O2:"+ct.Name, fmt.Sprintf("%s: second round trip changed the value or the encoded length (%d vs %d bytes) %v %s",
				ct.Name, len(e1), len(e2), err, pan), map[string]interface{}{"type": ct.Name, "first": Hex(e1), "second": Hex(e2)})
		}
	case !bytes.Equal(e1, e2):
		rep.Violation("O2:"+ct.Name, fmt.Sprintf("%s: encode(decode(encode(x))) != encode(x): first=%s second=%s", ct.Name, Trunc(Hex(e1), 300), Trunc(Hex(e2), 300)),
			map[string]interface{}{"type": ct.Name, "first": Hex(e1), "second": Hex(e2), "value": renderLeaves(fx)})
	}
	// O3
	if len(ct.Hashes) > 0 {
		names := make([]string, 0, len(ct.Hashes))
		for n := range ct.Hashes {
			names = append(names, n)
		}
		sort.Strings(names)
		for _, n := range names {
			var h1, h2 []byte
			p, st := Catch(func() {
				h1 = ct.Hashes[n](cr.S.Clone(x))
				if h1 != nil {
					h2 = ct.Hashes[n](cr.S.Clone(y))
				}
			})
			if p != nil {
				rep.Violation("panic:hash:"+ct.Name+":"+n, fmt.Sprintf("%s.%s panicked: %v @ %s", ct.Name, n, p, repoFrame(st)),
					map[string]interface{}{"type": ct.Name, "encoding": Hex(e1)})
				continue
			}
			if h1 == nil {
				continue
			}
			rep.Count("hash_checks", 1)
			if !bytes.Equal(h1, h2) {
				rep.Violation("O3:"+ct.Name+":"+n, fmt.Sprintf("%s.%s changes across the round trip: %s vs %s; encoding=%s", ct.Name, n, Hex(h1), Hex(h2), Trunc(Hex(e1), 300)),
					map[string]interface{}{"type": ct.Name, "hash": n, "before": Hex(h1), "after": Hex(h2), "encoding": Hex(e1)})
			}
		}
	}
	return e1
}

func renderLeaves(ls []Leaf) map[string]string {
	out := map[string]string{}
	for _, l := range ls {
		if !l.Zero {
			out[l.Path] = Trunc(l.Val, 300)
		}
	}
	return out
}

func (cr *CodecRun) note(m map[string]map[string]struct{}, typ, class string) {
	if m[typ] == nil {
		m[typ] = map[string]struct{}{}
	}
	m[typ][class] = struct{}{}
}

// sensitivity applies O4 to x: every (leaf, variant) mutation when limit == 0, else `limit`
// randomly chosen ones.
func (cr *CodecRun) sensitivity(ct *CodecType, x interface{}, e0 []byte, r *Rng, limit int, what string) {
	rep := cr.Rep
	base := cr.S.Leaves(cr.S.Clone(x))
	f0 := cr.flat(ct, x)
	type mv struct{ leaf, k int }
	var all []mv
	for i := range base {
		for k := 0; k < base[i].NMut; k++ {
			all = append(all, mv{i, k})
		}
		if base[i].NMut > 0 {
			cr.note(cr.classes, ct.Name, base[i].Class)
		}
	}
	if limit > 0 && len(all) > limit {
		p := r.Perm(len(all))
		sel := make([]mv, limit)
		for i := range sel {
			sel[i] = all[p[i]]
		}
		all = sel
	}
	for _, m := range all {
		c := cr.S.Clone(x)
		ls := cr.S.Leaves(c)
		if m.leaf >= len(ls) || ls[m.leaf].Path != base[m.leaf].Path {
			rep.Inconcl("harness: leaf order not stable for %s", ct.Name)
			return
		}
		class, path, before := ls[m.leaf].Class, ls[m.leaf].Path, ls[m.leaf].Val
		ls[m.leaf].Mutate(m.k, r.Fork(uint64(m.leaf*8+m.k)))
		f1 := cr.flat(ct, c)
		if SameLeaves(f0, f1) {
			rep.Count("o4_noop_mutations", 1) // equal under the normalisation: nothing to demand
			continue
		}
		_, _, _, after := Diff(f0, f1)
		e1 := cr.roundTrip(ct, c, what+"+mutated "+path) // O1..O3 on the mutant ("and the decoded value")
		if e1 == nil {
			continue
		}
		rep.Count("o4_mutations", 1)
		rep.Count("o4_mutations_"+ct.Name, 1)
		cr.note(cr.mutated, ct.Name, class)
		if bytes.Equal(e0, e1) {
			rep.Violation("O4:"+ct.Name+"."+class, fmt.Sprintf("%s: changing only %s (%s -> %s) leaves the encoding unchanged (%s value): the field is neither encoded nor listed as transient; encoding=%s",
				ct.Name, path, Trunc(before, 120), Trunc(after, 120), what, Trunc(Hex(e0), 300)),
				map[string]interface{}{"type": ct.Name, "field": path, "before": before, "after": after, "encoding": Hex(e0)})
		}
	}
}

// signing applies O5 to one generated value.
func (cr *CodecRun) signing(ct *CodecType, variant string, r *Rng, mode FillMode) {
	rep := cr.Rep
	sp := ct.Sign
	x := ct.New()
	cr.S.Fill(x, r, mode)
	if ct.Fix != nil {
		ct.Fix(x, r)
	}
	if sp.Prepare != nil {
		sp.Prepare(x, variant, r)
	}
	var signed interface{}
	var signer string
	var err error
	if p, st := Catch(func() { signed, signer, err = sp.Sign(x, variant, r) }); p != nil {
		rep.Violation("panic:sign:"+ct.Name, fmt.Sprintf("%s: signing panicked: %v @ %s", ct.Name, p, repoFrame(st)), nil)
		return
	}
	if err != nil {
		rep.Inconcl("harness: cannot sign %s (%s): %v", ct.Name, variant, err)
		return
	}
	rep.Eval(1)
	rep.Count("o5_signed_"+ct.Name, 1)
	rec, err := sp.Recover(cr.S.Clone(signed))
	if err != nil || rec != signer {
		rep.Violation("O5:"+ct.Name+":baseline:"+variant, fmt.Sprintf("%s (%s): signer %s, recovered %s err=%v right after signing", ct.Name, variant, signer, rec, err),
			map[string]interface{}{"type": ct.Name, "value": renderLeaves(cr.flat(ct, signed))})
		return
	}
	// the signature survives the wire
	if e, err, pan := cr.enc(ct, cr.S.Clone(signed)); pan == "" && err == nil {
		if y, err, pan := cr.dec(ct, e); pan == "" && err == nil {
			rec2, err := sp.Recover(y)
			if err != nil || rec2 != signer {
				rep.Violation("O5:"+ct.Name+":roundtrip:"+variant, fmt.Sprintf("%s (%s): signer %s but %s err=%v is recovered from the decoded object; encoding=%s",
					ct.Name, variant, signer, rec2, err, Trunc(Hex(e), 300)), map[string]interface{}{"type": ct.Name, "encoding": Hex(e)})
			}
		}
		if cr.nSample[ct.Name+variant] < 1 {
			cr.nSample[ct.Name+variant]++
			rep.Sample(map[string]interface{}{"oracle": "O5", "type": ct.Name, "variant": variant, "signer": signer, "encoding_hex": Trunc(Hex(e), 240)})
		}
	}
	base := cr.S.Leaves(cr.S.Clone(signed))
	f0 := cr.flat(ct, signed)
	for i := range base {
		if base[i].Path == sp.SigField || base[i].NMut == 0 {
			continue
		}
		cr.note(cr.classes, "sig:"+ct.Name, base[i].Class)
		for k := 0; k < base[i].NMut; k++ {
			c := cr.S.Clone(signed)
			ls := cr.S.Leaves(c)
			before := ls[i].Val
			ls[i].Mutate(k, r.Fork(uint64(i*8+k)))
			f1 := cr.flat(ct, c)
			if SameLeaves(f0, f1) {
				rep.Count("o5_noop_mutations", 1)
				continue
			}
			_, _, _, after := Diff(f0, f1)
			rep.Eval(1)
			rep.Count("o5_mutations", 1)
			rep.Count("o5_mutations_"+ct.Name, 1)
			var rec string
			var err error
			if p, st := Catch(func() { rec, err = sp.Recover(c) }); p != nil {
				rep.Violation("panic:recover:"+ct.Name, fmt.Sprintf("%s: recovery panicked after changing %s: %v @ %s", ct.Name, base[i].Path, p, repoFrame(st)), nil)
				continue
			}
			if err == nil && rec == signer {
				e, _, _ := cr.enc(ct, cr.S.Clone(c))
				rep.Violation("O5:"+ct.Name+"."+base[i].Class, fmt.Sprintf("%s (%s): after changing only %s (%s -> %s) the same signer %s is recovered: the field is not bound by the signature; tampered encoding=%s",
					ct.Name, variant, base[i].Path, Trunc(before, 120), Trunc(after, 120), signer, Trunc(Hex(e), 300)),
					map[string]interface{}{"type": ct.Name, "variant": variant, "field": base[i].Path, "before": before, "after": after, "tampered_encoding": Hex(e)})
				continue
			}
			cr.note(cr.signed, "sig:"+ct.Name, base[i].Class)
		}
	}
}

func (cr *CodecRun) gen(ct *CodecType, r *Rng, m FillMode) interface{} {
	x := ct.New()
	cr.S.Fill(x, r, m)
	if ct.Fix != nil && m != FillZero {
		ct.Fix(x, r)
	}
	return x
}

func (cr *CodecRun) one(ct *CodecType, r *Rng, m FillMode, o4limit int, o4 bool) {
	rep := cr.Rep
	x := cr.gen(ct, r, m)
	fx := cr.flat(ct, x)
	pop := PopulatedSet(fx)
	e := cr.roundTrip(ct, x, m.String())
	if e == nil {
		return
	}
	rep.Count("mode_"+m.String(), 1)
	if pop != "" {
		rep.Distinct(ct.Name, pop)
	}
	if cr.nSample[ct.Name] < 1 && (m == FillFull || m == FillSparse) {
		cr.nSample[ct.Name]++
		rep.Sample(map[string]interface{}{"oracle": "O1-O4", "type": ct.Name, "mode": m.String(), "populated": pop, "encoding_hex": Trunc(Hex(e), 240), "bytes": len(e)})
	}
	if o4 {
		cr.sensitivity(ct, x, e, r, o4limit, m.String())
	}
}

// Run executes the monitor: a deterministic full pass over every type (zero / full / max
// values with exhaustive single-leaf mutation), then nRandom generated values per type, then
// nSign signed values per signed type and variant.
func (cr *CodecRun) Run(nRandom, nSign int) {
	rep := cr.Rep
	cr.classes, cr.mutated, cr.signed = map[string]map[string]struct{}{}, map[string]map[string]struct{}{}, map[string]map[string]struct{}{}
	cr.nSample = map[string]int{}
	shard0 := Shard() == 0
	for ti, ct := range cr.Types {
		rep.Progress("type %s: full pass", ct.Name)
		for j, m := range []FillMode{FillZero, FillFull, FillFull, FillFull, FillMax, FillRand, FillRand} {
			cr.one(ct, Stream(cr.PropNo, uint64(ti), 1000000+uint64(j)), m, 0, true)
		}
		rep.Progress("type %s: random pass", ct.Name)
		for i := 0; i < nRandom; i++ {
			r := Stream(cr.PropNo, uint64(ti), uint64(i))
			m := []FillMode{FillRand, FillSparse, FillFull, FillMax}[r.Pick(10, 6, 3, 1)]
			cr.one(ct, r, m, 6, m != FillMax)
		}
		if ct.Sign != nil {
			rep.Progress("type %s: signatures", ct.Name)
			for vi, variant := range ct.Sign.Variants {
				for i := 0; i < nSign; i++ {
					r := Stream(cr.PropNo, uint64(ti), 2000000+uint64(vi)*100000+uint64(i))
					m := FillFull
					if i%3 == 2 {
						m = FillRand
					}
					cr.signing(ct, variant, r, m)
				}
			}
		}
	}
	// coverage accounting (every shard checks; only shard 0 counts, so that sums stay meaningful)
	for _, p := range cr.S.Problems() {
		rep.Inconcl("schema: %s", p)
	}
	tot, totSig := 0, 0
	for _, ct := range cr.Types {
		var miss, got []string
		for c := range cr.classes[ct.Name] {
			if _, ok := cr.mutated[ct.Name][c]; ok {
				got = append(got, c)
			} else {
				miss = append(miss, c)
			}
		}
		sort.Strings(got)
		sort.Strings(miss)
		if len(miss) > 0 {
			rep.Inconcl("coverage: %s: fields never effectively mutated: %s", ct.Name, strings.Join(miss, " "))
		}
		rep.SetInfo("fields_"+ct.Name, got)
		if shard0 {
			rep.Count("types_covered", 1)
			rep.Count("o4_fields_"+ct.Name, len(got))
		}
		tot += len(got)
		if ct.Sign != nil {
			var sm, sg []string
			for c := range cr.classes["sig:"+ct.Name] {
				if _, ok := cr.signed["sig:"+ct.Name][c]; ok {
					sg = append(sg, c)
				} else {
					sm = append(sm, c)
				}
			}
			sort.Strings(sg)
			sort.Strings(sm)
			if len(sm) > 0 && rep.NViolations() == 0 {
				rep.Inconcl("coverage: %s: signed fields never effectively mutated: %s", ct.Name, strings.Join(sm, " "))
			}
			rep.SetInfo("signed_fields_"+ct.Name, sg)
			if shard0 {
				rep.Count("o5_types_covered", 1)
				rep.Count("o5_fields_"+ct.Name, len(sg))
			}
			totSig += len(sg)
		}
	}
	if shard0 {
		rep.Count("o4_field_classes", tot)
		rep.Count("o5_field_classes", totSig)
	}
	tr := make([]string, 0, len(cr.S.Transient))
	for k, why := range cr.S.Transient {
		tr = append(tr, k+": "+why)
	}
	sort.Strings(tr)
	rep.SetInfo("transient_"+cr.Pkg, tr)
}
