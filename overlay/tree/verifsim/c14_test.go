package verifsim

// C14 — the mempool stays coherent under any submission, block and rebuild order.
//
// This file: helpers shared by both parts and the SEQUENTIAL part. A real replica's TxPool
// (node0's) is driven by generated operation sequences: external adds (InboundTx / MempoolTx,
// single and batched) in and out of nonce order, same-nonce conflicts, future / past epochs,
// priority ceremony types during the validation periods, per-address and global limits
// (tiny config.Mempool), internal adds, new blocks built by this or by another replica
// (ResetTo happens inside AddBlock), chain StartSync / StopSync with deferred txs, and list
// building. After EVERY operation the invariants of the property text are evaluated through
// the pool's public API only (BuildBlockTransactions, GetTx, GetPendingByAddress,
// GetPendingTransaction); the repo's own rules (validation.ValidateTx against the new head)
// decide whether a tx that disappeared had been "made invalid".
// The concurrent part lives in c14_conc_test.go.

import (
	"fmt"
	"math/big"
	"os"
	"runtime"
	"sort"
	"strconv"
	"strings"
	"sync/atomic"
	"testing"
	"time"

	"github.com/idena-network/idena-go/blockchain/attachments"
	"github.com/idena-network/idena-go/blockchain/fee"
	"github.com/idena-network/idena-go/blockchain/types"
	"github.com/idena-network/idena-go/blockchain/validation"
	"github.com/idena-network/idena-go/common"
	"github.com/idena-network/idena-go/config"
	"github.com/idena-network/idena-go/core/appstate"
	"github.com/idena-network/idena-go/core/mempool"
	"github.com/idena-network/idena-go/core/state"
	"github.com/idena-network/idena-go/crypto/vrf/p256"
	"github.com/idena-network/idena-go/stats/collector"
	"github.com/idena-network/idena-go/verifutil"
)

// ------------------------------------------------------------------ shared helpers

// c14Collector wraps the repo's no-op stats collector; the pool reports every removal
// (Remove is only reached from ResetTo) through this official instrumentation interface.
type c14Collector struct {
	collector.StatsCollector
	onRemove func(tx *types.Transaction)
}

func (c *c14Collector) RemoveMemPoolTx(tx *types.Transaction) {
	if c.onRemove != nil {
		c.onRemove(tx)
	}
}

func c14Committed(st *state.StateDB, a common.Address) uint32 {
	if st.GetEpoch(a) < st.Epoch() {
		return 0
	}
	return st.GetNonce(a)
}

// c14CheckOffer evaluates the first sentence of the property on a candidate list against a
// committed state: per-sender consecutive nonces continuing from the committed state, no
// duplicates, only the current epoch, total gas within the block gas cap.
func c14CheckOffer(list []*types.Transaction, st *state.StateDB, maxGas uint64) (sig, desc string) {
	epoch := st.Epoch()
	seen := map[common.Hash]int{}
	next := map[common.Address]uint32{}
	gas := uint64(0)
	for i, tx := range list {
		h := tx.Hash()
		if j, dup := seen[h]; dup {
			return "offer-duplicate", fmt.Sprintf("candidate list holds tx %x twice (positions %d and %d of %d)", h[:6], j, i, len(list))
		}
		seen[h] = i
		sender, _ := types.Sender(tx)
		if tx.Epoch != epoch {
			return "offer-wrong-epoch", fmt.Sprintf("candidate %d/%d (%s of %x nonce %d) has epoch %d, chain epoch is %d", i, len(list), TxName(tx.Type), sender[:4], tx.AccountNonce, tx.Epoch, epoch)
		}
		n, ok := next[sender]
		if !ok {
			n = c14Committed(st, sender) + 1
		}
		if tx.AccountNonce != n {
			return "offer-nonce-gap", fmt.Sprintf("candidate %d/%d (%s of %x) has nonce %d, expected %d (committed nonce %d, account epoch %d, chain epoch %d)", i, len(list), TxName(tx.Type), sender[:4], tx.AccountNonce, n, st.GetNonce(sender), st.GetEpoch(sender), epoch)
		}
		next[sender] = n + 1
		gas += uint64(fee.CalculateGas(tx))
	}
	if gas > maxGas {
		return "offer-gas-cap", fmt.Sprintf("candidate list of %d txs needs %d gas, block gas cap is %d", len(list), gas, maxGas)
	}
	return "", ""
}

// c14Tx builds a signed tx with an explicit nonce and epoch and a MaxFee that passes the fee
// rules at the current head (feeMul/10 times the current fee, at least the minimal fee).
func c14Tx(w *World, from *Actor, t types.TxType, to *common.Address, amount *big.Int, payload []byte, nonce uint32, epoch uint16, feeMul int64) *types.Transaction {
	v := w.View()
	return c14TxAt(v.AppState.State, v.AppState.ValidatorsCache.NetworkSize(), from, t, to, amount, payload, nonce, epoch, feeMul)
}

// c14TxAt is c14Tx against an explicit state view (the concurrent part passes a private
// read-only view so that the harness never reads the canonical state while the pool does).
func c14TxAt(st *state.StateDB, ns int, from *Actor, t types.TxType, to *common.Address, amount *big.Int, payload []byte, nonce uint32, epoch uint16, feeMul int64) *types.Transaction {
	probe := &types.Transaction{AccountNonce: nonce, Epoch: epoch, Type: t, To: to, Amount: amount, Payload: payload, MaxFee: Dna(1)}
	f := fee.CalculateFee(ns, st.FeePerGas(), probe)
	minFee := fee.CalculateFee(ns, fee.GetFeePerGasForNetwork(ns), probe)
	maxFee := new(big.Int).Div(new(big.Int).Mul(f, big.NewInt(feeMul)), big.NewInt(10))
	if maxFee.Cmp(minFee) < 0 {
		maxFee.Set(minFee)
	}
	maxFee.Add(maxFee, big.NewInt(1000))
	return SignedTx(from, t, to, amount, maxFee, nil, nonce, epoch, payload)
}

var c14PriorityTypes = []types.TxType{types.SubmitAnswersHashTx, types.SubmitShortAnswersTx, types.SubmitLongAnswersTx, types.EvidenceTx}

// c14CeremonyTx builds a well-formed ceremony (priority) tx of the given type.
func c14CeremonyTx(w *World, r *verifutil.Rng, from *Actor, t types.TxType, nonce uint32, epoch uint16) *types.Transaction {
	v := w.View()
	return c14CeremonyTxAt(v.AppState.State, v.AppState.ValidatorsCache.NetworkSize(), r, from, t, nonce, epoch)
}

func c14CeremonyTxAt(st *state.StateDB, ns int, r *verifutil.Rng, from *Actor, t types.TxType, nonce uint32, epoch uint16) *types.Transaction {
	return c14CeremonyTxSized(st, ns, r, from, t, nonce, epoch, 0)
}

// c14CeremonyTxSized: pad > 0 inflates the free-form part of the payload (answers / evidence
// bitmap) by that many bytes; the types stay well-formed for the validators.
func c14CeremonyTxSized(st *state.StateDB, ns int, r *verifutil.Rng, from *Actor, t types.TxType, nonce uint32, epoch uint16, pad int) *types.Transaction {
	var payload []byte
	switch t {
	case types.SubmitAnswersHashTx:
		payload = r.Bytes(common.HashLength)
	case types.SubmitShortAnswersTx:
		payload = attachments.CreateShortAnswerAttachment(r.Bytes(r.Range(1, 6)+pad), r.U64(), 0)
	case types.SubmitLongAnswersTx:
		seed := st.FlipWordsSeed()
		var proof []byte
		if signer, err := p256.NewVRFSigner(from.Key); err == nil {
			_, proof = signer.Evaluate(seed[:])
		}
		payload, _ = (&attachments.LongAnswerAttachment{Answers: r.Bytes(r.Range(1, 8) + pad), Proof: proof, Key: r.Bytes(32), Salt: r.Bytes(16)}).ToBytes()
	case types.EvidenceTx:
		payload = r.Bytes(r.Range(1, 12) + pad)
	}
	return c14TxAt(st, ns, from, t, nil, nil, payload, nonce, epoch, 30)
}

func c14ErrClass(err error) string {
	if err == nil {
		return "ok"
	}
	s := err.Error()
	switch {
	case err == mempool.DuplicateTxError:
		return "dup"
	case err == mempool.MempoolFullError:
		return "limit:mempool-full"
	case strings.Contains(s, "tx queue max size reached"):
		return "limit:total"
	case strings.Contains(s, "txs for address is full"):
		return "limit:address"
	case strings.Contains(s, "multiple ceremony transaction"):
		return "limit:ceremony-type"
	}
	return "rejected"
}

func c14Goroutines() string {
	buf := make([]byte, 4<<20)
	n := runtime.Stack(buf, true)
	return string(buf[:n])
}

// c14MempoolFrames keeps the goroutines of a dump that are inside the mempool (for replay data).
func c14MempoolFrames(dump string) string {
	var keep []string
	for _, g := range strings.Split(dump, "\n\n") {
		if strings.Contains(g, "core/mempool") {
			keep = append(keep, verifutil.Trunc(g, 1800))
		}
		if len(keep) >= 12 {
			break
		}
	}
	return strings.Join(keep, "\n\n")
}

// c14Watch runs f in its own goroutine and watches a progress counter: when it does not
// advance for stall, all goroutines are dumped and ok=false is returned; f is abandoned:
// *abort is set so that whatever part of it is not blocked winds down, and the watcher waits
// (bounded) for it, so that a retry does not share the simulator's globals with it.
func c14Watch(progress *int64, stall time.Duration, abort *int32, f func()) (ok bool, dump string, pnc interface{}, stack string) {
	type result struct {
		pnc   interface{}
		stack string
	}
	done := make(chan result, 1)
	go func() {
		p, st := verifutil.Catch(f)
		done <- result{p, st}
	}()
	last := atomic.LoadInt64(progress)
	lastChange := time.Now()
	tick := time.NewTicker(250 * time.Millisecond)
	defer tick.Stop()
	for {
		select {
		case r := <-done:
			return true, "", r.pnc, r.stack
		case <-tick.C:
			if cur := atomic.LoadInt64(progress); cur != last {
				last, lastChange = cur, time.Now()
			} else if time.Since(lastChange) > stall {
				dump = c14Goroutines()
				atomic.StoreInt32(abort, 1)
				select {
				case <-done:
				case <-time.After(15 * time.Second):
				}
				return false, dump, nil, ""
			}
		}
	}
}

func c14Stall() time.Duration {
	return time.Duration(envIntC14("VERIF_C14_STALL_S", 60)) * time.Second
}

func envIntC14(name string, def int) int {
	if v, err := strconv.Atoi(os.Getenv(name)); err == nil && v > 0 {
		return v
	}
	return def
}

// ------------------------------------------------------------------ sequential part

type c14Op struct {
	kind      string
	reset     *types.Block         // ResetTo(reset) ran during the op
	accepted  []*types.Transaction // single adds that returned nil while the pool had to add them
	submitted []*types.Transaction
}

type c14Seq struct {
	w    *World
	p, q *Replica
	pool *mempool.TxPool
	r    *verifutil.Rng
	out  *verifutil.Report
	sc   int
	seed uint64
	mp   *config.Mempool

	syncing   bool
	present   map[common.Hash]*types.Transaction
	deferred  map[common.Hash]bool
	removedEv []*types.Transaction
	senders   []*Actor
	rich      []*Actor
	cerProbed map[state.ValidationPeriod]bool
	log       []string
	opNo      int
	progress  *int64
	stop      bool
	segment   []string // op classes since the last block (distinctness of sequences)
	segPromo  bool
	segEvict  bool
	amountSeq int64
}

func (s *c14Seq) logf(format string, a ...interface{}) {
	s.log = append(s.log, fmt.Sprintf("#%d ", s.opNo)+fmt.Sprintf(format, a...))
	if len(s.log) > 60 {
		s.log = s.log[len(s.log)-60:]
	}
}

func (s *c14Seq) name(a common.Address) string {
	if ac, ok := s.w.ByAddr[a]; ok {
		return ac.Name
	}
	return fmt.Sprintf("%x", a[:4])
}

func (s *c14Seq) txStr(tx *types.Transaction) string {
	h := tx.Hash()
	return fmt.Sprintf("%s{%s n=%d e=%d %x}", TxName(tx.Type), s.name(senderOf(tx)), tx.AccountNonce, tx.Epoch, h[:4])
}

func (s *c14Seq) violation(sig, desc string, extra map[string]interface{}) {
	st := s.p.AppState.State
	data := map[string]interface{}{
		"scenario": s.sc, "scenario_seed": s.seed, "op": s.opNo, "recent_ops": append([]string{}, s.log...),
		"head": s.p.Head().Height(), "epoch": st.Epoch(), "period": int(st.ValidationPeriod()), "syncing": s.syncing,
		"mempool_cfg": fmt.Sprintf("%+v", *s.mp),
	}
	for k, v := range extra {
		data[k] = v
	}
	s.out.Violation(sig, fmt.Sprintf("scenario %d (seed %d) op %d: %s", s.sc, s.seed, s.opNo, desc), data)
}

func (s *c14Seq) state() *state.StateDB { return s.p.AppState.State }

// snapshot lists the pool through its public API.
func (s *c14Seq) snapshot() map[common.Hash]*types.Transaction {
	m := map[common.Hash]*types.Transaction{}
	for _, tx := range s.pool.GetPendingTransaction(true, true, common.MultiShard, false) {
		m[tx.Hash()] = tx
	}
	return m
}

func (s *c14Seq) remember(tx *types.Transaction) {}

// ---- generators

func (s *c14Seq) poolMaxNonce(a common.Address, epoch uint16) uint32 {
	n := c14Committed(s.state(), a)
	for _, tx := range s.present {
		if tx.Epoch == epoch && senderOf(tx) == a && tx.AccountNonce > n {
			n = tx.AccountNonce
		}
	}
	return n
}

func (s *c14Seq) pickNonce(a *Actor) (uint32, string) {
	st := s.state()
	c := c14Committed(st, a.Addr)
	switch s.r.Pick(30, 34, 26, 6, 4) {
	case 0:
		return c + 1, "next"
	case 1:
		return s.poolMaxNonce(a.Addr, st.Epoch()) + 1, "after-pool"
	case 2:
		return c + 1 + uint32(s.r.Range(1, 5)), "gap"
	case 3:
		if c > 0 {
			return c, "consumed"
		}
		return c + 1, "next"
	default:
		return s.poolMaxNonce(a.Addr, st.Epoch()) + 1 + uint32(s.r.Range(1, 3)), "gap-after-pool"
	}
}

func (s *c14Seq) pickEpoch() (uint16, string) {
	e := s.state().Epoch()
	switch s.r.Pick(88, 9, 3) {
	case 1:
		return e + 1, "+1"
	case 2:
		if e > 0 {
			return e - 1, "-1"
		}
	}
	return e, "cur"
}

func (s *c14Seq) amount() *big.Int {
	s.amountSeq++
	return new(big.Int).Add(big.NewInt(1e12), big.NewInt(s.amountSeq*1000+int64(s.r.Intn(1000))))
}

func (s *c14Seq) genTx() (*types.Transaction, string) {
	w := s.w
	st := s.state()
	period := st.ValidationPeriod()
	wCer := 0
	if period != state.NonePeriod {
		wCer = 40
	}
	wBig := 0
	if s.sc%3 == 0 { // large payloads only in every third scenario (they are what a leaked replica retains)
		wBig = 3
	}
	switch s.r.Pick(56, 14, wCer, wBig) {
	case 0: // plain transfer of a contended sender, any nonce / epoch relation
		from := s.senders[s.r.Intn(len(s.senders))]
		n, nk := s.pickNonce(from)
		e, ek := s.pickEpoch()
		if ek == "+1" {
			n, nk = uint32(s.r.Range(1, 3)), "fresh"
		}
		to := s.senders[s.r.Intn(len(s.senders))].Addr
		return c14Tx(w, from, types.SendTx, &to, s.amount(), nil, n, e, 30), fmt.Sprintf("send/%s/e%s", nk, ek)
	case 1: // any tx type incl. hostile variants (nonce from the committed state)
		if g := w.RandomTx(s.r, 30); g != nil && g.Tx != nil {
			return g.Tx, "menu:" + g.Kind
		}
		return nil, ""
	case 2: // priority ceremony types
		var cands []*Actor
		for _, a := range w.SortedActors() {
			if state.IsCeremonyCandidate(st.GetIdentity(a.Addr)) && a != w.Nodes[0] {
				cands = append(cands, a)
			}
		}
		if len(cands) == 0 {
			return nil, ""
		}
		from := cands[s.r.Intn(minInt(len(cands), 4))]
		t := c14PriorityTypes[s.r.Intn(len(c14PriorityTypes))]
		n, nk := s.pickNonce(from)
		return c14CeremonyTx(w, s.r, from, t, n, st.Epoch()), fmt.Sprintf("ceremony:%s/%s", TxName(t), nk)
	default: // large payload (block gas cap)
		from := s.rich[s.r.Intn(len(s.rich))]
		n := s.poolMaxNonce(from.Addr, st.Epoch()) + 1
		if s.r.Intn(5) == 0 {
			n = c14Committed(st, from.Addr) + 1
		}
		to := s.senders[0].Addr
		return c14Tx(w, from, types.SendTx, &to, s.amount(), s.r.Bytes(s.r.Range(60, 160)*1024), n, st.Epoch(), 12), "send/big"
	}
}

// gossip hands a tx to the other replicas' pools as well (they build blocks too).
func (s *c14Seq) gossip(tx *types.Transaction) {
	if s.r.Intn(100) < 55 {
		s.q.TxPool.AddExternalTxs(validation.InboundTx, tx)
	}
	if s.r.Intn(100) < 25 {
		s.w.Replicas[0].TxPool.AddExternalTxs(validation.InboundTx, tx)
	}
}

// ---- operations

func (s *c14Seq) opAdd() *c14Op {
	tx, kind := s.genTx()
	if tx == nil {
		return nil
	}
	s.remember(tx)
	op := &c14Op{kind: "add", submitted: []*types.Transaction{tx}}
	sender := senderOf(tx)
	own := sender == s.p.Owner.Addr
	var err error
	path := ""
	switch s.r.Pick(50, 25, 25) {
	case 0:
		path = "ext-inbound"
		err = s.pool.AddExternalTxs(validation.InboundTx, tx)
		if err == nil && (!s.syncing || own) {
			op.accepted = append(op.accepted, tx)
		}
	case 1:
		path = "ext-mempool"
		err = s.pool.AddExternalTxs(validation.MempoolTx, tx)
		if err == nil && (!s.syncing || own) {
			op.accepted = append(op.accepted, tx)
		}
	default:
		path = "internal"
		err = s.pool.AddInternalTx(tx)
		if err == nil && !s.syncing {
			op.accepted = append(op.accepted, tx)
		}
	}
	if s.syncing && !(own && path != "internal") {
		s.deferred[tx.Hash()] = true
		s.out.Count("sync_submissions", 1)
	}
	cls := c14ErrClass(err)
	s.out.Count("add:"+cls, 1)
	s.out.Count("add_path:"+path, 1)
	if strings.HasPrefix(cls, "limit:") {
		s.out.Count("limit_rejections", 1)
	}
	if validation.CeremonialTxs[tx.Type] {
		s.out.Count("priority_add:"+cls, 1)
	}
	s.logf("add %s %s [%s] -> %s (%v)", path, s.txStr(tx), kind, cls, err)
	s.segment = append(s.segment, "a:"+path+":"+strings.SplitN(kind, ":", 2)[0]+":"+cls)
	s.gossip(tx)
	return op
}

func (s *c14Seq) opBatch() *c14Op {
	n := s.r.Range(2, 6)
	var txs []*types.Transaction
	var kinds []string
	// a run of one sender (consecutive nonces, shuffled) mixed with unrelated txs
	from := s.senders[s.r.Intn(len(s.senders))]
	st := s.state()
	base := s.poolMaxNonce(from.Addr, st.Epoch())
	if s.r.Bool() {
		base = c14Committed(st, from.Addr)
	}
	for i := 0; i < n; i++ {
		if s.r.Intn(4) == 0 {
			if tx, k := s.genTx(); tx != nil {
				txs, kinds = append(txs, tx), append(kinds, k)
			}
			continue
		}
		to := s.senders[s.r.Intn(len(s.senders))].Addr
		txs = append(txs, c14Tx(s.w, from, types.SendTx, &to, s.amount(), nil, base+uint32(i)+1, st.Epoch(), 30))
		kinds = append(kinds, "send/run")
	}
	if len(txs) < 2 {
		return nil
	}
	perm := s.r.Perm(len(txs))
	sh := make([]*types.Transaction, len(txs))
	for i, j := range perm {
		sh[i] = txs[j]
	}
	for _, tx := range sh {
		s.remember(tx)
		if s.syncing && senderOf(tx) != s.p.Owner.Addr {
			s.deferred[tx.Hash()] = true
		}
	}
	tt := validation.InboundTx
	if s.r.Intn(3) == 0 {
		tt = validation.MempoolTx
	}
	err := s.pool.AddExternalTxs(tt, sh...)
	var d []string
	for _, tx := range sh {
		d = append(d, s.txStr(tx))
	}
	s.logf("batch type=%d %v -> %v", tt, d, err)
	s.out.Count("add_path:batch", 1)
	s.segment = append(s.segment, fmt.Sprintf("b:%d", len(sh)))
	for _, tx := range sh {
		s.gossip(tx)
	}
	return &c14Op{kind: "batch", submitted: sh}
}

// opConflict gives the OTHER proposer a tx that competes for a nonce this pool already holds.
func (s *c14Seq) opConflict() *c14Op {
	var mine []*types.Transaction
	for _, tx := range s.present {
		if tx.Type == types.SendTx && len(tx.Payload) == 0 && tx.Epoch == s.state().Epoch() {
			mine = append(mine, tx)
		}
	}
	if len(mine) == 0 {
		return nil
	}
	sort.Slice(mine, func(i, j int) bool { return string(mine[i].Hash().Bytes()) < string(mine[j].Hash().Bytes()) })
	v := mine[s.r.Intn(len(mine))]
	from := s.w.ByAddr[senderOf(v)]
	if from == nil {
		return nil
	}
	alt := c14Tx(s.w, from, types.SendTx, v.To, s.amount(), nil, v.AccountNonce, v.Epoch, 30)
	err := s.q.TxPool.AddExternalTxs(validation.InboundTx, alt)
	s.logf("conflict for %s given to %s only: %s -> %v", s.txStr(v), s.q.Name, s.txStr(alt), err)
	s.out.Count("conflicting_tx_to_other_proposer", 1)
	s.segment = append(s.segment, "c")
	return &c14Op{kind: "conflict"}
}

func (s *c14Seq) moveClock() {
	w := s.w
	st := s.state()
	now := w.Now()
	if ht := w.HeadTime(); now.Before(ht) {
		now = ht
	}
	if st.ValidationPeriod() == state.NonePeriod {
		nvt := st.NextValidationTime()
		lead := nvt.Sub(now)
		if lead > w.Opt.FlipLottery+6*time.Minute && s.r.Intn(14) == 0 {
			setClock(nvt.Add(-w.Opt.FlipLottery - time.Duration(s.r.Range(20, 200))*time.Second))
			s.out.Count("clock_jumps", 1)
			return
		}
	}
	setClock(now.Add(time.Duration(s.r.Range(8, 30)) * time.Second))
}

func (s *c14Seq) opBlock() *c14Op {
	s.moveClock()
	st := s.state()
	epochBefore, periodBefore := st.Epoch(), st.ValidationPeriod()
	res := s.w.NextBlock(12)
	if len(res.Errs) > 0 {
		// not this property's verdict (C02 decides it): stop the scenario
		s.out.Note("C14 scenario %d stopped at op %d: block %d refused (%v)", s.sc, s.opNo, res.Block.Height(), res.Errs)
		s.stop = true
		return nil
	}
	b := res.Block
	who := "empty"
	if res.Proposer != nil {
		who = res.Proposer.Name
		if res.Proposer == s.p {
			s.out.Count("blocks_built_from_this_pool", 1)
		} else {
			s.out.Count("blocks_built_elsewhere", 1)
		}
	}
	var d []string
	for _, tx := range b.Body.Transactions {
		d = append(d, s.txStr(tx))
	}
	st = s.state()
	s.logf("block h=%d by %s flags=%s txs=%v syncing=%v period %d->%d epoch %d->%d", b.Height(), who, flagStr(b.Header.Flags()), d, s.syncing, periodBefore, st.ValidationPeriod(), epochBefore, st.Epoch())
	s.out.Count("blocks", 1)
	s.out.Count(fmt.Sprintf("blocks_in_period_%d", st.ValidationPeriod()), 1)
	if st.Epoch() != epochBefore {
		s.out.Count("epoch_changes", 1)
	}
	op := &c14Op{kind: "block"}
	if !s.syncing {
		op.reset = b
	} else {
		s.out.Count("blocks_while_syncing", 1)
	}
	return op
}

func (s *c14Seq) opStartSync() *c14Op {
	if s.syncing {
		return nil
	}
	s.p.Chain.StartSync()
	s.syncing = true
	s.p.Observer = true // a syncing node does not propose
	s.logf("StartSync")
	s.out.Count("start_sync", 1)
	s.segment = append(s.segment, "S")
	return &c14Op{kind: "startsync"}
}

func (s *c14Seq) opStopSync() *c14Op {
	if !s.syncing {
		return nil
	}
	s.p.Chain.StopSync()
	s.syncing = false
	s.p.Observer = false
	head := s.p.Chain.GetBlock(s.p.Head().Hash())
	s.logf("StopSync (ResetTo head %d)", head.Height())
	s.out.Count("stop_sync", 1)
	s.segment = append(s.segment, "T")
	return &c14Op{kind: "stopsync", reset: head}
}

// opGasProbe fills the pool with large-payload transfers of the rich senders so that what is
// executable exceeds the block gas cap (the offered list is checked after every op anyway).
func (s *c14Seq) opGasProbe() *c14Op {
	st := s.state()
	if s.syncing {
		return nil
	}
	op := &c14Op{kind: "gasprobe"}
	var d []string
	submit := func(tx *types.Transaction) error {
		err := s.pool.AddExternalTxs(validation.MempoolTx, tx)
		op.submitted = append(op.submitted, tx)
		if err == nil {
			op.accepted = append(op.accepted, tx)
		} else if strings.HasPrefix(c14ErrClass(err), "limit:") {
			s.out.Count("limit_rejections", 1)
		}
		d = append(d, fmt.Sprintf("%s->%s", s.txStr(tx), c14ErrClass(err)))
		s.gossip(tx)
		return err
	}
	inCeremony := st.ValidationPeriod() != state.NonePeriod
	for _, from := range s.rich {
		for k := 0; k < 2; k++ {
			n := s.poolMaxNonceIncl(from.Addr, st.Epoch(), op.accepted) + 1
			to := s.senders[0].Addr
			submit(c14Tx(s.w, from, types.SendTx, &to, s.amount(), s.r.Bytes(s.r.Range(120, 150)*1024), n, st.Epoch(), 12))
		}
		// during a ceremony the big transfers are followed by a priority-type tx of the same
		// sender: the builder's priority phase pulls the whole chain in front of it, so the
		// block gas cap is crossed inside that phase
		if inCeremony && state.IsCeremonyCandidate(st.GetIdentity(from.Addr)) {
			off := s.r.Intn(len(c14PriorityTypes))
			for k := range c14PriorityTypes {
				t := c14PriorityTypes[(k+off)%len(c14PriorityTypes)]
				n := s.poolMaxNonceIncl(from.Addr, st.Epoch(), op.accepted) + 1
				if submit(c14CeremonyTx(s.w, s.r, from, t, n, st.Epoch())) == nil {
					s.out.Count("gasprobe_priority_tail", 1)
					break
				}
			}
		}
	}
	if inCeremony {
		s.out.Count("gasprobe_in_ceremony", 1)
		// large priority-type txs of further candidates: the priority tx itself is then the one
		// that crosses the cap
		v := s.w.View()
		ns := v.AppState.ValidatorsCache.NetworkSize()
		nBig := 0
		for _, a := range s.w.SortedActors() {
			if nBig >= 6 {
				break
			}
			if a == s.w.Nodes[0] || !state.IsCeremonyCandidate(st.GetIdentity(a.Addr)) {
				continue
			}
			off := s.r.Intn(len(c14PriorityTypes))
			for k := range c14PriorityTypes {
				t := c14PriorityTypes[(k+off)%len(c14PriorityTypes)]
				if t == types.SubmitAnswersHashTx {
					continue
				}
				n := s.poolMaxNonceIncl(a.Addr, st.Epoch(), op.accepted) + 1
				if submit(c14CeremonyTxSized(st, ns, s.r, a, t, n, st.Epoch(), s.r.Range(50, 120)*1024)) == nil {
					s.out.Count("gasprobe_big_priority_tx", 1)
					nBig++
					break
				}
			}
		}
	}
	s.logf("gasprobe %v", d)
	s.segment = append(s.segment, "g")
	return op
}

func (s *c14Seq) poolMaxNonceIncl(a common.Address, epoch uint16, extra []*types.Transaction) uint32 {
	n := s.poolMaxNonce(a, epoch)
	for _, tx := range extra {
		if tx.Epoch == epoch && senderOf(tx) == a && tx.AccountNonce > n {
			n = tx.AccountNonce
		}
	}
	return n
}

// opEpochMix: a sender the pool holds nothing of submits two current-epoch transfers that cannot
// both be paid (the second turns invalid once the first is mined) and, ahead of time, three
// transactions for the NEXT epoch. The first transfer also reaches the other proposers. When it is
// mined the second one may go; the next-epoch transactions have nothing to do with it.
func (s *c14Seq) opEpochMix() *c14Op {
	st := s.state()
	if s.syncing || st.ValidationPeriod() != state.NonePeriod {
		return nil
	}
	busy := map[common.Address]bool{}
	for _, tx := range s.present {
		busy[senderOf(tx)] = true
	}
	var from *Actor
	for _, a := range s.w.SortedActors() {
		if !busy[a.Addr] && a != s.p.Owner && a != s.q.Owner && a != s.w.God && c14Committed(st, a.Addr) <= 1 && st.GetBalance(a.Addr).Cmp(Dna(30)) > 0 {
			from = a
			if s.r.Intn(3) == 0 {
				break
			}
		}
	}
	if from == nil {
		return nil
	}
	op := &c14Op{kind: "epochmix"}
	n := c14Committed(st, from.Addr)
	bal := st.GetBalance(from.Addr)
	amt := new(big.Int).Div(new(big.Int).Mul(bal, big.NewInt(60)), big.NewInt(100))
	to := s.senders[0].Addr
	var txs []*types.Transaction
	for k := uint32(1); k <= 3; k++ {
		txs = append(txs, c14Tx(s.w, from, types.SendTx, &to, s.amount(), nil, k, st.Epoch()+1, 12))
	}
	t1 := c14Tx(s.w, from, types.SendTx, &to, amt, nil, n+1, st.Epoch(), 12)
	t2 := c14Tx(s.w, from, types.SendTx, &to, amt, nil, n+2, st.Epoch(), 12)
	txs = append(txs, t1, t2)
	var d []string
	okNext := 0
	for _, tx := range txs {
		err := s.pool.AddExternalTxs(validation.MempoolTx, tx)
		op.submitted = append(op.submitted, tx)
		if err == nil {
			op.accepted = append(op.accepted, tx)
			if tx.Epoch > st.Epoch() {
				okNext++
			}
		}
		d = append(d, fmt.Sprintf("%s->%s", s.txStr(tx), c14ErrClass(err)))
	}
	// only the first transfer reaches the other proposers
	s.q.TxPool.AddExternalTxs(validation.InboundTx, t1)
	s.w.Replicas[0].TxPool.AddExternalTxs(validation.InboundTx, t1)
	if okNext >= 2 {
		s.out.Count("epochmix_with_next_epoch_txs_in_pool", 1)
	}
	s.logf("epochmix %v", d)
	s.segment = append(s.segment, "x")
	return op
}

// opOrderProbe: k consecutive valid transfers of a sender the pool holds nothing of are
// submitted in a random order; after one ResetTo(head) (what StopSync performs) the pool must
// offer the whole run, whatever the arrival order was.
func (s *c14Seq) opOrderProbe() *c14Op {
	st := s.state()
	if s.syncing || st.ValidationPeriod() != state.NonePeriod {
		return nil
	}
	busy := map[common.Address]bool{}
	for _, tx := range s.present {
		busy[senderOf(tx)] = true
	}
	var from *Actor
	for _, a := range s.w.SortedActors() {
		if !busy[a.Addr] && a != s.p.Owner && a != s.q.Owner && st.GetBalance(a.Addr).Cmp(Dna(40)) > 0 {
			from = a
			if s.r.Intn(3) == 0 {
				break
			}
		}
	}
	if from == nil {
		return nil
	}
	k := s.r.Range(2, 5)
	base := c14Committed(st, from.Addr)
	var txs []*types.Transaction
	for i := 0; i < k; i++ {
		to := s.senders[0].Addr
		txs = append(txs, c14Tx(s.w, from, types.SendTx, &to, s.amount(), nil, base+uint32(i)+1, st.Epoch(), 30))
	}
	perm := s.r.Perm(k)
	inOrder := true
	accepted := map[uint32]bool{}
	op := &c14Op{kind: "orderprobe"}
	var d []string
	for i, j := range perm {
		if i > 0 && perm[i-1] > j {
			inOrder = false
		}
		tx := txs[j]
		s.remember(tx)
		err := s.pool.AddExternalTxs(validation.InboundTx, tx)
		op.submitted = append(op.submitted, tx)
		if err == nil {
			op.accepted = append(op.accepted, tx)
			accepted[tx.AccountNonce] = true
		} else if strings.HasPrefix(c14ErrClass(err), "limit:") {
			s.out.Count("limit_rejections", 1)
		}
		d = append(d, fmt.Sprintf("%s->%s", s.txStr(tx), c14ErrClass(err)))
	}
	s.logf("orderprobe sender=%s base=%d arrival=%v", from.Name, base, d)
	var queued []*types.Transaction
	for _, tx := range op.accepted {
		if _, pend := s.pool.VerifQueueOf(tx); pend {
			queued = append(queued, tx)
		}
	}
	// one ResetTo(head) through the official path
	s.p.Chain.StartSync()
	s.p.Chain.StopSync()
	op.reset = s.p.Chain.GetBlock(s.p.Head().Hash())
	for _, tx := range queued {
		if ex, _ := s.pool.VerifQueueOf(tx); ex {
			s.out.Count("promotions", 1)
			s.segPromo = true
		}
	}
	run := 0
	for accepted[base+uint32(run)+1] {
		run++
	}
	want := run
	if s.mp.TxPoolAddrExecutableLimit > 0 && want > s.mp.TxPoolAddrExecutableLimit {
		want = s.mp.TxPoolAddrExecutableLimit
	}
	// only when nothing can be cut by the gas cap
	gasAll := uint64(0)
	for _, tx := range s.pool.GetPendingTransaction(true, true, common.MultiShard, false) {
		gasAll += uint64(fee.CalculateGas(tx))
	}
	s.out.Count("order_probes", 1)
	if !inOrder {
		s.out.Count("order_probes_out_of_order", 1)
	}
	if gasAll > types.MaxBlockSize(s.p.Cfg.Consensus.EnableUpgrade11) {
		s.out.Count("order_probes_skipped_gas", 1)
		return op
	}
	offered := map[uint32]bool{}
	for _, tx := range s.pool.BuildBlockTransactions() {
		if senderOf(tx) == from.Addr {
			offered[tx.AccountNonce] = true
		}
	}
	for i := 0; i < want; i++ {
		if !offered[base+uint32(i)+1] {
			s.violation("order-dependence", fmt.Sprintf("sender %s: %d consecutive valid transfers (nonces %d..%d) were accepted in arrival order %v; after ResetTo(head) the pool offers nonces %v of this sender, nonce %d is missing (run accepted %d, per-address executable limit %d)",
				from.Name, run, base+1, base+uint32(run), d, keysU32(offered), base+uint32(i)+1, run, s.mp.TxPoolAddrExecutableLimit), nil)
			break
		}
	}
	if want > 0 {
		s.out.Count("order_probes_asserted", 1)
	}
	s.segment = append(s.segment, fmt.Sprintf("p:%v", perm))
	return op
}

func keysU32(m map[uint32]bool) []int {
	var l []int
	for k := range m {
		l = append(l, int(k))
	}
	sort.Ints(l)
	return l
}

// ---- the oracle, evaluated after every operation

func (s *c14Seq) inAddrList(cache map[common.Address]map[common.Hash]bool, tx *types.Transaction) bool {
	a := senderOf(tx)
	m, ok := cache[a]
	if !ok {
		m = map[common.Hash]bool{}
		for _, t := range s.pool.GetPendingByAddress(a) {
			m[t.Hash()] = true
		}
		cache[a] = m
	}
	return m[tx.Hash()]
}

func (s *c14Seq) check(op *c14Op, before map[common.Hash]*types.Transaction, queuesBefore map[common.Hash]bool) {
	after := s.snapshot()
	st := s.state()
	cache := map[common.Address]map[common.Hash]bool{}

	// (a) the three public views agree on membership
	consider := map[common.Hash]*types.Transaction{}
	for h, tx := range before {
		consider[h] = tx
	}
	for h, tx := range after {
		consider[h] = tx
	}
	for _, tx := range op.submitted {
		consider[tx.Hash()] = tx
	}
	if op.reset != nil {
		for _, tx := range op.reset.Body.Transactions {
			consider[tx.Hash()] = tx
		}
	}
	for h, tx := range consider {
		byHash := s.pool.GetTx(h) != nil
		byAddr := s.inAddrList(cache, tx)
		_, listed := after[h]
		if byHash != byAddr || byAddr != listed {
			s.violation("index-incoherent:"+op.kind, fmt.Sprintf("after %s the pool's views disagree on %s: GetTx=%v GetPendingByAddress=%v GetPendingTransaction=%v", op.kind, s.txStr(tx), byHash, byAddr, listed), nil)
			break
		}
	}

	// (b) a tx the pool accepted is retrievable
	for _, tx := range op.accepted {
		if _, ok := after[tx.Hash()]; !ok {
			// the only legal way out within the same op is the ResetTo of an order probe / none here
			if op.reset == nil || !s.justified(tx, op.reset, before) {
				s.violation("accepted-not-retrievable:"+op.kind, fmt.Sprintf("%s was accepted (nil error) but is not retrievable right after the call", s.txStr(tx)), nil)
			}
		}
	}

	// (c) a retrievable tx stays retrievable until it is included or made invalid
	for h, tx := range before {
		if _, ok := after[h]; ok {
			continue
		}
		if op.reset == nil {
			s.violation("lost:"+op.kind, fmt.Sprintf("%s was retrievable before %s and is gone after it although no block was applied to the pool", s.txStr(tx), op.kind), nil)
			continue
		}
		if !s.justified(tx, op.reset, before) {
			s.violation("lost-valid:"+op.kind, fmt.Sprintf("%s disappeared in ResetTo(block %d) although it is not in the block, has the current epoch, still validates against the new head and no lower nonce of its sender was invalid", s.txStr(tx), op.reset.Height()), nil)
		}
	}

	if op.reset != nil {
		// (d) none of the block's txs remains
		for _, tx := range op.reset.Body.Transactions {
			if _, ok := after[tx.Hash()]; ok || s.pool.GetTx(tx.Hash()) != nil {
				s.violation("block-tx-remains:"+op.kind, fmt.Sprintf("%s is in block %d but still retrievable after ResetTo", s.txStr(tx), op.reset.Height()), nil)
				break
			}
		}
		// (e) outside the validation sessions nothing stale remains
		if s.mp.ResetInCeremony || st.ValidationPeriod() <= state.FlipLotteryPeriod {
			s.out.Count("resets_outside_sessions", 1)
			ge := st.Epoch()
			for _, tx := range after {
				a := senderOf(tx)
				if tx.Epoch < ge {
					s.violation("past-epoch-remains:"+op.kind, fmt.Sprintf("%s (epoch %d) remains after ResetTo(block %d), chain epoch %d, period %d", s.txStr(tx), tx.Epoch, op.reset.Height(), ge, st.ValidationPeriod()), nil)
					break
				}
				if tx.Epoch == ge && st.GetEpoch(a) == ge && st.GetNonce(a) >= tx.AccountNonce {
					s.violation("consumed-nonce-remains:"+op.kind, fmt.Sprintf("%s remains after ResetTo(block %d) although the committed nonce of its sender is %d (period %d)", s.txStr(tx), op.reset.Height(), st.GetNonce(a), st.ValidationPeriod()), nil)
					break
				}
			}
		} else {
			s.out.Count("resets_inside_sessions", 1)
		}
		// coverage: promotions and evictions of this reset
		inBlock := map[common.Hash]bool{}
		for _, tx := range op.reset.Body.Transactions {
			inBlock[tx.Hash()] = true
		}
		for _, tx := range s.removedEv {
			if _, was := before[tx.Hash()]; was && !inBlock[tx.Hash()] {
				s.out.Count("evictions", 1)
				s.segEvict = true
			}
		}
		for h, wasPending := range queuesBefore {
			if tx, ok := after[h]; ok && wasPending {
				if ex, _ := s.pool.VerifQueueOf(tx); ex {
					s.out.Count("promotions", 1)
					s.segPromo = true
				}
			}
		}
		if op.kind == "stopsync" {
			for h := range s.deferred {
				if _, ok := after[h]; ok {
					if _, was := before[h]; !was {
						s.out.Count("sync_deferred_readded", 1)
					}
				}
			}
			s.deferred = map[common.Hash]bool{}
		}
	} else if len(s.removedEv) > 0 {
		s.violation("removal-without-reset:"+op.kind, fmt.Sprintf("the pool reported %d removal(s) during %s", len(s.removedEv), op.kind), nil)
	}

	// (f) the offered list
	list := s.pool.BuildBlockTransactions()
	if sig, desc := c14CheckOffer(list, st, types.MaxBlockSize(s.p.Cfg.Consensus.EnableUpgrade11)); sig != "" {
		var d []string
		for _, tx := range list {
			d = append(d, s.txStr(tx))
		}
		s.violation(sig, desc, map[string]interface{}{"offered": d})
	}
	if len(list) > 0 {
		s.out.Count("nonempty_offers", 1)
		gasOffered, gasAll := uint64(0), uint64(0)
		prio := false
		for _, tx := range list {
			gasOffered += uint64(fee.CalculateGas(tx))
			prio = prio || validation.CeremonialTxs[tx.Type]
		}
		for _, tx := range after {
			gasAll += uint64(fee.CalculateGas(tx))
		}
		if prio {
			s.out.Count("offers_with_priority_tx", 1)
		}
		if gasAll > types.MaxBlockSize(s.p.Cfg.Consensus.EnableUpgrade11) && len(list) < len(after) {
			s.out.Count("offers_with_pool_over_gas_cap", 1)
			if prio {
				s.out.Count("offers_over_gas_cap_with_priority_tx", 1)
			}
		}
		s.out.Max("max_offer_gas", int(gasOffered))
	}
	s.out.Max("max_pool_size", len(after))

	s.present = after
}

// justified: the repo's own ResetTo rules say the tx may go (conservative: any of them).
func (s *c14Seq) justified(tx *types.Transaction, b *types.Block, before map[common.Hash]*types.Transaction) bool {
	for _, t := range b.Body.Transactions {
		if t.Hash() == tx.Hash() {
			return true
		}
	}
	st := s.state()
	if tx.Epoch < st.Epoch() {
		return true
	}
	ro, err := s.p.AppState.Readonly(s.p.Head().Height())
	if err != nil {
		return true // cannot decide
	}
	if s.invalidAt(ro, tx) {
		return true
	}
	sender := senderOf(tx)
	for _, o := range before {
		if o.Epoch == tx.Epoch && o.AccountNonce <= tx.AccountNonce && senderOf(o) == sender && s.invalidAt(ro, o) {
			return true
		}
	}
	return false
}

func (s *c14Seq) invalidAt(ro *appstate.AppState, tx *types.Transaction) bool {
	minFeePerGas := fee.GetFeePerGasForNetwork(ro.ValidatorsCache.NetworkSize())
	var err error
	if p, _ := verifutil.Catch(func() { err = validation.ValidateTx(ro, tx, minFeePerGas, validation.MempoolTx) }); p != nil {
		return true
	}
	return err != nil
}

func (s *c14Seq) pendingQueueSnapshot() map[common.Hash]bool {
	m := map[common.Hash]bool{}
	for h, tx := range s.present {
		_, pend := s.pool.VerifQueueOf(tx)
		m[h] = pend
	}
	return m
}

func (s *c14Seq) step() {
	s.opNo++
	atomic.AddInt64(s.progress, 1)
	s.removedEv = nil
	before := s.present
	var op *c14Op
	var queues map[common.Hash]bool
	sel := s.r.Pick(52, 9, 4, 22, 3, 7, 5)
	if s.opNo == 45 || s.opNo == 400 {
		sel = 7 // twice per scenario: push the executable txs over the block gas cap
	}
	if s.opNo%60 == 30 {
		sel = 8 // current-epoch transfers that cannot both be paid + transactions for the next epoch
	}
	if per := s.state().ValidationPeriod(); per >= state.ShortSessionPeriod && !s.cerProbed[per] && !s.syncing {
		if s.cerProbed == nil {
			s.cerProbed = map[state.ValidationPeriod]bool{}
		}
		s.cerProbed[per] = true
		sel = 7 // and once in every session the scenario reaches (priority phase of the builder)
	}
	if sel == 3 || sel == 5 || sel == 6 {
		queues = s.pendingQueueSnapshot()
	}
	s.out.Progress("C14seq scenario %d seed %d op %d sel %d", s.sc, s.seed, s.opNo, sel)
	p, stack := verifutil.Catch(func() {
		switch sel {
		case 0:
			op = s.opAdd()
		case 1:
			op = s.opBatch()
		case 2:
			op = s.opConflict()
		case 3:
			op = s.opBlock()
		case 4:
			op = s.opStartSync()
		case 5:
			op = s.opStopSync()
		case 6:
			op = s.opOrderProbe()
		case 7:
			op = s.opGasProbe()
		case 8:
			op = s.opEpochMix()
		}
	})
	if p != nil {
		s.violation("panic:"+verifutil.TopRepoFrame(stack), fmt.Sprintf("panic during op class %d: %v", sel, p), map[string]interface{}{"stack": verifutil.Trunc(stack, 4000)})
		s.stop = true
		return
	}
	if op == nil {
		return
	}
	s.out.Eval(1)
	s.out.Count("op:"+op.kind, 1)
	if p, stack := verifutil.Catch(func() { s.check(op, before, queues) }); p != nil {
		s.violation("panic:"+verifutil.TopRepoFrame(stack), fmt.Sprintf("panic while observing the pool after %s: %v", op.kind, p), map[string]interface{}{"stack": verifutil.Trunc(stack, 4000)})
		s.stop = true
		return
	}
	if op.kind == "block" {
		if s.segPromo || s.segEvict {
			s.out.Distinct("seq", s.mp.TxPoolAddrExecutableLimit, s.mp.TxPoolAddrQueueLimit, s.mp.TxPoolQueueSlots, strings.Join(s.segment, " "), s.segPromo, s.segEvict)
			if len(s.segment) > 0 {
				s.out.Sample(map[string]interface{}{"part": "sequential", "ops_between_two_blocks": strings.Join(s.segment, " "), "promotion": s.segPromo, "eviction": s.segEvict})
			}
		}
		s.segment, s.segPromo, s.segEvict = nil, false, false
	}
}

func c14SeqOptions(sc int, seed uint64, r *verifutil.Rng) (Options, *config.Mempool) {
	mp := &config.Mempool{
		TxPoolQueueSlots:          r.Range(2, 5),
		TxPoolExecutableSlots:     r.Range(2, 6),
		TxPoolAddrQueueLimit:      r.Range(2, 6),
		TxPoolAddrExecutableLimit: r.Range(2, 6),
		TxLifetime:                3 * time.Hour,
		ResetInCeremony:           sc%4 == 3,
	}
	if sc%5 == 4 { // the default limits
		d := config.GetDefaultMempoolConfig()
		d.ResetInCeremony = mp.ResetInCeremony
		mp = d
	}
	o := Options{Seed: seed, NNodes: 2, NIdent: 7 + sc%3, NAccounts: 6, AllValidated: sc%2 == 0, GodIsIdentity: sc%3 == 1,
		ValidationInterval: time.Duration(18+sc%3*6) * time.Minute, FirstCeremonyIn: time.Duration(12+sc%4*3) * time.Minute,
		MempoolCfg: mp}
	o.StartTime = time.Date(2023, 8, 7+sc%7, 6+sc%13, 0, 0, 0, time.UTC)
	return o, mp
}

func c14RunSeq(rep *verifutil.Report, t *testing.T, sc int, nOps int, progress *int64, abort *int32) {
	seed := scenSeed(sc)*31 + 14
	r := verifutil.NewRng(seed, 14)
	o, mp := c14SeqOptions(sc, seed, r)
	w := NewWorld(o)
	defer w.Cleanup()
	if err := w.Prologue(); err != nil {
		rep.Inconcl("C14 sequential scenario %d: harness set-up failed: %v", sc, err)
		return
	}
	s := &c14Seq{w: w, p: w.Replicas[1], q: w.Replicas[2], r: r, out: rep, sc: sc, seed: seed, mp: mp,
		present: map[common.Hash]*types.Transaction{}, deferred: map[common.Hash]bool{}, progress: progress}
	s.pool = s.p.TxPool
	s.pool.VerifSetStatsCollector(&c14Collector{StatsCollector: collector.NewStatsCollector(), onRemove: func(tx *types.Transaction) { s.removedEv = append(s.removedEv, tx) }})
	s.senders = append(s.senders, w.Accounts[:4]...)
	s.senders = append(s.senders, w.Nodes[0]) // the pool's own address (coinbase)
	s.rich = []*Actor{w.God, w.Nodes[1], w.Nodes[0]}
	s.present = s.snapshot()
	for i := 0; i < nOps && !s.stop && atomic.LoadInt32(abort) == 0; i++ {
		s.step()
	}
	if atomic.LoadInt32(abort) != 0 {
		return
	}
	if s.syncing {
		s.p.Chain.StopSync()
	}
	rep.Count("seq_scenarios", 1)
	c14Release(w)
}

// c14Release drops what the simulator keeps per world in package-level variables (contract
// book-keeping, the shared in-memory content store with all block bodies), so that long
// tiers do not accumulate every world ever built.
func c14Release(w *World) {
	delete(contractsByWorld, w)
	theIpfs = nil
	// the push tracker's polling goroutines live forever and reference their pool (and through
	// it the whole replica); nothing is ever announced in the simulator, so they never look
	// at the holder again
	for _, r := range w.Replicas {
		r.TxPool.PushTracker().SetHolder(nil)
	}
}

func TestVerifC14Seq(t *testing.T) {
	if !verifutil.Enabled() {
		t.Skip("verif harness")
	}
	rep := verifutil.NewReport()
	defer rep.Write()
	nScen := envIntC14("VERIF_C14_NSCEN", verifutil.Scale(6, 80))
	nOps := verifutil.Scale(500, 900)
	for sc := 0; sc < nScen; sc++ {
		var progress int64
		var abort int32
		ok, dump, pnc, stack := c14Watch(&progress, c14Stall(), &abort, func() { c14RunSeq(rep, t, sc, nOps, &progress, &abort) })
		if pnc != nil {
			rep.Violation("panic:"+verifutil.TopRepoFrame(stack), fmt.Sprintf("sequential scenario %d: panic %v", sc, pnc), map[string]interface{}{"stack": verifutil.Trunc(stack, 4000)})
			continue
		}
		if ok {
			continue
		}
		// no operation completed for the stall period: dump, retry once
		at := atomic.LoadInt64(&progress)
		fmt.Printf("C14: sequential scenario %d stalled at op %d; goroutines:\n%s\n", sc, at, dump)
		var progress2 int64
		var abort2 int32
		ok2, dump2, _, _ := c14Watch(&progress2, c14Stall(), &abort2, func() { c14RunSeq(rep, t, sc, nOps, &progress2, &abort2) })
		if !ok2 {
			rep.Violation("deadlock", fmt.Sprintf("sequential scenario %d: no operation completed for %v at op %d, and again at op %d when the scenario was re-run", sc, c14Stall(), at, atomic.LoadInt64(&progress2)),
				map[string]interface{}{"scenario": sc, "op_first": at, "op_retry": atomic.LoadInt64(&progress2), "mempool_goroutines_first": c14MempoolFrames(dump), "mempool_goroutines_retry": c14MempoolFrames(dump2)})
		} else {
			rep.Inconcl("sequential scenario %d stalled for %v at op %d but the stall did not reproduce", sc, c14Stall(), at)
		}
		return // an abandoned goroutine may still hold the simulator's globals
	}
}
