package verifsim

// C15 — same-block sequence oracle ("a failed contract tx can be deleted from its block").
//
// The single-tx twins of c15_test.go evaluate every contract tx alone in a block, so state that
// leaks from a FAILED execution into a LATER transaction of the same block (one VM / one env
// serves a whole block) is invisible to them. Here the contract transactions of a batch - plus
// transactions built to fail and to succeed whose signers are chosen so that they come first /
// last - are put into ONE block B built by the real ProposeBlock of the observer. The receipts
// of B say which of them failed (F) and which succeeded (S). A second block B' is built on the
// same pre-state from the same pool WITHOUT the failed ones. Both are applied by the real
// validateBlock. Because a failed deploy / call / terminate "leaves no trace except the
// sender's nonce and the fee":
//
//   - the receipts of the S transactions are byte-identical in B and B';
//   - the two post-states differ only in what oracle (1) allows for a failed tx (c15Unexplained:
//     the F senders' accounts without their contract part, the proposer's account / identity,
//     the fee rate of Global): in particular no account, code, stake or store entry exists at
//     the would-be contract address of a failed deployment;
//   - every F sender ends with the nonce of its tx and paid at most MaxFee + tips;
//   - Σ(balances + stakes + contract stakes) after B <= after B'.
//
// Block order = ascending account nonce (the pool sorts by nonce only), signers are distinct:
// the harness fixes the order by re-signing with strictly increasing nonces and filling the
// nonce gap of a signer with plain self-transfers (they are part of B and B' alike).

import (
	"bytes"
	"fmt"
	"math/big"
	"sort"
	"strings"

	"github.com/idena-network/idena-go/blockchain/types"
	"github.com/idena-network/idena-go/blockchain/validation"
	"github.com/idena-network/idena-go/common"
	"github.com/idena-network/idena-go/verifutil"
)

const c15SeqMaxPad = 4     // self-transfers in front of a batch tx (else it is left out)
const c15SeqMaxPadEnd = 14 // ... in front of a tx that has to come last

var c15SeqPatterns = []string{"F,S", "S,F", "F,F,S", "F,S,F"}

func isContractTx(tx *types.Transaction) bool {
	return tx.Type == types.DeployContractTx || tx.Type == types.CallContractTx || tx.Type == types.TerminateContractTx
}

func c15Engine(kind string) string {
	switch {
	case kind == "none":
		return "none"
	case c15IsWasmKind(kind):
		return "wasm"
	}
	return "emb"
}

// c15FailClass = <tx kind>.<engine>:<why>, `why` from what the generator did to the tx and, for gas, from the receipt
func c15FailClass(a *C15Action, kind string, rc *types.TxReceipt) string {
	why := "state" // a well-formed tx the contract refuses in its current state (locked, no funds, not the owner, ...)
	switch {
	case strings.Contains(strings.ToLower(fmt.Sprint(rc.Error)), "gas"):
		why = "out-of-gas"
	case strings.HasPrefix(a.Shape, "mut:arg"):
		why = "args"
	case a.Shape == "mut:method" || a.Shape == "mut:caller" || a.Shape == "mut:amount" || a.Shape == "mut:code" || a.Shape == "mut:txtype":
		why = a.Shape[4:]
	case a.Shape == "mut:embedded-hash-with-code":
		why = "code"
	}
	return a.TxKind + "." + c15Engine(kind) + ":" + why
}

type seqTx struct {
	a    *C15Action
	kind string
	pos  int // position among the contract txs of the block
	rc   *types.TxReceipt
}

// EvalSeq evaluates one same-block sequence: `mid` are contract txs of distinct signers that
// were included when evaluated alone at this head (they keep their relative nonce order);
// signers of the controlled ends come from the generator.
func (x *c15Ctx) EvalSeq(j int, mid []*C15Action, rng *verifutil.Rng) {
	w, t, rep, g := x.w, x.twin, x.rep, x.gen
	t.enter()
	if !t.CanPropose() {
		return
	}
	pattern := c15SeqPatterns[j%len(c15SeqPatterns)]
	// ---- controlled ends, built with the sequence's own PRNG stream
	saved := g.R
	g.R = rng
	signers := g.SeqSigners()
	var first, last []*C15Action
	take := func(low bool) *Actor {
		if len(signers) == 0 {
			return nil
		}
		var a *Actor
		if low {
			a, signers = signers[0], signers[1:]
		} else {
			a, signers = signers[len(signers)-1], signers[:len(signers)-1]
		}
		return a
	}
	fill := func(fail, low bool, n int) {
		from := take(low)
		if from == nil {
			return
		}
		var a *C15Action
		if fail {
			for k := 0; k < 3 && a == nil; k++ {
				a = g.SeqFail(j+n*5+k*3, from) // (4 patterns, 11 failure classes: every combination within 44 steps)
			}
		} else {
			a = g.SeqOk(j, from)
		}
		if a == nil {
			return
		}
		if low {
			first = append(first, a)
		} else {
			last = append(last, a)
		}
	}
	switch pattern {
	case "F,S":
		fill(true, true, 0)
		fill(false, false, 0)
	case "S,F":
		fill(false, true, 0)
		fill(true, false, 0)
	case "F,F,S":
		fill(true, true, 0)
		fill(true, true, 1)
		fill(false, false, 0)
	case "F,S,F":
		fill(true, true, 0)
		fill(false, false, 0)
		fill(true, false, 1)
	}
	g.R = saved

	// ---- desired order, strictly increasing nonces
	mid = append([]*C15Action{}, mid...)
	sort.SliceStable(mid, func(i, k int) bool { return mid[i].Tx.AccountNonce < mid[k].Tx.AccountNonce })
	type placed struct {
		a   *C15Action
		end bool
	}
	var want []placed
	for _, a := range first {
		want = append(want, placed{a, true})
	}
	for _, a := range mid {
		want = append(want, placed{a, false})
	}
	// "S last" really is last; in F,S,F the final F follows it
	for _, a := range last {
		want = append(want, placed{a, true})
	}
	ep := t.AppState.State.Epoch()
	feeRate := t.AppState.State.FeePerGas()
	pad := func(from *Actor, nonce uint32) *types.Transaction {
		to := from.Addr
		return SignedTx(from, types.SendTx, &to, big.NewInt(1), new(big.Int).Add(new(big.Int).Mul(feeRate, big.NewInt(40000)), big.NewInt(1000)), nil, nonce, ep, nil)
	}
	var pool []*types.Transaction
	byHash := map[common.Hash]*C15Action{}
	seen := map[common.Address]bool{}
	cur := uint32(0)
	for _, p := range want {
		a := p.a
		if seen[a.From.Addr] {
			continue
		}
		base := w.StateNonce(a.From)
		n := base
		if n <= cur {
			n = cur + 1
		}
		limit := c15SeqMaxPad
		if p.end {
			limit = c15SeqMaxPadEnd
		}
		if int(n-base) > limit || !p.end && a.Tx.AccountNonce != base {
			rep.Count("seq_tx_left_out", 1)
			continue
		}
		seen[a.From.Addr] = true
		for k := base; k < n; k++ {
			pool = append(pool, pad(a.From, k))
			rep.Count("seq_pad_txs", 1)
		}
		a = a.Resign(n)
		pool = append(pool, a.Tx)
		byHash[a.Tx.Hash()] = a
		cur = n
	}
	if len(byHash) < 2 {
		rep.Count("seq_too_small", 1)
		return
	}
	clear := func() {
		for _, old := range t.TxPool.VerifAll() {
			t.TxPool.Remove(old)
		}
	}
	offer := func(txs []*types.Transaction) {
		clear()
		for _, tx := range txs {
			if err := t.TxPool.AddExternalTxs(validation.InboundTx, tx); err != nil {
				if e2 := t.TxPool.VerifForcePut(tx); e2 != nil {
					rep.Count("seq_pool_refused", 1)
				}
			}
		}
	}
	replay := map[string]interface{}{"pattern": pattern, "head": t.Head().Height(), "scenario_seed": w.Opt.Seed, "step": g.Step}
	rep.Count("seq_attempted", 1)

	// ---- B: everything
	offer(pool)
	b1 := t.Chain.ProposeBlock(nil).Block
	clear()
	post1, rcs1, err := t.Chain.VerifValidateOnCheck(b1)
	var desc []string
	for _, tx := range b1.Body.Transactions {
		if a := byHash[tx.Hash()]; a != nil {
			desc = append(desc, a.Describe())
		} else {
			desc = append(desc, fmt.Sprintf("%s nonce=%d (nonce filler)", TxName(tx.Type), tx.AccountNonce))
		}
	}
	replay["block_txs"] = desc
	if err != nil {
		rep.Violation("nondeterministic:seq-block", fmt.Sprintf("the block ProposeBlock built from %d contract txs of distinct signers is refused by validateBlock on the same state: %v", len(byHash), err), replay)
		return
	}
	var seq []*seqTx
	var keep []*types.Transaction
	ri := 0
	for _, tx := range b1.Body.Transactions {
		if !isContractTx(tx) {
			keep = append(keep, tx)
			continue
		}
		a := byHash[tx.Hash()]
		if a == nil || ri >= len(rcs1) || rcs1[ri].TxHash != tx.Hash() {
			rep.Violation("receipt-count:seq-block", fmt.Sprintf("block with %d contract txs: receipts %d do not line up with the transactions", len(byHash), len(rcs1)), replay)
			return
		}
		s := &seqTx{a: a, kind: x.kindOf(a), pos: len(seq), rc: rcs1[ri]}
		ri++
		seq = append(seq, s)
		if s.rc.Success {
			keep = append(keep, tx)
		}
	}
	var fs, ss []*seqTx
	var views []interface{}
	for _, s := range seq {
		if s.rc.Success {
			ss = append(ss, s)
		} else {
			fs = append(fs, s)
		}
		views = append(views, c15ReceiptView(s.rc))
	}
	replay["receipts"] = views
	rep.Count("seq_blocks", 1)
	rep.Count("seq_contract_txs", len(seq))
	if len(fs) == 0 {
		rep.Count("seq_blocks_without_failure", 1)
		return
	}
	rep.Eval(1)

	// ---- B': the same pool without the failed ones
	offer(keep)
	b0 := t.Chain.ProposeBlock(nil).Block
	clear()
	var got []common.Hash
	for _, tx := range b0.Body.Transactions {
		if isContractTx(tx) {
			got = append(got, tx.Hash())
		}
	}
	same := len(got) == len(ss) && len(b0.Body.Transactions) == len(keep)
	for i := 0; same && i < len(got); i++ {
		same = got[i] == ss[i].a.Tx.Hash()
	}
	if !same {
		// (e.g. the block was cut at the gas limit) - nothing can be concluded from this pair
		rep.Count("seq_twin_unusable", 1)
		return
	}
	post0, rcs0, err := t.Chain.VerifValidateOnCheck(b0)
	if err != nil {
		rep.Violation("nondeterministic:seq-block", fmt.Sprintf("the block ProposeBlock built from the %d succeeding contract txs alone is refused by validateBlock on the same state: %v", len(ss), err), replay)
		return
	}
	rep.Count("seq_pairs", 1)
	coinbase := b1.Header.Coinbase()

	// ---- the successful transactions did not notice the failed ones
	if len(rcs0) != len(ss) {
		rep.Violation("receipt-count:seq-block", fmt.Sprintf("block with %d contract txs produced %d receipts", len(ss), len(rcs0)), replay)
		return
	}
	for i, s := range ss {
		r1, _ := types.TxReceipts{s.rc}.ToBytes()
		r0, _ := types.TxReceipts{rcs0[i]}.ToBytes()
		if !bytes.Equal(r0, r1) {
			rep.Violation("seq-success-receipt-changed:"+s.kind+":"+s.a.Method, fmt.Sprintf("the receipt of the successful %s depends on FAILED contract txs in the same block: with them %v, without them %v",
				s.a.Describe(), c15ReceiptView(s.rc), c15ReceiptView(rcs0[i])), replay)
			break
		}
	}
	rep.Count("seq_success_receipts_compared", len(ss))

	// ---- the failed ones left no trace
	s0, s1 := C15StateKV(post0), C15StateKV(post1)
	diff := c15DiffKeys(s0, s1)
	var senders []common.Address
	for _, f := range fs {
		senders = append(senders, f.a.From.Addr)
	}
	attribute := func(k string) *seqTx {
		// whose would-be contract address (or target) is the key about?
		b := []byte(k)
		if len(b) >= 21 {
			ad := c15AddrOf(b[1:21])
			for _, f := range fs {
				if f.rc.ContractAddress == ad || f.a.Tx.To != nil && *f.a.Tx.To == ad {
					return f
				}
			}
		}
		if len(fs) == 1 {
			return fs[0]
		}
		return nil
	}
	sigOf := func(f *seqTx) string {
		if f == nil {
			return "several-failed-txs"
		}
		return f.kind + ":" + f.a.Method
	}
	if post0.ValidatorsCache.IsPool(coinbase) || t.AppState.ValidatorsCache.IsPool(coinbase) {
		rep.Count("seq_skipped_pool_proposer", 1)
	} else {
		foreign, senderContract := c15Unexplained(diff, s0, s1, senders, coinbase)
		for _, k := range senderContract {
			rep.Violation("seq-failure-left-trace:"+sigOf(attribute(k)), fmt.Sprintf("a failed contract tx changed the contract part of its sender's account %s", c15DescribeKey(k)), replay)
		}
		if len(foreign) > 0 {
			k := foreign[0]
			f := attribute(k)
			var fd []string
			for _, q := range foreign {
				fd = append(fd, c15DescribeKey(q))
			}
			what := "one of the failed txs"
			if f != nil {
				what = fmt.Sprintf("failed %s (%v)", f.a.Describe(), f.rc.Error)
			}
			rep.Violation("seq-failure-left-trace:"+sigOf(f), fmt.Sprintf("block [%s] versus the same block without its %d FAILED contract txs: the states differ in %s (without=%x with=%x; all unexplained keys: %v); %s left a trace that a later tx of the block committed",
				c15SeqShape(seq), len(fs), c15DescribeKey(k), trunc(s0[k], 48), trunc(s1[k], 48), fd, what), replay)
		}
		if post0.IdentityState.Root() != post1.IdentityState.Root() {
			rep.Violation("seq-failure-left-trace:identity-state", fmt.Sprintf("block [%s]: the failed contract txs changed the identity-state tree", c15SeqShape(seq)), replay)
		}
	}
	for _, f := range fs {
		tx := f.a.Tx
		tag := f.kind + ":" + f.a.Method
		// a failed deployment leaves nothing at its would-be address, whatever came after it
		if tx.Type == types.DeployContractTx && post0.State.GetCodeHash(f.rc.ContractAddress) == nil && post1.State.GetCodeHash(f.rc.ContractAddress) != nil {
			rep.Violation("seq-failed-deploy-exists:"+tag, fmt.Sprintf("block [%s]: the deployment %s FAILED (%v) but the contract %x exists after the block (stake %v)", c15SeqShape(seq), f.a.Describe(), f.rc.Error,
				f.rc.ContractAddress[:4], post1.State.GetContractStake(f.rc.ContractAddress)), replay)
		}
		if n := post1.State.GetNonce(f.a.From.Addr); n != tx.AccountNonce {
			rep.Violation("failure-nonce:"+tag, fmt.Sprintf("failed %s in a block of %d contract txs: sender nonce %d after the block, tx nonce %d", f.a.Describe(), len(seq), n, tx.AccountNonce), replay)
		}
		dec := new(big.Int).Sub(post0.State.GetBalance(f.a.From.Addr), post1.State.GetBalance(f.a.From.Addr))
		if f.a.From.Addr == coinbase {
			// the signer of the failed tx is the proposer of both blocks: its balance also carries its share of the
			// fees of ALL failed txs of the block, so it may well be higher with them than without them
			rep.Count("seq_fee_bound_skipped_sender_is_proposer", 1)
		} else if bound := new(big.Int).Add(tx.MaxFeeOrZero(), tx.TipsOrZero()); dec.Cmp(bound) > 0 || dec.Sign() < 0 {
			rep.Violation("fee-bound:sender-charged-over-maxfee:"+tag, fmt.Sprintf("failed %s in a block of %d contract txs: the sender's balance is %v lower than in the block without it, MaxFee %v + tips %v", f.a.Describe(), len(seq), dec,
				tx.MaxFeeOrZero(), tx.TipsOrZero()), replay)
		}
		rep.Count("oracle1_failures_checked_in_sequence", 1)
	}
	l0, l1 := LedgerOf(post0), LedgerOf(post1)
	if l1.Total.Cmp(l0.Total) > 0 {
		rep.Violation("conservation:seq-block", fmt.Sprintf("block [%s]: Σ(balance+stake+contract stake) with the failed txs %v > without them %v (+%v)", c15SeqShape(seq), l1.Total, l0.Total, new(big.Int).Sub(l1.Total, l0.Total)),
			map[string]interface{}{"case": replay, "diff": LedgerDiff(l0, l1)})
	}

	// ---- what was observed
	shape := c15SeqShape(seq)
	rep.Count("seq_shape_len:"+fmt.Sprint(minInt(len(seq), 8)), 1)
	pairs := map[string]bool{}
	for _, f := range fs {
		fc := c15FailClass(f.a, f.kind, f.rc)
		after, before, failedBefore := 0, 0, 0
		for _, s := range ss {
			sk := s.a.TxKind + "." + c15Engine(s.kind)
			if s.pos > f.pos {
				after++
				pairs["seq_FS:"+fc+">"+sk] = true
				pairs["seq_FS_engines:"+c15Engine(f.kind)+">"+c15Engine(s.kind)] = true
				pairs["seq_FS_success_kind:"+sk] = true
			} else {
				before++
				pairs["seq_SF:"+sk+">"+fc] = true
				pairs["seq_SF_engines:"+c15Engine(s.kind)+">"+c15Engine(f.kind)] = true
			}
		}
		for _, f2 := range fs {
			if f2.pos < f.pos {
				failedBefore++
			}
		}
		if after > 0 {
			pairs["seq_F_then_S:"+fc] = true
			rep.Count("seq_failed_followed_by_success", 1)
			if failedBefore > 0 {
				pairs["seq_FFS"] = true
			}
		}
		if before > 0 {
			pairs["seq_S_then_F:"+fc] = true
			rep.Count("seq_failed_preceded_by_success", 1)
		}
		if after > 0 && before > 0 {
			pairs["seq_SFS"] = true
		}
	}
	for k := range pairs {
		rep.Count(k, 1)
	}
	rep.Distinct("seq", shape)
	if rep.Get("samples_seq") < 4 && len(fs) > 0 && len(ss) > 0 {
		rep.Count("samples_seq", 1)
		var dk []string
		for _, k := range diff {
			dk = append(dk, c15DescribeKey(k))
		}
		rep.Sample(map[string]interface{}{"sequence": shape, "block_txs": desc, "receipts": views, "state_keys_differing_with_vs_without_the_failed_txs": dk})
	}
}

// c15SeqShape renders a block as e.g. "F(Deploy.emb:args) S(Call.emb) S(Deploy.wasm)"
func c15SeqShape(seq []*seqTx) string {
	var l []string
	for _, s := range seq {
		if s.rc.Success {
			l = append(l, "S("+s.a.TxKind+"."+c15Engine(s.kind)+")")
		} else {
			l = append(l, "F("+c15FailClass(s.a, s.kind, s.rc)+")")
		}
	}
	return strings.Join(l, " ")
}
