package verifsim

import (
	"fmt"
	"os"
	"testing"
	"time"

	"github.com/idena-network/idena-go/blockchain/attachments"
	"github.com/idena-network/idena-go/blockchain/types"
	"github.com/idena-network/idena-go/common"
	"github.com/idena-network/idena-go/verifutil"
	"github.com/golang/protobuf/proto"
	wasmmodels "github.com/idena-network/idena-wasm-binding/lib/protobuf"
)

func TestVerifC15Probe(t *testing.T) {
	if !verifutil.Enabled() || os.Getenv("C15_PROBE") == "" {
		t.Skip("probe")
	}
	rep := verifutil.NewReport()
	defer rep.Write()
	w := NewWorld(Options{Seed: 7, NNodes: 1, NIdent: 20, NAccounts: 5, AllValidated: true, FirstCeremonyIn: 24 * 400 * time.Hour})
	twin := w.AddTwin()
	if err := w.Prologue(); err != nil {
		t.Fatal(err)
	}
	g := NewC15Gen(w, twin, verifutil.NewRng(1, 2))
	for _, r := range w.Replicas {
		r.Cfg.IsDebug = os.Getenv("C15_DEBUG") != ""
	}
	if err := g.Fund(Dna(20000)); err != nil {
		t.Fatal(err)
	}
	fmt.Println("network", w.View().AppState.ValidatorsCache.NetworkSize(), "feePerGas", w.View().AppState.State.FeePerGas())
	owner := w.Accounts[0]
	run := func(name string, tx *types.Transaction) *TwinResult {
		t0 := time.Now()
		tr, err := w.Twin(twin, tx, false)
		d := time.Since(t0)
		if err != nil || tr == nil || !tr.Included {
			fmt.Printf("%s: err=%v tr=%+v\n", name, err, tr)
			return nil
		}
		r := tr.Receipts[0]
		st, _ := c15WalkAction(r.ActionResult)
		if len(r.ActionResult) > 0 {
			var ar wasmmodels.ActionResult
			if proto.Unmarshal(r.ActionResult, &ar) == nil {
				var pr func(a *wasmmodels.ActionResult, ind string)
				pr = func(a *wasmmodels.ActionResult, ind string) {
					ia := a.InputAction
					if ia != nil {
						fmt.Printf("%sACTION type=%d method=%q gaslimit=%d amount=%x ok=%v err=%q gasUsed=%d remaining=%d out=%q\n", ind, ia.ActionType, ia.Method, ia.GasLimit, ia.Amount, a.Success, a.Error, a.GasUsed, a.RemainingGas, verifutil.Trunc(string(a.OutputData), 40))
					}
					for _, s := range a.SubActionResults {
						pr(s, ind+"   ")
					}
				}
				pr(&ar, "  ")
			}
		}
		fmt.Printf("%s: success=%v gasUsed=%d gasCost=%v err=%v events=%d sub=%+v time=%v addr=%x\n", name, r.Success, r.GasUsed, r.GasCost, r.Error, len(r.Events), st, d, r.ContractAddress[:4])
		return tr
	}
	commit := func(tx *types.Transaction) {
		if err := w.Submit(tx); err != nil {
			fmt.Println("submit refused:", err)
		}
		w.Tick(20 * time.Second)
		res := w.NextBlock(0)
		for n, e := range res.Errs {
			t.Fatalf("block refused by %s: %v", n, e)
		}
		rc := w.View().Chain.GetReceipt(tx.Hash())
		if rc == nil {
			fmt.Println("  not in chain")
		} else {
			fmt.Printf("  chain: success=%v gas=%d err=%v\n", rc.Success, rc.GasUsed, rc.Error)
		}
	}
	addrs := map[string]common.Address{}
	for _, kind := range c15WasmKinds {
		var args [][]byte
		switch kind {
		case kSum:
			a := addrs[kInc]
			args = [][]byte{a.Bytes()}
		case kSft:
			args = [][]byte{owner.Addr.Bytes(), common.Address{0xA}.Bytes()}
		}
		att := attachments.CreateDeployContractAttachment(common.Hash{}, c15WasmCode[kind], []byte{1}, args...)
		pl, _ := att.ToBytes()
		tx := g.signed(owner, types.DeployContractTx, nil, Dna(0), pl, "max", true, nil)
		tr := run("deploy "+kind, tx)
		if tr != nil {
			addrs[kind] = tr.Receipts[0].ContractAddress
			commit(tx)
		}
	}
	call := func(kind, method string, amount int64, args ...[]byte) {
		att := attachments.CreateCallContractAttachment(method, args...)
		pl, _ := att.ToBytes()
		a := addrs[kind]
		tx := g.signed(owner, types.CallContractTx, &a, Dna(amount), pl, "max", true, nil)
		if run("call "+kind+"."+method, tx) != nil {
			commit(tx)
		}
	}
	dst := w.Accounts[1].Addr
	dump := func(a common.Address) {
		st := w.View().AppState.State
		fmt.Printf("  %x balance=%v\n", a[:4], st.GetBalance(a))
		st.IterateContractStore(a, nil, nil, func(key, value []byte) bool {
			fmt.Printf("    %q = %q\n", string(key), verifutil.Trunc(string(value), 200))
			return false
		})
	}
	{
		att := attachments.CreateDeployContractAttachment(common.Hash{}, c15WasmCode[kSft], []byte{2}, owner.Addr.Bytes(), owner.Addr.Bytes())
		pl, _ := att.ToBytes()
		tx := g.signed(owner, types.DeployContractTx, nil, Dna(3), pl, "max", true, nil)
		tr := run("deploy sft(owner,owner)", tx)
		commit(tx)
		addrs["sft2"] = tr.Receipts[0].ContractAddress
		dump(addrs["sft2"])
		dump(addrs[kSft])
	}
	call("sft2", "getBalance", 0)
	call("sft2", "_addBalance", 0, common.Big1.Bytes())
	call("sft2", "_addBalance", 0, []byte("1000"))
	dump(addrs["sft2"])
	call("sft2", "transferTo", 0, dst.Bytes(), common.Big1.Bytes())
	call("sft2", "transferTo", 0, dst.Bytes(), []byte("1"))
	dump(addrs["sft2"])
	call(kSft, "receive", 0, common.Big1.Bytes(), owner.Addr.Bytes())
	call(kCases, "test", 900, common.ToBytes(uint32(1)), c15WasmCode[kInc])
	_ = dst
	for k, a := range addrs {
		st := w.View().AppState.State
		fmt.Printf("%s %x balance=%v stake=%v\n", k, a[:4], st.GetBalance(a), st.GetContractStake(a))
		st.IterateContractStore(a, nil, nil, func(key, value []byte) bool {
			fmt.Printf("    %q = %x\n", string(key), verifutil.Trunc(string(value), 60))
			return false
		})
	}
	w.Cleanup()
}
