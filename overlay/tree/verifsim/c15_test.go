package verifsim

// C15 — contract execution (embedded and WASM) is atomic, pays for itself and cannot
// overspend. Monitor = twin blocks + receipts: every generated deploy/call/terminate is
// evaluated as a single-tx block against its tx-free twin (both built by the real
// ProposeBlock, both applied by the real validateBlock) and the five oracles of
// DESIGN.md §C15 are applied to the two post-states and the receipt; the same transactions
// also go into the real multi-replica chain so that contract state accumulates.

import (
	"bytes"
	"fmt"
	"math/big"
	"os"
	"strconv"
	"strings"
	"syscall"
	"testing"
	"time"

	"github.com/idena-network/idena-go/blockchain/attachments"
	"github.com/idena-network/idena-go/blockchain/types"
	"github.com/idena-network/idena-go/blockchain/validation"
	"github.com/idena-network/idena-go/common"
	math2 "github.com/idena-network/idena-go/common/math"
	"github.com/idena-network/idena-go/config"
	"github.com/idena-network/idena-go/core/state"
	"github.com/idena-network/idena-go/crypto"
	"github.com/idena-network/idena-go/verifutil"
	"github.com/shopspring/decimal"
)

// the Rust WASM runtime only provides the `env.debug` import the bundled contracts need when
// the node runs with IsDebug=true, and then prints every code blob to fd 1: send fd 1 to
// /dev/null for this process (violations and panics go to stderr, results to the result file)
func c15SilenceStdout() {
	if os.Getenv("C15_KEEP_STDOUT") != "" {
		return
	}
	if f, err := os.OpenFile("/dev/null", os.O_WRONLY, 0); err == nil {
		syscall.Dup2(int(f.Fd()), 1)
	}
}

// a set-up step of the harness itself failed: the run says nothing about the property
func c15Fatal(t *testing.T, rep *verifutil.Report, format string, args ...interface{}) {
	rep.Inconcl("harness set-up failed: "+format, args...)
	t.Fatalf(format, args...)
}

type c15Outcome struct {
	Included bool
	Success  bool
	GasUsed  uint64
	Err      string
	Kind     string
	// addresses without code (in the state WITHOUT the tx) at which the execution tried to create a contract:
	// the top-level deployment's own address and every sub-deployment of the action tree
	Creates []common.Address
}

type c15Ctx struct {
	w    *World
	twin *Replica
	rep  *verifutil.Report
	gen  *C15Gen
	K    int
}

func c15ErrClass(err error) string {
	if err == nil {
		return "ok"
	}
	s := err.Error()
	if i := strings.Index(s, ", filename"); i > 0 {
		s = s[:i]
	}
	for _, p := range []string{"Error calling the VM: ", "RuntimeError: ", "Error in wasm module: ", "backend error: "} {
		s = strings.ReplaceAll(s, p, "")
	}
	s = reHex.ReplaceAllString(s, "#")
	if len(s) > 70 {
		s = s[:70]
	}
	return s
}

// revalidate B K-1 more times on fresh check states: every execution must accept and give
// byte-identical receipts (oracle 5).
func (x *c15Ctx) deterministic(b *types.Block, first types.TxReceipts, sig, what string, replay interface{}) bool {
	ref, _ := first.ToBytes()
	for i := 1; i < x.K; i++ {
		x.twin.enter()
		_, rc, err := x.twin.Chain.VerifValidateOnCheck(b)
		x.rep.Count("reexecutions", 1)
		if err != nil {
			x.rep.Violation(sig, fmt.Sprintf("%s: re-execution %d of the same block on the same state is refused: %v (execution 0 accepted it)", what, i, err), replay)
			return false
		}
		rb, _ := rc.ToBytes()
		if !bytes.Equal(ref, rb) {
			x.rep.Violation(sig, fmt.Sprintf("%s: re-execution %d of the same block on the same state produced different receipt bytes", what, i), replay)
			return false
		}
	}
	return true
}

func c15ReceiptView(rc *types.TxReceipt) map[string]interface{} {
	var ev []string
	for _, e := range rc.Events {
		var as []string
		for _, d := range e.Data {
			as = append(as, fmt.Sprintf("%x", trunc(d, 20)))
		}
		ev = append(ev, e.EventName+"("+strings.Join(as, ",")+")")
	}
	return map[string]interface{}{"success": rc.Success, "gasUsed": rc.GasUsed, "gasCost": bigOrZero(rc.GasCost).String(), "error": fmt.Sprint(rc.Error), "method": rc.Method,
		"contract": rc.ContractAddress.Hex(), "events": ev}
}

// kindOf: contract type from the PRE-state (authoritative), the generator's belief only for deployments
func (x *c15Ctx) kindOf(a *C15Action) string {
	tx := a.Tx
	kind := a.Kind
	if tx.To != nil && tx.Type != types.DeployContractTx {
		kind = c15Versioned(c15KindOfHash(x.twin.AppState.State.GetCodeHash(*tx.To)), x.w.Cons.EnableUpgrade10)
	} else if tx.Type == types.DeployContractTx {
		if att := attachments.ParseDeployContractAttachment(tx); att != nil && len(att.Code) > 0 {
			h := common.Hash(crypto.Hash(att.Code))
			kind = c15KindOfHash(&h)
		}
	}
	return kind
}

// c15Unexplained is the core of oracle (1): given the keys in which the state after a block WITH
// failed contract transactions differs from the state after the same block WITHOUT them, it
// returns those a failed transaction does not explain. Explained are only: the account of a
// failed tx's sender (balance / nonce / epoch, never its contract part), the proposer's account
// and identity (fee reward) and the fee rate inside Global. senderContract lists sender
// accounts whose contract part changed.
func c15Unexplained(diff []string, s0, s1 map[string][]byte, senders []common.Address, coinbase common.Address) (foreign []string, senderContract []string) {
	keyCbAcc := string(state.StateDbKeys.AddressKey(coinbase))
	keyCbId := string(state.StateDbKeys.IdentityKey(coinbase))
	keyGlobal := string(state.StateDbKeys.GlobalKey())
	senderKeys := map[string]bool{}
	for _, s := range senders {
		senderKeys[string(state.StateDbKeys.AddressKey(s))] = true
	}
	for _, k := range diff {
		switch {
		case k == keyCbAcc || k == keyCbId:
			continue
		case senderKeys[k]:
			var a0, a1 state.Account
			a0.FromBytes(s0[k])
			a1.FromBytes(s1[k])
			if (a0.Contract == nil) != (a1.Contract == nil) {
				senderContract = append(senderContract, k)
			}
			continue
		case k == keyGlobal:
			if bytes.Equal(c15GlobalSansFee(s0[k]), c15GlobalSansFee(s1[k])) {
				continue
			}
		}
		foreign = append(foreign, k)
	}
	return
}

// Eval = one contract transaction as a twin pair, all oracles.
func (x *c15Ctx) Eval(a *C15Action) (out c15Outcome) { return x.EvalAfter(nil, a) }

// c15FeeBurn is the share of the fees of a block that is destroyed (applyBlockRewards: ToInt(totalFee x
// FeeBurnRate), the rest goes to the proposer; the split of the proposer's part into balance and stake
// preserves the sum).
func c15FeeBurn(total *big.Int, rate float32) *big.Int {
	return math2.ToInt(decimal.NewFromBigInt(total, 0).Mul(decimal.NewFromFloat32(rate)))
}

// c15ExplicitBurn bounds what a SUCCESSFUL contract tx may destroy besides the burnt share of its fee: [lo, hi].
// The embedded contracts destroy coins in two ways only: BurnAll (whatever is left on the contract's own
// balance; called by finishVoting, refund and the terminations) and the half of the stake a termination does
// not refund. WASM contracts destroy coins through the host's `burn` only, which none of the bundled modules
// imports: of the kinds deployed here only the spender's burn(amount) does. held = what the contract holds while
// the tx runs (its balance without the tx + the pay amount).
func c15ExplicitBurn(kind string, tx *types.Transaction, tr *TwinResult, contract common.Address, wasmTx bool) (lo, hi *big.Int) {
	lo, hi = new(big.Int), new(big.Int)
	st0 := tr.Post0.State
	held := new(big.Int).Set(st0.GetBalance(contract))
	if tx.Type == types.CallContractTx || tx.Type == types.DeployContractTx && wasmTx {
		held.Add(held, tx.AmountOrZero())
	}
	switch {
	case kind == "wasm:other":
		hi.Set(held) // code of the harness' mutations: whatever it is, it cannot destroy more than it holds
	case c15IsWasmKind(kind):
		if att := attachments.ParseCallContractAttachment(tx); tx.Type == types.CallContractTx && kind == kSpender && att != nil && att.Method == "burn" && len(att.Args) > 0 {
			lo.SetBytes(att.Args[0])
			hi.Set(lo)
		}
	case tx.Type == types.TerminateContractTx:
		stake := bigOrZero(st0.GetContractStake(contract))
		lo.Sub(stake, new(big.Int).Quo(stake, big.NewInt(2)))
		hi.Add(lo, held)
	case tx.Type == types.CallContractTx:
		if att := attachments.ParseCallContractAttachment(tx); att != nil && (att.Method == "finishVoting" || att.Method == "refund") {
			hi.Set(held)
		}
	}
	return
}

// EvalAfter evaluates the contract transaction of `a` behind a PREFIX of ordinary transactions in the same
// block (block [prefix, tx] versus block [prefix]): the harness uses it to put coins on an address right
// before the transaction turns that address into a contract.
func (x *c15Ctx) EvalAfter(prefix []*types.Transaction, a *C15Action) (out c15Outcome) {
	w, twin, rep := x.w, x.twin, x.rep
	tx := a.Tx
	sender := a.From.Addr
	pre := twin.AppState // canonical head state the twin blocks are applied on
	kind := x.kindOf(a)
	out.Kind = kind
	tag := kind + ":" + a.Method
	replay := map[string]interface{}{"tx": a.Describe(), "head": twin.Head().Height(), "scenario_seed": w.Opt.Seed, "step": x.gen.Step}
	if len(prefix) > 0 {
		var pd []string
		for _, p := range prefix {
			to := "nil"
			if p.To != nil {
				to = fmt.Sprintf("%x", p.To[:4])
			}
			pd = append(pd, fmt.Sprintf("%s nonce=%d to=%s amount=%v", TxName(p.Type), p.AccountNonce, to, p.AmountOrZero()))
		}
		replay["same_block_prefix"] = pd
	}
	tr, err := w.TwinAfter(twin, prefix, tx, true)
	if tr == nil {
		rep.Count("twin_unusable", 1)
		return
	}
	rep.Count("twins_attempted", 1)
	if err != nil {
		if tr.Included {
			rep.Violation("nondeterministic:"+tag, fmt.Sprintf("the block ProposeBlock built around %s is refused by validateBlock on the same state: %v", a.Describe(), err), replay)
		}
		return
	}
	if !tr.Included {
		rep.Count("not_included", 1)
		rep.Count("not_included:"+a.Shape, 1)
		return
	}
	out.Included = true
	rep.Eval(1)
	if len(tr.Receipts) != 1 || tr.Receipts[0].TxHash != tx.Hash() {
		rep.Violation("receipt-count:"+tag, fmt.Sprintf("block with one contract tx produced %d receipts (%s)", len(tr.Receipts), a.Describe()), replay)
		return
	}
	rc := tr.Receipts[0]
	out.Success, out.GasUsed, out.Err = rc.Success, rc.GasUsed, c15ErrClass(rc.Error)
	replay["receipt"] = c15ReceiptView(rc)
	outcome := "fail"
	if rc.Success {
		outcome = "ok"
	}
	rep.Count("twins", 1)
	rep.Count(kind+"."+a.Method+":"+outcome, 1)
	rep.Count("kind:"+kind+":"+outcome, 1)
	if !rc.Success {
		rep.Count("err:"+kind+"."+a.Method+":"+out.Err, 1)
	}
	rep.Count("shape:"+a.Shape, 1)
	rep.Count("gas:"+a.GasClass+":"+outcome, 1)
	// which class of address the tx names as recipient (the contract itself, the sender, ...)
	self := rc.ContractAddress
	if tx.To != nil {
		self = *tx.To
	}
	for _, d := range c15DestsOf(kind, tx, rc, tr) {
		cls := c15DestClass(d.Addr, self, sender, tr.B1.Header.Coinbase(), pre.State)
		name := kind + "." + a.Method + ":" + cls
		switch {
		case !rc.Success:
			rep.Count("dest_class_failed:"+name, 1)
		case d.Value != nil && d.Value.Sign() == 0:
			rep.Count("dest_class_zero_amount:"+name, 1)
		default:
			rep.Count("dest_class:"+name, 1) // succeeded, and if the method moves coins it moved > 0
			rep.Count("dest_class_any_contract:"+a.Method+":"+cls, 1)
		}
	}
	if tr.Forced {
		rep.Count("twins_forced_past_pool", 1)
	}
	point := ""
	if a.GasClass == "sweep" || strings.Contains(out.Err, "gas") {
		point = fmt.Sprintf("gas%d", rc.GasUsed/50)
	}
	rep.Distinct(kind, a.TxKind, a.Method, outcome, out.Err, point)

	// ---- (5) determinism
	x.deterministic(tr.B1, tr.Receipts, "nondeterministic:"+tag, "single "+a.Describe(), replay)

	// ---- state contents of both twins
	s0, s1 := C15StateKV(tr.Post0), C15StateKV(tr.Post1)
	diff := c15DiffKeys(s0, s1)
	coinbase := tr.B1.Header.Coinbase()
	var diffDesc []string
	for _, k := range diff {
		diffDesc = append(diffDesc, c15DescribeKey(k))
	}
	replay["state_diff_keys"] = diffDesc

	// ---- (1) failure leaves no trace
	if !rc.Success {
		if pre.ValidatorsCache.IsPool(coinbase) {
			rep.Count("oracle1_skipped_pool_proposer", 1)
		} else {
			foreign, senderContract := c15Unexplained(diff, s0, s1, []common.Address{sender}, coinbase)
			if len(senderContract) > 0 {
				rep.Violation("failure-left-trace:"+tag, fmt.Sprintf("failed %s changed the contract part of the sender's account", a.Describe()), replay)
			}
			if len(foreign) > 0 {
				k := foreign[0]
				rep.Violation("failure-left-trace:"+tag, fmt.Sprintf("receipt says failure (%v) but the block with the tx differs from the block without it in %s: without=%x with=%x; tx: %s",
					rc.Error, c15DescribeKey(k), trunc(s0[k], 48), trunc(s1[k], 48), a.Describe()), replay)
			}
			if tr.Post0.IdentityState.Root() != tr.Post1.IdentityState.Root() {
				rep.Violation("failure-left-trace:"+tag, fmt.Sprintf("failed %s changed the identity-state tree", a.Describe()), replay)
			}
		}
		if n := tr.Post1.State.GetNonce(sender); n != tx.AccountNonce {
			rep.Violation("failure-nonce:"+tag, fmt.Sprintf("failed %s: sender nonce %d after the block, tx nonce %d", a.Describe(), n, tx.AccountNonce), replay)
		}
		rep.Count("oracle1_failures_checked", 1)
	}

	// ---- (2) fee bound
	b0, b1 := tr.Post0.State.GetBalance(sender), tr.Post1.State.GetBalance(sender)
	dec := new(big.Int).Sub(b0, b1)
	moved := new(big.Int)
	if rc.Success {
		moved = tx.AmountOrZero()
	}
	charged := new(big.Int).Sub(dec, moved)
	bound := new(big.Int).Add(tx.MaxFeeOrZero(), tx.TipsOrZero())
	if charged.Cmp(bound) > 0 {
		rep.Violation("fee-bound:sender-charged-over-maxfee:"+tag, fmt.Sprintf("sender balance %v -> %v (decrease %v), moved to contract %v: charged %v > MaxFee %v + tips %v; %s",
			b0, b1, dec, moved, charged, tx.MaxFeeOrZero(), tx.TipsOrZero(), a.Describe()), replay)
	}
	txFee := c15TxFee(pre, tx)
	if cost := new(big.Int).Add(bigOrZero(rc.GasCost), txFee); cost.Cmp(tx.MaxFeeOrZero()) > 0 {
		rep.Violation("fee-bound:gascost-over-maxfee:"+tag, fmt.Sprintf("gas cost %v + tx fee %v = %v > MaxFee %v; %s", rc.GasCost, txFee, cost, tx.MaxFeeOrZero(), a.Describe()), replay)
	}
	// protocol rule: gasLimit = (MaxFee - txFee) / feePerGas (0 when the rate is 0)
	fpg := pre.State.FeePerGas()
	limit := new(big.Int)
	if fpg != nil && fpg.Sign() > 0 {
		limit.Quo(new(big.Int).Sub(tx.MaxFeeOrZero(), txFee), fpg)
	}
	if limit.Sign() < 0 || new(big.Int).SetUint64(rc.GasUsed).Cmp(limit) > 0 {
		rep.Violation("fee-bound:gasused-over-limit:"+tag, fmt.Sprintf("GasUsed %d > gas limit %v bought by MaxFee %v (tx fee %v, feePerGas %v); %s", rc.GasUsed, limit, tx.MaxFeeOrZero(), txFee, fpg, a.Describe()), replay)
	}

	// ---- (3) conservation, nothing below zero
	l0, l1 := LedgerOf(tr.Post0), LedgerOf(tr.Post1)
	if l1.Total.Cmp(l0.Total) > 0 {
		rep.Violation("conservation:"+tag, fmt.Sprintf("Σ(balance+stake+contract stake) with the tx %v > without it %v (+%v); %s", l1.Total, l0.Total, new(big.Int).Sub(l1.Total, l0.Total), a.Describe()),
			map[string]interface{}{"case": replay, "diff": LedgerDiff(l0, l1)})
	}
	if l1.Total.Cmp(l0.Total) < 0 {
		rep.Count("twins_with_burn", 1)
	}
	// ---- (3b) conservation to the unit: the block with the tx holds exactly the burnt share of the tx's fee
	// (size fee + gas cost; the rest of the fee and the tips go to the proposer) and the coins the call
	// semantics destroy explicitly LESS than the block without it - nothing appears, nothing else vanishes
	contractAddr := rc.ContractAddress
	if tx.To != nil {
		contractAddr = *tx.To
	}
	wasmTx := c15IsWasmKind(kind)
	if pre.State.GetPenalty(coinbase) != nil && pre.State.GetPenalty(coinbase).Sign() > 0 || pre.State.GetPenaltySeconds(coinbase) > 0 {
		rep.Count("oracle3b_skipped_proposer_penalty", 1) // (a penalised proposer's reward is destroyed as well)
	} else {
		feesBefore := new(big.Int)
		for _, p := range prefix {
			feesBefore.Add(feesBefore, c15TxFee(pre, p))
		}
		feesWith := new(big.Int).Add(feesBefore, new(big.Int).Add(txFee, bigOrZero(rc.GasCost)))
		feeBurn := new(big.Int).Sub(c15FeeBurn(feesWith, w.Cons.FeeBurnRate), c15FeeBurn(feesBefore, w.Cons.FeeBurnRate))
		lo, hi := new(big.Int), new(big.Int)
		if rc.Success {
			lo, hi = c15ExplicitBurn(kind, tx, tr, contractAddr, wasmTx)
		}
		// gone = what the tx removed from Σ besides the burnt share of its fee
		gone := new(big.Int).Sub(new(big.Int).Sub(l0.Total, l1.Total), feeBurn)
		what := "failed"
		if rc.Success {
			what = "successful"
		}
		switch {
		case gone.Cmp(lo) < 0:
			rep.Violation("conservation:coins-appeared:"+tag, fmt.Sprintf("%s %s: Σ(balance+stake+contract stake) without the tx %v, with it %v; the burnt share of its fee (%v of size fee %v + gas cost %v) is %v and the call semantics destroy at least %v, so %v coins appeared from nowhere",
				what, a.Describe(), l0.Total, l1.Total, w.Cons.FeeBurnRate, txFee, bigOrZero(rc.GasCost), feeBurn, lo, new(big.Int).Sub(lo, gone)), map[string]interface{}{"case": replay, "diff": LedgerDiff(l0, l1)})
		case gone.Cmp(hi) > 0:
			rep.Violation("conservation:coins-vanished:"+tag, fmt.Sprintf("%s %s: Σ(balance+stake+contract stake) without the tx %v, with it %v; the burnt share of its fee (%v of size fee %v + gas cost %v) is %v and the call semantics destroy at most %v, so %v coins vanished without a burn",
				what, a.Describe(), l0.Total, l1.Total, w.Cons.FeeBurnRate, txFee, bigOrZero(rc.GasCost), feeBurn, hi, new(big.Int).Sub(gone, hi)), map[string]interface{}{"case": replay, "diff": LedgerDiff(l0, l1)})
		}
		rep.Count("oracle3b_sum_checked", 1)
		if rc.Success {
			rep.Count("oracle3b_sum_checked_success", 1)
			if lo.Cmp(hi) == 0 {
				rep.Count("oracle3b_sum_checked_success_exact", 1)
			}
		}
	}
	// ---- (3c) coins that sit on an address before it becomes a contract are still there afterwards: every
	// address the tx turned into a contract holds at least what it holds in the block without the tx
	for _, k := range diff {
		if KeyClass([]byte(k)) != "account" || len(k) != 21 {
			continue
		}
		var a0, a1 state.Account
		if s0[k] != nil {
			a0.FromBytes(s0[k])
		}
		if s1[k] == nil || a1.FromBytes(s1[k]) != nil || a1.Contract == nil || a0.Contract != nil {
			continue
		}
		ad := c15AddrOf([]byte(k)[1:])
		rep.Count("oracle3c_new_contracts_checked", 1)
		if bigOrZero(a0.Balance).Sign() > 0 {
			rep.Count("oracle3c_new_contracts_checked_holding_coins", 1)
		}
		if ad == sender || ad == coinbase {
			continue
		}
		if bigOrZero(a1.Balance).Cmp(bigOrZero(a0.Balance)) < 0 {
			how := "the contract this tx deploys"
			if ad != rc.ContractAddress {
				how = "a contract created by a SUB-deployment of this tx"
			}
			rep.Violation("conservation:new-contract-lost-coins:"+tag, fmt.Sprintf("%x (%s) held %v before it became a contract (block without the tx) and holds %v afterwards: %v coins that were waiting on the address are gone; %s",
				ad[:4], how, bigOrZero(a0.Balance), bigOrZero(a1.Balance), new(big.Int).Sub(bigOrZero(a0.Balance), bigOrZero(a1.Balance)), a.Describe()), replay)
		}
	}
	addrs := map[common.Address]bool{sender: true, rc.ContractAddress: true}
	if tx.To != nil {
		addrs[*tx.To] = true
	}
	for _, k := range diff {
		if c := KeyClass([]byte(k)); (c == "account" || c == "identity") && len(k) == 21 {
			addrs[c15AddrOf([]byte(k)[1:])] = true
		}
	}
	for ad := range addrs {
		st := tr.Post1.State
		if st.GetBalance(ad).Sign() < 0 || bigOrZero(st.GetContractStake(ad)).Sign() < 0 || st.GetStakeBalance(ad).Sign() < 0 {
			rep.Violation("negative:"+tag, fmt.Sprintf("%x ends with balance %v contract stake %v stake %v after %s", ad[:4], st.GetBalance(ad), st.GetContractStake(ad), st.GetStakeBalance(ad), a.Describe()), replay)
		}
	}

	// ---- (4) success applies everything (mini-models of the simple contracts)
	if rc.Success {
		x.checkSuccess(a, kind, tr, rc, s0, s1, l0, l1, coinbase, replay)
	}
	if tx.Type == types.DeployContractTx && tr.Post0.State.GetCodeHash(rc.ContractAddress) == nil {
		out.Creates = append(out.Creates, rc.ContractAddress)
		if tr.Post0.State.GetBalance(rc.ContractAddress).Sign() > 0 {
			rep.Count("deploy_prefunded_evaluated", 1)
			if rc.Success {
				rep.Count("deploy_prefunded_succeeded", 1)
				rep.Count("deploy_prefunded_succeeded:"+c15Engine(kind), 1)
			}
		}
	}
	// failed sub-deployments inside a WASM execution must not leave the sub-contract behind
	if subs, ok := c15WalkAction(rc.ActionResult); ok {
		for _, s := range subs {
			switch s.Type {
			case 1:
				rep.Count("wasm_subcall_seen", 1)
				if s.OK {
					rep.Count("wasm_subcall_ok", 1)
				}
			case 3:
				rep.Count("wasm_subdeploy_seen", 1)
				if s.OK {
					rep.Count("wasm_subdeploy_ok", 1)
				}
				if tr.Post0.State.GetCodeHash(s.Contract) == nil {
					out.Creates = append(out.Creates, s.Contract)
					// the address of the would-be contract held coins before the call (sent there by an ordinary
					// SendTx in an earlier block or earlier in this block)
					if tr.Post0.State.GetBalance(s.Contract).Sign() > 0 {
						when := "earlier-block"
						if len(prefix) > 0 {
							when = "same-block"
						}
						rep.Count("subdeploy_prefunded_evaluated", 1)
						rep.Count("subdeploy_prefunded_evaluated:"+when, 1)
						if s.OK && rc.Success && tr.Post1.State.GetCodeHash(s.Contract) != nil {
							rep.Count("subdeploy_prefunded_succeeded", 1)
							rep.Count("subdeploy_prefunded_succeeded:"+when, 1)
							rep.Distinct("prefunded-sub-deployment", kind, when)
						}
					}
				}
				if (!s.OK || !rc.Success) && tr.Post0.State.GetCodeHash(s.Contract) == nil && tr.Post1.State.GetCodeHash(s.Contract) != nil {
					rep.Violation("failure-left-trace:"+kind+":sub-deploy", fmt.Sprintf("sub-deployment of %x failed (%s) but the contract exists afterwards; %s", s.Contract[:4], s.Err, a.Describe()), replay)
				}
			}
		}
	}
	if rep.Get("samples_taken:"+tag+":"+outcome) == 0 && rep.Get("samples_total") < 60 {
		rep.Count("samples_taken:"+tag+":"+outcome, 1)
		rep.Count("samples_total", 1)
		rep.Sample(map[string]interface{}{"tx": a.Describe(), "receipt": c15ReceiptView(rc), "state_keys_differing_with_vs_without": diffDesc, "ledger_diff": LedgerDiff(l0, l1)})
	}
	return
}

// evalPrefunded evaluates `a` once more as [SendTx signer -> target, a'] versus [SendTx signer -> target], a' = a
// with the next nonce: `target` is an address the execution of `a` tries to create a contract at. For an
// embedded deployment the contract address depends on the nonce, so the target is recomputed.
func (x *c15Ctx) evalPrefunded(a *C15Action, target common.Address, rng *verifutil.Rng) {
	w := x.w
	tx := a.Tx
	b := a.Resign(tx.AccountNonce + 1)
	b.Submit = false
	if tx.Type == types.DeployContractTx {
		if att := attachments.ParseDeployContractAttachment(tx); att != nil && len(att.Code) == 0 {
			target = ContractAddr(a.From.Addr, b.Tx)
		}
	}
	st := x.twin.AppState.State
	amount := Dna(int64(rng.Range(1, 60)))
	feeRate := st.FeePerGas()
	maxFee := new(big.Int).Add(new(big.Int).Mul(feeRate, big.NewInt(40000)), big.NewInt(1000))
	need := new(big.Int).Add(new(big.Int).Add(amount, maxFee), new(big.Int).Add(tx.AmountOrZero(), new(big.Int).Add(tx.MaxFeeOrZero(), tx.TipsOrZero())))
	if st.GetBalance(a.From.Addr).Cmp(need) < 0 || w.StateNonce(a.From) != tx.AccountNonce {
		x.rep.Count("prefund_same_block_skipped", 1)
		return
	}
	pre := SignedTx(a.From, types.SendTx, &target, amount, maxFee, nil, tx.AccountNonce, tx.Epoch, nil)
	x.rep.Count("prefund_same_block_attempted", 1)
	x.EvalAfter([]*types.Transaction{pre}, b)
}

func delta(l0, l1 *Ledger, a common.Address) *big.Int {
	v0, v1 := new(big.Int), new(big.Int)
	if e := l0.ByAddr[a]; e != nil {
		v0 = e.Balance
	}
	if e := l1.ByAddr[a]; e != nil {
		v1 = e.Balance
	}
	return new(big.Int).Sub(v1, v0)
}

func (x *c15Ctx) checkSuccess(a *C15Action, kind string, tr *TwinResult, rc *types.TxReceipt, s0, s1 map[string][]byte, l0, l1 *Ledger, coinbase common.Address, replay interface{}) {
	rep := x.rep
	tx := a.Tx
	sender := a.From.Addr
	tag := kind + ":" + a.Method
	post := tr.Post1.State
	bad := func(what, format string, args ...interface{}) {
		rep.Violation("success-not-applied:"+tag+":"+what, fmt.Sprintf(format, args...)+"; "+a.Describe(), replay)
	}
	special := func(ad common.Address) bool { return ad == sender || ad == coinbase }
	storeKey := func(c common.Address, key []byte) []byte {
		return s1[string(state.StateDbKeys.ContractStoreKey(c, key))]
	}
	// moved: a successful call to contract `addr` carrying pay amount P that makes the contract send
	// `amt` to `dest`. Balances with the tx versus without it: contract +P-amt, destination +amt -
	// which is +P for the contract when it pays ITSELF (a self-transfer is neutral). The sender's
	// and the proposer's balances also carry the fee, so they get bounds instead of equalities.
	// And a contract never sends more than it holds.
	moved := func(what string, addr, dest common.Address, amt *big.Int) {
		pay := tx.AmountOrZero()
		if held := new(big.Int).Add(tr.Post0.State.GetBalance(addr), pay); amt.Cmp(held) > 0 {
			bad("overspend", "%s of %v succeeded although the contract held only %v (incl. the pay amount %v)", what, amt, held, pay)
		}
		want := map[common.Address]*big.Int{addr: new(big.Int).Set(pay)}
		want[addr].Sub(want[addr], amt)
		if want[dest] == nil {
			want[dest] = new(big.Int)
		}
		want[dest].Add(want[dest], amt)
		feeCap := new(big.Int).Add(tx.MaxFeeOrZero(), tx.TipsOrZero())
		for ad, wd := range want {
			d := delta(l0, l1, ad)
			label := "dest-balance"
			if ad == addr {
				label = "contract-balance"
			}
			switch {
			case ad == sender && ad == coinbase:
			case ad == sender:
				// the sender paid the pay amount and the fee and got wd back
				hi := new(big.Int).Sub(wd, pay)
				lo := new(big.Int).Sub(hi, feeCap)
				if d.Cmp(hi) > 0 || d.Cmp(lo) < 0 {
					bad("sender-"+label, "%s %v to the sender: its balance changed by %v, expected within [%v, %v] (pay amount %v, MaxFee+tips %v)", what, amt, d, lo, hi, pay, feeCap)
				}
			case ad == coinbase:
				hi := new(big.Int).Add(wd, feeCap)
				if d.Cmp(wd) < 0 || d.Cmp(hi) > 0 {
					bad("proposer-"+label, "%s %v to the proposer: its balance changed by %v, expected within [%v, %v]", what, amt, d, wd, hi)
				}
			case d.Cmp(wd) != 0:
				if ad == addr && dest == addr {
					bad(label, "%s %v to the contract ITSELF: its balance changed by %v, expected the pay amount %v only", what, amt, d, pay)
				} else if ad == addr {
					bad(label, "contract balance changed by %v, expected pay amount %v - %s %v", d, pay, what, amt)
				} else {
					bad(label, "destination %x received %v, %s amount %v", ad[:4], d, what, amt)
				}
			}
		}
	}
	rep.Count("oracle4_success_checked", 1)
	switch tx.Type {
	case types.DeployContractTx:
		att := attachments.ParseDeployContractAttachment(tx)
		addr := rc.ContractAddress
		h := post.GetCodeHash(addr)
		if h == nil {
			bad("no-code", "successful deployment left no contract at %x", addr[:4])
			return
		}
		if len(att.Code) == 0 {
			if *h != att.CodeHash {
				bad("code-hash", "deployed code hash %x, requested %x", h[:4], att.CodeHash[:4])
			}
			if st := post.GetContractStake(addr); st == nil || st.Cmp(tx.AmountOrZero()) != 0 {
				bad("stake", "contract stake %v, tx amount %v", st, tx.AmountOrZero())
			}
			if string(storeKey(addr, []byte("owner"))) != string(sender.Bytes()) {
				bad("owner", "owner key %x, sender %x", storeKey(addr, []byte("owner")), sender[:4])
			}
		} else {
			if *h != common.Hash(crypto.Hash(att.Code)) || !bytes.Equal(post.GetContractCode(addr), att.Code) {
				bad("code", "stored code differs from the deployed code")
			}
			if c15IsWasmKind(kind) && kind != "wasm:other" && !special(addr) {
				if d := delta(l0, l1, addr); d.Cmp(tx.AmountOrZero()) != 0 {
					bad("pay-amount", "contract balance changed by %v, pay amount %v", d, tx.AmountOrZero())
				}
			}
		}
	case types.TerminateContractTx:
		addr := *tx.To
		if post.GetCodeHash(addr) != nil {
			bad("still-there", "contract %x still exists after a successful termination", addr[:4])
		}
		base := strings.TrimRight(kind, "12")
		pfx := string(state.StateDbKeys.ContractStoreKey(addr, nil))
		left := 0
		for k := range s1 {
			if strings.HasPrefix(k, pfx) {
				left++
			}
		}
		if base != kOV && left > 0 || left > 3 {
			bad("store-left", "%d contract store keys of %x survive the termination", left, addr[:4])
		}
		// half of the stake goes to the stake destination
		stake := bigOrZero(tr.Post0.State.GetContractStake(addr))
		var dest common.Address
		switch base {
		case kTimeLock, kMultisig, kROL:
			if len(a.Args) > 0 {
				dest = c15AddrOf(a.Args[0])
			}
		default:
			dest = c15AddrOf(s0[string(state.StateDbKeys.ContractStoreKey(addr, []byte("owner")))])
		}
		if !special(dest) && dest != addr {
			if d := delta(l0, l1, dest); d.Cmp(new(big.Int).Quo(stake, big.NewInt(2))) < 0 {
				bad("stake-refund", "stake %v, destination %x got %v", stake, dest[:4], d)
			}
		} else if dest == addr {
			// the terminated contract named ITSELF: the refund stays on the (now plain) account
			if got := post.GetBalance(addr); got.Cmp(new(big.Int).Quo(stake, big.NewInt(2))) < 0 {
				bad("stake-refund", "stake %v refunded to the terminated contract itself, which ends with %v", stake, got)
			}
		}
	case types.CallContractTx:
		addr := *tx.To
		att := attachments.ParseCallContractAttachment(tx)
		args := att.Args
		arg := func(i int) []byte {
			if i < len(args) {
				return args[i]
			}
			return nil
		}
		switch kind {
		case kTimeLock:
			if att.Method == "transfer" {
				moved("transfer", addr, c15AddrOf(arg(0)), new(big.Int).SetBytes(arg(1)))
			}
		case kMultisig:
			switch att.Method {
			case "add":
				v := c15AddrOf(arg(0))
				if !bytes.Equal(storeKey(addr, append([]byte("addr"), v.Bytes()...)), v.Bytes()) {
					bad("voter", "voter %x not stored after add", v[:4])
				}
			case "send":
				dest := c15AddrOf(arg(0))
				if !bytes.Equal(storeKey(addr, append([]byte("addr"), sender.Bytes()...)), dest.Bytes()) ||
					!bytes.Equal(storeKey(addr, append([]byte("amount"), sender.Bytes()...)), arg(1)) {
					bad("vote", "vote of %x not stored as sent (dest %x amount %x)", sender[:4], dest[:4], arg(1))
				}
			case "push":
				moved("push", addr, c15AddrOf(arg(0)), new(big.Int).SetBytes(arg(1)))
				pfx := string(state.StateDbKeys.ContractStoreKey(addr, []byte("amount")))
				for k, v := range s1 {
					if strings.HasPrefix(k, pfx) && new(big.Int).SetBytes(v).Sign() != 0 {
						bad("votes-reset", "vote amount %x not reset after push", v)
					}
				}
			}
		case kOL, kROL + "1", kROL + "2":
			// the locks pay everything they hold to an address fixed at deployment (possibly themselves)
			for _, d := range c15DestsOf(kind, tx, rc, tr) {
				switch att.Method {
				case "push":
					moved("push", addr, d.Addr, d.Value)
				case "deposit":
					// whatever share goes to the voting named at deployment: nothing is lost or made on the way
					got := delta(l0, l1, addr)
					if d.Addr != addr {
						got.Add(got, delta(l0, l1, d.Addr))
					}
					if !special(d.Addr) && got.Cmp(tx.AmountOrZero()) != 0 {
						bad("deposit-split", "deposit of %v: lock and voting %x together changed by %v", tx.AmountOrZero(), d.Addr[:4], got)
					}
				}
			}
		case kSpender:
			if att.Method == "send" && len(arg(0)) == 20 || att.Method == "burn" {
				amt := new(big.Int).SetBytes(arg(len(args) - 1))
				if att.Method == "send" {
					moved("send", addr, c15AddrOf(arg(0)), amt)
				} else if !special(addr) {
					want := new(big.Int).Sub(tx.AmountOrZero(), amt)
					if d := delta(l0, l1, addr); d.Cmp(want) != 0 {
						bad("contract-balance", "contract balance changed by %v, expected pay amount %v - %s %v", d, tx.AmountOrZero(), att.Method, amt)
					}
				}
			}
		case kDeployer:
			// make(code, packed args, nonce, amount, gas): the new contract is endowed with `amount` of the
			// deployer's coins ON TOP of whatever its address held; a sub-deployment that fails moves nothing
			if att.Method == "make" && len(args) == 5 {
				subs, _ := c15WalkAction(rc.ActionResult)
				var sub *c15SubAction
				for i := range subs {
					if subs[i].Type == 3 {
						sub = &subs[i]
						break
					}
				}
				if sub == nil || special(addr) || special(sub.Contract) || sub.Contract == addr {
					break
				}
				pay, amt := tx.AmountOrZero(), new(big.Int).SetBytes(arg(3))
				created := tr.Post0.State.GetCodeHash(sub.Contract) == nil && post.GetCodeHash(sub.Contract) != nil
				if sub.OK != created {
					bad("sub-deploy-result", "the action tree says the sub-deployment of %x succeeded=%v, the state says created=%v", sub.Contract[:4], sub.OK, created)
				}
				wantC, wantS := new(big.Int).Set(pay), new(big.Int)
				if created {
					if held := new(big.Int).Add(tr.Post0.State.GetBalance(addr), pay); amt.Cmp(held) > 0 {
						bad("overspend", "sub-deployment endowed with %v succeeded although the deployer held only %v (incl. the pay amount %v)", amt, held, pay)
					}
					wantC.Sub(wantC, amt)
					wantS.Set(amt)
				}
				if d := delta(l0, l1, sub.Contract); d.Cmp(wantS) != 0 {
					bad("sub-contract-balance", "balance of the address of the sub-deployment %x (created=%v; %v without the call) changed by %v, expected %v (the endowment)", sub.Contract[:4], created, tr.Post0.State.GetBalance(sub.Contract), d, wantS)
				}
				if d := delta(l0, l1, addr); d.Cmp(wantC) != 0 {
					bad("contract-balance", "deployer balance changed by %v, expected pay amount %v - endowment %v of a sub-deployment that was created=%v", d, pay, amt, created)
				}
			}
		case kErc20:
			// the bundled contract credits a transfer to oneself without debiting it (its own
			// semantics, not the node's), so the supply is only invariant for the other calls
			self := att.Method == "transfer" && c15AddrOf(arg(0)) == sender || (att.Method == "transferFrom" || att.Method == "transfer_from") && bytes.Equal(arg(0), arg(1))
			if before, now := c15ErcSum(s0, addr), c15ErcSum(s1, addr); now.Cmp(before) != 0 && !self {
				bad("supply", "Σ token balances %v before the call, %v after it", before, now)
			} else if self {
				rep.Count("erc20_self_transfers", 1)
			}
			if att.Method == "transfer" && len(arg(0)) == 20 {
				to, amt := c15AddrOf(arg(0)), new(big.Int).SetBytes(arg(1))
				if to != sender {
					f0, f1 := c15ErcBal(s0, addr, sender), c15ErcBal(s1, addr, sender)
					t0, t1 := c15ErcBal(s0, addr, to), c15ErcBal(s1, addr, to)
					if new(big.Int).Sub(f0, f1).Cmp(amt) != 0 || new(big.Int).Sub(t1, t0).Cmp(amt) != 0 {
						bad("token-move", "transfer of %v: sender tokens %v->%v, recipient %v->%v", amt, f0, f1, t0, t1)
					}
				}
			}
			fallthrough
		case kInc:
			if !special(addr) {
				if d := delta(l0, l1, addr); d.Cmp(tx.AmountOrZero()) != 0 {
					bad("pay-amount", "contract balance changed by %v, pay amount %v", d, tx.AmountOrZero())
				}
			}
		}
	}
}

func c15ErcSum(s map[string][]byte, c common.Address) *big.Int {
	pfx := string(state.StateDbKeys.ContractStoreKey(c, []byte("b:")))
	sum := new(big.Int)
	for k, v := range s {
		if strings.HasPrefix(k, pfx) {
			sum.Add(sum, new(big.Int).SetBytes(v))
		}
	}
	return sum
}

func c15ErcBal(s map[string][]byte, c, who common.Address) *big.Int {
	return new(big.Int).SetBytes(s[string(state.StateDbKeys.ContractStoreKey(c, append([]byte("b:"), who.Bytes()...)))])
}

// EvalMulti evaluates a designated several-transactions-in-one-block class on the observer:
// one proposed block carrying them all, K executions. Returns whether it is safe to put the
// same transactions into one block of the real chain.
func (x *c15Ctx) EvalMulti(m *C15Multi) (safe bool) {
	w, t, rep := x.w, x.twin, x.rep
	t.enter()
	if !t.CanPropose() {
		return false
	}
	var desc []string
	for _, a := range m.Acts {
		desc = append(desc, a.Describe())
	}
	replay := map[string]interface{}{"class": m.Class, "txs": desc, "head": t.Head().Height(), "scenario_seed": w.Opt.Seed, "step": x.gen.Step}
	clear := func() {
		for _, old := range t.TxPool.VerifAll() {
			t.TxPool.Remove(old)
		}
	}
	clear()
	b0 := t.Chain.ProposeBlock(nil).Block
	for _, a := range m.Acts {
		if err := t.TxPool.AddExternalTxs(validation.InboundTx, a.Tx); err != nil {
			if e2 := t.TxPool.VerifForcePut(a.Tx); e2 != nil {
				rep.Note("multi %s: pool refused %s: %v / %v", m.Class, a.Describe(), err, e2)
			}
		}
	}
	b := t.Chain.ProposeBlock(nil).Block
	clear()
	rep.Count("multi_attempted:"+m.Class, 1)
	if len(b.Body.Transactions) < 2 {
		return false
	}
	post0, _, e0 := t.Chain.VerifValidateOnCheck(b0)
	if e0 != nil {
		return false
	}
	sig := "nondeterministic:" + m.Class
	what := fmt.Sprintf("block with %d txs of class %s", len(b.Body.Transactions), m.Class)
	rep.Eval(1)
	post, rcs, err := t.Chain.VerifValidateOnCheck(b)
	if err != nil {
		rep.Violation(sig, fmt.Sprintf("%s: the block ProposeBlock built is refused by validateBlock on the same state: %v", what, err), replay)
		x.classSeen(m, b, nil)
		return false
	}
	var views []interface{}
	base := strings.SplitN(m.Class, ":", 2)[0]
	for _, rc := range rcs {
		views = append(views, c15ReceiptView(rc))
		oc := "fail"
		if rc.Success {
			oc = "ok"
		}
		rep.Count(base+"."+c15MethodClass(rc.Method)+":"+oc, 1)
		rep.Count("multi_receipts:"+oc, 1)
	}
	replay["receipts"] = views
	x.classSeen(m, b, rcs)
	k := x.K
	x.K = 8 * k // a class that is unsafe must practically never slip into the real chain
	safe = x.deterministic(b, rcs, sig, what, replay)
	x.K = k
	l0, l1 := LedgerOf(post0), LedgerOf(post)
	if l1.Total.Cmp(l0.Total) > 0 {
		rep.Violation("conservation:"+m.Class, fmt.Sprintf("%s: Σ with the txs %v > without %v", what, l1.Total, l0.Total), map[string]interface{}{"case": replay, "diff": LedgerDiff(l0, l1)})
	}
	for ad, e := range l1.ByAddr {
		if post.State.GetBalance(ad).Sign() < 0 || e.ContractStake.Sign() < 0 {
			rep.Violation("negative:"+m.Class, fmt.Sprintf("%s: %x ends with balance %v", what, ad[:4], post.State.GetBalance(ad)), replay)
		}
	}
	if rep.Get("samples_multi:"+m.Class) < 2 {
		rep.Count("samples_multi:"+m.Class, 1)
		rep.Sample(map[string]interface{}{"class": m.Class, "txs": desc, "receipts": views, "deterministic_over_K": safe, "K": x.K})
	}
	return safe
}

// classSeen counts the class as exercised when the final tx (finishVoting / refund) of the
// block succeeded after >= 2 successful txs of the same contract in the SAME block (with
// rcs == nil: the block was refused, count by the txs that were included).
func (x *c15Ctx) classSeen(m *C15Multi, b *types.Block, rcs types.TxReceipts) {
	n := len(b.Body.Transactions)
	last := m.Acts[len(m.Acts)-1].Tx.Hash()
	if b.Body.Transactions[n-1].Hash() != last || n < 3 {
		return
	}
	if rcs != nil {
		ok := 0
		for _, rc := range rcs[:len(rcs)-1] {
			if rc.Success {
				ok++
			}
		}
		if !rcs[len(rcs)-1].Success || ok < 2 {
			x.rep.Count("multi_final_failed:"+m.Class, 1)
			return
		}
	}
	x.rep.Count("sameblock_class_seen:"+m.Class, 1)
	x.rep.Distinct("multi", m.Class, n)
}

func countReceipts(rep *verifutil.Report, kind string, rcs types.TxReceipts) {
	for _, rc := range rcs {
		oc := "fail"
		if rc.Success {
			oc = "ok"
		}
		rep.Count(kind+"."+c15MethodClass(rc.Method)+":"+oc, 1)
	}
}

func c15Opts(seed uint64, mode string, sc int) (Options, []string) {
	o := Options{Seed: seed, NNodes: 1, NIdent: 18 + int(seed%7), NAccounts: 6, AllValidated: true, GodIsIdentity: sc%2 == 1,
		FirstCeremonyIn: 24 * 600 * time.Hour, StartTime: time.Date(2023, 8, 7+int(seed%5), 6+int(seed%11), 0, 0, 0, time.UTC)}
	kinds := append(append([]string{}, c15EmbeddedKinds...), c15WasmKinds...)
	switch mode {
	case "v9":
		o.Version = config.ConsensusV9
		kinds = c15EmbeddedKinds
	case "v10":
		o.Version = config.ConsensusV10
		kinds = c15EmbeddedKinds
	case "v11":
		o.Version = config.ConsensusV11
	case "wasm":
		kinds = c15WasmKinds
	case "embedded":
		kinds = c15EmbeddedKinds
	}
	return o, kinds
}

func TestVerifC15(t *testing.T) {
	if !verifutil.Enabled() {
		t.Skip("verif harness")
	}
	c15SilenceStdout()
	rep := verifutil.NewReport()
	defer rep.Write()
	nScen := verifutil.Scale(1, 3)
	steps := verifutil.Scale(140, 260)
	if v, err := strconv.Atoi(os.Getenv("C15_STEPS")); err == nil {
		steps = v
	}
	K := verifutil.Scale(4, 6)
	for sc := 0; sc < nScen; sc++ {
		seed := scenSeed(sc) + 15000
		mode := []string{"v12", "v12", "v12", "v9", "v12", "wasm", "v12", "embedded"}[(verifutil.Shard()+sc*3)%8]
		if verifutil.Thorough() && (verifutil.Shard()+sc)%8 == 6 {
			mode = []string{"v10", "v11"}[sc%2]
		}
		if s := os.Getenv("C15_SLICE"); s != "" {
			mode = s
		}
		o, kinds := c15Opts(seed, mode, sc)
		nsteps := steps
		if mode == "wasm" {
			nsteps = steps * 6 / 10 // every transaction compiles a WASM module: fewer, heavier steps
		}
		w := NewWorld(o)
		twin := w.AddTwin()
		for _, r := range w.Replicas {
			r.Cfg.IsDebug = true
		}
		if err := w.Prologue(); err != nil {
			c15Fatal(t, rep, "prologue: %v", err)
		}
		gen := NewC15Gen(w, twin, verifutil.NewRng(seed, 15), kinds)
		gen.RD = verifutil.NewRng(seed, 1518) // turns of the deployer contracts (sub-deployments)
		if err := gen.Fund(Dna(26000)); err != nil {
			c15Fatal(t, rep, "funding: %v", err)
		}
		x := &c15Ctx{w: w, twin: twin, rep: rep, gen: gen, K: K}
		rep.Count("scenarios:"+mode, 1)
		rng := verifutil.NewRng(seed, 1515)
		seqRng := verifutil.NewRng(seed, 1516) // the same-block sequences draw from a stream of their own
		subRng := verifutil.NewRng(seed, 1517) // ... and so do the same-block pre-fundings of future contract addresses
		jumpAt := nsteps * 6 / 10
		for i := 0; i < nsteps; i++ {
			rep.Progress("C15 scenario %d seed %d mode %s step %d", sc, seed, mode, i)
			if i == jumpAt {
				gen.JumpClock(time.Duration(31*24+rng.Range(0, 48)) * time.Hour)
				rep.Count("clock_jumps_31d", 1)
			}
			acts, multis, plain := gen.NextBatch()
			var multiClass string
			for _, tx := range plain {
				w.Submit(tx)
				rep.Count("funding_txs", 1)
			}
			var seqMid []*C15Action
			for _, a := range acts {
				out := x.Eval(a)
				inSeq := a
				rng, seqRng := rng, seqRng
				if a.C != nil && a.C.Kind == kDeployer {
					rng, seqRng = subRng, subRng // (the deployer contracts' turns leave the streams of the other kinds alone)
				}
				if out.Included && out.Success && out.GasUsed > 1 && rng.Intn(100) < 45 {
					// failure-point sweep: the same call with a budget that ends inside the execution
					budget, rem, cls := int64(rng.Intn(int(out.GasUsed))), int64(0), "inside"
					switch rng.Intn(5) {
					case 0: // the max fee covers the size fee and not one unit of gas
						budget, cls = 0, "zero"
					case 1: // one unit short, plus most of the price of that unit (a fraction buys nothing)
						budget, rem, cls = int64(out.GasUsed)-1, int64(rng.Range(500, 990)), "one-short-plus-fraction"
					case 2:
						rem, cls = int64(rng.Range(500, 990)), "inside-plus-fraction"
					}
					sw := gen.WithGasRem(a, budget, rem)
					so := x.Eval(sw)
					if so.Included {
						rep.Count("gas_sweeps", 1)
						rep.Count("gas_sweeps:"+cls, 1)
						if so.Success {
							// the same tx on the same state needed out.GasUsed units a moment ago
							rep.Violation("success-with-less-gas-than-the-run-needs:"+cls+":"+a.Kind, fmt.Sprintf("%s succeeds (GasUsed %d) with a max fee that buys %d units of gas (+%d/1000 of a unit), although the same transaction on the same state uses %d units when it has ample gas",
								a.Describe(), so.GasUsed, budget, rem, out.GasUsed), map[string]interface{}{"action": a.Describe()})
						} else if seqRng.Bool() {
							inSeq = sw // the variant that runs out of gas half-way goes into the same-block sequence
						}
					}
				}
				if out.Included {
					seqMid = append(seqMid, inSeq)
				}
				// pre-funding in the SAME block: the tx tried to create a contract (its own deployment or a
				// sub-deployment of the action tree) at an address without code - evaluate it once more
				// behind an ordinary SendTx of the same signer that puts coins on that address
				if out.Included && len(out.Creates) > 0 {
					pct := 12 // top-level deployments
					if a.TxKind != "Deploy" {
						pct = 50
					}
					if subRng.Intn(100) < pct {
						x.evalPrefunded(a, out.Creates[subRng.Intn(len(out.Creates))], subRng)
					}
				}
				if a.Submit && out.Included {
					w.Submit(a.Tx)
					rep.Count("submitted_to_chain", 1)
				}
			}
			// the whole batch in ONE block: failed txs in front of / behind successful ones
			x.EvalSeq(i, seqMid, seqRng)
			for _, m := range multis {
				if x.EvalMulti(m) {
					for _, a := range m.Acts {
						w.Submit(a.Tx)
					}
					multiClass = m.Class
					rep.Count("multi_in_real_chain:"+m.Class, 1)
				} else {
					// not safe in one block of the real chain: the final tx goes one block later,
					// re-issued by the generator's life-cycle logic
					for _, a := range m.Acts[:len(m.Acts)-1] {
						w.Submit(a.Tx)
					}
				}
			}
			w.Tick(time.Duration(rng.Range(10, 40)) * time.Second)
			w.beforeDistribute = func(b *types.Block, p *Replica) {
				n := 0
				for _, tx := range b.Body.Transactions {
					if tx.Type == types.DeployContractTx || tx.Type == types.CallContractTx || tx.Type == types.TerminateContractTx {
						n++
					}
				}
				if n == 0 {
					return
				}
				rep.Count("chain_contract_blocks", 1)
				rep.Count("chain_contract_txs", n)
				sig := "nondeterministic:chain-block"
				if multiClass != "" {
					sig = "nondeterministic:" + multiClass
				}
				var first []byte
				for k := 0; k < K; k++ {
					p.enter()
					_, rcs, err := p.Chain.VerifValidateOnCheck(b)
					rep.Count("reexecutions", 1)
					if err != nil {
						rep.Violation(sig, fmt.Sprintf("chain block %d (%d contract txs) built by %s: re-execution %d on the proposer's own state is refused: %v", b.Height(), n, p.Name, k, err), DescribeBlock(b))
						return
					}
					rb, _ := rcs.ToBytes()
					if k == 0 {
						first = rb
						for _, rc := range rcs {
							if rc.Success {
								rep.Count("chain_contract_txs_ok", 1)
							}
						}
					} else if !bytes.Equal(first, rb) {
						rep.Violation(sig, fmt.Sprintf("chain block %d built by %s: re-execution %d produced different receipts", b.Height(), p.Name, k), DescribeBlock(b))
						return
					}
				}
			}
			res := w.NextBlock(0)
			w.beforeDistribute = nil
			if len(res.Errs) > 0 {
				for n, e := range res.Errs {
					sig := "chain-block-refused:" + ErrClass(e)
					if multiClass != "" {
						sig = "nondeterministic:" + multiClass
					}
					rep.Violation(sig, fmt.Sprintf("scenario %d step %d: block %d with contract txs built by the proposer is refused by %s: %v", sc, i, res.Block.Height(), n, e), DescribeBlock(res.Block))
				}
				break
			}
			rep.Count("chain_blocks", 1)
		}
		// which types were deployed in the canonical chain
		for _, l := range [][]*C15Contract{gen.Contracts, gen.Deployers} {
			for _, c := range l {
				if c.Deployed {
					rep.Count("chain_deployed:"+c15Versioned(c.Kind, w.Cons.EnableUpgrade10), 1)
				}
			}
		}
		w.Cleanup()
	}
}

// TestVerifC15SameBlock is the scripted form of the designated class "sendVote transactions
// and the finishVoting that pays them in ONE block" (oracle 5): a voting with five voters is
// driven to its public phase on the real chain, then the five reveals and the finishVoting
// are put into one block built by the real ProposeBlock of the observer and that block is
// executed N times on fresh check states. Every execution must accept it and produce the
// same receipts (same order of the `reward` events).
func TestVerifC15SameBlock(t *testing.T) {
	if !verifutil.Enabled() {
		t.Skip("verif harness")
	}
	c15SilenceStdout()
	rep := verifutil.NewReport()
	defer rep.Write()
	N := verifutil.Scale(16, 48)
	for sc, mode := range []string{"v12", "v9"} {
		seed := scenSeed(sc) + 15500
		o, kinds := c15Opts(seed, mode, 0)
		w := NewWorld(o)
		twin := w.AddTwin()
		if err := w.Prologue(); err != nil {
			c15Fatal(t, rep, "prologue: %v", err)
		}
		g := NewC15Gen(w, twin, verifutil.NewRng(seed, 155), kinds)
		if err := g.Fund(Dna(26000)); err != nil {
			c15Fatal(t, rep, "funding: %v", err)
		}
		g.usedS = map[common.Address]bool{}
		x := &c15Ctx{w: w, twin: twin, rep: rep, gen: g, K: 4}
		commit := func(what string, acts ...*C15Action) {
			for _, a := range acts {
				if out := x.Eval(a); !out.Included || !out.Success {
					c15Fatal(t, rep, "%s: twin evaluation of set-up tx failed: %s -> %+v", what, a.Describe(), out)
				}
				if err := w.Submit(a.Tx); err != nil {
					c15Fatal(t, rep, "%s: pool refused %s: %v", what, a.Describe(), err)
				}
			}
			w.Tick(20 * time.Second)
			if res := w.NextBlock(0); len(res.Errs) > 0 {
				c15Fatal(t, rep, "%s: block refused: %v", what, res.Errs)
			}
			for _, a := range acts {
				if rc := w.View().Chain.GetReceipt(a.Tx.Hash()); rc == nil || !rc.Success {
					c15Fatal(t, rep, "%s: set-up tx failed: %s -> %+v", what, a.Describe(), rc)
				}
			}
		}
		owner := w.Accounts[0]
		kind := c15Versioned(kOV, w.Cons.EnableUpgrade10)
		class := kind + ":sendVote+finishVoting"
		ns := uint64(w.View().AppState.ValidatorsCache.NetworkSize())
		c := &C15Contract{Kind: kOV, Owner: owner}
		dep := g.build(&cand{txKind: "Deploy", kind: kOV, c: c, from: owner, method: "deploy", shape: "valid", noMut: true,
			amount: new(big.Int).Add(g.minStake(), big.NewInt(5)),
			args:   [][]byte{[]byte("fact"), u64b(uint64(w.Now().Unix() - 10)), u64b(2), u64b(100), {51}, {1}, u64b(ns), {0}, {0}}})
		commit("deploy", dep)
		deposit := new(big.Int).Add(new(big.Int).SetBytes(g.cval(c.Addr, "ownerDeposit")), Dna(10))
		commit("start", g.build(&cand{txKind: "Call", kind: kOV, c: c, from: owner, method: "startVoting", amount: deposit, shape: "valid", noMut: true}))
		voters := w.Idents[:5]
		salts := map[common.Address][]byte{}
		var proofs []*C15Action
		for i, v := range voters {
			salts[v.Addr] = []byte{byte(i), 7}
			h := crypto.Hash(append(common.ToBytes(byte(1)), salts[v.Addr]...))
			proofs = append(proofs, g.build(&cand{txKind: "Call", kind: kOV, c: c, from: v, method: "sendVoteProof", amount: big.NewInt(0), args: [][]byte{h[:]}, shape: "valid", noMut: true}))
		}
		commit("proofs", proofs...)
		for g.nextHeight()-c15U64(g.cval(c.Addr, "startBlock")) < 2 {
			commit("wait")
		}
		// the same transactions in one block of the real multi-replica chain
		inChain := func(class string, acts []*C15Action) bool {
			for _, a := range acts {
				w.Submit(a.Tx)
			}
			w.Tick(20 * time.Second)
			res := w.NextBlock(0)
			for n, e := range res.Errs {
				rep.Violation("nondeterministic:"+class, fmt.Sprintf("real chain: block %d carrying the designated class is refused by %s: %v", res.Block.Height(), n, e), DescribeBlock(res.Block))
			}
			if len(res.Errs) == 0 {
				rep.Count("multi_in_real_chain:"+class, 1)
			}
			return len(res.Errs) == 0
		}
		// the designated block
		var txs []*C15Action
		var fin *Actor
		var finNonce uint32
		for _, v := range voters {
			txs = append(txs, g.build(&cand{txKind: "Call", kind: kOV, c: c, from: v, method: "sendVote", amount: big.NewInt(0), args: [][]byte{{1}, salts[v.Addr]}, shape: "valid", noMut: true}))
			if n := w.NextNonce(v); fin == nil || n > finNonce {
				fin, finNonce = v, n
			}
		}
		fa := g.build(&cand{txKind: "Call", kind: kOV, c: c, from: fin, method: "finishVoting", amount: big.NewInt(0), shape: "valid", noMut: true})
		fa.Tx = SignedTx(fin, fa.Tx.Type, fa.Tx.To, fa.Tx.Amount, fa.Tx.MaxFee, nil, finNonce+1, fa.Tx.Epoch, fa.Tx.Payload)
		txs = append(txs, fa)
		twin.enter()
		for _, a := range txs {
			if err := twin.TxPool.AddExternalTxs(validation.InboundTx, a.Tx); err != nil {
				c15Fatal(t, rep, "observer pool refused %s: %v", a.Describe(), err)
			}
		}
		b := twin.Chain.ProposeBlock(nil).Block
		for _, old := range twin.TxPool.VerifAll() {
			twin.TxPool.Remove(old)
		}
		if len(b.Body.Transactions) != len(txs) || b.Body.Transactions[len(txs)-1].Hash() != fa.Tx.Hash() {
			c15Fatal(t, rep, "designated block not built as planned: %v", DescribeBlock(b))
		}
		orders := map[string]int{}
		refused := map[string]int{}
		var desc []string
		for _, a := range txs {
			desc = append(desc, a.Describe())
		}
		for i := 0; i < N; i++ {
			_, rcs, err := twin.Chain.VerifValidateOnCheck(b)
			rep.Eval(1)
			rep.Count("reexecutions", 1)
			if err != nil {
				refused[ErrClass(err)]++
				continue
			}
			last := rcs[len(rcs)-1]
			if i == 0 && last.Success {
				rep.Count("sameblock_class_seen:"+class, 1)
				rep.Distinct("scripted", class)
			}
			if i == 0 {
				countReceipts(rep, kind, rcs)
			}
			var o []string
			for _, e := range last.Events {
				if len(e.Data) > 0 {
					o = append(o, fmt.Sprintf("%x", trunc(e.Data[0], 3)))
				}
			}
			orders[fmt.Sprintf("success=%v rewards=%s", last.Success, strings.Join(o, ">"))]++
		}
		// what the executions computed, independent of the comparison with the header
		raw := map[string]int{}
		for i := 0; i < N; i++ {
			rcs, err := twin.Chain.VerifProcessTxsOnCheck(b)
			if err != nil || len(rcs) != len(txs) {
				raw[fmt.Sprintf("error %v", err)]++
				continue
			}
			var o []string
			for _, e := range rcs[len(rcs)-1].Events {
				if len(e.Data) > 0 {
					o = append(o, fmt.Sprintf("%x", trunc(e.Data[0], 3)))
				}
			}
			raw[strings.Join(o, ">")]++
		}
		rep.Count("sameblock_distinct_reward_orders", len(raw))
		rep.Sample(map[string]interface{}{"class": class, "txs": desc, "executions": N, "accepted_with_reward_event_order": orders, "refused": refused,
			"reward_event_orders_of_N_plain_executions_of_the_tx_list": raw})
		if len(refused) > 0 || len(orders) > 1 || len(raw) > 1 {
			rep.Violation("nondeterministic:"+class, fmt.Sprintf("one block (5 sendVote + the finishVoting that pays them) built by ProposeBlock, executed %d times on fresh check states of the same head: refused %v; accepted executions by order of the reward events: %v; %d plain executions of its tx list gave %d different orders of the reward events",
				N, refused, orders, N, len(raw)), map[string]interface{}{"txs": desc, "block": DescribeBlock(b), "orders": orders, "refused": refused, "reward_orders": raw})
		}
		// ---- second designated class: deposits and the refund that pays them in one block
		{
			rkind := c15Versioned(kROL, w.Cons.EnableUpgrade10)
			rclass := rkind + ":deposit+refund"
			rc := &C15Contract{Kind: kROL, Owner: owner}
			feeArg := u64b(1000)
			if !w.Cons.EnableUpgrade10 {
				feeArg = []byte{1}
			}
			ghost := c15Addr(g.R) // a voting that does not exist: push unlocks the refund path
			commit("rol deploy", g.build(&cand{txKind: "Deploy", kind: kROL, c: rc, from: owner, method: "deploy", shape: "valid", noMut: true,
				amount: new(big.Int).Add(g.minStake(), big.NewInt(5)),
				args:   [][]byte{ghost.Bytes(), {1}, nil, nil, u64b(0), u64b(uint64(w.Now().Unix() + 100000)), feeArg}}))
			commit("rol first deposit", g.build(&cand{txKind: "Call", kind: kROL, c: rc, from: w.Accounts[1], method: "deposit", amount: Dna(300), shape: "valid", noMut: true}))
			commit("rol push", g.build(&cand{txKind: "Call", kind: kROL, c: rc, from: owner, method: "push", amount: big.NewInt(0), shape: "valid", noMut: true}))
			var rtxs []*C15Action
			var last *Actor
			var lastNonce uint32
			for i, d := range []*Actor{w.Accounts[2], w.Accounts[3], w.Idents[6], w.Idents[7]} {
				rtxs = append(rtxs, g.build(&cand{txKind: "Call", kind: kROL, c: rc, from: d, method: "deposit", amount: Dna(int64(7 + 300*i)), shape: "valid", noMut: true}))
				if n := w.NextNonce(d); last == nil || n > lastNonce {
					last, lastNonce = d, n
				}
			}
			ra := g.build(&cand{txKind: "Call", kind: kROL, c: rc, from: last, method: "refund", amount: big.NewInt(0), shape: "valid", noMut: true})
			ra.Tx = SignedTx(last, ra.Tx.Type, ra.Tx.To, ra.Tx.Amount, ra.Tx.MaxFee, nil, lastNonce+1, ra.Tx.Epoch, ra.Tx.Payload)
			rtxs = append(rtxs, ra)
			twin.enter()
			for _, a := range rtxs {
				if err := twin.TxPool.AddExternalTxs(validation.InboundTx, a.Tx); err != nil {
					c15Fatal(t, rep, "observer pool refused %s: %v", a.Describe(), err)
				}
			}
			rb := twin.Chain.ProposeBlock(nil).Block
			for _, old := range twin.TxPool.VerifAll() {
				twin.TxPool.Remove(old)
			}
			if len(rb.Body.Transactions) != len(rtxs) || rb.Body.Transactions[len(rtxs)-1].Hash() != ra.Tx.Hash() {
				c15Fatal(t, rep, "designated block not built as planned: %v", DescribeBlock(rb))
			}
			results := map[string]int{}
			var rdesc []string
			for _, a := range rtxs {
				rdesc = append(rdesc, a.Describe())
			}
			for i := 0; i < N; i++ {
				_, _, err := twin.Chain.VerifValidateOnCheck(rb)
				rep.Eval(1)
				rep.Count("reexecutions", 1)
				if err != nil {
					results["refused: "+ErrClass(err)]++
				}
				rcs, err := twin.Chain.VerifProcessTxsOnCheck(rb)
				if err != nil || len(rcs) != len(rtxs) {
					results[fmt.Sprintf("error %v", err)]++
					continue
				}
				lastRc := rcs[len(rcs)-1]
				if i == 0 && lastRc.Success {
					rep.Count("sameblock_class_seen:"+rclass, 1)
					rep.Distinct("scripted", rclass)
				}
				if i == 0 {
					countReceipts(rep, rkind, rcs)
				}
				var o []string
				for _, e := range lastRc.Events {
					if len(e.Data) > 0 {
						o = append(o, fmt.Sprintf("%x", trunc(e.Data[0], 3)))
					}
				}
				results[fmt.Sprintf("refund success=%v gasUsed=%d refunds=%s", lastRc.Success, lastRc.GasUsed, strings.Join(o, ">"))]++
			}
			rep.Sample(map[string]interface{}{"class": rclass, "txs": rdesc, "executions": N, "results": results})
			if len(results) > 1 {
				rep.Violation("nondeterministic:"+rclass, fmt.Sprintf("one block (4 deposit + the refund that pays them) built by ProposeBlock, executed %d times on fresh check states of the same head: %v", N, results),
					map[string]interface{}{"txs": rdesc, "block": DescribeBlock(rb), "results": results})
			}
			// both classes were evaluated on the observer; now they enter the real chain
			if inChain(class, txs) {
				inChain(rclass, rtxs)
			}
			// ---- locks that pay out to THEMSELVES: an oracle lock and a refundable oracle lock bound to
			// the voting that has just been finished, deployed with their own (future) address as success
			// and fail address; `push` then makes the contract send everything it holds to itself
			if c15B0(g.cval(c.Addr, "state")) == 2 {
				pusher := w.Accounts[4]
				lockCall := func(lc *C15Contract, from *Actor, method string, amount *big.Int) *C15Action {
					return g.build(&cand{txKind: "Call", kind: lc.Kind, c: lc, from: from, method: method, amount: amount, shape: "valid", noMut: true})
				}
				ol := &C15Contract{Kind: kOL, Owner: owner}
				self := g.futureAddr(owner)
				commit("self-paying oracle lock: deploy", g.build(&cand{txKind: "Deploy", kind: kOL, c: ol, from: owner, method: "deploy", shape: "valid", noMut: true,
					amount: new(big.Int).Add(g.minStake(), big.NewInt(5)), args: [][]byte{c.Addr.Bytes(), {1}, self.Bytes(), self.Bytes()}}))
				if ol.Addr != self {
					c15Fatal(t, rep, "the oracle lock did not get the predicted address")
				}
				commit("self-paying oracle lock: check", lockCall(ol, pusher, "checkOracleVoting", Dna(25)))
				commit("self-paying oracle lock: push", lockCall(ol, pusher, "push", Dna(3)))
				rl := &C15Contract{Kind: kROL, Owner: owner}
				self = g.futureAddr(owner)
				commit("self-paying refundable lock: deploy", g.build(&cand{txKind: "Deploy", kind: kROL, c: rl, from: owner, method: "deploy", shape: "valid", noMut: true,
					amount: new(big.Int).Add(g.minStake(), big.NewInt(5)),
					args:   [][]byte{c.Addr.Bytes(), {1}, self.Bytes(), self.Bytes(), u64b(0), u64b(uint64(w.Now().Unix() + 100000)), feeArg}}))
				if rl.Addr != self {
					c15Fatal(t, rep, "the refundable oracle lock did not get the predicted address")
				}
				commit("self-paying refundable lock: deposit", lockCall(rl, w.Accounts[1], "deposit", Dna(300)))
				commit("self-paying refundable lock: push", lockCall(rl, pusher, "push", big.NewInt(0)))
			} else {
				rep.Note("scenario %s: the scripted voting is not in state finished, self-paying locks not exercised", mode)
			}
		}
		w.Cleanup()
	}
}

// TestVerifC15LongTermination (thorough tier): terminating a STARTED oracle voting is only
// possible votingDuration + publicVotingDuration + days*4320 blocks after its start (days = 7
// for the minimal stake), so the chain is advanced by > 30 000 empty blocks. Two votings are
// then terminated: one that was finished (keeps fact/result/hash) and one that never was
// (pays every voter, revealed or not, and burns the rest) — the latter also with a sweep of
// gas budgets that end inside the payout loop.
func TestVerifC15LongTermination(t *testing.T) {
	if !verifutil.Enabled() {
		t.Skip("verif harness")
	}
	c15SilenceStdout()
	rep := verifutil.NewReport()
	defer rep.Write()
	modes := []string{"v12", "v9"}
	mode := modes[verifutil.Shard()%len(modes)]
	seed := scenSeed(0) + 15900
	o, kinds := c15Opts(seed, mode, 0)
	w := NewWorld(o)
	twin := w.AddTwin()
	if err := w.Prologue(); err != nil {
		c15Fatal(t, rep, "prologue: %v", err)
	}
	g := NewC15Gen(w, twin, verifutil.NewRng(seed, 159), kinds)
	if err := g.Fund(Dna(26000)); err != nil {
		c15Fatal(t, rep, "funding: %v", err)
	}
	g.usedS = map[common.Address]bool{}
	x := &c15Ctx{w: w, twin: twin, rep: rep, gen: g, K: 4}
	commit := func(what string, acts ...*C15Action) {
		for _, a := range acts {
			if out := x.Eval(a); !out.Included || !out.Success {
				c15Fatal(t, rep, "%s: twin evaluation of set-up tx failed: %s -> %+v", what, a.Describe(), out)
			}
			if err := w.Submit(a.Tx); err != nil {
				c15Fatal(t, rep, "%s: pool refused %s: %v", what, a.Describe(), err)
			}
		}
		w.Tick(20 * time.Second)
		if res := w.NextBlock(0); len(res.Errs) > 0 {
			c15Fatal(t, rep, "%s: block refused: %v", what, res.Errs)
		}
	}
	call := func(c *C15Contract, from *Actor, method string, amount *big.Int, args ...[]byte) *C15Action {
		return g.build(&cand{txKind: "Call", kind: kOV, c: c, from: from, method: method, amount: amount, args: args, shape: "valid", noMut: true})
	}
	ns := uint64(w.View().AppState.ValidatorsCache.NetworkSize())
	owner := w.Accounts[0]
	var vs [2]*C15Contract
	for i := range vs {
		c := &C15Contract{Kind: kOV, Owner: owner}
		vs[i] = c
		commit("deploy", g.build(&cand{txKind: "Deploy", kind: kOV, c: c, from: owner, method: "deploy", shape: "valid", noMut: true,
			amount: new(big.Int).Add(g.minStake(), big.NewInt(5)),
			args:   [][]byte{[]byte("fact"), u64b(uint64(w.Now().Unix() - 10)), u64b(6), u64b(100), {51}, {1}, u64b(ns), Dna(1).Bytes(), {10}}}))
		dep := new(big.Int).Add(new(big.Int).SetBytes(g.cval(c.Addr, "ownerDeposit")), Dna(50))
		commit("start", call(c, owner, "startVoting", dep))
	}
	voters := w.Idents[:6]
	salt := func(v *Actor) []byte { return []byte{v.Addr[0], 9} }
	for _, c := range vs {
		var l []*C15Action
		for _, v := range voters {
			h := crypto.Hash(append(common.ToBytes(byte(1)), salt(v)...))
			l = append(l, call(c, v, "sendVoteProof", Dna(1), h[:]))
		}
		commit("proofs", l...)
	}
	for g.nextHeight()-c15U64(g.cval(vs[1].Addr, "startBlock")) < 6 {
		commit("wait")
	}
	// voting 0: everybody reveals, then it is finished; voting 1: four of six reveal, never finished
	for i, c := range vs {
		var l []*C15Action
		for j, v := range voters {
			if i == 1 && j >= 4 {
				continue
			}
			l = append(l, call(c, v, "sendVote", nil, []byte{1}, salt(v)))
		}
		commit("reveals", l...)
	}
	commit("finish", call(vs[0], owner, "finishVoting", nil))
	// a premature termination must fail without a trace
	early := g.build(&cand{txKind: "Terminate", kind: kOV, c: vs[1], from: owner, method: "terminate", amount: big.NewInt(0), shape: "valid", noMut: true})
	if out := x.Eval(early); out.Success {
		c15Fatal(t, rep, "premature termination succeeded")
	}
	// > 30 000 empty blocks
	need := c15U64(g.cval(vs[1].Addr, "startBlock")) + 6 + 100 + 7*4320 + 3
	t0 := time.Now()
	for w.View().Head().Height()+1 < need {
		w.Tick(20 * time.Second)
		if res := w.NextBlock(100); len(res.Errs) > 0 {
			c15Fatal(t, rep, "empty block refused: %v", res.Errs)
		}
	}
	rep.Count("empty_blocks_waited", int(need))
	rep.SetInfo("long_wait_seconds", int(time.Since(t0).Seconds()))
	kind := c15Versioned(kOV, w.Cons.EnableUpgrade10)
	for i, c := range vs {
		term := g.build(&cand{txKind: "Terminate", kind: kOV, c: c, from: w.Accounts[1+i], method: "terminate", amount: big.NewInt(0), shape: "valid", noMut: true})
		out := x.Eval(term)
		if !out.Included || !out.Success {
			rep.Inconcl("late termination of voting %d did not succeed: %+v", i, out)
			continue
		}
		rep.Count("late_termination_ok:"+kind, 1)
		// every gas budget that ends inside the termination (payout loop, removal of the store)
		stepG := int64(out.GasUsed)/int64(verifutil.Scale(40, 160)) + 1
		for gas := int64(0); gas < int64(out.GasUsed); gas += stepG {
			if so := x.Eval(g.WithGas(term, gas)); so.Included {
				rep.Count("gas_sweeps", 1)
			}
		}
		if err := w.Submit(term.Tx); err != nil {
			c15Fatal(t, rep, "pool refused %s: %v", term.Describe(), err)
		}
		w.Tick(20 * time.Second)
		if res := w.NextBlock(0); len(res.Errs) > 0 {
			for n, e := range res.Errs {
				rep.Violation("chain-block-refused:"+ErrClass(e), fmt.Sprintf("block with the late termination refused by %s: %v", n, e), DescribeBlock(res.Block))
			}
			break
		}
		if g.st().GetCodeHash(c.Addr) != nil {
			rep.Violation("success-not-applied:"+kind+":terminate:still-there", "terminated voting still exists in the canonical chain", term.Describe())
		}
	}
	w.Cleanup()
}
