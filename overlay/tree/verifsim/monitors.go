package verifsim

import (
	"fmt"
	"math/big"
	"regexp"
	"sort"
	"strings"

	"github.com/idena-network/idena-go/blockchain/types"
	"github.com/idena-network/idena-go/common"
	"github.com/idena-network/idena-go/core/state"
	"github.com/idena-network/idena-go/core/validators"
	"github.com/idena-network/idena-go/verifutil"
)

var reHex = regexp.MustCompile(`0x[0-9a-fA-F]+|[0-9a-fA-F]{8,}|[0-9]+`)

// ErrClass strips addresses, hashes and numbers from an error message.
func ErrClass(err error) string {
	if err == nil {
		return "nil"
	}
	s := reHex.ReplaceAllString(err.Error(), "#")
	if len(s) > 90 {
		s = s[:90]
	}
	return s
}

func BlockKind(b *types.Block) string {
	if b.IsEmpty() {
		return "empty" + flagStr(b.Header.Flags())
	}
	return "proposed" + flagStr(b.Header.Flags())
}

func flagStr(f types.BlockFlag) string {
	names := []struct {
		f types.BlockFlag
		n string
	}{{types.IdentityUpdate, "IdentityUpdate"}, {types.FlipLotteryStarted, "FlipLottery"}, {types.ShortSessionStarted, "Short"},
		{types.LongSessionStarted, "Long"}, {types.AfterLongSessionStarted, "AfterLong"}, {types.ValidationFinished, "ValidationFinished"},
		{types.Snapshot, "Snapshot"}, {types.OfflinePropose, "OfflinePropose"}, {types.OfflineCommit, "OfflineCommit"}, {types.NewGenesis, "NewGenesis"}}
	var s []string
	for _, x := range names {
		if f.HasFlag(x.f) {
			s = append(s, x.n)
		}
	}
	if len(s) == 0 {
		return ""
	}
	return "+" + strings.Join(s, "+")
}

func TxTypesOf(b *types.Block) string {
	m := map[string]bool{}
	for _, tx := range b.Body.Transactions {
		m[TxName(tx.Type)] = true
	}
	var l []string
	for k := range m {
		l = append(l, k)
	}
	sort.Strings(l)
	return strings.Join(l, ",")
}

func DescribeBlock(b *types.Block) map[string]interface{} {
	var txs []string
	for _, tx := range b.Body.Transactions {
		to := "nil"
		if tx.To != nil {
			to = fmt.Sprintf("%x", tx.To[:4])
		}
		s := senderOf(tx)
		txs = append(txs, fmt.Sprintf("%s from=%x to=%s nonce=%d epoch=%d amount=%v maxFee=%v tips=%v payload=%dB", TxName(tx.Type), s[:4], to,
			tx.AccountNonce, tx.Epoch, tx.AmountOrZero(), tx.MaxFeeOrZero(), tx.TipsOrZero(), len(tx.Payload)))
	}
	return map[string]interface{}{"height": b.Height(), "kind": BlockKind(b), "hash": b.Hash().Hex(), "time": b.Header.Time(), "txs": txs}
}

// ------------------------------------------------------------------ C02 / C01 cross-replica agreement

// CheckAgreement compares head, roots and full state digests of all live replicas.
func CheckAgreement(w *World, rep *verifutil.Report, pid string, b *types.Block) bool {
	var ref *Replica
	var refD StateDigest
	ok := true
	for _, r := range w.Replicas {
		if !r.Alive {
			continue
		}
		d := DigestState(r.AppState)
		if ref == nil {
			ref, refD = r, d
			continue
		}
		if r.Head().Hash() != ref.Head().Hash() || d != refD {
			cls := FirstStateDiff(StateKV(ref.AppState), StateKV(r.AppState))
			rep.Violation("diverged:"+cls+":"+BlockKind(b), fmt.Sprintf("after block %d (%s) replica %s and %s disagree: %s vs %s", b.Height(), BlockKind(b), ref.Name, r.Name, refD, d),
				DescribeBlock(b))
			ok = false
		}
	}
	return ok
}

// ------------------------------------------------------------------ C04 conservation

type LedgerMonitor struct {
	Prev       *Ledger
	PrevHeight uint64
}

// Check compares the committed ledger of replica 0 after block b with the ledger before it.
func (m *LedgerMonitor) Check(w *World, rep *verifutil.Report, b *types.Block, epochBlockBefore uint64) {
	cur := LedgerOf(w.View().AppState)
	defer func() { m.Prev = cur; m.PrevHeight = b.Height() }()
	// non-negativity / structural: locked and replenished parts within the stake
	for a, e := range cur.ByAddr {
		if e.Balance.Sign() < 0 || e.Stake.Sign() < 0 || e.ContractStake.Sign() < 0 || e.Locked.Sign() < 0 || e.Replenished.Sign() < 0 {
			rep.Violation("negative:"+BlockKind(b), fmt.Sprintf("negative component at %x after block %d: %+v", a[:4], b.Height(), e), DescribeBlock(b))
		}
		if e.Locked.Cmp(e.Stake) > 0 {
			rep.Violation("locked-exceeds-stake:"+BlockKind(b)+":"+TxTypesOf(b), fmt.Sprintf("locked stake %v > stake %v at %x after block %d", e.Locked, e.Stake, a[:4], b.Height()), DescribeBlock(b))
		}
	}
	if m.Prev == nil {
		return
	}
	delta := new(big.Int).Sub(cur.Total, m.Prev.Total)
	allow := new(big.Int)
	per := new(big.Int).Add(w.Cons.BlockReward, w.Cons.FinalCommitteeReward)
	if !b.IsEmpty() {
		allow.Add(allow, per)
	}
	if b.Header.Flags().HasFlag(types.ValidationFinished) {
		allow.Add(allow, new(big.Int).Mul(per, new(big.Int).SetUint64(b.Height()-epochBlockBefore)))
	}
	rep.Count("ledger_checks", 1)
	if b.Header.Flags().HasFlag(types.ValidationFinished) && allow.Sign() > 0 && delta.Sign() > 0 {
		// how much of the epoch pool was paid out: a bound violation by x% is only visible when
		// the payout ratio exceeds 1-x
		ratio := new(big.Int).Div(new(big.Int).Mul(delta, big.NewInt(100)), allow).Int64()
		switch {
		case ratio >= 97:
			rep.Count("epoch_payout_ratio>=97%", 1)
		case ratio >= 90:
			rep.Count("epoch_payout_ratio>=90%", 1)
		case ratio >= 70:
			rep.Count("epoch_payout_ratio>=70%", 1)
		default:
			rep.Count("epoch_payout_ratio<70%", 1)
		}
	}
	if delta.Sign() != 0 {
		rep.Count("ledger_nonzero_delta", 1)
	}
	if delta.Cmp(allow) > 0 {
		excess := new(big.Int).Sub(delta, allow)
		sig := "issuance:" + BlockKind(b) + ":" + TxTypesOf(b)
		if b.Header.Flags().HasFlag(types.ValidationFinished) && new(big.Int).Mul(excess, big.NewInt(1000000)).Cmp(allow) < 0 {
			// the epoch pool is overdrawn by less than a millionth: float32 accumulation of the
			// reward weights (Σ weight_i as paid vs. the float32 total the share is divided by)
			sig = "epoch-reward-rounding-excess:relative<1e-6"
		}
		rep.Violation(sig, fmt.Sprintf("block %d (%s): total grew by %v, allowance %v, excess %v", b.Height(), BlockKind(b), delta, allow, excess),
			map[string]interface{}{"block": DescribeBlock(b), "delta": delta.String(), "allowance": allow.String(), "diff": LedgerDiff(m.Prev, cur)})
	}
}

// LedgerDiff lists per-address changes between two ledgers.
func LedgerDiff(a, b *Ledger) []string {
	var out []string
	seen := map[common.Address]bool{}
	add := func(addr common.Address) {
		if seen[addr] {
			return
		}
		seen[addr] = true
		ea, eb := a.ByAddr[addr], b.ByAddr[addr]
		z := &LedgerEntry{Balance: new(big.Int), Stake: new(big.Int), Locked: new(big.Int), Replenished: new(big.Int), ContractStake: new(big.Int)}
		if ea == nil {
			ea = z
		}
		if eb == nil {
			eb = z
		}
		if ea.Balance.Cmp(eb.Balance) != 0 || ea.Stake.Cmp(eb.Stake) != 0 || ea.ContractStake.Cmp(eb.ContractStake) != 0 {
			out = append(out, fmt.Sprintf("%x: balance %v->%v stake %v->%v cstake %v->%v state %d->%d", addr[:4], ea.Balance, eb.Balance, ea.Stake, eb.Stake,
				ea.ContractStake, eb.ContractStake, ea.State, eb.State))
		}
	}
	for k := range a.ByAddr {
		add(k)
	}
	for k := range b.ByAddr {
		add(k)
	}
	sort.Strings(out)
	if len(out) > 30 {
		out = append(out[:30], "…")
	}
	return out
}

// ------------------------------------------------------------------ C06 replay history

type ReplayMonitor struct {
	Seen   map[common.Hash]uint64               // tx hash -> height
	Nonces map[common.Address]map[uint16]uint32 // sender -> epoch -> last nonce
	Txs    []*types.Transaction
	TxAt   []uint64
}

func NewReplayMonitor() *ReplayMonitor {
	return &ReplayMonitor{Seen: map[common.Hash]uint64{}, Nonces: map[common.Address]map[uint16]uint32{}}
}

// OnBlock checks the chain-level clauses for an inserted canonical block. epochBefore is the
// global epoch of the state the block was applied on.
func (m *ReplayMonitor) OnBlock(rep *verifutil.Report, b *types.Block, epochBefore uint16) {
	for _, tx := range b.Body.Transactions {
		h := tx.Hash()
		rep.Count("history_txs", 1)
		if at, dup := m.Seen[h]; dup {
			rep.Violation("tx-twice:"+TxName(tx.Type), fmt.Sprintf("tx %x included at height %d and again at %d", h[:6], at, b.Height()), DescribeBlock(b))
		}
		m.Seen[h] = b.Height()
		if tx.Epoch != epochBefore {
			rep.Violation("foreign-epoch:"+TxName(tx.Type), fmt.Sprintf("tx %x signed for epoch %d applied in epoch %d (height %d)", h[:6], tx.Epoch, epochBefore, b.Height()), DescribeBlock(b))
		}
		s := senderOf(tx)
		pe := m.Nonces[s]
		if pe == nil {
			pe = map[uint16]uint32{}
			m.Nonces[s] = pe
		}
		if tx.AccountNonce != pe[tx.Epoch]+1 {
			rep.Violation("nonce-gap:"+TxName(tx.Type), fmt.Sprintf("sender %x epoch %d: nonce %d follows %d (height %d)", s[:4], tx.Epoch, tx.AccountNonce, pe[tx.Epoch], b.Height()), DescribeBlock(b))
		}
		pe[tx.Epoch] = tx.AccountNonce
		m.Txs = append(m.Txs, tx)
		m.TxAt = append(m.TxAt, b.Height())
	}
}

// Rewind forgets blocks above height (used when the observed replica reorganises).
func (m *ReplayMonitor) Rewind(height uint64) {
	n := len(m.Txs)
	for n > 0 && m.TxAt[n-1] > height {
		n--
		tx := m.Txs[n]
		delete(m.Seen, tx.Hash())
		s := senderOf(tx)
		m.Nonces[s][tx.Epoch] = tx.AccountNonce - 1
	}
	m.Txs, m.TxAt = m.Txs[:n], m.TxAt[:n]
}

// ------------------------------------------------------------------ C10 validators registry

// CheckValidators compares the incrementally maintained cache of r with a fresh instance
// loaded from the same identity state, and the registry with the identity ledger.
func CheckValidators(w *World, r *Replica, rep *verifutil.Report, b *types.Block) {
	as := r.AppState
	var addrs []common.Address
	for _, a := range w.SortedActors() {
		addrs = append(addrs, a.Addr)
	}
	seed := b.Header.Seed()
	probes := []CommitteeProbe{{seed, b.Height() + 1, 1, 3}, {seed, b.Height() + 1, types.Final, 7}, {seed, b.Height() + 1, 2, 100}, {seed, b.Height() + 1, types.ReductionOne, 1}}
	inc := ValidatorsDump(as.ValidatorsCache, addrs, probes)
	fresh := validators.NewValidatorsCache(as.IdentityState, as.State.GodAddress())
	fresh.Load()
	reb := ValidatorsDump(fresh, addrs, probes)
	rep.Count("validator_view_checks", 1)
	for i := range inc {
		if i >= len(reb) || inc[i] != reb[i] {
			o := ""
			if i < len(reb) {
				o = reb[i]
			}
			cls := strings.SplitN(strings.TrimSpace(inc[i]), " ", 2)[0]
			if len(cls) == 8 {
				cls = "perAddress"
			}
			rep.Violation("registry-rebuild-differs:"+cls+":"+BlockKind(b), fmt.Sprintf("replica %s after block %d (%s): incremental %q vs rebuilt %q", r.Name, b.Height(), BlockKind(b), inc[i], o),
				DescribeBlock(b))
			break
		}
	}
	// registry vs ledger
	st := as.State
	for _, a := range addrs {
		id := st.GetIdentity(a)
		validated := id.State == state.Newbie || id.State == state.Verified || id.State == state.Human
		if as.IdentityState.IsValidated(a) != validated {
			rep.Violation("registry-ledger:validated:"+BlockKind(b)+":"+TxTypesOf(b), fmt.Sprintf("after block %d: %x has status %d but registry validated=%v", b.Height(), a[:4], id.State, as.IdentityState.IsValidated(a)), DescribeBlock(b))
		}
		if as.IdentityState.IsOnline(a) && !(as.IdentityState.IsValidated(a) || as.ValidatorsCache.IsPool(a)) {
			rep.Violation("registry-ledger:online-not-validated:"+BlockKind(b)+":"+TxTypesOf(b), fmt.Sprintf("after block %d: %x is online but neither validated nor a pool (status %d)", b.Height(), a[:4], id.State), DescribeBlock(b))
		}
		if validated {
			ld, rd := id.Delegatee(), as.IdentityState.Delegatee(a)
			if (ld == nil) != (rd == nil) || ld != nil && *ld != *rd {
				rep.Violation("registry-ledger:delegatee:"+BlockKind(b)+":"+TxTypesOf(b), fmt.Sprintf("after block %d: %x ledger delegatee %v registry delegatee %v", b.Height(), a[:4], ld, rd), DescribeBlock(b))
			}
		}
	}
}
