package verifsim

import (
	"fmt"
	"testing"

	"github.com/idena-network/idena-go/verifutil"
)

// exploratory run with all chain monitors attached (development aid)
func TestVerifExplore(t *testing.T) {
	if !verifutil.Enabled() {
		t.Skip("verif harness")
	}
	rep := verifutil.NewReport()
	defer rep.Write()
	for sc := 0; sc < 12; sc++ {
		seed := verifutil.Seed()*1000 + uint64(sc)
		w := NewWorld(Options{Seed: seed, NNodes: 2, NIdent: 14 + sc*4, NAccounts: 4, GodIsIdentity: sc%2 == 1})
		if err := w.Prologue(); err != nil {
			t.Fatal(err)
		}
		s := NewScenario(w, verifutil.NewRng(seed, 77))
		lm := &LedgerMonitor{}
		rm := NewReplayMonitor()
		for _, b := range w.Blocks {
			rm.OnBlock(rep, b, 0)
		}
		for i := 0; i < 400; i++ {
			st := w.View().AppState.State
			epochBefore, epochBlockBefore := st.Epoch(), st.EpochBlock()
			res := s.Step()
			if len(res.Errs) > 0 {
				for n, e := range res.Errs {
					who := "nil"
					if res.Proposer != nil {
						who = res.Proposer.Name
					}
					rep.Violation("rejected:"+ErrClass(e)+":"+TxTypesOf(res.Block), fmt.Sprintf("scenario %d step %d: block %d by %s refused by %s: %v", sc, i, res.Block.Height(), who, n, e), DescribeBlock(res.Block))
				}
				break
			}
			rep.Eval(1)
			b := res.Block
			rep.Count("kind:"+BlockKind(b), 1)
			CheckAgreement(w, rep, "C01", b)
			lm.Check(w, rep, b, epochBlockBefore)
			rm.OnBlock(rep, b, epochBefore)
			for _, r := range w.Replicas {
				CheckValidators(w, r, rep, b)
			}
		}
		for k, v := range s.Included {
			rep.Count("included:"+k, v)
		}
		for k, v := range w.Stats {
			rep.Count(k, v)
		}
		fmt.Println("scenario", sc, "head", w.View().Head().Height(), "epoch", w.View().AppState.State.Epoch(), "violations", rep.NViolations())
		w.Cleanup()
	}
	for k, v := range rep.Counters {
		fmt.Println(k, v)
	}
}
