//go:build c12

package verifsim

// Corpus side of the hostile-input monitor (engine E3, property C12, DESIGN §C12).
// Everything here PRODUCES inputs from the real chain simulator: a populated world, a victim
// node (replica + the real Votes / Proposals / KeysPool / Flipper objects of a node) that
// lags a few blocks behind the world, valid proposals / votes / certificates / flips / keys
// relative to the victim's head, and the typed hostile transaction generator
// (every tx type x recipient shape x payload shape x amount x epoch/nonce relation, signed
// by funded senders). Oracles live in protocol/zz_verif_c12_test.go.

import (
	"crypto/ecdsa"
	"fmt"
	"math/big"
	"sort"
	"sync"
	"time"

	"github.com/idena-network/idena-go/blockchain/attachments"
	"github.com/idena-network/idena-go/blockchain/fee"
	"github.com/idena-network/idena-go/blockchain/types"
	"github.com/idena-network/idena-go/common"
	"github.com/idena-network/idena-go/core/flip"
	"github.com/idena-network/idena-go/core/mempool"
	"github.com/idena-network/idena-go/core/state"
	"github.com/idena-network/idena-go/core/validators"
	"github.com/idena-network/idena-go/crypto"
	"github.com/idena-network/idena-go/crypto/vrf/p256"
	"github.com/idena-network/idena-go/ipfs"
	"github.com/idena-network/idena-go/pengings"
	"github.com/idena-network/idena-go/verifutil"
	"github.com/idena-network/idena-go/vm/embedded"
	dbm "github.com/tendermint/tm-db"
)

// C12Node is the part of node.NewNodeWithInjections the gossip handler talks to, built on a
// simulator replica with the same constructors and the same start-up calls
// (node.StartWithHeight: flipKeyPool.Initialize, votes.Initialize, fp.Initialize).
type C12Node struct {
	R             *Replica
	Votes         *pengings.Votes
	Proposals     *pengings.Proposals
	PendingProofs *sync.Map
	KeysPool      *mempool.KeysPool
	Flipper       *flip.Flipper
	Snapshots     *state.SnapshotManager
}

func NewC12Node(r *Replica) *C12Node {
	n := &C12Node{R: r}
	n.Votes = pengings.NewVotes(r.AppState, r.Bus, r.Offline, r.Upgrader)
	n.KeysPool = mempool.NewKeysPool(r.DB, r.AppState, r.Bus, r.SecStore)
	n.Proposals, n.PendingProofs = pengings.NewProposals(r.Chain, r.AppState, r.Offline, r.Upgrader, r.Stats)
	n.Flipper = flip.NewFlipper(r.DB, r.Ipfs, n.KeysPool, r.TxPool, r.SecStore, r.AppState, r.Bus)
	n.Snapshots = state.NewSnapshotManager(r.DB, r.AppState.State, r.Bus, r.Ipfs, r.Cfg)
	// the victim is only ever advanced by the downloader's consumers, i.e. while the node is
	// syncing (Downloader.startSync -> sm.StartSync()): no snapshot writer goroutine is started
	// on AddBlock (it would race with the harness' rollback, not with anything a peer sent)
	n.Snapshots.StartSync()
	n.KeysPool.Initialize(r.Chain.Head)
	n.Votes.Initialize(r.Chain.Head)
	n.Flipper.Initialize()
	return n
}

// C12Env is one prepared universe of a child process.
type C12Env struct {
	W      *World
	S      *Scenario
	Victim *C12Node // populated chain; head H; does not get the blocks in Ahead
	Empty  *C12Node // genesis only
	H      uint64
	// what the world produced after the victim stopped following
	Ahead      []*types.Block
	AheadCerts []*types.BlockCert // valid final certificates for Ahead[i] (committee as of Ahead[i-1])
	AheadDiffs []*state.IdentityStateDiff
	// valid objects relative to the victim's head
	Proposals []*types.BlockProposal // round H+1, with VRF proofs that pass the sortition
	Txs       []*types.Transaction   // generated against head H, never submitted
	Notes     []string
}

func (e *C12Env) note(f string, a ...interface{}) { e.Notes = append(e.Notes, fmt.Sprintf(f, a...)) }

type C12Options struct {
	Seed   uint64
	Steps  int
	Period state.ValidationPeriod // ceremony period the victim's head is in
	Ahead  int
	Epochs int // minimal epoch of the victim's head (0 or 1)
}

// C12Build populates a world with the scenario generator, parks the victim at head H in the
// requested ceremony period, collects proposals for round H+1 and lets the rest of the world
// run Ahead blocks further.
func C12Build(o C12Options) (*C12Env, error) {
	e := &C12Env{}
	opt := Options{Seed: o.Seed, NNodes: 3, NIdent: 14, NAccounts: 6, GodIsIdentity: o.Seed%2 == 1,
		ValidationInterval: 70 * time.Minute, AllValidated: false,
		// long sessions: room for a dozen heads inside one ceremony period (search for a head at which proposers win the sortition)
		FlipLottery: 6 * time.Minute, ShortSession: 5 * time.Minute, LongSession: 8 * time.Minute}
	opt.StartTime = time.Date(2023, 8, 7+int(o.Seed%7), 6+int(o.Seed%13), 0, 0, 0, time.UTC)
	w := NewWorld(opt)
	e.W = w
	twin := w.AddTwin()
	if err := w.Prologue(); err != nil {
		return nil, err
	}
	s := NewScenario(w, verifutil.NewRng(o.Seed, 12))
	s.Hostile, s.MaxTxs, s.PartialPct, s.EmptyPct = 20, 6, 5, 6
	e.S = s
	for i := 0; i < o.Steps || int(w.View().AppState.State.Epoch()) < o.Epochs && i < o.Steps*6; i++ {
		if s.R.Intn(4) == 0 {
			for _, g := range w.Burst(s.R) {
				s.SubmitGen(g)
			}
		}
		res := s.Step()
		if len(res.Errs) > 0 {
			return nil, fmt.Errorf("populating: block %d refused: %v", res.Block.Height(), res.Errs)
		}
	}
	// get out of a running ceremony, then make sure identities own flips (flip keys, key
	// packages, flips and DeleteFlip need them)
	for i := 0; i < 40 && w.View().AppState.State.ValidationPeriod() != state.NonePeriod; i++ {
		w.Tick(40 * time.Second)
		if res := w.NextBlock(0); len(res.Errs) > 0 {
			return nil, fmt.Errorf("leaving ceremony: %v", res.Errs)
		}
	}
	w.c12EnsureFlips(s.R, 6)
	if err := w.c12AdvanceTo(o.Period); err != nil {
		e.note("could not reach period %d: %v", o.Period, err)
	}
	// a head at which node replicas win the proposer sortition (without leaving the period)
	for try := 0; try < 60; try++ {
		wins := 0
		for _, r := range w.Replicas {
			if r.Observer || !r.CanPropose() {
				continue
			}
			if ok, _ := r.Chain.GetProposerSortition(); ok {
				wins++
			}
		}
		if wins >= 2 || wins == 1 && try >= 8 {
			break
		}
		st := w.View().AppState.State
		if o.Period != state.NonePeriod {
			// would the next block leave the period?
			nvt := st.NextValidationTime()
			next := w.Now().Add(11 * time.Second)
			var end time.Time
			switch o.Period {
			case state.FlipLotteryPeriod:
				end = nvt
			case state.ShortSessionPeriod:
				end = nvt.Add(w.Opt.ShortSession)
			case state.LongSessionPeriod:
				end = nvt.Add(w.Opt.ShortSession + w.Opt.LongSession)
			default:
				end = next
			}
			if !next.Before(end.Add(-2 * time.Second)) {
				break
			}
			w.Tick(11 * time.Second)
		} else {
			w.Tick(15 * time.Second)
		}
		if res := w.NextBlock(0); len(res.Errs) > 0 {
			return nil, fmt.Errorf("sortition search: %v", res.Errs)
		}
		if w.View().AppState.State.ValidationPeriod() != o.Period && o.Period != state.NonePeriod {
			e.note("left period %d while searching a winning head", o.Period)
			break
		}
	}
	e.H = twin.Head().Height()
	// proposals for round H+1 from every replica that may propose, with different pools
	w.Tick(12 * time.Second)
	for i := 0; i < 4; i++ {
		s.SubmitGen(w.RandomTx(s.R, 0))
	}
	for _, r := range w.Replicas {
		if r.Observer || !r.CanPropose() {
			continue
		}
		r.enter()
		if ok, proof := r.Chain.GetProposerSortition(); ok {
			e.Proposals = append(e.Proposals, r.Chain.ProposeBlock(proof))
		}
	}
	for i := 0; i < 140; i++ {
		if g := w.RandomTx(s.R, 15); g != nil && g.Tx != nil {
			e.Txs = append(e.Txs, g.Tx)
		}
	}
	// the world moves on without the victim
	twin.Alive = false
	for i := 0; i < o.Ahead; i++ {
		view := w.View()
		prev := view.Head()
		vc := view.AppState.ValidatorsCache.Clone()
		res := s.Step()
		if len(res.Errs) > 0 {
			e.note("ahead block %d refused: %v", i, res.Errs)
			break
		}
		b := res.Block
		e.Ahead = append(e.Ahead, b)
		e.AheadCerts = append(e.AheadCerts, w.C12Cert(view, vc, prev, b.Header, types.Final))
		e.AheadDiffs = append(e.AheadDiffs, view.Chain.GetIdentityDiff(b.Height()))
		// the in-memory certificate store of the replicas gets the valid one too
		for _, r := range w.Replicas {
			if r.Alive {
				r.Chain.WriteCertificate(b.Hash(), e.AheadCerts[len(e.AheadCerts)-1], true)
			}
		}
	}
	e.Victim = NewC12Node(twin)
	empty := w.NewReplica(w.Nodes[len(w.Nodes)-1], dbm.NewMemDB())
	empty.Name, empty.Alive, empty.Observer = "empty", false, true
	e.Empty = NewC12Node(empty)
	return e, nil
}

func (w *World) c12EnsureFlips(r *verifutil.Rng, rounds int) {
	for k := 0; k < rounds; k++ {
		n := 0
		for _, a := range w.SortedActors() {
			id := w.Identity(a.Addr)
			if id.State < state.Candidate || id.State == state.Killed || int(id.GetMaximumAvailableFlips()) <= len(id.Flips) {
				continue
			}
			used := map[uint8]bool{}
			for _, f := range id.Flips {
				used[f.Pair] = true
			}
			pair := uint8(0)
			for used[pair] {
				pair++
			}
			if int(pair) >= maxInt(1, id.GetTotalWordPairsCount()) && a != w.God {
				continue
			}
			tx := w.Tx(a, types.SubmitFlipTx, nil, nil, attachments.CreateFlipSubmitAttachment(FakeCid(r), pair))
			if w.Submit(tx) == nil {
				n++
			}
		}
		w.Tick(15 * time.Second)
		w.NextBlock(0)
		if n == 0 {
			return
		}
	}
}

func (w *World) c12AdvanceTo(p state.ValidationPeriod) error {
	for i := 0; i < 16; i++ {
		st := w.View().AppState.State
		cur := st.ValidationPeriod()
		if cur >= p {
			return nil
		}
		nvt := st.NextValidationTime()
		var t time.Time
		switch cur {
		case state.NonePeriod:
			t = nvt.Add(-w.Opt.FlipLottery + 3*time.Second)
		case state.FlipLotteryPeriod:
			t = nvt.Add(2 * time.Second)
		case state.ShortSessionPeriod:
			t = nvt.Add(w.Opt.ShortSession + 3*time.Second)
		default:
			t = nvt.Add(w.Opt.ShortSession + w.Opt.LongSession + 5*time.Second)
		}
		if ht := w.HeadTime().Add(11 * time.Second); t.Before(ht) {
			t = ht
		}
		if w.Now().Before(t) {
			setClock(t)
		} else {
			w.Tick(11 * time.Second)
		}
		if res := w.NextBlock(0); len(res.Errs) > 0 {
			return fmt.Errorf("block refused: %v", res.Errs)
		}
	}
	return fmt.Errorf("period %d not reached (at %d)", p, w.View().AppState.State.ValidationPeriod())
}

// ------------------------------------------------------------------ signed consensus objects

// C12Vote signs a vote with any key.
func C12Vote(key *ecdsa.PrivateKey, round uint64, step uint8, parent, voted common.Hash, turnOffline bool, upgrade uint32) *types.Vote {
	v := &types.Vote{Header: &types.VoteHeader{Round: round, Step: step, ParentHash: parent, VotedHash: voted, TurnOffline: turnOffline, Upgrade: upgrade}}
	h := crypto.SignatureHash(v)
	v.Signature, _ = crypto.Sign(h[:], key)
	return v
}

// C12Cert builds a certificate for header signed by every approved committee member of
// (vc, prev.Seed, round, step) the world holds a key for.
func (w *World) C12Cert(on *Replica, vc *validators.ValidatorsCache, prev, header *types.Header, step uint8) *types.BlockCert {
	sv := vc.GetOnlineValidators(prev.Seed(), header.Height(), step, on.Chain.GetCommitteeSize(vc, step == types.Final))
	if sv == nil {
		return nil
	}
	var addrs []common.Address
	for _, a := range sv.ApprovedValidators.ToSlice() {
		addrs = append(addrs, a.(common.Address))
	}
	sort.Slice(addrs, func(i, j int) bool { return string(addrs[i][:]) < string(addrs[j][:]) })
	full := &types.FullBlockCert{}
	for _, a := range addrs {
		if act, ok := w.ByAddr[a]; ok {
			full.Votes = append(full.Votes, C12Vote(act.Key, header.Height(), step, prev.Hash(), header.Hash(), false, 0))
		}
	}
	return full.Compress()
}

// C12SignProposal (re)signs a block proposal with key.
func C12SignProposal(key *ecdsa.PrivateKey, b *types.Block, proof []byte) *types.BlockProposal {
	p := &types.BlockProposal{Block: b, Proof: proof}
	h := crypto.SignatureHash(p)
	p.Signature, _ = crypto.Sign(h[:], key)
	return p
}

func C12SignProof(key *ecdsa.PrivateKey, proof []byte, round uint64) *types.ProofProposal {
	p := &types.ProofProposal{Proof: proof, Round: round}
	h := crypto.SignatureHash(p)
	p.Signature, _ = crypto.Sign(h[:], key)
	return p
}

// OnlineActors lists the actors that are online identities on replica r's head.
func (w *World) OnlineActors(r *Replica) []*Actor {
	var l []*Actor
	for _, a := range w.SortedActors() {
		if r.AppState.ValidatorsCache.IsOnlineIdentity(a.Addr) {
			l = append(l, a)
		}
	}
	return l
}

// ActorsWithFlips lists actors whose identity owns flips on replica r's head.
func (w *World) ActorsWithFlips(r *Replica) []*Actor {
	var l []*Actor
	for _, a := range w.SortedActors() {
		if len(r.AppState.State.GetIdentity(a.Addr).Flips) > 0 {
			l = append(l, a)
		}
	}
	return l
}

// C12Flip builds a flip whose tx commits to the cid of (pubkey, parts), as Flipper.PrepareFlip
// + the flip submission do.
func (w *World) C12Flip(r *verifutil.Rng, view *Replica, from *Actor, pair uint8, size int) *types.Flip {
	pub, priv := r.Bytes(size), r.Bytes(size/2+1)
	ipf := &flip.IpfsFlip{PublicPart: pub, PrivatePart: priv, PubKey: from.Pub}
	data, _ := ipf.ToBytes()
	c, _ := view.Ipfs.Cid(data)
	tx := w.c12TxOn(view, from, types.SubmitFlipTx, nil, nil, attachments.CreateFlipSubmitAttachment(c.Bytes(), pair), 0)
	return &types.Flip{Tx: tx, PublicPart: pub, PrivatePart: priv}
}

// c12TxOn is World.TxGas against an arbitrary replica's head (the victim lags behind the view).
func (w *World) c12TxOn(v *Replica, from *Actor, t types.TxType, to *common.Address, amount *big.Int, payload []byte, gas int64) *types.Transaction {
	st := v.AppState.State
	ep := st.Epoch()
	nonce := c12StateNonce(v, from.Addr)
	probe := &types.Transaction{AccountNonce: nonce, Epoch: ep, Type: t, To: to, Amount: amount, Payload: payload, MaxFee: Dna(1)}
	return SignedTx(from, t, to, amount, c12MaxFee(v, probe, gas), nil, nonce, ep, payload)
}

func c12StateNonce(v *Replica, a common.Address) uint32 {
	st := v.AppState.State
	if st.GetEpoch(a) < st.Epoch() {
		return 1
	}
	return st.GetNonce(a) + 1
}

func c12MaxFee(v *Replica, probe *types.Transaction, gas int64) *big.Int {
	ns := v.AppState.ValidatorsCache.NetworkSize()
	f := fee.CalculateFee(ns, v.AppState.State.FeePerGas(), probe)
	minFee := fee.CalculateFee(ns, fee.GetFeePerGasForNetwork(ns), probe)
	maxFee := new(big.Int).Mul(f, big.NewInt(3))
	if maxFee.Cmp(minFee) < 0 {
		maxFee.Set(minFee)
	}
	maxFee.Add(maxFee, big.NewInt(1000))
	if gas > 0 {
		maxFee.Add(maxFee, new(big.Int).Mul(v.AppState.State.FeePerGas(), big.NewInt(gas)))
	}
	return maxFee
}

// ------------------------------------------------------------------ hostile tx generator

var C12TxTypes = []types.TxType{types.SendTx, types.ActivationTx, types.InviteTx, types.KillTx, types.SubmitFlipTx,
	types.SubmitAnswersHashTx, types.SubmitShortAnswersTx, types.SubmitLongAnswersTx, types.EvidenceTx, types.OnlineStatusTx,
	types.KillInviteeTx, types.ChangeGodAddressTx, types.BurnTx, types.ChangeProfileTx, types.DeleteFlipTx, types.DeployContractTx,
	types.CallContractTx, types.TerminateContractTx, types.DelegateTx, types.UndelegateTx, types.KillDelegatorTx,
	types.StoreToIpfsTx, types.ReplenishStakeTx}

const (
	C12ToNil = iota
	C12ToZero
	C12ToSelf
	C12ToFresh
	C12ToGod
	C12ToRelated // the address the type is about (invitee, delegator, pool, contract, identity ...)
	C12NTo
)

const (
	C12PlNil = iota
	C12PlEmpty
	C12PlGarbage
	C12PlOwn          // well-formed attachment of the type
	C12PlOwnTruncated // ... cut short
	C12PlOwnMutated   // ... mutated at protobuf field level
	C12PlOther        // well-formed attachment of another type
	C12PlOtherTruncated
	C12PlHuge // around the payload size limit
	C12NPl
)

var C12ToNames = []string{"nil", "zero", "self", "fresh", "god", "related"}
var C12PlNames = []string{"nil", "empty", "garbage", "own", "own-truncated", "own-mutated", "other", "other-truncated", "huge"}

type C12TxCase struct {
	Tx     *types.Transaction
	Sender *Actor
	To     int
	Pl     int
	Amount string
	Nonce  string
	Fee    string
}

func (c *C12TxCase) Label() string {
	return fmt.Sprintf("%s to=%s payload=%s amount=%s nonce=%s fee=%s", TxName(c.Tx.Type), C12ToNames[c.To], C12PlNames[c.Pl], c.Amount, c.Nonce, c.Fee)
}

// c12Sender picks a funded sender, preferring (2 of 3 draws) one the type's validator lets
// through its sender checks.
func (w *World) c12Sender(r *verifutil.Rng, v *Replica, t types.TxType) *Actor {
	st := v.AppState.State
	vc := v.AppState.ValidatorsCache
	funded := func(a *Actor) bool { return st.GetBalance(a.Addr).Cmp(Dna(1)) > 0 }
	var pref func(a *Actor, id state.Identity) bool
	switch t {
	case types.ActivationTx:
		pref = func(a *Actor, id state.Identity) bool { return id.State == state.Invite }
	case types.InviteTx:
		pref = func(a *Actor, id state.Identity) bool { return id.Invites > 0 || a.Addr == st.GodAddress() }
	case types.KillTx:
		pref = func(a *Actor, id state.Identity) bool {
			return id.State == state.Verified || id.State == state.Human || id.State == state.Suspended || id.State == state.Zombie
		}
	case types.SubmitFlipTx:
		pref = func(a *Actor, id state.Identity) bool {
			return id.State >= state.Candidate && id.State != state.Killed && int(id.GetMaximumAvailableFlips()) > len(id.Flips)
		}
	case types.SubmitAnswersHashTx, types.SubmitShortAnswersTx, types.SubmitLongAnswersTx, types.EvidenceTx:
		pref = func(a *Actor, id state.Identity) bool { return state.IsCeremonyCandidate(id) }
	case types.OnlineStatusTx:
		pref = func(a *Actor, id state.Identity) bool { return vc.IsValidated(a.Addr) || vc.IsPool(a.Addr) }
	case types.KillInviteeTx:
		pref = func(a *Actor, id state.Identity) bool { return len(id.Invitees) > 0 }
	case types.ChangeGodAddressTx:
		pref = func(a *Actor, id state.Identity) bool { return a.Addr == st.GodAddress() }
	case types.DeleteFlipTx:
		pref = func(a *Actor, id state.Identity) bool { return len(id.Flips) > 0 }
	case types.DelegateTx:
		pref = func(a *Actor, id state.Identity) bool {
			return id.State != state.Undefined && id.Delegatee() == nil && !vc.IsPool(a.Addr)
		}
	case types.UndelegateTx:
		pref = func(a *Actor, id state.Identity) bool {
			return id.Delegatee() != nil || st.DelegationSwitch(a.Addr) != nil
		}
	case types.KillDelegatorTx:
		pref = func(a *Actor, id state.Identity) bool { return vc.IsPool(a.Addr) }
	case types.CallContractTx, types.TerminateContractTx:
		pref = func(a *Actor, id state.Identity) bool {
			for _, c := range contractsByWorld[w] {
				if c.Owner == a {
					return true
				}
			}
			return false
		}
	}
	l := w.SortedActors()
	off := r.Intn(len(l))
	if pref != nil && r.Intn(3) != 0 {
		for i := range l {
			a := l[(i+off)%len(l)]
			if funded(a) && pref(a, st.GetIdentity(a.Addr)) {
				return a
			}
		}
	}
	for i := range l {
		a := l[(i+off)%len(l)]
		if funded(a) {
			return a
		}
	}
	return w.God
}

// c12Related picks the address a tx of type t by sender is "about".
func (w *World) c12Related(r *verifutil.Rng, v *Replica, t types.TxType, sender *Actor) common.Address {
	st := v.AppState.State
	id := st.GetIdentity(sender.Addr)
	anyActor := func(pred func(a *Actor, id state.Identity) bool) common.Address {
		l := w.SortedActors()
		off := r.Intn(len(l))
		for i := range l {
			a := l[(i+off)%len(l)]
			if pred == nil || pred(a, st.GetIdentity(a.Addr)) {
				return a.Addr
			}
		}
		return l[off].Addr
	}
	switch t {
	case types.KillInviteeTx:
		if len(id.Invitees) > 0 {
			return id.Invitees[r.Intn(len(id.Invitees))].Address
		}
	case types.KillDelegatorTx:
		return anyActor(func(a *Actor, x state.Identity) bool { d := x.Delegatee(); return d != nil && *d == sender.Addr })
	case types.DelegateTx:
		if r.Bool() {
			return anyActor(func(a *Actor, x state.Identity) bool { return v.AppState.ValidatorsCache.IsPool(a.Addr) })
		}
	case types.CallContractTx, types.TerminateContractTx:
		var live []*KnownContract
		for _, c := range contractsByWorld[w] {
			if st.GetCodeHash(c.Addr) != nil {
				live = append(live, c)
			}
		}
		if len(live) > 0 {
			// prefer own contracts
			off := r.Intn(len(live))
			for i := range live {
				if c := live[(i+off)%len(live)]; c.Owner == sender {
					return c.Addr
				}
			}
			return live[off].Addr
		}
	case types.ActivationTx, types.InviteTx:
		if r.Bool() {
			return anyActor(func(a *Actor, x state.Identity) bool { return x.State == state.Undefined || x.State == state.Invite })
		}
	case types.ReplenishStakeTx:
		return anyActor(func(a *Actor, x state.Identity) bool { return x.State != state.Undefined && x.State != state.Killed })
	}
	return anyActor(nil)
}

var c12Methods = []string{"transfer", "add", "send", "push", "vote", "voteProof", "startVoting", "finishVoting", "prolongVoting", "terminate",
	"deposit", "refund", "submitOracleVotingDeposit", "", "\x00", "unknownMethod"}

// C12OwnPayload returns a well-formed attachment for type t (for types without an attachment:
// what a sender typically puts there).
func (w *World) C12OwnPayload(r *verifutil.Rng, v *Replica, t types.TxType, sender *Actor, to *common.Address) []byte {
	st := v.AppState.State
	switch t {
	case types.ActivationTx:
		if to != nil {
			if a, ok := w.ByAddr[*to]; ok {
				return a.Pub
			}
		}
		return w.SortedActors()[r.Intn(len(w.ByAddr))].Pub // a valid public key that cannot match an absent recipient
	case types.SubmitFlipTx:
		return attachments.CreateFlipSubmitAttachment(FakeCid(r), uint8(r.Intn(4)))
	case types.SubmitAnswersHashTx:
		return r.Bytes(common.HashLength)
	case types.SubmitShortAnswersTx:
		return attachments.CreateShortAnswerAttachment(r.Bytes(r.Range(1, 12)), r.U64(), byte(r.Intn(3)))
	case types.SubmitLongAnswersTx:
		a := &attachments.LongAnswerAttachment{Answers: r.Bytes(r.Range(1, 24)), Proof: r.Bytes([]int{0, 32, 64, 129, 7}[r.Intn(5)]), Key: r.Bytes(32), Salt: r.Bytes(r.Intn(40))}
		if r.Intn(3) == 0 {
			// a real VRF proof over the words seed with the sender's key
			a.Proof = c12VrfProof(sender.Key, st.FlipWordsSeed())
		}
		b, _ := a.ToBytes()
		return b
	case types.EvidenceTx:
		return r.Bytes(r.Range(1, 16))
	case types.OnlineStatusTx:
		return attachments.CreateOnlineStatusAttachment(r.Bool())
	case types.BurnTx:
		return attachments.CreateBurnAttachment([]string{"k", "key", "", "\xff\xfe", "a long key a long key a long key"}[r.Intn(5)])
	case types.ChangeProfileTx:
		return attachments.CreateChangeProfileAttachment(FakeCid(r))
	case types.DeleteFlipTx:
		if fl := st.GetIdentity(sender.Addr).Flips; len(fl) > 0 && r.Intn(4) != 0 {
			return attachments.CreateDeleteFlipAttachment(fl[r.Intn(len(fl))].Cid)
		}
		return attachments.CreateDeleteFlipAttachment(FakeCid(r))
	case types.DeployContractTx:
		hashes := []common.Hash{embedded.TimeLockContract, embedded.OracleVotingContract, embedded.OracleLockContract, embedded.MultisigContract,
			embedded.RefundableOracleLockContract, {}, {0x77}}
		var args [][]byte
		for i, n := 0, r.Intn(9); i < n; i++ {
			switch r.Intn(5) {
			case 0:
				args = append(args, nil)
			case 1:
				args = append(args, common.ToBytes(uint64(w.Now().Unix()+int64(r.Range(-500, 500)))))
			case 2:
				args = append(args, []byte{byte(r.Intn(4))})
			case 3:
				args = append(args, w.SortedActors()[r.Intn(len(w.ByAddr))].Addr.Bytes())
			default:
				args = append(args, r.Bytes(r.Intn(40)))
			}
		}
		var code, nonce []byte
		if r.Intn(3) == 0 {
			code = r.Bytes(r.Range(1, 200))
			if r.Bool() {
				code = append([]byte{0x00, 0x61, 0x73, 0x6d, 0x01, 0x00, 0x00, 0x00}, code...) // wasm magic + garbage
			}
			nonce = r.Bytes(r.Intn(9))
		}
		b, _ := attachments.CreateDeployContractAttachment(hashes[r.Intn(len(hashes))], code, nonce, args...).ToBytes()
		return b
	case types.CallContractTx:
		var args [][]byte
		for i, n := 0, r.Intn(6); i < n; i++ {
			switch r.Intn(4) {
			case 0:
				args = append(args, nil)
			case 1:
				args = append(args, w.SortedActors()[r.Intn(len(w.ByAddr))].Addr.Bytes())
			case 2:
				args = append(args, Dna(int64(r.Range(0, 5))).Bytes())
			default:
				args = append(args, r.Bytes(r.Intn(40)))
			}
		}
		b, _ := attachments.CreateCallContractAttachment(c12Methods[r.Intn(len(c12Methods))], args...).ToBytes()
		return b
	case types.TerminateContractTx:
		var args [][]byte
		for i, n := 0, r.Intn(4); i < n; i++ {
			if r.Bool() {
				args = append(args, sender.Addr.Bytes())
			} else {
				args = append(args, r.Bytes(r.Intn(30)))
			}
		}
		b, _ := attachments.CreateTerminateContractAttachment(args...).ToBytes()
		return b
	case types.StoreToIpfsTx:
		c := FakeCid(r)
		if r.Intn(4) == 0 {
			c = r.Bytes(r.Intn(40))
		}
		return attachments.CreateStoreToIpfsAttachment(c, uint32(r.U64()>>uint(32+r.Intn(32))))
	}
	if r.Intn(3) == 0 {
		return r.Bytes(r.Range(1, 48))
	}
	return nil
}

func c12VrfProof(key *ecdsa.PrivateKey, seed types.Seed) []byte {
	signer, err := p256.NewVRFSigner(key)
	if err != nil {
		return nil
	}
	_, proof := signer.Evaluate(seed[:])
	return proof
}

// C12HostileTx assembles one signed transaction of type t with the given recipient and
// payload shape; amount, fee, tips and the epoch/nonce relation are drawn from r.
func (w *World) C12HostileTx(r *verifutil.Rng, v *Replica, t types.TxType, toClass, plClass int) *C12TxCase {
	st := v.AppState.State
	c := &C12TxCase{To: toClass, Pl: plClass}
	sender := w.c12Sender(r, v, t)
	c.Sender = sender
	bal := st.GetBalance(sender.Addr)
	// recipient
	var to *common.Address
	addr := func(a common.Address) *common.Address { return &a }
	switch toClass {
	case C12ToZero:
		to = addr(common.Address{})
	case C12ToSelf:
		to = addr(sender.Addr)
	case C12ToFresh:
		var a common.Address
		copy(a[:], r.Bytes(20))
		to = &a
	case C12ToGod:
		to = addr(st.GodAddress())
	case C12ToRelated:
		to = addr(w.c12Related(r, v, t, sender))
	}
	// payload
	var payload []byte
	otherType := func() types.TxType {
		for {
			if o := C12TxTypes[r.Intn(len(C12TxTypes))]; o != t {
				return o
			}
		}
	}
	switch plClass {
	case C12PlEmpty:
		payload = []byte{}
	case C12PlGarbage:
		payload = r.Bytes(r.Range(1, 70))
	case C12PlOwn:
		payload = w.C12OwnPayload(r, v, t, sender, to)
	case C12PlOwnTruncated:
		if p := w.C12OwnPayload(r, v, t, sender, to); len(p) > 0 {
			payload = p[:r.Intn(len(p))]
		}
	case C12PlOwnMutated:
		p := w.C12OwnPayload(r, v, t, sender, to)
		if m, _, ok := verifutil.MutateWire(r, p, 40); ok {
			payload = m
		} else {
			payload, _ = verifutil.MutateBytes(r, p, nil)
		}
	case C12PlOther:
		payload = w.C12OwnPayload(r, v, otherType(), sender, to)
	case C12PlOtherTruncated:
		if p := w.C12OwnPayload(r, v, otherType(), sender, to); len(p) > 0 {
			payload = p[:r.Intn(len(p))]
		}
	case C12PlHuge:
		n := []int{3*1024 - 1, 3 * 1024, 3*1024 + 1, 64 * 1024}[r.Intn(4)]
		if r.Intn(40) == 0 {
			n = 3*1024*1024 + r.Range(-1, 1)
		}
		payload = make([]byte, n)
		copy(payload, w.C12OwnPayload(r, v, t, sender, to))
	}
	// amount
	var amount *big.Int
	switch r.Pick(30, 14, 6, 14, 8, 6, 6, 6, 5) {
	case 0:
		c.Amount = "nil"
	case 1:
		amount, c.Amount = big.NewInt(0), "zero"
	case 2:
		amount, c.Amount = big.NewInt(1), "one"
	case 3:
		amount, c.Amount = new(big.Int).Div(bal, big.NewInt(int64(r.Range(3, 60)))), "part"
	case 4:
		amount, c.Amount = new(big.Int).Set(bal), "all"
	case 5:
		amount, c.Amount = new(big.Int).Add(bal, big.NewInt(1)), "overdraft"
	case 6:
		amount, c.Amount = new(big.Int).Lsh(big.NewInt(1), uint(r.Range(64, 300))), "huge"
	case 7:
		amount, c.Amount = new(big.Int).Mul(st.FeePerGas(), big.NewInt(3000000+int64(r.Range(-1, 1000)))), "deploy-stake"
	default:
		amount, c.Amount = Dna(int64(r.Range(1, 3))), "dna"
	}
	// epoch / nonce relation (against the committed state: in-block application wants it exact)
	ep := st.Epoch()
	nonce := c12StateNonce(v, sender.Addr)
	switch r.Pick(62, 7, 7, 4, 4, 6, 6, 4) {
	case 0:
		c.Nonce = "next"
	case 1:
		if nonce > 1 {
			nonce--
		}
		c.Nonce = "stale"
	case 2:
		nonce += uint32(r.Range(1, 5))
		c.Nonce = "gap"
	case 3:
		nonce, c.Nonce = 0, "zero"
	case 4:
		nonce, c.Nonce = ^uint32(0), "max"
	case 5:
		if ep > 0 {
			ep--
		}
		c.Nonce = "past-epoch"
	case 6:
		ep, nonce, c.Nonce = ep+1, 1, "next-epoch"
	default:
		ep, c.Nonce = ^uint16(0), "max-epoch"
	}
	probe := &types.Transaction{AccountNonce: nonce, Epoch: ep, Type: t, To: to, Amount: amount, Payload: payload, MaxFee: Dna(1)}
	var gas int64
	if t == types.DeployContractTx || t == types.CallContractTx || t == types.TerminateContractTx {
		gas = int64(r.Range(0, 6000))
	}
	maxFee := c12MaxFee(v, probe, gas)
	c.Fee = "ok"
	switch r.Pick(84, 3, 3, 4, 3, 3) {
	case 1:
		maxFee, c.Fee = nil, "nil"
	case 2:
		maxFee, c.Fee = big.NewInt(0), "zero"
	case 3:
		maxFee, c.Fee = fee.CalculateFee(v.AppState.ValidatorsCache.NetworkSize(), st.FeePerGas(), probe), "exact"
	case 4:
		maxFee, c.Fee = new(big.Int).Lsh(big.NewInt(1), uint(r.Range(70, 260))), "huge"
	case 5:
		maxFee, c.Fee = new(big.Int).Set(bal), "balance"
	}
	var tips *big.Int
	switch r.Pick(85, 5, 5, 5) {
	case 1:
		tips = big.NewInt(int64(r.Range(0, 1000)))
	case 2:
		tips = new(big.Int).Div(bal, big.NewInt(int64(r.Range(1, 9))))
	case 3:
		tips = new(big.Int).Lsh(big.NewInt(1), uint(r.Range(64, 260)))
	}
	c.Tx = SignedTx(sender, t, to, amount, maxFee, tips, nonce, ep, payload)
	return c
}

// C12CarrierBlock wraps txs into an otherwise valid proposal of replica t at its head
// (transaction commitment and body cid recomputed), signed by the replica's owner.
func C12CarrierBlock(t *Replica, txs []*types.Transaction) (*types.Block, bool) {
	t.enter()
	if !t.CanPropose() {
		return nil, false
	}
	b := t.Chain.ProposeBlock(nil).Block
	h := *b.Header.ProposedHeader
	body := &types.Body{Transactions: txs}
	h.TxHash = types.DeriveSha(types.Transactions(body.Transactions))
	h.IpfsHash = nil
	if c, _ := t.Ipfs.Cid(body.ToBytes()); c != ipfs.EmptyCid {
		h.IpfsHash = c.Bytes()
	}
	return &types.Block{Header: &types.Header{ProposedHeader: &h}, Body: body}, true
}

// C12GenericReject tells whether err is one of the refusals ValidateTx issues BEFORE it
// dispatches to the per-type validator.
func C12GenericReject(err error) bool {
	if err == nil {
		return false
	}
	m := err.Error()
	for _, s := range []string{"invalid signature", "value must be non-negative", "invalid epoch", "invalid nonce", "invalid max fee",
		"too high max fee", "current fee is greater than tx max fee", "insufficient funds", "unknown tx type"} {
		if len(m) >= len(s) && containsFold(m, s) {
			return true
		}
	}
	return false
}

func containsFold(m, s string) bool {
	for i := 0; i+len(s) <= len(m); i++ {
		if m[i:i+len(s)] == s {
			return true
		}
	}
	return false
}
