package verifsim

import (
	dbm "github.com/tendermint/tm-db"
)

// tmpReplica boots a scratch replica (not registered in the world) on db.
func tmpReplica(w *World, owner *Actor, db dbm.DB, name string) (*Replica, error) {
	r := &Replica{W: w, Owner: owner, DB: db, Name: name, Observer: true}
	if err := r.boot(); err != nil {
		return nil, err
	}
	w.scratch = append(w.scratch, r)
	return r, nil
}

// Dispose releases what a scratch replica holds. The node's own background goroutines (e.g. the
// chain's ipfs loader) never end and keep the object graph reachable, so the memory is given back
// by emptying the replica's database and pool instead. Only for replicas whose database is not
// shared with a replica that is still in use.
func (r *Replica) Dispose() {
	if r == nil {
		return
	}
	r.Alive = false
	if r.TxPool != nil {
		for _, tx := range r.TxPool.VerifAll() {
			r.TxPool.Remove(tx)
		}
	}
	if r.DB == nil || r.disposed {
		return
	}
	r.disposed = true
	db := r.DB
	if u, ok := db.(interface{ Inner() dbm.DB }); ok { // crash-injecting wrapper: empty the database underneath
		db = u.Inner()
	}
	it, err := db.Iterator(nil, nil)
	if err != nil {
		return
	}
	var keys [][]byte
	for ; it.Valid(); it.Next() {
		keys = append(keys, append([]byte{}, it.Key()...))
	}
	it.Close()
	for _, k := range keys {
		db.Delete(k)
	}
	if r.Chain != nil {
		r.Chain.VerifRelease()
	}
	if r.TxPool != nil {
		r.TxPool.VerifRelease()
	}
	r.Chain, r.AppState, r.TxPool, r.Offline, r.Upgrader, r.Epoch, r.Bus, r.SecStore = nil, nil, nil, nil, nil, nil, nil, nil
}

// ScratchMark / DisposeSince: dispose the scratch replicas an inner loop iteration created.
func (w *World) ScratchMark() int { return len(w.scratch) }

func (w *World) DisposeSince(mark int) {
	if mark > len(w.scratch) {
		return
	}
	for _, r := range w.scratch[mark:] {
		r.Dispose()
	}
	w.scratch = w.scratch[:mark]
}
