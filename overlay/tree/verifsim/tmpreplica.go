package verifsim

import (
	dbm "github.com/tendermint/tm-db"
)

// tmpReplica boots a scratch replica (not registered in the world) on db.
func tmpReplica(w *World, owner *Actor, db dbm.DB, name string) (*Replica, error) {
	r := &Replica{W: w, Owner: owner, DB: db, Name: name, Observer: true}
	if err := r.boot(); err != nil {
		return nil, err
	}
	return r, nil
}
